package main

import (
	"fmt"
	"golang.org/x/tools/go/ssa"
	"strings"
)

// writerSpecs: operations and mechanisms that change the table through cache.hashmap.Compute.
func writerSpecs() []opSpec {
	var out []opSpec
	for _, s := range opTable {
		switch s.kind {
		case "set", "setIfAbsent", "compute", "computeIfAbsent", "computeIfPresent", "invalidate":
			out = append(out, s)
		}
	}
	out = append(out, mechTable[0], mechTable[2])
	return out
}

func flagOf(o *psOutcome, name string) (bool, bool) { return predOf(o, "flag:"+name) }

// expectedCause: Expiration overrides the base cause when the removed node is expired on the path.
func expectedCause(o *psOutcome, cur, base string, pc progConsts) (string, bool) {
	exp, known := expiredOf(o, cur)
	if known {
		if exp {
			return pc.causeExpiration, true
		}
		return base, true
	}
	if we, ok := flagOf(o, "withExpiration"); ok && !we {
		return base, true
	}
	return base, false
}

// ---- C05.task ----
func ruleC05Task(cx *Ctx) {
	const rule = "C05.task"
	cx.R.Rule(rule, 6, "every table change yields exactly one matching replay task (or, without maintenance, one direct notification): removed node -> delete task, fresh node over nothing -> add task, fresh node over a predecessor -> update task carrying both; unchanged table -> nothing; a node leaving the table is retired exactly once inside the computation")
	pc := cx.consts(rule)
	if !pc.ok {
		return
	}
	for _, spec := range writerSpecs() {
		r := cx.runOp(rule, spec)
		if r == nil {
			continue
		}
		a := newAgg(cx, rule, funcName(r.fn), cx.P.Pos(r.fn.Pos()))
		for _, o := range r.outs {
			if o.Cut && spec.kind != "deleteNode" {
				continue
			}
			tcs := tableComps(o)
			for ci, c := range tcs {
				if !c.closed {
					continue
				}
				if o.Cut && ci == len(tcs)-1 {
					continue // the continuation of the last computation was cut by the loop bound
				}
				eff := effectOf(c)
				curNil, nilKnown := predOf(o, "IsNil("+c.cur+")")
				tasks := eventsOf(o, "Task", c.exitIdx, c.next)
				enq := append(eventsOf(o, "Enqueue", c.exitIdx, c.next), eventsOf(o, "RunTask", c.exitIdx, c.next)...)
				async := eventsOf(o, "AsyncNotify", c.exitIdx, c.next)
				wm, wmKnown := flagOf(o, "withMaintenance")
				name := spec.name
				if o.Panic {
					a.check(name+" panic: no task", len(tasks) == 0 && len(enq) == 0, "a panicking operation enqueues nothing", fmt.Sprintf("%d task(s)", len(tasks)), o)
					continue
				}
				changed := eff == "install" || (eff == "removed" && nilKnown && !curNil)
				if !changed {
					a.check(name+" "+eff+": nothing enqueued", len(tasks) == 0 && len(enq) == 0 && len(async) == 0, "an unchanged table produces no task and no notification", fmt.Sprintf("%d task(s), %d enqueue(s), %d notification(s)", len(tasks), len(enq), len(async)), o)
					continue
				}
				if !wmKnown {
					a.check(name+" "+eff+": maintenance flag consulted", false, "the write hook decides between replay task and direct notification", "withMaintenance never tested on this path", o)
					continue
				}
				if !wm {
					want := 0
					base := pc.causeReplacement
					if eff == "removed" {
						base = pc.causeInvalidation
					}
					if nilKnown && !curNil {
						want = 1
					}
					ok := len(tasks) == 0 && len(enq) == 0 && len(async) == want
					if ok && want == 1 {
						e := async[0]
						ok = e.Args[0] == "Key("+c.cur+")" && e.Args[1] == "Value("+c.cur+")" && e.Args[2] == base
					}
					a.check(name+" "+eff+" (no maintenance): direct notification", ok, "without maintenance the removed value is reported directly, exactly once", fmt.Sprintf("%d notification(s) %v", len(async), async), o)
					continue
				}
				// with maintenance: exactly one task, enqueued/run exactly once, no direct notification
				var wantTask string
				switch {
				case eff == "removed":
					wantTask = "delete"
				case nilKnown && curNil:
					wantTask = "add"
				default:
					wantTask = "update"
				}
				// the task is identified by its contents at the point where it is enqueued / replayed
				ok := len(tasks) <= 1 && len(enq) == 1 && len(async) == 0
				detail := fmt.Sprintf("%d enqueue/run %v, %d direct notification(s)", len(enq), enq, len(async))
				if ok {
					ta := splitArgs(enq[0].Args[0])
					ok = strings.HasPrefix(enq[0].Args[0], "task(") && len(ta) == 4
					if ok {
						switch wantTask {
						case "delete":
							ok = ta[0] == c.cur && isZeroTerm(ta[1]) && ta[2] == pc.deleteReason
						case "add":
							ok = ta[0] == c.exit && isZeroTerm(ta[1]) && ta[2] == pc.addReason
						case "update":
							ok = ta[0] == c.exit && ta[1] == c.cur && ta[2] == pc.updateReason
						}
					}
				}
				a.check(name+" "+eff+": one "+wantTask+" task", ok, "the table change is recorded by exactly one "+wantTask+" task carrying the right nodes, enqueued (or run) once", detail, o)
				// retire
				if nilKnown && !curNil {
					ret := 0
					for _, e := range eventsOf(o, "Retire", c.enter, c.exitIdx) {
						if e.Args[0] == c.cur {
							ret++
						}
					}
					alive, ak := predOf(o, "Alive("+c.cur+")")
					want := 0
					if ak && alive {
						want = 1
					}
					a.check(name+" "+eff+": retire", ret == want && ak, "a node leaving the table is marked retired once inside the computation (iff it was alive)", fmt.Sprintf("%d Retire event(s), alive known=%v", ret, ak), o)
				}
			}
		}
		a.flush()
	}
}

// ---- C06.atomic / C06.cause ----
func ruleC06Atomic(cx *Ctx) {
	const rule = "C06.atomic"
	cx.R.Rule(rule, 5, "inside the table computation that unlinks a node exactly one atomic deletion report is emitted, carrying that node's key and value and the truthful cause (Expiration if it was expired, else Replacement / Invalidation / the eviction cause); none when the table is unchanged; the replay task / direct notification carries the same cause")
	pc := cx.consts(rule)
	if !pc.ok {
		return
	}
	specs := append(writerSpecs(), mechTable[1])
	for _, spec := range specs {
		r := cx.runOp(rule, spec)
		if r == nil {
			continue
		}
		a := newAgg(cx, rule, funcName(r.fn), cx.P.Pos(r.fn.Pos()))
		for _, o := range r.outs {
			if o.Cut {
				continue
			}
			for _, c := range tableComps(o) {
				if !c.closed {
					continue
				}
				eff := effectOf(c)
				curNil, nilKnown := predOf(o, "IsNil("+c.cur+")")
				ats := eventsOf(o, "AtomicNotify", c.enter, c.exitIdx)
				outside := 0
				for i, e := range o.S.trace {
					if e.Kind == "AtomicNotify" && (i < c.enter || i > c.exitIdx) {
						outside++
					}
				}
				name := spec.name
				a.check(name+": atomic report only inside the computation", outside == 0 || len(tableComps(o)) > 1, "atomic deletion reports are emitted under the bucket lock, inside the computation", fmt.Sprintf("%d report(s) outside", outside), o)
				changed := eff == "install" || eff == "removed"
				if !changed || !nilKnown || curNil {
					a.check(name+" "+eff+" nothing removed: no atomic report", len(ats) == 0, "no report when no value stopped being current", fmt.Sprintf("%d report(s)", len(ats)), o)
					continue
				}
				base := pc.causeReplacement
				if eff == "removed" {
					base = pc.causeInvalidation
				}
				if spec.kind == "evict" {
					base = pc.causeOverflow
				}
				want, decided := expectedCause(o, c.cur, base, pc)
				ok := len(ats) == 1 && decided
				detail := fmt.Sprintf("%d report(s) %v", len(ats), ats)
				if ok {
					e := ats[0]
					// the removed node, or a term proven pointer-identical to it on this path (the key read once from the
					// node the computation was keyed by, after the identity test)
					keyOK, valOK := false, false
					for _, al := range aliasesOf(o, c.cur) {
						keyOK = keyOK || e.Args[0] == "Key("+al+")"
						valOK = valOK || e.Args[1] == "Value("+al+")"
					}
					ok = keyOK && valOK && e.Args[2] == want
					detail = "reported " + e.String() + ", expected cause " + want
				}
				if !decided {
					detail = "the path never tests whether the removed node had expired"
				}
				a.check(name+" "+eff+": one atomic report, truthful cause", ok, "exactly one atomic report with the removed node's key, value and cause", detail, o)
				// same cause in the task / direct notification
				if wm, k := flagOf(o, "withMaintenance"); k && wm && len(ats) == 1 && spec.kind != "evict" {
					for _, q := range append(eventsOf(o, "Enqueue", c.exitIdx, c.next), eventsOf(o, "RunTask", c.exitIdx, c.next)...) {
						ta := splitArgs(q.Args[0])
						if !strings.HasPrefix(q.Args[0], "task(") || len(ta) != 4 {
							continue
						}
						if ta[0] == c.cur || ta[1] == c.cur {
							a.check(name+" "+eff+": task cause = atomic cause", ta[3] == ats[0].Args[2], "the deferred report carries the same cause as the atomic one", "task cause "+ta[3]+" vs atomic "+ats[0].Args[2], o)
						}
					}
				}
			}
		}
		a.flush()
	}
}

// ---- C09.clear ----
func ruleC09Clear(cx *Ctx) {
	const rule = "C09.clear"
	cx.R.Rule(rule, 2, "every table computation that changes the mapping clears the key's in-flight load record (singleflight.delete) inside the same computation - the load installer instead proves the record is still its own; the eviction closure clears on all paths")
	specs := append(writerSpecs(), mechTable[1])
	for _, spec := range specs {
		r := cx.runOp(rule, spec)
		if r == nil {
			continue
		}
		a := newAgg(cx, rule, funcName(r.fn), cx.P.Pos(r.fn.Pos()))
		for _, o := range r.outs {
			if o.Cut || o.Panic {
				continue
			}
			for _, c := range tableComps(o) {
				if !c.closed {
					continue
				}
				eff := effectOf(c)
				clears := 0
				for _, e := range eventsOf(o, "SFDelete", c.enter, c.exitIdx) {
					if e.Args[0] == c.key {
						clears++
					}
				}
				own := len(eventsOf(o, "SFDeleteCall", c.enter, c.exitIdx))
				name := spec.name
				switch {
				case spec.kind == "evict":
					a.check(name+": eviction clears the in-flight record", clears >= 1, "the eviction computation clears the key's in-flight record on every path", fmt.Sprintf("%d clear(s)", clears), o)
				case spec.kind == "loadInstall":
					if eff != "unchanged" {
						a.check(name+" "+eff+": ownership test inside the computation", own >= 1 || fakeCall(o), "the load installer changes the mapping only after testing, inside the computation, that the in-flight record is still its own", fmt.Sprintf("%d ownership test(s)", own), o)
					}
				case eff != "unchanged":
					a.check(name+" "+eff+": clears the in-flight record", clears >= 1, "a write clears the key's in-flight load record inside the computation", fmt.Sprintf("%d clear(s) of %s", clears, c.key), o)
				default:
					// an operation that decides not to write must leave a running load alone: dropping its record lets a
					// second load of the key start while the first is still running, and discards the first one's result
					noWrite := spec.kind == "setIfAbsent"
					if strings.HasPrefix(spec.kind, "compute") {
						pc := cx.consts(rule)
						for atom, v := range o.S.preds {
							if v && pc.ok && strings.HasPrefix(atom, "Eq(user:") && strings.HasSuffix(atom, ".1,"+pc.cancelOp+")") {
								noWrite = true
							}
						}
					}
					if noWrite {
						a.check(name+" no write: in-flight record kept", clears == 0, "an operation that leaves the mapping as it is (SetIfAbsent on a live key, a cancelled compute) does not drop the key's in-flight load record", fmt.Sprintf("%d clear(s)", clears), o)
					}
				}
			}
		}
		a.flush()
	}
}

// ruleC09Cancel: group.delete - the step every write relies on to supersede a running load - really removes the record.
func ruleC09Cancel(cx *Ctx) {
	const rule = "C09.cancel"
	cx.R.Rule(rule, 2, "singleflight.delete(key) removes the key's in-flight record unconditionally: its only early return is 'the in-flight table was never initialised' (no record can exist then); otherwise it runs a computation on the in-flight table for that key whose result is nil on every path")
	fn := cx.need(rule, "", "group", "delete")
	initF := cx.needField(rule, "", "group", "isInitialized")
	callsF := cx.needField(rule, "", "group", "calls")
	compute := cx.need(rule, hmPkg, "Map", "Compute")
	if fn == nil || initF == nil || callsF == nil || compute == nil {
		return
	}
	name := funcName(fn)
	var comp *ssa.Call
	allInstrs(fn, func(in ssa.Instruction) {
		if c, ok := in.(*ssa.Call); ok && isCallTo(c, compute) && sameField(recvField(c), callsF) {
			comp = c
		}
	})
	if comp == nil {
		cx.R.Violate(rule, name, "computation", cx.P.Pos(fn.Pos()), "NOT SATISFIED: delete no longer runs a computation on the in-flight table")
		return
	}
	a := callArgs(comp)
	cx.R.Check(len(a) == 2 && a[0] == ssa.Value(bparam(fn, 1)), rule, name, "key", cx.P.where(comp), "the computation is on the key passed to delete")
	// the computation removes: its function returns nil on every path
	cl := closureOf(a[len(a)-1])
	if cl == nil {
		if bm := boundMethod(a[len(a)-1]); bm != nil {
			cl = origin(bm)
		}
	}
	if cl != nil {
		cl = origin(cl) // (an instantiated generic function stands for its generic body)
	}
	removes := cl != nil
	if cl != nil {
		allInstrs(cl, func(in ssa.Instruction) {
			if r, ok := in.(*ssa.Return); ok {
				if len(r.Results) != 1 || !isNilConst(r.Results[0]) {
					removes = false
				}
			}
		})
	}
	cx.R.Check(removes, rule, name, "removes", cx.P.where(comp), "the computation's function returns nil on every path (the record is removed whatever it was)")
	// every return is after the computation, or on a path whose only conditions test the initialisation flag
	allInstrs(fn, func(in ssa.Instruction) {
		ret, ok := in.(*ssa.Return)
		if !ok {
			return
		}
		if instrDominates(comp, ret) {
			return
		}
		// every branch that can lead to this return (not through the computation) tests the initialisation flag
		onlyInit := true
		for _, b := range fn.Blocks {
			ifi, isIf := b.Instrs[len(b.Instrs)-1].(*ssa.If)
			if !isIf || b == ret.Block() || !blockReachable(b, ret.Block()) || b == comp.Block() {
				continue
			}
			v, _ := stripNot(ifi.Cond)
			c, isCall := v.(*ssa.Call)
			if !isCall || !atomicOp(c, initF, "Load") {
				onlyInit = false
			}
		}
		cx.R.Check(onlyInit && !blockReachable(ret.Block(), comp.Block()), rule, name, "early return", cx.P.where(ret), "delete returns without touching the table only when the table was never initialised - no counter, flag or other shortcut decides that no load is running")
	})
}

func fakeCall(o *psOutcome) bool {
	v, ok := predOf(o, "load(param:cl.isFake)")
	return ok && v
}

// ---- C09.guard / C10.table ----
func ruleC10Table(cx *Ctx, rule string) {
	cx.R.Rule(rule, 1, "load installer decision table over (own record, not-found, error): own & not-found -> remove; error -> keep; not own -> keep; own & found & no error -> install the loaded value")
	r := cx.runOp(rule, mechTable[0])
	if r == nil {
		return
	}
	a := newAgg(cx, rule, funcName(r.fn), cx.P.Pos(r.fn.Pos()))
	for _, o := range r.outs {
		if o.Cut || o.Panic {
			continue
		}
		tcs := tableComps(o)
		if len(tcs) != 1 || !tcs[0].closed {
			a.check("one computation", false, "the installer runs exactly one table computation", fmt.Sprintf("%d", len(tcs)), o)
			continue
		}
		c := tcs[0]
		eff := effectOf(c)
		fake, fk := predOf(o, "load(param:cl.isFake)")
		var own, ownKnown bool
		for atom, v := range o.S.preds {
			if strings.HasPrefix(atom, "delcall(") {
				own, ownKnown = v, true
			}
		}
		correct := (fk && fake) || (ownKnown && own)
		correctKnown := (fk && fake) || (fk && !fake && ownKnown)
		nf, nfk := predOf(o, "load(param:cl.isNotFound)")
		errNil, ek := predOf(o, "IsNil(load(param:cl.err))")
		curNil, _ := predOf(o, "IsNil("+c.cur+")")
		switch {
		case correctKnown && correct && nfk && nf:
			a.check("own & not-found: remove", eff == "removed", "a not-found result of the key's own load removes the mapping", "effect "+eff, o)
		case ek && !errNil:
			a.check("error: keep", eff == "unchanged", "a failed load leaves the mapping unchanged", "effect "+eff, o)
		case correctKnown && !correct:
			a.check("superseded: keep", eff == "unchanged", "a load whose record was cleared by a write/invalidation installs nothing", "effect "+eff, o)
		case correctKnown && correct && nfk && !nf && ek && errNil:
			a.check("own & success: install", eff == "install" && freshValue(r, c.exit) == "load(param:cl.value)", "a successful own load installs the loaded value", "effect "+eff+" value "+freshValue(r, c.exit), o)
		default:
			a.check("decided", eff == "unchanged", "a path that does not decide (own, not-found, error) must not change the mapping", fmt.Sprintf("effect %s with own-known=%v nf-known=%v err-known=%v", eff, correctKnown, nfk, ek), o)
		}
		_ = curNil
		// waiters are released exactly once, after the computation
		cancels := 0
		for i, e := range o.S.trace {
			if e.Kind == "Sync" && e.Args[0] == "Done" && i > c.exitIdx {
				cancels++
			}
			if e.Kind == "Sync" && e.Args[0] == "Done" && i < c.exitIdx {
				cancels += 100
			}
		}
		if fk && !fake {
			a.check("release after install", cancels == 1, "waiters of the load are released exactly once, after the table computation finished (C08.release)", fmt.Sprintf("release count/order code %d", cancels), o)
		}
	}
	a.flush()
}

func ruleC10TableC10(cx *Ctx) { ruleC10Table(cx, "C10.table") }
func ruleC09Guard(cx *Ctx)    { ruleC10Table(cx, "C09.guard") }

// ---- C12.hook / C12.sat / C12.inherit ----
func ruleC12Hooks(cx *Ctx) {
	const rule = "C12.hook"
	cx.R.Rule(rule, 4, "calculator hooks are selected by the pre-state: install over absent/expired -> ExpireAfterCreate / RefreshAfterCreate; install over a live entry -> ExpireAfterUpdate / RefreshAfterUpdate (RefreshAfterReload for a reload) with the live old value; failed reload -> RefreshAfterReloadFailure and no expiry hook; an expired predecessor's value is never passed as old value; counted reads consult ExpireAfterRead once")
	const ruleSat = "C12.sat"
	cx.R.Rule(ruleSat, 2, "every deadline stored is satadd(operation clock sample, duration returned by the hook / API argument on that path)")
	const ruleInh = "C12.inherit"
	cx.R.Rule(ruleInh, 1, "a replacing node is created with its predecessor's deadlines (under the matching flags) before the calculators are consulted; a node without predecessor starts unreachable")
	specs := append(append([]opSpec{}, opTable...), mechTable[0])
	for _, spec := range specs {
		r := cx.runOp(rule, spec)
		if r == nil {
			continue
		}
		a := newAgg(cx, rule, funcName(r.fn), cx.P.Pos(r.fn.Pos()))
		as := newAgg(cx, ruleSat, funcName(r.fn), cx.P.Pos(r.fn.Pos()))
		ai := newAgg(cx, ruleInh, funcName(r.fn), cx.P.Pos(r.fn.Pos()))
		for _, o := range r.outs {
			if o.Cut || o.Panic {
				continue
			}
			name := spec.name
			// --- saturation: all deadline writes
			durs := map[string]bool{}
			for _, e := range allEvents(o, "Calc") {
				durs[e.Args[1]] = true
			}
			// the time base is a clock sample taken by this operation; a time handed in from outside counts only for a
			// mechanism that received one on the pinned tree already (a completion callback given the time at which its
			// load *started* would date the entry back by the load's duration)
			nows := map[string]bool{}
			if baselineHasParam(r.fn, "nowNano") || baselineHasParam(r.fn, "nowNanos") {
				nows["param:nowNano"], nows["param:nowNanos"] = true, true
			}
			for _, e := range allEvents(o, "Now") {
				nows[e.Args[0]] = true
			}
			for _, e := range o.S.trace {
				var v string
				switch e.Kind {
				case "SetExpiresAt", "SetRefreshableAt":
					v = e.Args[1]
				case "CASExpiresAt", "CASRefreshableAt":
					v = e.Args[2]
				default:
					continue
				}
				ok := false
				if strings.HasPrefix(v, "satadd(") && strings.HasSuffix(v, ")") {
					parts := strings.SplitN(v[7:len(v)-1], ",", 2)
					if len(parts) == 2 && nows[parts[0]] && (durs[parts[1]] || parts[1] == "param:expiresAfter" || parts[1] == "param:refreshableAfter") {
						ok = true
					}
				}
				as.check(name+" "+e.Kind, ok, "deadline = saturating (clock sample of this operation + duration of this path)", "stored "+v, o)
				// one sample per operation: the entry whose deadline is moved was judged alive against the very sample the new
				// deadline is dated from (with two samples an entry that expired in between is resurrected)
				if ok && (e.Kind == "SetExpiresAt" || e.Kind == "CASExpiresAt") {
					base := strings.SplitN(v[7:len(v)-1], ",", 2)[0]
					for atom := range o.S.preds {
						if strings.HasPrefix(atom, "Expired("+e.Args[0]+",") && strings.HasSuffix(atom, ")") {
							judged := atom[len("Expired("+e.Args[0]+",") : len(atom)-1]
							as.check(name+" "+e.Kind+": liveness and deadline use one clock sample", judged == base, "the expiry test of the entry and the base of its new deadline are the same clock sample", "judged at "+judged+", dated from "+base, o)
						}
					}
				}
			}
			// --- hooks on install
			for _, c := range tableComps(o) {
				if !c.closed {
					continue
				}
				eff := effectOf(c)
				pre := preState(o, c.cur)
				we, wek := flagOf(o, "withExpiration")
				wr, wrk := flagOf(o, "withRefresh")
				calcs := eventsOf(o, "Calc", c.enter, c.exitIdx)
				count := func(n string) int {
					k := 0
					for _, e := range calcs {
						if e.Args[0] == n {
							k++
						}
					}
					return k
				}
				// never an expired predecessor's value as "old value"
				if pre == "X" {
					for _, e := range calcs {
						for _, arg := range e.Args[2:] {
							if arg == "Value("+c.cur+")" {
								a.check(name+" pre=X: expired value not passed to a hook", false, "an expired predecessor's value is never handed to a calculator as the old value", e.String(), o)
							}
						}
					}
				}
				if eff == "install" {
					// the entry handed to a write hook is the snapshot of the node being installed (its key, the NEW value
					// and weight, the inherited deadline) - not of the node it replaces
					for _, e := range calcs {
						switch e.Args[0] {
						case "ExpireAfterCreate", "ExpireAfterUpdate", "RefreshAfterCreate", "RefreshAfterUpdate", "RefreshAfterReload":
							if len(e.Args) > 2 && strings.HasPrefix(e.Args[2], "Entry(") {
								a.check(name+": write hook sees the new entry", strings.HasPrefix(e.Args[2], "Entry("+c.exit+","), "the calculators of a write are given the snapshot of the node being installed", e.String()+" while installing "+c.exit, o)
							}
						}
					}
					isReload := false
					if spec.kind == "loadInstall" {
						if v, ok := predOf(o, "load(param:cl.isRefresh)"); ok && v {
							isReload = true
						}
					}
					if wek && we {
						switch pre {
						case "A", "X":
							a.check(name+" pre="+pre+": expiry create hook", count("ExpireAfterCreate") == 1 && count("ExpireAfterUpdate") == 0, "install over absent/expired consults ExpireAfterCreate once", fmt.Sprint(calcs), o)
						case "L":
							ok := count("ExpireAfterUpdate") == 1 && count("ExpireAfterCreate") == 0
							for _, e := range calcs {
								if e.Args[0] == "ExpireAfterUpdate" && e.Args[len(e.Args)-1] != "Value("+c.cur+")" {
									ok = false
								}
							}
							a.check(name+" pre=L: expiry update hook", ok, "install over a live entry consults ExpireAfterUpdate once with the live old value", fmt.Sprint(calcs), o)
						default:
							a.check(name+" pre="+pre+": expiry hook decided", false, "the hook choice depends on an expiry test of the predecessor", "untested", o)
						}
					}
					if wrk && wr {
						switch {
						case pre == "A" || pre == "X":
							a.check(name+" pre="+pre+": refresh create hook", count("RefreshAfterCreate") == 1 && count("RefreshAfterUpdate") == 0 && count("RefreshAfterReload") == 0, "install over absent/expired consults RefreshAfterCreate once", fmt.Sprint(calcs), o)
						case pre == "L" && isReload:
							a.check(name+" pre=L reload: refresh reload hook", count("RefreshAfterReload") == 1 && count("RefreshAfterCreate") == 0 && count("RefreshAfterUpdate") == 0, "a successful reload of a live entry consults RefreshAfterReload once", fmt.Sprint(calcs), o)
						case pre == "L":
							a.check(name+" pre=L: refresh update hook", count("RefreshAfterUpdate") == 1 && count("RefreshAfterCreate") == 0, "install over a live entry consults RefreshAfterUpdate once", fmt.Sprint(calcs), o)
						}
					}
					// inheritance
					if info, ok := r.ps.fresh[c.exit]; ok && len(info) >= 4 {
						curNil, nk := predOf(o, "IsNil("+c.cur+")")
						if wek && we && nk {
							want := "ExpiresAt(" + c.cur + ")"
							if curNil {
								want = "const(9223372036854775807)"
							}
							ai.check(name+": expiry inherited", info[2] == want, "new node starts with the predecessor's expiration deadline (unreachable when there is none)", "created with "+info[2], o)
						}
						if wrk && wr && nk {
							want := "RefreshableAt(" + c.cur + ")"
							if curNil {
								want = "const(9223372036854775807)"
							}
							ai.check(name+": refresh time inherited", info[3] == want, "new node starts with the predecessor's refresh deadline (unreachable when there is none)", "created with "+info[3], o)
						}
					}
				}
				if spec.kind == "loadInstall" && eff == "unchanged" {
					errNil, ek := predOf(o, "IsNil(load(param:cl.err))")
					if ek && !errNil {
						a.check(name+" failed load: no expiry hook", count("ExpireAfterCreate")+count("ExpireAfterUpdate")+count("ExpireAfterRead") == 0 && len(eventsOf(o, "SetExpiresAt", c.enter, c.exitIdx)) == 0, "a failed (re)load leaves the entry's expiry untouched", fmt.Sprint(calcs), o)
						isRefresh, rk := predOf(o, "load(param:cl.isRefresh)")
						curNil, nk := predOf(o, "IsNil("+c.cur+")")
						nf, nfk := predOf(o, "load(param:cl.isNotFound)")
						if wrk && wr && rk && isRefresh && nk && !curNil && nfk && !nf {
							a.check(name+" failed reload: failure hook", count("RefreshAfterReloadFailure") == 1, "a failed reload of a present entry consults RefreshAfterReloadFailure once", fmt.Sprint(calcs), o)
						}
					}
				}
			}
			// --- counted reads
			if spec.kind == "get" || spec.kind == "getEntry" {
				if len(o.Rets) == 2 && o.Rets[1] == "true" {
					if we, k := flagOf(o, "withExpiration"); k && we {
						n := 0
						for _, e := range allEvents(o, "Calc") {
							if e.Args[0] == "ExpireAfterRead" {
								n++
							}
						}
						a.check(name+" hit: read hook once", n == 1, "a counted read consults ExpireAfterRead exactly once", fmt.Sprintf("%d", n), o)
					}
				}
			}
			// the read hook belongs to reads: the explicit deadline setters and the writes never consult it, a SetIfAbsent
			// that finds a live entry (a read of it) consults it exactly once
			reads := 0
			for _, e := range allEvents(o, "Calc") {
				if e.Args[0] == "ExpireAfterRead" {
					reads++
				}
			}
			switch spec.kind {
			case "setExp", "setRefr", "set", "invalidate", "compute", "computeIfAbsent", "computeIfPresent":
				if spec.kind == "set" || spec.kind == "invalidate" || spec.kind == "setExp" || spec.kind == "setRefr" {
					a.check(name+": no read hook", reads == 0, "an operation that is not a read of the entry does not consult ExpireAfterRead (it would move the deadline the operation sets or leaves alone)", fmt.Sprintf("%d", reads), o)
				}
			case "setIfAbsent":
				we, k := flagOf(o, "withExpiration")
				if k && we {
					a.check(name+": read hook at most once", reads <= 1, "SetIfAbsent on a live entry reads it once", fmt.Sprintf("%d", reads), o)
				}
				// the no-op on a live entry is a read of that entry: exactly once (a path that never asks whether
				// expiration is configured cannot have consulted the hook)
				if !(k && !we) {
					for _, c := range tableComps(o) {
						if c.closed && effectOf(c) == "unchanged" && preState(o, c.cur) == "L" {
							if exp, ek := expiredOf(o, c.cur); ek && !exp {
								a.check(name+" on a live entry: read hook once", reads == 1, "SetIfAbsent that finds a live entry is a read of it: ExpireAfterRead is consulted exactly once", fmt.Sprintf("%d", reads), o)
							}
						}
					}
				}
			}
			// the duration a hook returned is applied: a Calc event is followed by a store of now + that duration, unless the
			// path decided on that very duration that there is nothing to do (non-positive, or equal to the current one)
			for i, e := range o.S.trace {
				if e.Kind != "Calc" || len(e.Args) < 2 {
					continue
				}
				d := e.Args[1]
				stored := false
				for _, x := range o.S.trace[i+1:] {
					var v string
					switch x.Kind {
					case "SetExpiresAt", "SetRefreshableAt":
						v = x.Args[1]
					case "CASExpiresAt", "CASRefreshableAt":
						v = x.Args[2]
					}
					if strings.HasPrefix(v, "satadd(") && strings.HasSuffix(v, ","+d+")") {
						stored = true
					}
				}
				if stored {
					continue
				}
				why := ""
				for atom, v := range o.S.preds {
					if !strings.Contains(atom, d) {
						continue
					}
					switch {
					case atom == "("+d+"<=const(0))" && v, atom == "("+d+">const(0))" && !v:
						why = "non-positive"
					case strings.HasPrefix(atom, "Eq(") && v, strings.HasPrefix(atom, "(abs(") && strings.HasSuffix(atom, ">const(0))") && !v:
						why = "unchanged"
					}
				}
				if why == "" {
					// an absolute difference written out: the difference of the duration and the current one is known to be zero
					for atom := range o.S.preds {
						if t, _, ok := signAtom(atom); ok && strings.Contains(t, d) && strings.Contains(t, "-") && signPossible(o.S.preds, t) == 2 {
							why = "unchanged"
						}
					}
				}
				a.check(name+" "+e.Args[0]+": duration applied", why != "", "the duration returned by a hook is stored as now + duration unless it is non-positive or equal to the entry's current one (no other test may drop it)", "hook result "+d+" neither stored nor shown redundant", o)
			}
			// the explicit deadline setters: on a live entry the deadline is stored, unless the path decided - by looking
			// at that very deadline - that it already has the requested value
			if spec.kind == "setExp" || spec.kind == "setRefr" {
				flag, setEv, casEv, acc, durP := "withExpiration", "SetExpiresAt", "CASExpiresAt", "ExpiresAt(", "param:expiresAfter"
				if spec.kind == "setRefr" {
					flag, setEv, casEv, acc, durP = "withRefresh", "SetRefreshableAt", "CASRefreshableAt", "RefreshableAt(", "param:refreshableAfter"
				}
				fl, fk := flagOf(o, flag)
				var nodeT string
				for _, e := range allEvents(o, "TableGet") {
					nodeT = e.Args[0]
				}
				live := false
				if nodeT != "" {
					isNil, nk := predOf(o, "IsNil("+nodeT+")")
					exp, ek := expiredOf(o, nodeT)
					live = nk && !isNil && ((ek && !exp) || (fk && !fl))
				}
				positive := true
				for atom, v := range o.S.preds {
					if strings.Contains(atom, durP) && strings.Contains(atom, "<=const(0)") && v {
						positive = false
					}
					if strings.Contains(atom, durP) && strings.HasPrefix(atom, "("+durP+">const(0)") && !v {
						positive = false
					}
				}
				if fk && fl && live && positive {
					stores := len(allEvents(o, setEv)) + len(allEvents(o, casEv))
					justified := false
					for atom := range o.S.preds {
						if (strings.Contains(atom, acc) || strings.Contains(atom, "."+strings.TrimSuffix(acc, "(")+"Nano)")) && strings.Contains(atom, durP) {
							justified = true
						}
					}
					a.check(name+": deadline stored or already equal", stores >= 1 || justified, "on a live entry the requested deadline is stored unless a comparison of the entry's current "+strings.TrimSuffix(acc, "(")+" with the requested duration shows it is already in place", fmt.Sprintf("%d store(s), no comparison with the current deadline", stores), o)
				}
			}
			if spec.kind == "getQuiet" {
				a.check(name+": quiet read consults no hook", len(allEvents(o, "Calc")) == 0, "a quiet read has no side effect on deadlines", fmt.Sprint(allEvents(o, "Calc")), o)
			}
		}
		a.flush()
		as.flush()
		ai.flush()
	}
}

// ---- C20.lookup ----
func ruleC20Lookup(cx *Ctx) {
	const rule = "C20.lookup"
	cx.R.Rule(rule, 4, "per operation the number of hit/miss records on every returning path is the documented one (1 for GetIfPresent, GetEntry, Compute, ComputeIfAbsent, ComputeIfPresent; 0 for quiet reads, Set*, Invalidate and the deadline setters), each with count 1, and it is a hit exactly when the looked-up entry is live on that path")
	want := map[string]int{"get": 1, "getEntry": 1, "compute": 1, "computeIfAbsent": 1, "computeIfPresent": 1,
		"getQuiet": 0, "set": 0, "setIfAbsent": 0, "invalidate": 0, "setExp": 0, "setRefr": 0}
	for _, spec := range opTable {
		r := cx.runOp(rule, spec)
		if r == nil {
			continue
		}
		a := newAgg(cx, rule, funcName(r.fn), cx.P.Pos(r.fn.Pos()))
		for _, o := range r.outs {
			if o.Cut || o.Panic {
				continue
			}
			hits, misses, other := 0, 0, 0
			for _, e := range allEvents(o, "Stat") {
				switch e.Args[0] {
				case "RecordHits":
					hits++
					if e.Args[1] != "const(1)" {
						other++
					}
				case "RecordMisses":
					misses++
					if e.Args[1] != "const(1)" {
						other++
					}
				}
			}
			name := spec.name
			a.check(name+": lookups counted", hits+misses == want[spec.kind] && other == 0, fmt.Sprintf("exactly %d lookup record(s) of count 1 per call", want[spec.kind]), fmt.Sprintf("%d hit(s), %d miss(es)", hits, misses), o)
			if want[spec.kind] == 1 && hits+misses == 1 {
				// the deciding lookup: the first table lookup (two-phase variants) or the computation's node
				n := ""
				for _, e := range allEvents(o, "TableGet") {
					if len(e.Args) > 2 && e.Args[2] == "hashmap" && n == "" {
						n = e.Args[0]
					}
				}
				if n == "" {
					if tcs := tableComps(o); len(tcs) > 0 {
						n = tcs[0].cur
					}
				}
				pre := preState(o, n)
				switch pre {
				case "L":
					a.check(name+" pre=L: hit", hits == 1, "a lookup that found a live entry counts as a hit", fmt.Sprintf("%d hit(s), %d miss(es)", hits, misses), o)
				case "A", "X":
					a.check(name+" pre="+pre+": miss", misses == 1, "a lookup that found nothing or an expired entry counts as a miss", fmt.Sprintf("%d hit(s), %d miss(es)", hits, misses), o)
				default:
					a.check(name+" pre="+pre+": hit/miss decided by expiry", false, "hit/miss is decided after testing nil-ness and expiry", "undecided pre-state", o)
				}
			}
		}
		a.flush()
	}
}

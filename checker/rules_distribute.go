package main

import (
	"fmt"
	"strings"
)

// ruleC10Distribute: doBulkCall hands out the loader's result map completely and only from checked lookups.
func ruleC10Distribute(cx *Ctx) {
	const rule = "C10.distribute"
	cx.R.Rule(rule, 3, "doBulkCall, on every path on which the bulk loader returned: each requested record gets its value only from a comma-ok lookup of its own key in the result map that succeeded, and is marked not-found (with ErrNotFound) when that lookup failed; the result map is iterated completely and every key that has no record gets a synthetic record (fake, same key, the map's value); both iterations happen in the body, before the deferred epilogue")
	fn := cx.need(rule, "", "group", "doBulkCall")
	if fn == nil {
		return
	}
	ps := newPathSum(cx)
	ps.trackRanges = true
	for _, h := range newHelpersOf(fn) {
		ps.inlineLoops[h] = true
	}
	outs := ps.Run(fn, nil)
	cx.R.AddInt("paths_enumerated", len(outs))
	if ps.capped {
		cx.R.Undecided(rule, funcName(fn), "path cap", cx.P.Pos(fn.Pos()), "path enumeration exceeded its bound")
		return
	}
	name := funcName(fn)
	a := newAgg(cx, rule, name, cx.P.Pos(fn.Pos()))
	calls := "param:" + pname(bparam(fn, 2))
	nf := ps.errNotFoundTerm()
	analysed := 0
	for _, o := range outs {
		if o.Cut {
			continue
		}
		// the load and its result
		loadIdx, res := -1, ""
		panicked := false
		for i, e := range o.S.trace {
			if e.Kind == "UserCall" && e.Args[0] == pname(bparam(fn, 3)) {
				loadIdx, res = i, e.Args[1]+".0"
			}
			if e.Kind == "UserPanic" {
				panicked = true
			}
		}
		if loadIdx < 0 || panicked {
			continue
		}
		if isNil, k := predOf(o, "IsNil("+strings.TrimSuffix(res, ".0")+".1)"); k && !isNil {
			continue // the path knows the load failed: the epilogue overrides every record
		}
		analysed++
		// elements of the iterations after the load, in the body (not in a deferred closure)
		type elem struct {
			sym  string
			done bool
		}
		var recs, vols []string
		recsComplete, volsComplete := false, false
		for i, e := range o.S.trace {
			if e.Kind != "RangeNext" || i < loadIdx || strings.Contains(e.In, "$") {
				continue
			}
			okv, known := true, true
			if e.Args[2] != "true" {
				okv, known = predOf(o, e.Args[2])
				if e.Args[2] == "false" {
					okv, known = false, true
				}
			}
			switch e.Args[0] {
			case calls:
				if known && okv {
					recs = append(recs, e.Args[1])
				} else if known {
					recsComplete = true
				}
			case res:
				if known && okv {
					vols = append(vols, e.Args[1])
				} else if known {
					volsComplete = true
				}
			}
		}
		a.check("records iterated completely", recsComplete, "after the load the requested records are iterated to the end in the body", "no complete iteration over the records after the load", o)
		a.check("result map iterated completely", volsComplete, "after the load the result map is iterated to the end in the body (volunteered keys)", "no complete iteration over the result map after the load", o)
		stores := func(rec, fld string) []string {
			var vs []string
			for i, e := range o.S.trace {
				if i > loadIdx && e.Kind == "FieldStore" && e.Args[0] == rec+"."+fld && !strings.Contains(e.In, "$") {
					vs = append(vs, e.Args[1])
				}
			}
			return vs
		}
		// every value store of a requested record comes from a checked lookup of its own key
		for i, e := range o.S.trace {
			if i <= loadIdx || e.Kind != "FieldStore" || !strings.HasSuffix(e.Args[0], ".v.value") || strings.Contains(e.Args[0], "complit") {
				continue
			}
			el := strings.TrimSuffix(e.Args[0], ".v.value")
			want := "lookup(" + res + "," + el + ".k)"
			okv, known := predOf(o, "ok:"+want)
			a.check("value only from a successful lookup of the record's key", e.Args[1] == want && known && okv, "a record's value is the result map's entry for the record's own key, taken only when the key is present", fmt.Sprintf("%s = %s (presence tested: %v, present: %v)", e.Args[0], e.Args[1], known, okv), o)
		}
		for _, el := range recs {
			want := "lookup(" + res + "," + el + ".k)"
			okv, known := predOf(o, "ok:"+want)
			vals, marks, errs := stores(el+".v", "value"), stores(el+".v", "isNotFound"), stores(el+".v", "err")
			switch {
			case !known:
				a.check("presence of the record's key tested", false, "for each requested record the result map is consulted with a comma-ok lookup of its key", "no presence test for "+el, o)
			case okv:
				a.check("present: value stored, not marked", len(vals) == 1 && len(marks) == 0, "a key the loader returned gets its value and no not-found mark", fmt.Sprintf("%d value store(s), %d mark store(s)", len(vals), len(marks)), o)
			default:
				a.check("absent: marked not-found with ErrNotFound", len(vals) == 0 && len(marks) == 1 && marks[0] == "true" && len(errs) == 1 && errs[0] == nf, "a requested key the loader omitted is marked not-found and carries ErrNotFound", fmt.Sprintf("value %v, mark %v, err %v", vals, marks, errs), o)
			}
		}
		for _, el := range vols {
			okv, known := predOf(o, "ok:lookup("+calls+","+el+".k)")
			var ups []psEvent
			upIdx := -1
			for i, e := range o.S.trace {
				if i > loadIdx && e.Kind == "MapUpdate" && e.Args[0] == calls && e.Args[1] == el+".k" {
					ups = append(ups, e)
					upIdx = i
				}
			}
			switch {
			case !known:
				a.check("volunteered key: record existence tested", false, "for each key of the result map the records are consulted", "no test for "+el, o)
			case okv:
				a.check("requested key: no synthetic record", len(ups) == 0, "a key that has a record is not replaced by a synthetic one", fmt.Sprintf("%d update(s)", len(ups)), o)
			default:
				ok := len(ups) == 1
				if ok {
					rec := strings.TrimPrefix(ups[0].Args[2], "&")
					get := func(f string) string {
						for i := upIdx - 1; i >= 0; i-- {
							if e := o.S.trace[i]; e.Kind == "LitStore" && e.Args[0] == rec+"."+f {
								return e.Args[1]
							}
						}
						return ""
					}
					ok = get("isFake") == "true" && get("value") == el+".v" && get("key") == el+".k"
				}
				a.check("volunteered key: one synthetic record", ok, "a key the loader volunteered gets exactly one synthetic record (fake, that key, that value)", fmt.Sprintf("%d update(s)", len(ups)), o)
			}
		}
	}
	a.check("load paths analysed", analysed > 0, "paths on which the loader returned were found (non-vacuity)", "none", nil)
	a.flush()
}

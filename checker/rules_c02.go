package main

import (
	"fmt"
	"go/token"
	"go/types"
	"sort"
	"strings"

	"golang.org/x/tools/go/ssa"
)

func init() {
	register("C02",
		"Decides necessary conditions of linearizability that are visible in the code's shape: the table's update function runs exactly once per call, under the bucket lock, atomically with the store of its result, after the resize re-checks (C15.once/rmw/recheck/keycheck/atomic/publish/current, re-run here); the lock-free lookup examines every candidate slot of the chain (C15.scan) against the writers' meta-before-pointer order (C15.metaorder); the cache mutates its table only through that computation (C02.mutators); automatic removal unlinks a mapping only if the mapped node is the victim itself (C02.victim); key/value/weight of a node never change after construction and its mutable fields are atomic (C02.immut); the user's remapping function runs exactly once per Compute* call also when it panics (C01.step callback rows); the in-flight record is cleared inside every mutating computation (C09.clear); lock order is acyclic - nothing reachable from a table computation takes the eviction lock, waits for a load or dispatches a loader, and the in-flight table's computations never touch the main table (C02.lockorder). "+
			"NOT decided: linearizability itself (histories x schedules) - that needs a history or model checker, a different family.",
		[]string{"sync.Mutex / sync/atomic semantics"},
		ruleC15Once, ruleC15RMW, ruleC15Recheck, ruleC15KeyCheck, ruleC15Atomic, ruleC15Publish, ruleC15Current, ruleC15LockPair, ruleC15CopyAll, ruleC15CopyLock, ruleC15Scan, ruleC15MetaOrder, ruleC02Mutators, ruleEvict, ruleC02Immut, ruleC02LockOrder, ruleC09Clear, ruleC09Guard, ruleC01Step, ruleC18Hash, ruleC15SrcReadOnly)
}

func ruleC02Mutators(cx *Ctx) {
	const rule = "C02.mutators"
	cx.R.Rule(rule, 2, "package otter touches its main table only through Get, Compute, Range and Size; Map.Clear has no caller; node creators and retirers run only inside closures handed to the table's Compute")
	hm := cx.needField(rule, "", "cache", "hashmap")
	if hm == nil {
		return
	}
	allowed := map[string]bool{"Get": true, "Compute": true, "Range": true, "Size": true}
	for _, fn := range cx.P.FuncsOfPkg("") {
		allInstrs(fn, func(in ssa.Instruction) {
			c := calleeOf(in)
			if c == nil || c.Pkg == nil || !strings.HasSuffix(c.Pkg.Pkg.Path(), hmPkg) {
				return
			}
			if !sameField(recvField(in), hm) {
				return
			}
			cx.R.Check(allowed[c.Name()], rule, funcName(fn), "table method "+c.Name(), cx.P.where(in), "the main table is accessed only through Get/Compute/Range/Size")
		})
	}
	clear := cx.P.Func(hmPkg, "Map", "Clear")
	if clear != nil {
		for _, fn := range cx.P.ModuleFuncs() {
			allInstrs(fn, func(in ssa.Instruction) {
				if isCallTo(in, clear) {
					cx.R.Violate(rule, funcName(fn), "Map.Clear", cx.P.where(in), "NOT SATISFIED: Map.Clear drops entries without reports; it must have no caller")
				}
			})
		}
	}
	// creators / retirers only under a table computation
	compute := cx.P.Func(hmPkg, "Map", "Compute")
	create := cx.P.Func(nodePkg, "Manager", "Create")
	under := computeClosureFuncs(cx, hm, compute)
	for _, fn := range cx.P.FuncsOfPkg("") {
		allInstrs(fn, func(in ssa.Instruction) {
			isCreate := create != nil && isCallTo(in, create)
			isRetire := invokeName(in) == "Retire"
			if !isCreate && !isRetire {
				return
			}
			what := "Retire"
			if isCreate {
				what = "Manager.Create"
			}
			cx.R.Check(under[origin(outermost(fn))] || under[origin(fn)], rule, funcName(fn), what, cx.P.where(in), what+" happens only in code reached from a closure handed to the table's Compute (the write and the bookkeeping are one atomic step)")
		})
	}
}

// computeClosureFuncs returns the functions that are only called (transitively, within package otter) from closures
// passed to cache.hashmap.Compute, plus those closures.
func computeClosureFuncs(cx *Ctx, hm interface{}, compute *ssa.Function) map[*ssa.Function]bool {
	roots := map[*ssa.Function]bool{}
	hmf := cx.P.Field("", "cache", "hashmap")
	for _, fn := range cx.P.FuncsOfPkg("") {
		allInstrs(fn, func(in ssa.Instruction) {
			if compute != nil && isCallTo(in, compute) && sameField(recvField(in), hmf) {
				a := callArgs(in)
				if bm := boundMethod(a[len(a)-1]); bm != nil {
					if !addressTakenElsewhere(cx, bm, in) {
						// a named method handed over as the computation (cm.remap): it runs only as that callback
						roots[origin(bm)] = true
					}
				} else if cl := closureOf(a[len(a)-1]); cl != nil {
					roots[cl] = true
				} else if false {
					// a named method handed over as the computation (cm.remap): it runs only as that callback
					roots[origin(bm)] = true
				}
			}
		})
	}
	// callers map within package otter
	callers := map[*ssa.Function][]*ssa.Function{}
	for _, fn := range cx.P.FuncsOfPkg("") {
		allInstrs(fn, func(in ssa.Instruction) {
			if c := calleeOf(in); c != nil && c.Pkg != nil && c.Pkg.Pkg.Path() == modPath {
				callers[c] = append(callers[c], fn)
			}
		})
	}
	under := map[*ssa.Function]bool{}
	for r := range roots {
		under[r] = true
	}
	for changed := true; changed; {
		changed = false
		for callee, cs := range callers {
			if under[callee] || len(cs) == 0 {
				continue
			}
			all := true
			for _, c := range cs {
				if !under[origin(c)] && !under[c] && !under[origin(outermost(c))] {
					// a nested closure of a function that is itself under a computation counts
					all = false
				}
			}
			if all {
				under[callee] = true
				changed = true
			}
		}
	}
	return under
}

// reachesInstr: some instruction satisfying pred is reachable from fn through static calls inside the module
// (closures created in a visited function are assumed to run).
func reachesInstr(fn *ssa.Function, pred func(ssa.Instruction) bool, seen map[*ssa.Function]bool, skip func(*ssa.Function) bool) (bool, string) {
	return reachesInstrEnv(fn, pred, seen, map[string]bool{}, skip, nil)
}

// funEnv binds the function-typed parameters of the function being explored to the functions handed in at the call
// site the exploration came through (context-sensitive: a table computation's callback is the closure of that call).
type funEnv map[*ssa.Parameter][]*ssa.Function

func (e funEnv) key() string {
	var ks []string
	for p, fs := range e {
		for _, f := range fs {
			ks = append(ks, p.Name()+"="+f.String())
		}
	}
	sort.Strings(ks)
	return strings.Join(ks, ";")
}

func reachesInstrEnv(fn *ssa.Function, pred func(ssa.Instruction) bool, seen map[*ssa.Function]bool, seenEnv map[string]bool, skip func(*ssa.Function) bool, env funEnv) (bool, string) {
	fn = origin(fn)
	if fn == nil || len(fn.Blocks) == 0 {
		return false, ""
	}
	if len(env) == 0 {
		if seen[fn] {
			return false, ""
		}
		seen[fn] = true
	} else {
		k := fn.String() + "|" + env.key()
		if seenEnv[k] {
			return false, ""
		}
		seenEnv[k] = true
	}
	found, where := false, ""
	withClosures(fn, func(f *ssa.Function) {
		if found || (skip != nil && skip(f)) {
			return
		}
		allInstrs(f, func(in ssa.Instruction) {
			if found {
				return
			}
			if pred(in) {
				found, where = true, funcName(f)
				return
			}
			if _, isGo := in.(*ssa.Go); isGo {
				return
			}
			if c := calleeOf(in); c != nil && c.Pkg != nil && strings.HasPrefix(c.Pkg.Pkg.Path(), modPath) {
				// bind the callee's function-typed parameters to what this site hands in
				var env2 funEnv
				oc := origin(c)
				cc := callCommon(in)
				for i, q := range oc.Params {
					if _, isSig := q.Type().Underlying().(*types.Signature); !isSig || i >= len(cc.Args) {
						continue
					}
					if fs := funcValuesOf(cc.Args[i], 0, map[ssa.Value]bool{}, env); len(fs) > 0 {
						if env2 == nil {
							env2 = funEnv{}
						}
						env2[q] = fs
					}
				}
				if ok, w := reachesInstrEnv(c, pred, seen, seenEnv, skip, env2); ok {
					found, where = true, funcName(f)+" -> "+w
				}
			}
			// a function-typed parameter (or a variable captured from one) that is called here: what the call site this
			// exploration came through handed in
			if cc := callCommon(in); cc != nil && !cc.IsInvoke() && cc.StaticCallee() == nil {
				if _, isB := cc.Value.(*ssa.Builtin); !isB {
					for _, tgt := range funcValuesOf(cc.Value, 0, map[ssa.Value]bool{}, env) {
						if ok, w := reachesInstrEnv(tgt, pred, seen, seenEnv, skip, nil); ok {
							found, where = true, funcName(f)+" -> (function argument) "+w
						}
					}
				}
			}
			// bound methods handed over (c.evictNode)
			if mc, ok := in.(*ssa.MakeClosure); ok {
				if bm := boundMethod(mc); bm != nil {
					if ok, w := reachesInstrEnv(bm, pred, seen, seenEnv, skip, nil); ok {
						found, where = true, funcName(f)+" -> "+w
					}
				}
			}
		})
	})
	return found, where
}

func ruleC02LockOrder(cx *Ctx) {
	const rule = "C02.lockorder"
	cx.R.Rule(rule, 3, "lock order eviction lock -> bucket lock -> in-flight bucket lock is acyclic: nothing reachable from a table computation takes the eviction lock, waits on a load record or dispatches a loader; in-flight table computations never reach the main table; wait() and loader dispatch never run with the eviction lock possibly held")
	lockOrderProg = cx.P
	hmf := cx.needField(rule, "", "cache", "hashmap")
	callsF := cx.needField(rule, "", "group", "calls")
	mu := cx.needField(rule, "", "cache", "evictionMutex")
	compute := cx.need(rule, hmPkg, "Map", "Compute")
	wait := cx.need(rule, "", "call", "wait")
	doCall := cx.need(rule, "", "group", "doCall")
	doBulk := cx.need(rule, "", "group", "doBulkCall")
	ex := cx.needField(rule, "", "cache", "executor")
	if hmf == nil || callsF == nil || mu == nil || compute == nil || wait == nil || doCall == nil || doBulk == nil || ex == nil {
		return
	}
	isBlocking := func(in ssa.Instruction) bool {
		if isCallTo(in, wait) || isCallTo(in, doCall) || isCallTo(in, doBulk) {
			return true
		}
		return mutexOp(in, mu, "Lock")
	}
	// executor closures run later (or inline for a caller-runs executor, where the caller is outside any computation
	// by the rule below): a closure handed to the executor is not part of the computation
	execClosures := map[*ssa.Function]bool{}
	for _, fn := range cx.P.FuncsOfPkg("") {
		allInstrs(fn, func(in ssa.Instruction) {
			cc := callCommon(in)
			if cc != nil && !cc.IsInvoke() && cc.StaticCallee() == nil && sameField(fieldOf(cc.Value), ex) && len(cc.Args) == 1 {
				if cl := closureOf(cc.Args[0]); cl != nil {
					execClosures[cl] = true
				}
			}
		})
	}
	for _, fn := range cx.P.FuncsOfPkg("") {
		allInstrs(fn, func(in ssa.Instruction) {
			if !isCallTo(in, compute) {
				return
			}
			a := callArgs(in)
			cl := closureOf(a[len(a)-1])
			if cl == nil {
				return
			}
			switch {
			case sameField(recvField(in), hmf):
				bad, where := reachesInstrEnv(cl, isBlocking, map[*ssa.Function]bool{}, map[string]bool{}, func(f *ssa.Function) bool { return execClosures[f] }, rootEnv(cx.P, outermost(fn)))
				cx.R.Check(!bad, rule, funcName(fn), "table computation is non-blocking", cx.P.where(in), "no eviction-lock acquisition, load wait or loader dispatch is reachable from inside the bucket-locked computation "+where)
			case sameField(recvField(in), callsF):
				bad, where := reachesInstrEnv(cl, func(x ssa.Instruction) bool {
					return isCallTo(x, compute) && sameField(recvField(x), hmf) || isBlocking(x)
				}, map[*ssa.Function]bool{}, map[string]bool{}, nil, rootEnv(cx.P, outermost(fn)))
				cx.R.Check(!bad, rule, funcName(fn), "in-flight computation is a leaf", cx.P.where(in), "computations on the in-flight table neither touch the main table nor block "+where)
			}
		})
	}
	// wait / dispatch never under the eviction lock: no function that may hold the lock reaches them
	for _, fn := range cx.P.FuncsOfPkg("") {
		n := 0
		allInstrs(fn, func(in ssa.Instruction) {
			if !mutexOp(in, mu, "Lock") && !mutexOp(in, mu, "TryLock") {
				return
			}
			n++
			// instructions executed while the lock may be held: from here to the matching unlock(s)
			held := mayHeldRegion(in, mu)
			bad := ""
			for _, x := range held {
				if isCallTo(x, wait) || isCallTo(x, doCall) || isCallTo(x, doBulk) {
					bad = cx.P.where(x)
				}
				if c := calleeOf(x); c != nil && c.Pkg != nil && c.Pkg.Pkg.Path() == modPath {
					if ok, w := reachesInstr(c, func(y ssa.Instruction) bool { return isCallTo(y, wait) || isCallTo(y, doCall) || isCallTo(y, doBulk) }, map[*ssa.Function]bool{}, func(f *ssa.Function) bool { return execClosures[f] }); ok {
						bad = cx.P.where(x) + " -> " + w
					}
				}
			}
			cx.R.Check(bad == "", rule, funcName(fn), fmt.Sprintf("no load wait/dispatch under the eviction lock #%d", n), cx.P.where(in), "while the eviction lock may be held no load is awaited or dispatched "+bad)
		})
	}
}

// mayHeldRegion returns the instructions reachable from a lock acquisition before an Unlock of the same mutex.
func mayHeldRegion(lock ssa.Instruction, mu interface{}) []ssa.Instruction {
	fn := lock.Parent()
	muF := lock.(ssa.CallInstruction)
	_ = muF
	start := ptOf(lock)
	var out []ssa.Instruction
	seen := map[*ssa.BasicBlock]bool{}
	var walk func(b *ssa.BasicBlock, i int)
	walk = func(b *ssa.BasicBlock, i int) {
		for ; i < len(b.Instrs); i++ {
			in := b.Instrs[i]
			if _, isDefer := in.(*ssa.Defer); !isDefer && isStdMethod(in, "sync", "Mutex", "Unlock") && sameField(recvField(in), recvField(lock)) {
				return
			}
			if f := recvField(lock); f != nil && unlockLike(in, f) {
				return
			}
			out = append(out, in)
		}
		for _, s := range b.Succs {
			if !seen[s] {
				seen[s] = true
				walk(s, 0)
			}
		}
	}
	_ = fn
	walk(start.B, start.I+1)
	return out
}

// addressTakenElsewhere: the method is used as a value (or called directly) anywhere but as the argument of `site`.
func addressTakenElsewhere(cx *Ctx, m *ssa.Function, site ssa.Instruction) bool {
	other := false
	for _, f := range cx.P.ModuleFuncs() {
		allInstrs(f, func(in ssa.Instruction) {
			if isCallTo(in, m) {
				other = true
			}
			if mc, ok := in.(*ssa.MakeClosure); ok {
				if bm := boundMethod(mc); bm != nil && origin(bm) == origin(m) {
					// is this closure the one passed at site?
					used := false
					for _, a := range callArgs(site) {
						if a == ssa.Value(mc) {
							used = true
						}
					}
					if !used {
						other = true
					}
				}
			}
		})
	}
	return other
}

// lockOrderProg: the program whose call sites resolve function-typed parameters (set by the rules that use reachesInstr).
var lockOrderProg *Program

// funcValuesOf: the module functions a function-typed value may denote, resolved through closures, bound methods, local
// cells, captured variables and - for a parameter - the arguments at every call site of the enclosing function.
func funcValuesOf(v ssa.Value, depth int, seen map[ssa.Value]bool, env funEnv) []*ssa.Function {
	if v == nil || seen[v] || depth > 6 {
		return nil
	}
	seen[v] = true
	var out []*ssa.Function
	add := func(fs ...*ssa.Function) {
		for _, f := range fs {
			if f != nil {
				out = append(out, f)
			}
		}
	}
	switch x := v.(type) {
	case *ssa.Function:
		add(x)
	case *ssa.MakeClosure:
		if bm := boundMethod(x); bm != nil {
			add(bm)
		} else {
			add(closureOf(x))
		}
	case *ssa.ChangeType:
		add(funcValuesOf(x.X, depth, seen, env)...)
	case *ssa.Phi:
		for _, e := range x.Edges {
			add(funcValuesOf(e, depth, seen, env)...)
		}
	case *ssa.UnOp:
		if x.Op == token.MUL {
			switch a := x.X.(type) {
			case *ssa.Alloc:
				for _, u := range *a.Referrers() {
					if st, ok := u.(*ssa.Store); ok && st.Addr == ssa.Value(a) {
						add(funcValuesOf(st.Val, depth, seen, env)...)
					}
				}
			case *ssa.FreeVar:
				add(funcValuesOf(a, depth, seen, env)...)
			}
		}
	case *ssa.FreeVar:
		fn := x.Parent()
		idx := -1
		for i, q := range fn.FreeVars {
			if q == x {
				idx = i
			}
		}
		if p := fn.Parent(); p != nil && idx >= 0 {
			withClosures(p, func(g *ssa.Function) {
				allInstrs(g, func(in ssa.Instruction) {
					if mc, ok := in.(*ssa.MakeClosure); ok && mc.Fn == ssa.Value(fn) && idx < len(mc.Bindings) {
						b := mc.Bindings[idx]
						if al, isA := b.(*ssa.Alloc); isA {
							for _, u := range *al.Referrers() {
								if st, ok := u.(*ssa.Store); ok && st.Addr == ssa.Value(al) {
									add(funcValuesOf(st.Val, depth+1, seen, env)...)
								}
							}
						} else {
							add(funcValuesOf(b, depth+1, seen, env)...)
						}
					}
				})
			})
		}
	case *ssa.Parameter:
		add(env[x]...)
	}
	return out
}

// rootEnv: for an exploration that starts inside fn (not through a call of fn): the function-typed parameters of fn
// bound to what any call site of fn in the module hands in.
func rootEnv(P *Program, fn *ssa.Function) funEnv {
	fn = origin(fn)
	var env funEnv
	for i, q := range fn.Params {
		if _, isSig := q.Type().Underlying().(*types.Signature); !isSig {
			continue
		}
		for _, f := range P.ModuleFuncs() {
			allInstrs(f, func(in ssa.Instruction) {
				if c := calleeOf(in); c != nil && c == fn {
					cc := callCommon(in)
					if i < len(cc.Args) {
						if fs := funcValuesOf(cc.Args[i], 0, map[ssa.Value]bool{}, nil); len(fs) > 0 {
							if env == nil {
								env = funEnv{}
							}
							env[q] = append(env[q], fs...)
						}
					}
				}
			})
		}
	}
	return env
}

package main

import (
	"fmt"
	"strings"

	"golang.org/x/tools/go/ssa"
)

// ruleEvict analyses the eviction callback cache.evictNode(n, now) path by path.
func ruleEvict(cx *Ctx) {
	const rVictim = "C02.victim"
	const rEvict = "C05.evict"
	const rAsync = "C06.async"
	const rStat = "C20.evict"
	const rCause = "C07.causeflow"
	cx.R.Rule(rVictim, 1, "automatic removal unlinks the mapping only on the path where the mapped node is pointer-identical to the victim; otherwise the table is left unchanged")
	cx.R.Rule(rEvict, 1, "the eviction callback unlinks the victim from the eviction policy, unschedules it and marks it dead on all paths")
	cx.R.Rule(rAsync, 1, "the eviction callback emits the deferred deletion report exactly once iff its table removal happened, for the victim's key/value with the atomic report's cause")
	cx.R.Rule(rStat, 1, "an eviction is recorded exactly once, with the victim's weight, iff the table removal happened")
	cx.R.Rule(rCause, 1, "the eviction callback reports Expiration exactly when the victim is expired at the callback's time, Overflow otherwise")
	pc := cx.consts(rEvict)
	if !pc.ok {
		return
	}
	r := cx.runOp(rEvict, mechTable[1])
	if r == nil {
		return
	}
	fn := funcName(r.fn)
	where := cx.P.Pos(r.fn.Pos())
	av, ae, aa, as, ac := newAgg(cx, rVictim, fn, where), newAgg(cx, rEvict, fn, where), newAgg(cx, rAsync, fn, where), newAgg(cx, rStat, fn, where), newAgg(cx, rCause, fn, where)
	n := "param:n"
	for _, o := range r.outs {
		if o.Cut || o.Panic {
			continue
		}
		tcs := tableComps(o)
		if len(tcs) != 1 || !tcs[0].closed {
			av.check("one computation", false, "the callback removes through exactly one table computation", fmt.Sprintf("%d", len(tcs)), o)
			continue
		}
		c := tcs[0]
		eff := effectOf(c)
		curNil, nk := predOf(o, "IsNil("+c.cur+")")
		same := false
		sameKnown := false
		for a, v := range o.S.preds {
			if strings.HasPrefix(a, "PtrEq(") && strings.Contains(a, "AsPointer("+c.cur+")") && strings.Contains(a, "AsPointer("+n+")") {
				same, sameKnown = v, true
			}
		}
		removed := eff == "removed" && nk && !curNil
		av.check("key", c.key == "Key("+n+")", "the computation is on the victim's key", c.key, o)
		if removed {
			av.check("removed only if identical", sameKnown && same, "the mapping is removed only when the mapped node is the victim itself", "removed without a positive identity test", o)
		} else if nk && !curNil {
			av.check("different node kept", eff == "unchanged" && sameKnown && !same, "a different (newer) node mapped to the key is left in place", "effect "+eff, o)
		}
		// policy clean-up on all paths
		wv, wvk := flagOf(o, "withEviction")
		we, wek := flagOf(o, "withExpiration")
		cnt := func(kind string) int {
			k := 0
			for _, e := range allEvents(o, kind) {
				if len(e.Args) > 0 && e.Args[0] == n {
					k++
				}
			}
			return k
		}
		if wvk && wv {
			ae.check("policy unlink", cnt("PolicyDelete") == 1 && cnt("PolicyMakeDead") == 1, "with eviction: the victim is unlinked from its deque and its weight released (makeDead) exactly once", fmt.Sprintf("%d unlink, %d makeDead", cnt("PolicyDelete"), cnt("PolicyMakeDead")), o)
		} else if wvk && !wv {
			dead, dk := predOf(o, "Dead("+n+")")
			want := 1
			if dk && dead {
				want = 0
			}
			if wm, k := flagOf(o, "withMaintenance"); k && wm {
				ae.check("die", cnt("Die") == want, "without eviction policy the victim is marked dead (once)", fmt.Sprintf("%d", cnt("Die")), o)
			}
		} else {
			ae.check("eviction flag consulted", false, "the callback decides by configuration which policies to clean", "withEviction untested", o)
		}
		if wek && we {
			ae.check("unschedule", cnt("ExpDelete") == 1, "with expiration: the victim's timer is removed exactly once", fmt.Sprintf("%d", cnt("ExpDelete")), o)
		}
		// reports
		asyncs := allEvents(o, "AsyncNotify")
		stats := 0
		statOK := true
		for _, e := range allEvents(o, "Stat") {
			if e.Args[0] == "RecordEviction" {
				stats++
				if e.Args[1] != "Weight("+n+")" {
					statOK = false
				}
			}
		}
		atom := eventsOf(o, "AtomicNotify", c.enter, c.exitIdx)
		if removed {
			ok := len(asyncs) == 1 && len(atom) == 1
			if ok {
				e := asyncs[0]
				ok = e.Args[0] == "Key("+n+")" && e.Args[1] == "Value("+n+")" && e.Args[2] == atom[0].Args[2]
			}
			aa.check("removed: one deferred report", ok, "a successful automatic removal is reported once, deferred, with the atomic report's cause", fmt.Sprint(asyncs), o)
			as.check("removed: one eviction record", stats == 1 && statOK, "a successful automatic removal is counted once with the victim's weight", fmt.Sprintf("%d record(s)", stats), o)
			exp, ek := expiredOf(o, n)
			want := pc.causeOverflow
			if ek && exp {
				want = pc.causeExpiration
			}
			if len(atom) == 1 {
				ac.check("cause", (ek || (wek && !we)) && atom[0].Args[2] == want, "Expiration iff the victim is expired at the callback's time, else Overflow", "cause "+atom[0].Args[2]+" expected "+want, o)
			}
		} else {
			aa.check("not removed: no deferred report", len(asyncs) == 0, "nothing is reported when the callback did not remove the mapping (a pending task will)", fmt.Sprint(asyncs), o)
			as.check("not removed: no eviction record", stats == 0, "no eviction is counted when nothing was removed", fmt.Sprintf("%d record(s)", stats), o)
		}
	}
	av.flush()
	ae.flush()
	aa.flush()
	as.flush()
	ac.flush()
}

// ruleC20Load: wrapLoad records exactly one load outcome per dispatch.
func ruleC20Load(cx *Ctx) {
	const rule = "C20.load"
	cx.R.Rule(rule, 1, "wrapLoad records exactly one of load success / failure on every path after the dispatch (including the path that re-raises a loader panic); success iff the error is nil or ErrNotFound; loaders are dispatched only inside wrapLoad")
	if cx.P.Func("", "cache", "wrapLoad") == nil {
		if rec := loadRecorder(cx); rec != nil {
			ruleC20LoadSplit(cx, rule, rec)
			return
		}
	}
	spec := opSpec{"wrapLoad", "cache", "wrapLoad", nil, "wrapLoad", nil}
	r := cx.runOp(rule, spec)
	if r == nil {
		return
	}
	a := newAgg(cx, rule, funcName(r.fn), cx.P.Pos(r.fn.Pos()))
	for _, o := range r.outs {
		if o.Cut {
			continue
		}
		disp := userCalls(o, "fn")
		a.check("dispatch once", len(disp) == 1, "the wrapped load runs exactly once", fmt.Sprintf("%d", len(disp)), o)
		if len(disp) != 1 {
			continue
		}
		res := disp[0].Args[1]
		succ, fail := 0, 0
		for _, e := range allEvents(o, "Stat") {
			switch e.Args[0] {
			case "RecordLoadSuccess":
				succ++
			case "RecordLoadFailure":
				fail++
			}
		}
		kind := "return"
		if o.Panic {
			kind = "re-panic"
		}
		a.check(kind+": one load record", succ+fail == 1, "exactly one load outcome is recorded per dispatch", fmt.Sprintf("%d success, %d failure", succ, fail), o)
		errNil, ek := predOf(o, "IsNil("+res+")")
		nf, nfk := predOf(o, "IsNotFound("+res+")")
		if ek && errNil || (nfk && nf) {
			a.check("nil/not-found error: success", succ == 1, "no error or ErrNotFound counts as a successful load", fmt.Sprintf("%d success, %d failure", succ, fail), o)
		} else if ek && !errNil && nfk && !nf {
			a.check("other error: failure", fail == 1, "any other error counts as a failed load", fmt.Sprintf("%d success, %d failure", succ, fail), o)
		}
	}
	a.flush()
	// who dispatches loaders: only group.doCall / group.doBulkCall invoke a load function, they are called only from
	// closures handed directly to wrapLoad, and Loader/BulkLoader methods only flow into their load argument
	doCall := cx.need(rule, "", "group", "doCall")
	doBulk := cx.need(rule, "", "group", "doBulkCall")
	if doCall == nil || doBulk == nil {
		return
	}
	// the dispatch functions invoke the load function exactly once on every path (a recorded load is a loader invocation)
	for _, d := range []*ssa.Function{doCall, doBulk} {
		dr := cx.runOp(rule, opSpec{cname(d), "group", cname(d), nil, cname(d), nil})
		if dr == nil {
			continue
		}
		da := newAgg(cx, rule, funcName(d), cx.P.Pos(d.Pos()))
		loadParam := pname(bparam(d, 3))
		for _, o := range dr.outs {
			if o.Cut {
				continue
			}
			n := 0
			for _, e := range allEvents(o, "UserCall") {
				if e.Args[0] == loadParam {
					n++
				}
			}
			da.check("loader invoked exactly once", n == 1, "every path of the dispatch function calls the load function exactly once (one recorded load = one loader invocation)", fmt.Sprintf("%d invocation(s)", n), o)
		}
		da.flush()
	}
	sinks := []*ssa.Function{doCall, doBulk}
	wl := r.fn
	for _, fn := range cx.P.FuncsOfPkg("") {
		allInstrs(fn, func(in ssa.Instruction) {
			if isCallTo(in, doCall) || isCallTo(in, doBulk) {
				// inside a closure handed to wrapLoad, or in a helper that is called only from such closures
				var timed func(f *ssa.Function, depth int) bool
				timed = func(f *ssa.Function, depth int) bool {
					if f.Parent() != nil {
						ok := false
						allInstrs(f.Parent(), func(x ssa.Instruction) {
							if isCallTo(x, wl) {
								if a := callArgs(x); len(a) == 1 && closureOf(a[0]) == f {
									ok = true
								}
							}
						})
						return ok
					}
					if depth > 2 {
						return false
					}
					sites, all := 0, true
					// handed to wrapLoad as a method value (c.wrapLoad(job.load)): the same as a closure handed to it
					for _, g := range cx.P.ModuleFuncs() {
						allInstrs(g, func(x ssa.Instruction) {
							mc, isMC := x.(*ssa.MakeClosure)
							if !isMC {
								return
							}
							if bm := boundMethod(mc); bm == nil || origin(bm) != origin(f) {
								return
							}
							sites++
							for _, u := range usesOf(mc) {
								if _, dbg := u.(*ssa.DebugRef); dbg {
									continue
								}
								if !isCallTo(u, wl) {
									all = false
								}
							}
						})
					}
					if sites == 0 && addressTaken(cx, f) {
						return false
					}
					for _, g := range cx.P.ModuleFuncs() {
						allInstrs(g, func(x ssa.Instruction) {
							if isCallTo(x, f) {
								sites++
								if !timed(g, depth+1) {
									all = false
								}
							}
						})
					}
					return sites > 0 && all
				}
				ok := timed(fn, 0)
				cx.R.Check(ok, rule, funcName(fn), "dispatch via wrapLoad", cx.P.where(in), "doCall/doBulkCall run only inside a closure handed to wrapLoad (every dispatch is timed and counted)")
			}
			// loader methods: invoked inside a closure that flows only into doCall/doBulkCall, or taken as method value passed there
			if name := invokeName(in); name != "" {
				it := namedTypeName(callCommon(in).Value.Type())
				if it == "Loader" || it == "BulkLoader" {
					bad := "invoked outside any closure"
					if fn.Parent() == nil {
						// a named function / method that wraps the loader: it may only be used as a value handed to the sinks
						bad = ""
						uses := 0
						for _, g := range cx.P.ModuleFuncs() {
							allInstrs(g, func(x ssa.Instruction) {
								if isCallTo(x, fn) {
									bad = "called directly from " + funcName(g)
									uses++
								}
								if mc, ok := x.(*ssa.MakeClosure); ok {
									if bm := boundMethod(mc); bm != nil && origin(bm) == origin(fn) {
										uses++
										if b := flowsOnlyTo(mc, sinks, outermost(g), map[ssa.Value]bool{}); b != "" {
											bad = b
										}
									}
								}
							})
						}
						if uses == 0 {
							bad = "never handed to a dispatch"
						}
					}
					if fn.Parent() != nil {
						bad = ""
						allInstrs(fn.Parent(), func(x ssa.Instruction) {
							if mc, ok := x.(*ssa.MakeClosure); ok && mc.Fn == ssa.Value(fn) {
								if b := flowsOnlyTo(mc, sinks, outermost(fn), map[ssa.Value]bool{}); b != "" {
									bad = b
								}
							}
						})
					}
					cx.R.Check(bad == "", rule, funcName(fn), "loader invocation "+it+"."+name, cx.P.where(in), "a closure that invokes the loader is used only as the load argument of doCall/doBulkCall "+bad)
				}
			}
			if mc, ok := in.(*ssa.MakeClosure); ok {
				if f, ok := mc.Fn.(*ssa.Function); ok && strings.HasSuffix(f.Name(), "$bound") && len(mc.Bindings) == 1 {
					it := namedTypeName(mc.Bindings[0].Type())
					if it == "Loader" || it == "BulkLoader" {
						bad := flowsOnlyTo(mc, sinks, outermost(fn), map[ssa.Value]bool{})
						cx.R.Check(bad == "", rule, funcName(fn), "loader method value "+f.Name(), cx.P.where(in), "a loader method value is used only as the load argument of doCall/doBulkCall "+bad)
					}
				}
			}
		})
	}
}

// loadRecorder: when the timing wrapper around a dispatch was split into a start / finish pair, the finishing half: the
// single method of cache that records load success / failure and takes the dispatch's error as a parameter.
func loadRecorder(cx *Ctx) *ssa.Function {
	var out []*ssa.Function
	for _, fn := range cx.P.FuncsOfPkg("") {
		if fn.Parent() != nil || fn.Signature.Recv() == nil || namedTypeName(derefType(fn.Signature.Recv().Type())) != "cache" {
			continue
		}
		rec := false
		allInstrs(fn, func(in ssa.Instruction) {
			if n := invokeName(in); n == "RecordLoadSuccess" || n == "RecordLoadFailure" {
				rec = true
			}
		})
		hasErr := false
		for _, p := range fn.Params {
			if p.Type().String() == "error" {
				hasErr = true
			}
		}
		if rec && hasErr {
			out = append(out, fn)
		}
	}
	if len(out) == 1 {
		return out[0]
	}
	return nil
}

// ruleC20LoadSplit: C20.load (and C10.wrapload) for the split form: startTime := c.startLoad(); err := dispatch(...);
// err = c.finishLoad(startTime, err).
func ruleC20LoadSplit(cx *Ctx, rule string, rec *ssa.Function) {
	name := funcName(rec)
	var errP *ssa.Parameter
	for _, p := range rec.Params {
		if p.Type().String() == "error" {
			errP = p
		}
	}
	ps := newPathSum(cx)
	outs := ps.Run(rec, nil)
	a := newAgg(cx, rule, name, cx.P.Pos(rec.Pos()))
	res := "param:" + pname(errP)
	for _, o := range outs {
		if o.Cut {
			continue
		}
		succ, fail := 0, 0
		for _, e := range allEvents(o, "Stat") {
			switch e.Args[0] {
			case "RecordLoadSuccess":
				succ++
			case "RecordLoadFailure":
				fail++
			}
		}
		kind := "return"
		if o.Panic {
			kind = "re-panic"
		}
		a.check(kind+": one load record", succ+fail == 1, "exactly one load outcome is recorded per dispatch", fmt.Sprintf("%d success, %d failure", succ, fail), o)
		errNil, ek := predOf(o, "IsNil("+res+")")
		nf, nfk := predOf(o, "IsNotFound("+res+")")
		if ek && errNil || (nfk && nf) {
			a.check("nil/not-found error: success", succ == 1, "no error or ErrNotFound counts as a successful load", fmt.Sprintf("%d success, %d failure", succ, fail), o)
		} else if ek && !errNil && nfk && !nf {
			a.check("other error: failure", fail == 1, "any other error counts as a failed load", fmt.Sprintf("%d success, %d failure", succ, fail), o)
		}
		if !o.Panic && len(o.Rets) == 1 {
			okRet := o.Rets[0] == res || (o.Rets[0] == "nil" && ek && errNil)
			a.check("returns the dispatch's error", okRet, "the finishing half returns the error it was given unchanged", o.Rets[0], o)
		}
	}
	a.flush()
	doCall := cx.need(rule, "", "group", "doCall")
	doBulk := cx.need(rule, "", "group", "doBulkCall")
	if doCall == nil || doBulk == nil {
		return
	}
	for _, d := range []*ssa.Function{doCall, doBulk} {
		dr := cx.runOp(rule, opSpec{cname(d), "group", cname(d), nil, cname(d), nil})
		if dr == nil {
			continue
		}
		da := newAgg(cx, rule, funcName(d), cx.P.Pos(d.Pos()))
		loadParam := pname(bparam(d, 3))
		for _, o := range dr.outs {
			if o.Cut {
				continue
			}
			n := 0
			for _, e := range allEvents(o, "UserCall") {
				if e.Args[0] == loadParam {
					n++
				}
			}
			da.check("loader invoked exactly once", n == 1, "every path of the dispatch function calls the load function exactly once (one recorded load = one loader invocation)", fmt.Sprintf("%d invocation(s)", n), o)
		}
		da.flush()
	}
	// every dispatch is followed, on every returning path, by exactly one call of the recorder with the dispatch's error
	errIdx := -1
	for i, p := range rec.Params {
		if p == errP {
			errIdx = i
		}
	}
	nd := 0
	for _, fn := range cx.P.FuncsOfPkg("") {
		fn := fn
		allInstrs(fn, func(in ssa.Instruction) {
			if !(isCallTo(in, doCall) || isCallTo(in, doBulk)) {
				return
			}
			nd++
			dv, _ := in.(ssa.Value)
			isRec := func(x ssa.Instruction) int {
				if isCallTo(x, rec) {
					if cc := callCommon(x); errIdx < len(cc.Args) && cc.Args[errIdx] == dv {
						return 1
					}
				}
				return 0
			}
			pt := ptOf(in)
			pt.I++
			ok, n := true, 0
			var wit []string
			for _, ex := range CountOnPaths(fn, pt, isRec, nil) {
				if _, isRet := ex.Exit.(*ssa.Return); !isRet {
					continue
				}
				n++
				if ex.Count != 1 {
					ok, wit = false, ex.Witness
				}
			}
			cx.R.Check(ok && n > 0, rule, funcName(fn), fmt.Sprintf("dispatch #%d recorded once", nd), cx.P.where(in), "after a dispatch every returning path records its outcome exactly once, with the dispatch's error (every dispatch is timed and counted)", wit...)
		})
	}
	cx.R.Check(nd >= 3, rule, "cache", "dispatch sites found", "-", fmt.Sprintf("%d", nd))
}

package main

import (
	"fmt"
	"go/token"
	"go/types"
	"sort"
	"strings"

	"golang.org/x/tools/go/ssa"
)

func init() {
	register("C18",
		"Decides the structural facts the no-under-count argument and the admission rule rest on: sketch.increment and sketch.frequency address the same four (word, nibble) counters as functions of (block, counterHash) - compared as normalised expressions for i = 0..3; the block offset is (hash & blockMask) << 3 with blockMask = len(table)/8 - 1 and a power-of-two table of at least 8 words; "+
			"a nibble is incremented only when it is not already 15 and by exactly 1 in its own position; frequency masks each counter to 4 bits and takes the minimum; reset halves every word with the 0x7777.. mask over the whole table; before initialisation frequency returns 0 and increment touches nothing; "+
			"admit returns true only for a strictly greater candidate estimate or, for a candidate estimate >= 6, on the 1/128 random draw, with candidate/victim bound to the right arguments at its call site. "+
			"NOT decided: the no-under-count theorem as arithmetic over all hash values (it follows informally from index agreement + saturation).",
		[]string{"uint64 arithmetic as defined by the Go spec", "hash/rehash are pure functions of the key"},
		ruleC18Index, ruleC18Block, ruleC18Sat, ruleC18Reset, ruleC18Uninit, ruleC18Admit, ruleC18Hash, ruleC18Decided, ruleC18Record, rulePolicy, ruleC18Handoff, ruleXMath)
}

// inductionRange: phi is i = phi(c0, i+1) bounded by i < n; returns c0, n.
func inductionRange(ph *ssa.Phi) (uint64, uint64, bool) {
	init, bound, ok := loopInduction(ph)
	if !ok {
		return 0, 0, false
	}
	c0, ok1 := constUint(init)
	n, ok2 := constUint(bound)
	return c0, n, ok1 && ok2
}

func collectPhis(v ssa.Value, seen map[ssa.Value]bool, out *[]*ssa.Phi) {
	if seen[v] {
		return
	}
	seen[v] = true
	switch x := v.(type) {
	case *ssa.Phi:
		*out = append(*out, x)
	case *ssa.BinOp:
		collectPhis(x.X, seen, out)
		collectPhis(x.Y, seen, out)
	case *ssa.UnOp:
		collectPhis(x.X, seen, out)
	case *ssa.Convert:
		collectPhis(x.X, seen, out)
	case *ssa.IndexAddr:
		collectPhis(x.Index, seen, out)
	case *ssa.Extract:
		collectPhis(x.Tuple, seen, out)
	case *ssa.Call:
		// arguments of a (pure helper) call the value is computed by
		for _, a := range x.Call.Args {
			collectPhis(a, seen, out)
		}
	}
}

func ruleC18Index(cx *Ctx) {
	const rule = "C18.index"
	cx.R.Rule(rule, 1, "increment and frequency use the same four (slot, nibble-shift) pairs as normalised functions of (block, counterHash)")
	freq := cx.need(rule, "", "sketch", "frequency")
	inc := cx.need(rule, "", "sketch", "increment")
	incAt := cx.need(rule, "", "sketch", "incrementAt")
	tableF := cx.needField(rule, "", "sketch", "table")
	if freq == nil || inc == nil || incAt == nil || tableF == nil {
		return
	}
	// frequency side
	var fpairs []string
	var fdesc []string
	allInstrs(freq, func(in ssa.Instruction) {
		ia, ok := in.(*ssa.IndexAddr)
		if !ok || !sameField(fieldOf(ia.X), tableF) {
			return
		}
		for _, u := range usesOf(ia) {
			ld, ok := u.(*ssa.UnOp)
			if !ok || ld.Op != token.MUL {
				cx.R.Violate(rule, funcName(freq), "table write", cx.P.where(u), "frequency writes to the counter table")
				continue
			}
			for _, w := range usesOf(ld) {
				sh, ok := w.(*ssa.BinOp)
				if !ok || sh.Op != token.SHR || sh.X != ssa.Value(ld) {
					cx.R.Undecided(rule, funcName(freq), "counter read shape", cx.P.where(w), "counter word is not read as word >> shift")
					continue
				}
				var phis []*ssa.Phi
				seen := map[ssa.Value]bool{}
				collectPhis(ia.Index, seen, &phis)
				collectPhis(sh.Y, seen, &phis)
				if len(phis) == 0 {
					tb := newInliningTermBuilder()
					fpairs = append(fpairs, tb.of(ia.Index).String()+" @ "+tb.of(sh.Y).String())
					continue
				}
				if len(phis) != 1 {
					cx.R.Undecided(rule, funcName(freq), "induction", cx.P.where(in), "more than one loop variable in the counter address")
					continue
				}
				lo, hi, ok := inductionRange(phis[0])
				if !ok {
					cx.R.Undecided(rule, funcName(freq), "induction", cx.P.where(in), "loop variable is not i = c0; i < n; i++")
					continue
				}
				for i := lo; i < hi; i++ {
					tb := newInliningTermBuilder()
					tb.subst[phis[0]] = tConst(i)
					fpairs = append(fpairs, tb.of(ia.Index).String()+" @ "+tb.of(sh.Y).String())
				}
				fdesc = append(fdesc, fmt.Sprintf("loop i=%d..%d", lo, hi-1))
			}
		}
	})
	// increment side
	var ipairs []string
	allInstrs(inc, func(in ssa.Instruction) {
		if !isCallTo(in, incAt) {
			return
		}
		// the (slot, bit offset) the callee updates, with this call's arguments substituted for its parameters
		cc := callCommon(in)
		callee := newInliningTermBuilder()
		for i, p := range origin(incAt).Params {
			if i < len(cc.Args) {
				callee.subst[p] = newInliningTermBuilder().of(cc.Args[i])
			}
		}
		done := false
		allInstrs(origin(incAt), func(x ssa.Instruction) {
			st, ok := x.(*ssa.Store)
			if !ok || done {
				return
			}
			ia, isIA := st.Addr.(*ssa.IndexAddr)
			if !isIA || !sameField(fieldOf(ia.X), tableF) {
				return
			}
			plain := newInliningTermBuilder()
			valT := plain.of(st.Val)
			wordS := mk("index", mk("field:table", tVar("param0")), plain.of(ia.Index)).String()
			if valT.Op == "+" && len(valT.Args) == 2 {
				for i, a := range valT.Args {
					if a.Op == "<<" && len(a.Args) == 2 && a.Args[0].isConst() && a.Args[0].C == 1 && valT.Args[1-i].String() == wordS {
						// re-evaluate index and shift with the arguments substituted
						var sh ssa.Value
						if b, isB := st.Val.(*ssa.BinOp); isB {
							for _, side := range []ssa.Value{b.X, b.Y} {
								if shl, isShl := side.(*ssa.BinOp); isShl && shl.Op == token.SHL {
									sh = shl.Y
								}
							}
						}
						if sh != nil {
							ipairs = append(ipairs, callee.of(ia.Index).String()+" @ "+callee.of(sh).String())
							done = true
						}
					}
				}
			}
		})
	})
	sort.Strings(fpairs)
	sort.Strings(ipairs)
	cx.R.Check(len(fpairs) == 4, rule, funcName(freq), "four counters read", cx.P.Pos(freq.Pos()), fmt.Sprintf("frequency reads 4 counters (found %d; %s)", len(fpairs), strings.Join(fdesc, ";")))
	cx.R.Check(len(ipairs) == 4, rule, funcName(inc), "four counters incremented", cx.P.Pos(inc.Pos()), fmt.Sprintf("increment updates 4 counters (found %d)", len(ipairs)))
	// ... each of them on every recording: no counter update is skipped because another one succeeded (a short-circuit
	// `added || incrementAt(...)` would leave later counters behind, and the minimum would under-count)
	{
		var calls []ssa.Instruction
		allInstrs(inc, func(in ssa.Instruction) {
			if incAt != nil && isCallTo(in, incAt) {
				calls = append(calls, in)
			}
		})
		okAll := len(calls) > 0
		for _, c := range calls {
			for _, g := range guardsAt(c.Block()) {
				// the only admissible guard is the initialisation test
				gc, isCall := g.Cond.(*ssa.Call)
				if isCall && gc.Call.StaticCallee() != nil && (origin(gc.Call.StaticCallee()).Name() == "isNotInitialized" || origin(gc.Call.StaticCallee()).Name() == "Load") {
					continue
				}
				if u, isU := g.Cond.(*ssa.UnOp); isU {
					if _, isCall2 := u.X.(*ssa.Call); isCall2 {
						continue
					}
				}
				okAll = false
			}
		}
		cx.R.Check(okAll, rule, funcName(inc), "every counter updated on every recording", cx.P.Pos(inc.Pos()), "the four incrementAt calls are conditional on nothing but the initialisation test")
	}
	for i := 0; i < len(fpairs) && i < len(ipairs); i++ {
		cx.R.Check(fpairs[i] == ipairs[i], rule, "sketch", fmt.Sprintf("counter %d agreement", i), cx.P.Pos(inc.Pos()),
			"same (slot @ nibble shift) in both: frequency "+fpairs[i]+" | increment "+ipairs[i])
	}
	// incrementAt interprets its second argument as nibble index: shift = j << 2 (checked in C18.sat) and addresses table[i]
	ok := false
	allInstrs(incAt, func(in ssa.Instruction) {
		if ia, isIA := in.(*ssa.IndexAddr); isIA && sameField(fieldOf(ia.X), tableF) {
			if _, isP := ia.Index.(*ssa.Parameter); isP {
				ok = true
			}
		}
	})
	cx.R.Check(ok, rule, funcName(incAt), "slot operand", cx.P.Pos(incAt.Pos()), "incrementAt(i, j) addresses table[i]")
}

func ruleC18Block(cx *Ctx) {
	const rule = "C18.block"
	cx.R.Rule(rule, 1, "block = (hash(k) & blockMask) << 3 in both functions; blockMask = len(table)>>3 - 1 set together with a table whose length is a power of two >= 8")
	freq := cx.need(rule, "", "sketch", "frequency")
	inc := cx.need(rule, "", "sketch", "increment")
	ens := cx.need(rule, "", "sketch", "ensureCapacity")
	bm := cx.needField(rule, "", "sketch", "blockMask")
	tableF := cx.needField(rule, "", "sketch", "table")
	if freq == nil || inc == nil || ens == nil || bm == nil || tableF == nil {
		return
	}
	// the block offset is (h & blockMask) * 8 for a value h derived from the key; it may be computed in the function
	// itself or in a straight-line helper it calls (a probe / locator type)
	isBlock := func(t *Term) bool {
		if t.Op != "*" || len(t.Args) != 2 {
			return false
		}
		for i := 0; i < 2; i++ {
			if !(t.Args[i].isConst() && t.Args[i].C == 8) {
				continue
			}
			m := t.Args[1-i]
			if m.Op != "&" || len(m.Args) != 2 {
				continue
			}
			for j := 0; j < 2; j++ {
				if strings.HasPrefix(m.Args[j].String(), "field:blockMask(") && strings.Contains(strings.ToLower(m.Args[1-j].String()), "hash") {
					return true
				}
			}
		}
		return false
	}
	for _, fn := range []*ssa.Function{freq, inc} {
		found := false
		seen := map[*ssa.Function]bool{}
		var scan func(f *ssa.Function, depth int)
		scan = func(f *ssa.Function, depth int) {
			if f == nil || seen[f] || depth > 2 {
				return
			}
			seen[f] = true
			allInstrs(f, func(in ssa.Instruction) {
				if b, ok := in.(*ssa.BinOp); ok && (b.Op == token.SHL || b.Op == token.MUL) && isBlock(newInliningTermBuilder().of(b)) {
					found = true
				}
				if c := calleeOf(in); c != nil && c.Pkg != nil && c.Pkg.Pkg.Path() == modPath && len(origin(c).Blocks) == 1 {
					scan(origin(c), depth+1)
				}
			})
		}
		scan(fn, 0)
		cx.R.Check(found, rule, funcName(fn), "block term", cx.P.Pos(fn.Pos()), "block offset is (hash(k) & blockMask) * 8")
	}
	// ensureCapacity
	name := funcName(ens)
	var tableStore, maskStore *ssa.Store
	allInstrs(ens, func(in ssa.Instruction) {
		if st, ok := in.(*ssa.Store); ok {
			if sameField(fieldOf(st.Addr), tableF) {
				tableStore = st
			}
			if sameField(fieldOf(st.Addr), bm) {
				maskStore = st
			}
		}
	})
	if tableStore == nil || maskStore == nil {
		cx.R.Violate(rule, name, "stores", cx.P.Pos(ens.Pos()), "ensureCapacity no longer sets table and blockMask")
		return
	}
	got := newInliningTermBuilder().of(maskStore.Val).String()
	wantMask := mk("-", mk(">>", mk("builtin:len", mk("field:table", tVar("param0"))), tConst(3)), tConst(1)).String()
	if got != wantMask {
		// the length the table was just made with, instead of len(table) read back: the same number
		if mkS, ok := tableStore.Val.(*ssa.MakeSlice); ok {
			tb := newInliningTermBuilder()
			tb.subst[mkS.Len] = tVar("L")
			if tb.of(maskStore.Val).String() == mk("-", mk(">>", tVar("L"), tConst(3)), tConst(1)).String() {
				got = wantMask
			}
		}
	}
	cx.R.Check(got == wantMask && instrDominates(tableStore, maskStore), rule, name, "blockMask", cx.P.where(maskStore),
		"blockMask = len(table)>>3 - 1 computed after the table was replaced (got "+got+")")
	// table length: power of two, >= 8
	okLen := false
	if mkS, ok := tableStore.Val.(*ssa.MakeSlice); ok {
		if ph, ok := mkS.Len.(*ssa.Phi); ok {
			pow2, floor8 := false, false
			for i, e := range ph.Edges {
				if c, ok := e.(*ssa.Call); ok && c.Call.StaticCallee() != nil && strings.HasPrefix(c.Call.StaticCallee().Name(), "RoundUpPowerOf2") {
					pow2 = true
				}
				if k, ok := constUint(e); ok && k == 8 {
					for _, g := range guardsOnEdge(ph.Block().Preds[i], ph.Block()) {
						if b, ok := g.Cond.(*ssa.BinOp); ok && b.Op == token.LSS && g.Truth {
							if k2, ok := constUint(b.Y); ok && k2 == 8 {
								floor8 = true
							}
						}
					}
				}
			}
			okLen = pow2 && floor8
		} else if c, ok := mkS.Len.(*ssa.Call); ok && isBuiltinCall(c, "max") {
			okLen = true
		}
	}
	cx.R.Check(okLen, rule, name, "table length", cx.P.where(tableStore), "table length is RoundUpPowerOf2(maximum) raised to at least 8 (8 words per block)")
}

func ruleC18Sat(cx *Ctx) {
	const rule = "C18.sat"
	cx.R.Rule(rule, 1, "incrementAt adds 1<<(j<<2) to table[i] only on the edge where (table[i] & (0xf<<(j<<2))) != that mask (4-bit saturation), and frequency masks each counter with 0xf")
	incAt := cx.need(rule, "", "sketch", "incrementAt")
	freq := cx.need(rule, "", "sketch", "frequency")
	tableF := cx.needField(rule, "", "sketch", "table")
	if incAt == nil || freq == nil || tableF == nil {
		return
	}
	name := funcName(incAt)
	n := 0
	allInstrs(incAt, func(in ssa.Instruction) {
		st, ok := in.(*ssa.Store)
		if !ok {
			return
		}
		ia, isIA := st.Addr.(*ssa.IndexAddr)
		if !isIA || !sameField(fieldOf(ia.X), tableF) {
			return
		}
		n++
		tb := newInliningTermBuilder()
		valT := tb.of(st.Val)
		val := valT.String()
		// table[i] += 1 << S for the counter's bit offset S - j<<2 computed here, or handed in by the caller (C18.index
		// ties S, with the callers' arguments substituted, to the shift frequency reads the same counter with)
		wordT := mk("index", mk("field:table", tVar("param0")), newInliningTermBuilder().of(ia.Index))
		var shiftT *Term
		if valT.Op == "+" && len(valT.Args) == 2 {
			for i, a := range valT.Args {
				if a.Op == "<<" && len(a.Args) == 2 && a.Args[0].isConst() && a.Args[0].C == 1 && valT.Args[1-i].String() == wordT.String() {
					shiftT = a.Args[1]
				}
			}
		}
		_, idxIsParam := ia.Index.(*ssa.Parameter)
		cx.R.Check(shiftT != nil && idxIsParam, rule, name, "increment value", cx.P.where(st), "table[i] += 1 << (bit offset of the counter) (got "+val+")")
		if shiftT == nil {
			shiftT = mk("<<", tVar("param2"), tConst(2))
		}
		guarded := false
		for _, g := range guardsAt(st.Block()) {
			b, ok := g.Cond.(*ssa.BinOp)
			if !ok {
				continue
			}
			l, r := newInliningTermBuilder().of(b.X).String(), newInliningTermBuilder().of(b.Y).String()
			mask := mk("<<", tConst(15), shiftT).String()
			word := mk("&", mk("<<", tConst(15), shiftT), wordT).String()
			if l > r {
				l, r = r, l
			}
			w1, w2 := word, mask
			if w1 > w2 {
				w1, w2 = w2, w1
			}
			if l == w1 && r == w2 && ((b.Op == token.NEQ && g.Truth) || (b.Op == token.EQL && !g.Truth)) {
				guarded = true
			}
		}
		cx.R.Check(guarded, rule, name, "saturation guard", cx.P.where(st), "the add happens only when the nibble is not already 15")
		// result true only after the store
		allInstrs(incAt, func(x ssa.Instruction) {
			if ret, ok := x.(*ssa.Return); ok {
				if b, ok := constBool(ret.Results[0]); ok && b {
					cx.R.Check(instrDominates(st, ret), rule, name, "added=true", cx.P.where(ret), "incrementAt reports 'added' only when it incremented")
				}
			}
		})
	})
	if n != 1 {
		cx.R.Violate(rule, name, "stores", cx.P.Pos(incAt.Pos()), fmt.Sprintf("expected one table store in incrementAt, found %d", n))
	}
	// frequency: counts masked with 0xf before min
	masked := 0
	allInstrs(freq, func(in ssa.Instruction) {
		if c, ok := in.(*ssa.Call); ok && isBuiltinCall(c, "min") {
			for _, a := range c.Call.Args {
				// normal form: x & 15 (x % 16 on unsigned values normalises to the same term)
				t := newInliningTermBuilder().of(a)
				if t.Op == "&" && len(t.Args) == 2 {
					for i := 0; i < 2; i++ {
						if t.Args[i].isConst() && t.Args[i].C == 15 {
							masked++
						}
					}
				}
			}
		}
	})
	if masked == 0 {
		// the minimum written out (if count < frequency { frequency = count }): the value returned is a phi over the
		// initial maximum and masked counters
		allInstrs(freq, func(in ssa.Instruction) {
			ret, ok := in.(*ssa.Return)
			if !ok || len(ret.Results) != 1 {
				return
			}
			var phis []*ssa.Phi
			seenPhi := map[*ssa.Phi]bool{}
			var grow func(v ssa.Value)
			grow = func(v ssa.Value) {
				if ph, isPhi := v.(*ssa.Phi); isPhi && !seenPhi[ph] {
					seenPhi[ph] = true
					phis = append(phis, ph)
					for _, e := range ph.Edges {
						grow(e)
					}
				}
			}
			grow(ret.Results[0])
			all, n := true, 0
			for _, ph := range phis {
				for _, e := range ph.Edges {
					if _, isPhi := e.(*ssa.Phi); isPhi {
						continue
					}
					if _, isC := constUint(e); isC {
						continue
					}
					t := newInliningTermBuilder().of(e)
					okE := false
					if t.Op == "&" && len(t.Args) == 2 {
						for i := 0; i < 2; i++ {
							if t.Args[i].isConst() && t.Args[i].C == 15 {
								okE = true
							}
						}
					}
					if okE {
						n++
					} else {
						all = false
					}
				}
			}
			if all && n > 0 {
				masked = n
			}
		})
	}
	cx.R.Check(masked >= 1, rule, funcName(freq), "4-bit mask", cx.P.Pos(freq.Pos()), "each counter is masked to 4 bits before the minimum is taken (estimate <= 15)")
}

func ruleC18Reset(cx *Ctx) {
	const rule = "C18.reset"
	cx.R.Rule(rule, 1, "reset stores (w >> 1) & 0x7777777777777777 into every word of the table and halves size after subtracting the odd counters")
	fn := cx.need(rule, "", "sketch", "reset")
	tableF := cx.needField(rule, "", "sketch", "table")
	sizeF := cx.needField(rule, "", "sketch", "size")
	if fn == nil || tableF == nil || sizeF == nil {
		return
	}
	name := funcName(fn)
	n := 0
	allInstrs(fn, func(in ssa.Instruction) {
		st, ok := in.(*ssa.Store)
		if !ok {
			return
		}
		if ia, isIA := st.Addr.(*ssa.IndexAddr); isIA && (sameField(fieldOf(ia.X), tableF) || tableBlock(ia.X, tableF) != nil) {
			n++
			// the stored value is a function of the word it replaces: loads of the very same element are "w"
			tb := newInliningTermBuilder()
			allInstrs(fn, func(in2 ssa.Instruction) {
				if ld, isLd := in2.(*ssa.UnOp); isLd && ld.Op == token.MUL {
					if ia2, ok2 := ld.X.(*ssa.IndexAddr); ok2 && ia2.Index == ia.Index && (ia2.X == ia.X || newInliningTermBuilder().of(ia2.X).String() == newInliningTermBuilder().of(ia.X).String()) {
						tb.subst[ld] = tVar("w")
					}
				}
			})
			got := tb.of(st.Val).String()
			wantT := mk("&", mk(">>", tVar("w"), tConst(1)), tConst(0x7777777777777777)).String()
			cx.R.Check(got == wantT, rule, name, "halving", cx.P.where(st), "table[i] = (table[i] >> 1) & 0x7777777777777777 (got "+got+")")
			_, first, bound, isInd := indexInduction(ia.Index)
			full, how := false, ""
			if sl := tableBlock(ia.X, tableF); sl == nil {
				full = isInd && first == 0 && newInliningTermBuilder().of(bound).String() == "builtin:len(field:table(param0))"
			} else {
				// block-wise walk: the inner index covers the block table[lo:hi], the outer one steps lo by the block
				// length from 0 while a whole block is left; the block length divides the table length (a power of two
				// >= 8, C18.block) when it is 1, 2, 4 or 8
				inner := isInd && first == 0 && (isLenOf(bound, sl) || sameDiff(bound, sl))
				lo, hi := sl.Low, sl.High
				step, okStep := blockStep(lo, hi)
				outer := false
				if ph, isPhi := lo.(*ssa.Phi); isPhi && okStep && (step == 1 || step == 2 || step == 4 || step == 8) {
					zero, inc := false, false
					for _, e := range ph.Edges {
						if k, isK := constInt(e); isK && k == 0 {
							zero = true
						} else if isAddConst(e, ph, step) {
							inc = true
						}
					}
					// exit test: lo < len(table)  or  lo+step <= len(table)
					cond := false
					for _, cand := range append(usesOf(ph), usesOfAll(addsOf(ph, step))...) {
						b, isB := cand.(*ssa.BinOp)
						if !isB || newInliningTermBuilder().of(b.Y).String() != "builtin:len(field:table(param0))" {
							continue
						}
						if b.Op == token.LSS && b.X == ssa.Value(ph) {
							cond = true
						}
						if b.Op == token.LEQ && isAddConst(b.X, ph, step) {
							cond = true
						}
					}
					outer = zero && inc && cond
					if !cond {
						how = " (the block loop must run while lo < len(table) or lo+step <= len(table))"
					}
				}
				full = inner && outer
			}
			cx.R.Check(full, rule, name, "whole table", cx.P.where(st), "the halving loop runs over i = 0 .. len(table)-1"+how)
		}
		if sameField(fieldOf(st.Addr), sizeF) {
			got := newInliningTermBuilder().of(st.Val).String()
			okSize := strings.HasPrefix(got, ">>(-(field:size(param0),>>(") && strings.HasSuffix(got, ",2)),1)")
			if t := newInliningTermBuilder().of(st.Val); t.Op == ">>" && len(t.Args) == 2 && t.Args[1].isConst() && t.Args[1].C == 1 && t.Args[0].Op == "-" && t.Args[0].Args[0].String() == "field:size(param0)" {
				okSize = true
			}
			cx.R.Check(okSize, rule, name, "size", cx.P.where(st), "size = (size - oddCounters/4) >> 1 (got "+got+")")
		}
	})
	if n == 0 {
		cx.R.Violate(rule, name, "table store", cx.P.Pos(fn.Pos()), "reset no longer rewrites the table words")
	}
	// oneMask
	okOne := false
	allInstrs(fn, func(in ssa.Instruction) {
		if b, ok := in.(*ssa.BinOp); ok && b.Op == token.AND {
			if k, ok := constUint(b.Y); ok && k == 0x1111111111111111 {
				okOne = true
			}
		}
	})
	cx.R.Check(okOne, rule, name, "odd counter mask", cx.P.Pos(fn.Pos()), "odd counters are counted with the 0x1111111111111111 mask")
	// reset is triggered when size reaches sampleSize
	inc := cx.P.Func("", "sketch", "increment")
	if inc != nil {
		ok := false
		allInstrs(inc, func(in ssa.Instruction) {
			if isCallTo(in, fn) {
				for _, g := range guardsAt(in.Block()) {
					if b, ok2 := g.Cond.(*ssa.BinOp); ok2 && b.Op == token.EQL && g.Truth {
						s := newInliningTermBuilder().of(b).String()
						if strings.Contains(s, "field:sampleSize") {
							ok = true
						}
					}
				}
			}
		})
		cx.R.Check(ok, rule, funcName(inc), "aging trigger", cx.P.Pos(inc.Pos()), "aging runs exactly when size reaches sampleSize")
	}
}

func ruleC18Uninit(cx *Ctx) {
	const rule = "C18.uninit"
	cx.R.Rule(rule, 1, "before initialisation frequency returns 0 and increment touches no counter")
	freq := cx.need(rule, "", "sketch", "frequency")
	inc := cx.need(rule, "", "sketch", "increment")
	ini := cx.need(rule, "", "sketch", "isNotInitialized")
	tableF := cx.needField(rule, "", "sketch", "table")
	incAt := cx.P.Func("", "sketch", "incrementAt")
	if freq == nil || inc == nil || ini == nil || tableF == nil {
		return
	}
	for _, fn := range []*ssa.Function{freq, inc} {
		name := funcName(fn)
		var chk *ssa.Call
		allInstrs(fn, func(in ssa.Instruction) {
			if c, ok := in.(*ssa.Call); ok && isCallTo(c, ini) {
				chk = c
			}
		})
		if chk == nil {
			cx.R.Violate(rule, name, "init test", cx.P.Pos(fn.Pos()), "no isNotInitialized() test")
			continue
		}
		guarded := func(in ssa.Instruction) bool {
			for _, g := range guardsAt(in.Block()) {
				if g.Cond == ssa.Value(chk) && !g.Truth {
					return true
				}
			}
			return false
		}
		n := 0
		allInstrs(fn, func(in ssa.Instruction) {
			touch := false
			if ia, ok := in.(*ssa.IndexAddr); ok && sameField(fieldOf(ia.X), tableF) {
				touch = true
			}
			if incAt != nil && isCallTo(in, incAt) {
				touch = true
			}
			if touch {
				n++
				cx.R.Check(guarded(in), rule, name, fmt.Sprintf("table access#%d", n), cx.P.where(in), "counters are touched only when the sketch is initialised")
			}
		})
		// the uninitialised edge returns (0 for frequency)
		for _, i := range ifsOn(chk) {
			succ := i.If.Block().Succs[i.TrueIdx]
			ret, isRet := succ.Instrs[len(succ.Instrs)-1].(*ssa.Return)
			ok := isRet
			if ok && len(ret.Results) == 1 {
				c, isC := constUint(ret.Results[0])
				ok = isC && c == 0
			}
			cx.R.Check(ok, rule, name, "uninitialised edge", cx.P.where(chk), "uninitialised: return immediately (estimate 0)")
		}
	}
	// ensureCapacity path by path: the table is kept (nothing reset) exactly when it is already large enough, and a
	// replaced table always leaves the sketch enabled
	if ens := cx.P.Func("", "sketch", "ensureCapacity"); ens != nil {
		flagF := cx.P.Field("", "sketch", "isInitialized")
		tabF := cx.P.Field("", "sketch", "table")
		paths, okP := enumPaths(ens, 64)
		okKeep, okGrow, nKeep, nGrow := true, true, 0, 0
		witness := ""
		for _, p := range paths {
			if _, isRet := p.Exit.(*ssa.Return); !isRet {
				continue
			}
			large := 0 // +1: len(table) >= maximum known true, -1: known false
			flagOn := false
			for _, c := range p.Conds {
				t := newTermBuilder().of(c.If.Cond)
				if len(t.Args) == 2 {
					l, r, op := t.Args[0].String(), t.Args[1].String(), t.Op
					lenT := mk("builtin:len", mk("field:table", tVar("param0"))).String()
					if r == lenT {
						l, r = r, l
						op = map[string]string{"<": ">", ">": "<", "<=": ">=", ">=": "<="}[op]
					}
					if l == lenT && r == "param1" {
						switch {
						case (op == ">=" && c.Truth) || (op == "<" && !c.Truth):
							large = 1
						case (op == ">=" && !c.Truth) || (op == "<" && c.Truth):
							large = -1
						}
					}
				}
				if cond, neg := stripNot(c.If.Cond); atomicOp(asInstr(cond), flagF, "Load") && c.Truth != neg {
					flagOn = true
				}
			}
			stored := false
			for _, in := range p.instrs() {
				if st, isSt := in.(*ssa.Store); isSt && sameField(fieldOf(st.Addr), tabF) {
					stored = true
				}
				if atomicOp(in, flagF, "Store") {
					if a := callArgs(in); len(a) == 1 {
						if b, isB := constBool(a[0]); isB && b {
							flagOn = true
						}
					}
				}
				// ... or a helper that leaves the flag set (stores true unless it already reads true, never false)
				if c := calleeOf(in); c != nil && c.Pkg != nil && c.Pkg.Pkg.Path() == modPath && len(origin(c).Blocks) > 0 {
					setsTrue, setsOther := false, false
					withClosures(origin(c), func(f *ssa.Function) {
						allInstrs(f, func(x ssa.Instruction) {
							if atomicOp(x, flagF, "Store") {
								if a := callArgs(x); len(a) == 1 {
									if b, isB := constBool(a[0]); isB && b {
										setsTrue = true
										return
									}
								}
								setsOther = true
							}
						})
					})
					if setsTrue && !setsOther {
						okAll := true
						// every path of the helper either stores true or saw the flag already set
						for _, r := range origin(c).Blocks {
							if len(r.Instrs) == 0 {
								continue
							}
							if _, isRet := r.Instrs[len(r.Instrs)-1].(*ssa.Return); !isRet {
								continue
							}
							sat := false
							for _, x := range r.Instrs {
								if atomicOp(x, flagF, "Store") {
									sat = true
								}
							}
							for _, g := range guardsAt(r) {
								if cond, neg := stripNot(g.Cond); atomicOp(asInstr(cond), flagF, "Load") && g.Truth != neg {
									sat = true
								}
							}
							for _, pr := range r.Preds {
								for _, x := range pr.Instrs {
									if atomicOp(x, flagF, "Store") {
										sat = true
									}
								}
							}
							if !sat {
								okAll = false
							}
						}
						if okAll {
							flagOn = true
						}
					}
				}
			}
			switch {
			case large == 1:
				nKeep++
				if stored {
					okKeep, witness = false, cx.P.where(p.Exit)
				}
			case large == -1:
				nGrow++
				if !stored || !flagOn {
					okGrow, witness = false, cx.P.where(p.Exit)
				}
			default:
				okKeep, okGrow, witness = false, false, cx.P.where(p.Exit)
			}
		}
		cx.R.Check(okP && okKeep && nKeep > 0, rule, funcName(ens), "a large enough table is kept", cx.P.Pos(ens.Pos()), "ensureCapacity replaces (and thereby zeroes) the counters only when len(table) < maximumSize: a call that finds the table large enough leaves every estimate alone "+witness)
		cx.R.Check(okP && okGrow && nGrow > 0, rule, funcName(ens), "growth enables the sketch", cx.P.Pos(ens.Pos()), "whenever len(table) < maximumSize the table is replaced and the sketch is marked initialised "+witness)
	}
	// isNotInitialized really reads the flag set by ensureCapacity
	flag := cx.P.Field("", "sketch", "isInitialized")
	ok := false
	allInstrs(ini, func(in ssa.Instruction) {
		if atomicOp(in, flag, "Load") {
			ok = true
		}
	})
	cx.R.Check(ok, rule, funcName(ini), "flag", cx.P.Pos(ini.Pos()), "isNotInitialized reads the isInitialized flag")
}

func derivesFrom(v, root ssa.Value, seen map[ssa.Value]bool) bool {
	if v == root {
		return true
	}
	if seen[v] {
		return false
	}
	seen[v] = true
	switch x := v.(type) {
	case *ssa.Phi:
		for _, e := range x.Edges {
			if derivesFrom(e, root, seen) {
				return true
			}
		}
	case *ssa.Call:
		// x.Next()
		if x.Call.IsInvoke() && x.Call.Method.Name() == "Next" {
			return derivesFrom(x.Call.Value, root, seen)
		}
	}
	return false
}

func ruleC18Admit(cx *Ctx) {
	const rule = "C18.admit"
	cx.R.Rule(rule, 1, "admit returns true only when freq(candidate) > freq(victim), or returns the 1/128 random draw when freq(candidate) >= 6; its call site passes (candidate key, victim key) and evicts the victim exactly on true")
	fn := cx.need(rule, "", "policy", "admit")
	freq := cx.need(rule, "", "sketch", "frequency")
	efm := cx.need(rule, "", "policy", "evictFromMain")
	thr := cx.P.Const("", "admitHashdosThreshold")
	if fn == nil || freq == nil || efm == nil {
		return
	}
	name := funcName(fn)
	var candF, victF *ssa.Call
	allInstrs(fn, func(in ssa.Instruction) {
		if c, ok := in.(*ssa.Call); ok && isCallTo(c, freq) {
			a := callArgs(c)
			if a[0] == ssa.Value(bparam(fn, 1)) {
				candF = c
			}
			if a[0] == ssa.Value(bparam(fn, 2)) {
				victF = c
			}
		}
	})
	if candF == nil || victF == nil {
		cx.R.Violate(rule, name, "estimates", cx.P.Pos(fn.Pos()), "admit no longer reads the estimates of both its arguments")
		return
	}
	threshold := uint64(6)
	if thr != nil {
		if v, ok := constUint(ssa.NewConst(thr.Val(), thr.Type())); ok {
			threshold = v
		}
	}
	isGreater := func(g Guard) (bool, bool) { // (is the cand>vict comparison, its truth)
		b, ok := g.Cond.(*ssa.BinOp)
		if !ok {
			return false, false
		}
		if b.Op == token.GTR && b.X == ssa.Value(candF) && b.Y == ssa.Value(victF) {
			return true, g.Truth
		}
		if b.Op == token.LSS && b.X == ssa.Value(victF) && b.Y == ssa.Value(candF) {
			return true, g.Truth
		}
		if b.Op == token.LEQ && b.X == ssa.Value(candF) && b.Y == ssa.Value(victF) {
			return true, !g.Truth
		}
		return false, false
	}
	n := 0
	// the outcomes of admit: each return, and for a result variable (a merge of several assignments) each way into it
	type outcome struct {
		val ssa.Value
		gs  []Guard
		at  ssa.Instruction
	}
	var outcomes []outcome
	var flatten func(v ssa.Value, gs []Guard, at ssa.Instruction, depth int)
	flatten = func(v ssa.Value, gs []Guard, at ssa.Instruction, depth int) {
		if ph, ok := v.(*ssa.Phi); ok && depth < 3 {
			for i, e := range ph.Edges {
				pred := ph.Block().Preds[i]
				flatten(e, append(append([]Guard{}, guardsAt(pred)...), guardsOnEdge(pred, ph.Block())...), at, depth+1)
			}
			return
		}
		outcomes = append(outcomes, outcome{v, gs, at})
	}
	allInstrs(fn, func(in ssa.Instruction) {
		if ret, ok := in.(*ssa.Return); ok && len(ret.Results) == 1 {
			flatten(ret.Results[0], guardsAt(ret.Block()), ret, 0)
		}
	})
	for _, oc := range outcomes {
		ret := oc.at
		res := oc.val
		n++
		gs := oc.gs
		if b, isC := constBool(res); isC {
			if !b {
				cx.R.OK(rule, name, fmt.Sprintf("return#%d false", n), cx.P.where(ret), "rejecting the candidate is always allowed")
				continue
			}
			ok := false
			for _, g := range gs {
				if is, truth := isGreater(g); is && truth {
					ok = true
				}
			}
			cx.R.Check(ok, rule, name, fmt.Sprintf("return#%d true", n), cx.P.where(ret), "constant true only on freq(candidate) > freq(victim)")
			continue
		}
		// random admission
		got := newInliningTermBuilder().of(res).String()
		shape := strings.HasPrefix(got, "==(&(") && strings.Contains(got, "127") && strings.HasSuffix(got, ",0)")
		warm := false
		for _, g := range gs {
			if b, ok := g.Cond.(*ssa.BinOp); ok && b.X == ssa.Value(candF) {
				if k, ok := constUint(b.Y); ok {
					if (b.Op == token.GEQ && g.Truth && k >= threshold) || (b.Op == token.GTR && g.Truth && k+1 >= threshold) || (b.Op == token.LSS && !g.Truth && k >= threshold) {
						warm = true
					}
				}
			}
		}
		cx.R.Check(shape && warm, rule, name, fmt.Sprintf("return#%d random", n), cx.P.where(ret), fmt.Sprintf("random admission is (rand & 127) == 0 and only for freq(candidate) >= %d (got %s)", threshold, got))
	}
	// call site
	ename := funcName(efm)
	probation := cx.P.Field("", "policy", "probation")
	var victimRoot ssa.Value
	allInstrs(efm, func(in ssa.Instruction) {
		if c, ok := in.(*ssa.Call); ok && c.Call.StaticCallee() != nil && origin(c.Call.StaticCallee()).Name() == "Head" && sameField(recvField(c), probation) && c.Block() == efm.Blocks[0] {
			victimRoot = c
		}
	})
	candRoot := ssa.Value(bparam(efm, 1))
	type t1check struct {
		ok              bool
		key, where, txt string
	}
	var t1 []t1check
	sites := 0
	allInstrs(efm, func(in ssa.Instruction) {
		c, ok := in.(*ssa.Call)
		if !ok || !isCallTo(c, fn) {
			return
		}
		sites++
		a := callArgs(c)
		keyOf := func(v ssa.Value) ssa.Value {
			if k, ok := v.(*ssa.Call); ok && invokeName(k) == "Key" {
				return k.Call.Value
			}
			return nil
		}
		cn, vn := keyOf(a[0]), keyOf(a[1])
		okArgs := cn != nil && vn != nil && victimRoot != nil &&
			derivesFrom(cn, candRoot, map[ssa.Value]bool{}) && !derivesFrom(cn, victimRoot, map[ssa.Value]bool{}) &&
			derivesFrom(vn, victimRoot, map[ssa.Value]bool{}) && !derivesFrom(vn, candRoot, map[ssa.Value]bool{})
		t1 = append(t1, t1check{okArgs, "admit operands", cx.P.where(c), "admit(candidate.Key(), victim.Key()) with candidate from the window side and victim from the probation side"})
		// on true the victim is evicted, on false the candidate
		for _, i := range ifsOn(c) {
			for side := 0; side < 2; side++ {
				blk := i.If.Block().Succs[side]
				var evicted ssa.Value
				for _, x := range blk.Instrs {
					if cc := callCommon(x); cc != nil && !cc.IsInvoke() && cc.Value == ssa.Value(bparam(efm, 2)) {
						evicted = cc.Args[0]
					}
				}
				wantVictim := side == i.TrueIdx
				ok := evicted != nil && ((wantVictim && evicted == vn) || (!wantVictim && evicted == cn))
				what := "candidate"
				if wantVictim {
					what = "victim"
				}
				t1 = append(t1, t1check{ok, "admit=" + fmt.Sprint(wantVictim) + " evicts " + what, cx.P.where(c), "the entry with the lower estimate is the one evicted"})
			}
		}
	})
	allOK := sites > 0
	for _, c := range t1 {
		allOK = allOK && c.ok
	}
	if allOK {
		for _, c := range t1 {
			cx.R.Check(true, rule, ename, c.key, c.where, c.txt)
		}
		return
	}
	sites = 0
	if sites == 0 {
		// the admission step may live in a helper (evict the loser, advance both cursors): decide it on the path summaries
		admitPathTier(cx, rule, efm)
	}
}

// admitPathTier: on every enumerated path of evictFromMain each admission decision admit(Key(C), Key(V)) is followed by
// the eviction of V when it returned true and of C when it returned false; C comes from the candidate side (the
// candidate parameter or the window's head), V from the victim side, and they are different nodes.
func admitPathTier(cx *Ctx, rule string, efm *ssa.Function) {
	ename := funcName(efm)
	r := cx.runOp(rule, opSpec{"evictFromMain", "policy", "evictFromMain", nil, "admitflow", nil})
	if r == nil {
		return
	}
	a := newAgg(cx, rule, ename, cx.P.Pos(efm.Pos()))
	decisions := 0
	for _, o := range r.outs {
		heads := map[string]string{} // result of Head -> queue
		for _, e := range o.S.trace {
			if q, _, ok := dequeCall(e, "Head"); ok && e.Res != "" {
				heads[e.Res] = q
			}
		}
		root := func(t string) string {
			for strings.HasPrefix(t, "Next(") && strings.HasSuffix(t, ")") {
				t = t[len("Next(") : len(t)-1]
			}
			return t
		}
		for i, e := range o.S.trace {
			if e.Kind != "Admit" || len(e.Args) != 2 || e.Res == "" {
				continue
			}
			cand, vict := strings.TrimSuffix(strings.TrimPrefix(e.Args[0], "Key("), ")"), strings.TrimSuffix(strings.TrimPrefix(e.Args[1], "Key("), ")")
			cr, vr := root(cand), root(vict)
			okArgs := strings.HasPrefix(e.Args[0], "Key(") && strings.HasPrefix(e.Args[1], "Key(") && cand != vict &&
				(strings.HasPrefix(cr, "param:") || heads[cr] == "window") && heads[vr] != "" && cr != vr
			a.check("admit operands", okArgs, "admit(candidate.Key(), victim.Key()) with candidate from the window side and victim from the probation side", "admit("+e.Args[0]+", "+e.Args[1]+")", o)
			// the eviction that follows
			evicted := ""
			for _, x := range o.S.trace[i+1:] {
				if x.Kind == "Admit" {
					break
				}
				if x.Kind == "UserCall" && len(x.Args) > 2 && x.Args[0] == "evictNode" {
					evicted = x.Args[2]
					break
				}
			}
			res, known := o.S.preds[e.Res]
			if !known {
				a.check("admission decides", false, "the result of admit decides who is evicted", "result of admit not tested", o)
				continue
			}
			if evicted == "" && (o.Cut || o.Panic) {
				continue
			}
			decisions++
			if res {
				a.check("admit=true evicts victim", evicted == vict, "the entry with the lower estimate is the one evicted", "evicted "+evicted, o)
			} else {
				a.check("admit=false evicts candidate", evicted == cand, "the entry with the lower estimate is the one evicted", "evicted "+evicted, o)
			}
		}
	}
	a.flush()
	if decisions == 0 {
		cx.R.Violate(rule, ename, "admit call", cx.P.Pos(efm.Pos()), "evictFromMain no longer consults admit")
	}
}

// tableBlock: v is a sub-slice table[lo:hi] of the sketch's table (nil otherwise).
func tableBlock(v ssa.Value, tableF *types.Var) *ssa.Slice {
	sl, ok := v.(*ssa.Slice)
	if !ok || sl.Low == nil || sl.High == nil || !sameField(fieldOf(sl.X), tableF) {
		return nil
	}
	return sl
}

func isLenOf(bound ssa.Value, sl *ssa.Slice) bool {
	c, ok := bound.(*ssa.Call)
	return ok && isBuiltinCall(c, "len") && len(c.Call.Args) == 1 && c.Call.Args[0] == ssa.Value(sl)
}

// blockStep: hi == lo + k for a constant k.
func blockStep(lo, hi ssa.Value) (int64, bool) {
	b, ok := hi.(*ssa.BinOp)
	if !ok || b.Op != token.ADD {
		return 0, false
	}
	if k, isK := constInt(b.Y); isK && b.X == lo {
		return k, true
	}
	if k, isK := constInt(b.X); isK && b.Y == lo {
		return k, true
	}
	return 0, false
}

// sameDiff: the inner bound is the constant block length hi - lo.
func sameDiff(bound ssa.Value, sl *ssa.Slice) bool {
	k, ok := constInt(bound)
	step, okS := blockStep(sl.Low, sl.High)
	return ok && okS && k == step
}

func addsOf(ph *ssa.Phi, k int64) []ssa.Value {
	var out []ssa.Value
	for _, u := range usesOf(ph) {
		if b, ok := u.(*ssa.BinOp); ok && isAddConst(b, ph, k) {
			out = append(out, b)
		}
	}
	return out
}

func usesOfAll(vs []ssa.Value) []ssa.Instruction {
	var out []ssa.Instruction
	for _, v := range vs {
		out = append(out, usesOf(v)...)
	}
	return out
}

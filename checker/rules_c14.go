package main

import (
	"fmt"
	"go/types"

	"golang.org/x/tools/go/ssa"
)

func init() {
	register("C14",
		"Decides the protocol obligations the try-lock hand-off argument of 'maintenance is never stranded' needs, on every control-flow path of the real source: "+
			"a successful write-buffer push is followed by scheduleAfterWrite (else caller-runs clean-up), every release of the eviction lock is followed by "+
			"rescheduleCleanUpIfIncomplete, the drain-status machine has the documented shape (begin/end of maintenance, drain cap, exhaustive switches, CAS before leaving the "+
			"processing-to-idle case), Lock/TryLock are paired with Unlock, and a scheduled drain really dispatches maintenance. "+
			"NOT decided: absence of lost wake-ups over all interleavings (a model-checking question).",
		[]string{"the default executor runs every submitted function eventually", "sync.Mutex and sync/atomic behave as documented"},
		ruleC14After, ruleC14Resched, ruleC14Status, ruleC14LockPair, ruleC14Dispatch)
}

type statusConsts struct {
	idle, required, pToIdle, pToRequired int64
	ok                                   bool
}

func (cx *Ctx) status(rule string) statusConsts {
	var s statusConsts
	get := func(n string) (int64, bool) {
		c := cx.P.Const("", n)
		if c == nil {
			cx.R.Undecided(rule, n, "anchor", "-", "drain status constant "+n+" does not resolve")
			return 0, false
		}
		v, ok := constInt(ssa.NewConst(c.Val(), c.Type()))
		return v, ok
	}
	var o1, o2, o3, o4 bool
	s.idle, o1 = get("idle")
	s.required, o2 = get("required")
	s.pToIdle, o3 = get("processingToIdle")
	s.pToRequired, o4 = get("processingToRequired")
	s.ok = o1 && o2 && o3 && o4
	return s
}

func isStoreConst(in ssa.Instruction, f *types.Var, c int64) bool {
	if !atomicOp(in, f, "Store") {
		return false
	}
	a := callArgs(in)
	if len(a) != 1 {
		return false
	}
	v, ok := constInt(a[0])
	return ok && v == c
}

func isCASConst(in ssa.Instruction, f *types.Var, from, to int64) bool {
	if !atomicOp(in, f, "CompareAndSwap") {
		return false
	}
	a := callArgs(in)
	if len(a) != 2 {
		return false
	}
	x, ok1 := constInt(a[0])
	y, ok2 := constInt(a[1])
	return ok1 && ok2 && x == from && y == to
}

// ---- C14.after ----
func ruleC14After(cx *Ctx) {
	const rule = "C14.after"
	cx.R.Rule(rule, 1, "a successful writeBuffer.TryPush is followed by scheduleAfterWrite on all paths; every path of the enqueue function ends in that or in performCleanUp(task)")
	wb := cx.needField(rule, "", "cache", "writeBuffer")
	tryPush := cx.need(rule, "internal/deque/queue", "MPSC", "TryPush")
	saw := cx.need(rule, "", "cache", "scheduleAfterWrite")
	pcu := cx.need(rule, "", "cache", "performCleanUp")
	if wb == nil || tryPush == nil || saw == nil || pcu == nil {
		return
	}
	found := 0
	for _, fn := range cx.P.FuncsOfPkg("") {
		var pushes []ssa.Instruction
		allInstrs(fn, func(in ssa.Instruction) {
			if callOnField(in, wb, tryPush) {
				pushes = append(pushes, in)
			}
		})
		if len(pushes) == 0 {
			continue
		}
		found++
		name := funcName(fn)
		isSched := func(in ssa.Instruction) bool { return isCallTo(in, saw) }
		for _, p := range pushes {
			v, _ := p.(ssa.Value)
			ifs := ifsOn(v)
			if len(ifs) == 0 {
				cx.R.Violate(rule, name, "TryPush result", cx.P.where(p), "the result of writeBuffer.TryPush does not decide a branch: a refused task would be dropped silently")
				continue
			}
			for _, i := range ifs {
				succ := i.If.Block().Succs[i.TrueIdx]
				ok, w := MustFollowPt(Pt{succ, 0}, isSched, exitReturn, nil)
				cx.R.Check(ok, rule, name, "TryPush success edge", cx.P.where(p), "after a successful TryPush every path to return calls scheduleAfterWrite", w...)
			}
			// the pushed task is a parameter of the function
			args := callArgs(p)
			isFallback := func(in ssa.Instruction) bool {
				if !isCallTo(in, pcu) {
					return false
				}
				a := callArgs(in)
				return len(a) == 1 && len(args) == 1 && a[0] == args[0]
			}
			ok, w := MustFollowPt(Pt{fn.Blocks[0], 0}, func(in ssa.Instruction) bool { return isSched(in) || isFallback(in) }, exitReturn, nil)
			cx.R.Check(ok, rule, name, "no dropped task", cx.P.where(p), "every path of the enqueue function ends in scheduleAfterWrite (after a successful push) or performCleanUp(task)", w...)
		}
	}
	if found == 0 {
		cx.R.Undecided(rule, "*", "enqueue", "-", "no function pushes to cache.writeBuffer")
	}
}

// ---- C14.resched ----
func ruleC14Resched(cx *Ctx) {
	const rule = "C14.resched"
	cx.R.Rule(rule, 3, "every release of the eviction lock is followed on all paths by rescheduleCleanUpIfIncomplete (a writer whose TryLock failed relies on the holder)")
	mu := cx.needField(rule, "", "cache", "evictionMutex")
	resched := cx.need(rule, "", "cache", "rescheduleCleanUpIfIncomplete")
	pcu := cx.P.Func("", "cache", "performCleanUp")
	if mu == nil || resched == nil {
		return
	}
	memo := map[*ssa.Function]int{}
	isRes := func(in ssa.Instruction) bool {
		if isCallTo(in, resched) {
			return true
		}
		// a callee that itself always ends with unlock+reschedule (performCleanUp)
		if c := calleeOf(in); c != nil && pcu != nil && c == origin(pcu) {
			return mustPerform(c, func(x ssa.Instruction) bool { return isCallTo(x, resched) }, memo)
		}
		return false
	}
	// exceptions: one named construct each, with the reason
	exempt := map[string]string{
		"(*cache).scheduleDrainBuffers": "an executor task has been dispatched (or another holder is processing: status >= processingToIdle) and will run maintenance and reschedule",
	}
	for _, fn := range cx.P.FuncsOfPkg("") {
		name := funcName(fn)
		n := 0
		allInstrs(fn, func(in ssa.Instruction) {
			if !mutexOp(in, mu, "Unlock") {
				return
			}
			n++
			construct := fmt.Sprintf("Unlock(evictionMutex)#%d", n)
			if why, ok := exempt[name]; ok {
				cx.R.OK(rule, name, construct, cx.P.where(in), "exempt: "+why)
				return
			}
			if d, isDefer := in.(*ssa.Defer); isDefer {
				// deferred unlock: a reschedule must be deferred earlier (it then runs after the unlock)
				ok := false
				for _, d2 := range deferredCalls(fn) {
					if d2 != d && isRes(d2) && instrDominates(d2, d) {
						ok = true
					}
				}
				cx.R.Check(ok, rule, name, construct, cx.P.where(in), "deferred Unlock of the eviction lock must be followed by a reschedule (deferred before it)")
				return
			}
			ok, w := mustFollowInter(cx, in, isRes, 3)
			cx.R.Check(ok, rule, name, construct, cx.P.where(in), "Unlock of the eviction lock is followed by rescheduleCleanUpIfIncomplete on every path to return (continuing in the callers when the unlock sits in a helper)", w...)
		})
	}
	// rescheduleCleanUpIfIncomplete itself: status == required (and default executor) leads to scheduleDrainBuffers
	sdb := cx.need(rule, "", "cache", "scheduleDrainBuffers")
	ds := cx.needField(rule, "", "cache", "drainStatus")
	st := cx.status(rule)
	if sdb == nil || ds == nil || !st.ok {
		return
	}
	var call ssa.Instruction
	allInstrs(resched, func(in ssa.Instruction) {
		if isCallTo(in, sdb) {
			call = in
		}
	})
	if call == nil {
		cx.R.Violate(rule, funcName(resched), "schedule", cx.P.Pos(resched.Pos()), "rescheduleCleanUpIfIncomplete never calls scheduleDrainBuffers")
		return
	}
	okReq := false
	extra := ""
	for _, g := range guardsAt(call.Block()) {
		x, c, isEq, ok := eqConst(g.Cond)
		if ok && isLoadOf(x, ds) {
			if c == st.required && (isEq == g.Truth) {
				okReq = true
			} else {
				extra = fmt.Sprintf("guarded by drainStatus %s %d", map[bool]string{true: "==", false: "!="}[isEq == g.Truth], c)
			}
		}
	}
	cx.R.Check(okReq && extra == "", rule, funcName(resched), "schedule", cx.P.where(call), "scheduleDrainBuffers is called exactly when drainStatus == required "+extra)
	// and nothing but the executor kind may stand between: the only other guard allowed is hasDefaultExecutor
	for _, g := range guardsAt(call.Block()) {
		if _, _, _, ok := eqConst(g.Cond); ok {
			continue
		}
		f := fieldOf(g.Cond)
		if f != nil && fname(f) == "hasDefaultExecutor" && g.Truth {
			continue
		}
		cx.R.Violate(rule, funcName(resched), "schedule-guard", cx.P.where(g.If), "unexpected extra guard on the reschedule: "+g.Cond.String())
	}
}

// isLoadOf: v is the result of an atomic Load (or plain load) of the struct field f.
func isLoadOf(v ssa.Value, f *types.Var) bool {
	v = stripConv(v)
	if c, ok := v.(*ssa.Call); ok {
		return atomicOp(c, f, "Load")
	}
	return sameField(fieldOf(v), f)
}

// ---- C14.status ----
func ruleC14Status(cx *Ctx) {
	const rule = "C14.status"
	cx.R.Rule(rule, 4, "drain-status protocol shape: maintenance begins with Store(processingToIdle) and ends with CAS(processingToIdle->idle) else Store(required); the drain cap stores processingToRequired; scheduleAfterWrite leaves the processingToIdle case only after a successful CAS; status switches are exhaustive")
	ds := cx.needField(rule, "", "cache", "drainStatus")
	st := cx.status(rule)
	maint := cx.need(rule, "", "cache", "maintenance")
	dwb := cx.need(rule, "", "cache", "drainWriteBuffer")
	saw := cx.need(rule, "", "cache", "scheduleAfterWrite")
	sdb := cx.need(rule, "", "cache", "scheduleDrainBuffers")
	shd := cx.need(rule, "", "cache", "shouldDrainBuffers")
	if ds == nil || !st.ok || maint == nil || dwb == nil || saw == nil || sdb == nil || shd == nil {
		return
	}
	// (a) maintenance: first effect is Store(processingToIdle)
	{
		name := funcName(maint)
		var first ssa.Instruction
		for _, in := range maint.Blocks[0].Instrs {
			if callCommon(in) != nil {
				first = in
				break
			}
		}
		cx.R.Check(first != nil && isStoreConst(first, ds, st.pToIdle), rule, name, "begin", cx.P.Pos(maint.Pos()),
			"maintenance's first action is drainStatus.Store(processingToIdle), before any buffer is drained")
		// (b) end: the only way to reach return without Store(required) is the success edge of CAS(processingToIdle, idle)
		cut := map[edge]bool{}
		ncas := 0
		allInstrs(maint, func(in ssa.Instruction) {
			if isCASConst(in, ds, st.pToIdle, st.idle) {
				ncas++
				for _, i := range ifsOn(in.(ssa.Value)) {
					cut[edge{i.If.Block(), i.TrueIdx}] = true
				}
			}
		})
		ok, w := MustFollowPt(Pt{maint.Blocks[0], 0}, func(in ssa.Instruction) bool { return isStoreConst(in, ds, st.required) }, exitReturn, cut)
		cx.R.Check(ok && ncas > 0, rule, name, "end", cx.P.Pos(maint.Pos()),
			"maintenance returns only after CAS(processingToIdle->idle) succeeded or after Store(required)", w...)
		// the CAS must come after all draining/eviction work: no module call may follow it
		allInstrs(maint, func(in ssa.Instruction) {
			if !isCASConst(in, ds, st.pToIdle, st.idle) {
				return
			}
			bad := ""
			allInstrs(maint, func(x ssa.Instruction) {
				if c := calleeOf(x); c != nil && c.Pkg != nil && c.Pkg.Pkg.Path() == modPath && canReach(in, x) {
					bad = funcName(c)
				}
			})
			cx.R.Check(bad == "", rule, name, "end-last", cx.P.where(in), "no maintenance work follows the final status CAS "+bad)
		})
	}
	// (c) drain cap: every return of drainWriteBuffer is on the empty-queue edge, the no-maintenance edge, or after Store(processingToRequired)
	{
		name := funcName(dwb)
		tryPop := cx.P.Func("internal/deque/queue", "MPSC", "TryPop")
		cut := map[edge]bool{}
		allInstrs(dwb, func(in ssa.Instruction) {
			if tryPop != nil && isCallTo(in, tryPop) {
				for _, u := range usesOf(in.(ssa.Value)) {
					if b, ok := u.(*ssa.BinOp); ok {
						if _, isEq, ok := nilCmp(b); ok {
							for _, i := range ifsOn(b) {
								idx := i.TrueIdx
								if !isEq {
									idx = 1 - idx
								}
								cut[edge{i.If.Block(), idx}] = true
							}
						}
					}
				}
			}
			// !withMaintenance early return
			if ifi, ok := in.(*ssa.If); ok {
				c, neg := stripNot(ifi.Cond)
				if f := fieldOf(c); f != nil && fname(f) == "withMaintenance" {
					idx := 1 // false edge of the flag
					if neg {
						idx = 0
					}
					cut[edge{ifi.Block(), idx}] = true
				}
			}
		})
		ok, w := MustFollowPt(Pt{dwb.Blocks[0], 0}, func(in ssa.Instruction) bool { return isStoreConst(in, ds, st.pToRequired) }, exitReturn, cut)
		cx.R.Check(ok && len(cut) >= 2, rule, name, "drain-cap", cx.P.Pos(dwb.Pos()),
			"leaving the drain loop with tasks possibly pending stores processingToRequired", w...)
	}
	// (d) scheduleAfterWrite: per-case obligations on every return
	{
		name := funcName(saw)
		seenCase := map[int64]bool{}
		allInstrs(saw, func(in ssa.Instruction) {
			ret, ok := in.(*ssa.Return)
			if !ok {
				return
			}
			var cs int64 = -1
			casOK := false
			for _, g := range guardsAt(ret.Block()) {
				if x, c, isEq, ok := eqConst(g.Cond); ok && isLoadOf(x, ds) && isEq && g.Truth {
					cs = c
				}
				if c, ok := g.Cond.(*ssa.Call); ok && isCASConst(c, ds, st.pToIdle, st.pToRequired) && g.Truth {
					casOK = true
				}
			}
			seenCase[cs] = true
			dominatedBy := func(is func(ssa.Instruction) bool) bool {
				found := false
				allInstrs(saw, func(x ssa.Instruction) {
					if is(x) && instrDominates(x, ret) {
						found = true
					}
				})
				return found
			}
			isSDB := func(x ssa.Instruction) bool { return isCallTo(x, sdb) }
			switch cs {
			case st.idle:
				ok := dominatedBy(func(x ssa.Instruction) bool { return isCASConst(x, ds, st.idle, st.required) }) && dominatedBy(isSDB)
				cx.R.Check(ok, rule, name, "case idle", cx.P.where(ret), "idle: CAS(idle->required) and scheduleDrainBuffers before returning")
			case st.required:
				cx.R.Check(dominatedBy(isSDB), rule, name, "case required", cx.P.where(ret), "required: scheduleDrainBuffers before returning")
			case st.pToIdle:
				cx.R.Check(casOK, rule, name, "case processingToIdle", cx.P.where(ret), "processingToIdle: return only on the success edge of CAS(processingToIdle->processingToRequired); otherwise retry")
			case st.pToRequired:
				cx.R.OK(rule, name, "case processingToRequired", cx.P.where(ret), "processingToRequired: the running maintenance will see it")
			default:
				cx.R.Violate(rule, name, "return outside the status cases", cx.P.where(ret), "a return of scheduleAfterWrite is not inside one of the four drain-status cases")
			}
		})
		for _, c := range []int64{st.idle, st.required, st.pToIdle, st.pToRequired} {
			if !seenCase[c] {
				cx.R.Violate(rule, name, fmt.Sprintf("case %d missing", c), cx.P.Pos(saw.Pos()), "scheduleAfterWrite has no return inside the case for this drain status")
			}
		}
	}
	// (e) exhaustive switches
	for _, fn := range []*ssa.Function{saw, shd} {
		seen := map[int64]bool{}
		allInstrs(fn, func(in ssa.Instruction) {
			if b, ok := in.(*ssa.BinOp); ok {
				if x, c, isEq, ok := eqConst(b); ok && isEq && isLoadOf(x, ds) {
					seen[c] = true
				}
			}
		})
		all := seen[st.idle] && seen[st.required] && seen[st.pToIdle] && seen[st.pToRequired]
		cx.R.Check(all, rule, funcName(fn), "exhaustive", cx.P.Pos(fn.Pos()), "status switch compares against all four drain-status constants")
	}
	// (f) shouldDrainBuffers decision table: idle -> !delayable, required -> true, processing* -> false
	{
		name := funcName(shd)
		allInstrs(shd, func(in ssa.Instruction) {
			ret, ok := in.(*ssa.Return)
			if !ok || len(ret.Results) != 1 {
				return
			}
			var cs int64 = -1
			for _, g := range guardsAt(ret.Block()) {
				if x, c, isEq, ok := eqConst(g.Cond); ok && isLoadOf(x, ds) && isEq && g.Truth {
					cs = c
				}
			}
			res := ret.Results[0]
			switch cs {
			case st.idle:
				v, neg := stripNot(res)
				_, isParam := v.(*ssa.Parameter)
				cx.R.Check(isParam && neg, rule, name, "table idle", cx.P.where(ret), "idle: drain iff the read was not delayable (buffer full)")
			case st.required:
				b, ok := constBool(res)
				cx.R.Check(ok && b, rule, name, "table required", cx.P.where(ret), "required: always drain")
			case st.pToIdle, st.pToRequired:
				b, ok := constBool(res)
				cx.R.Check(ok && !b, rule, name, fmt.Sprintf("table processing(%d)", cs), cx.P.where(ret), "processing: never schedule another drain")
			}
		})
	}
}

// ---- C14.lockpair ----
func ruleC14LockPair(cx *Ctx) {
	const rule = "C14.lockpair"
	cx.R.Rule(rule, 3, "Lock / successful TryLock of the eviction lock is paired with Unlock on all paths (token hand-off in scheduleDrainBuffers modelled explicitly)")
	mu := cx.needField(rule, "", "cache", "evictionMutex")
	if mu == nil {
		return
	}
	isUnlock := func(in ssa.Instruction) bool { return unlockLike(in, mu) }
	for _, fn := range cx.P.FuncsOfPkg("") {
		name := funcName(fn)
		nl := 0
		if mutexEffect(fn, mu, 0) == effAcquire {
			continue // a helper that returns holding the lock: its callers are checked instead
		}
		allInstrs(fn, func(in ssa.Instruction) {
			if _, isDefer := in.(*ssa.Defer); isDefer {
				return
			}
			if lockLike(in, mu) {
				nl++
				ok, w := MustFollow(in, isUnlock, exitReturn)
				cx.R.Check(ok, rule, name, fmt.Sprintf("Lock#%d", nl), cx.P.where(in), "Lock(evictionMutex) is released on every path to return", w...)
			}
			if mutexOp(in, mu, "TryLock") {
				nl++
				v := in.(ssa.Value)
				ifs := ifsOn(v)
				if len(ifs) == 0 {
					cx.R.Violate(rule, name, fmt.Sprintf("TryLock#%d", nl), cx.P.where(in), "TryLock result does not decide a branch")
					return
				}
				for _, i := range ifs {
					succ := i.If.Block().Succs[i.TrueIdx]
					// token hand-off: the path on which a local token's CAS(0,1) fails hands the lock to the executor task
					cut := map[edge]bool{}
					handoff := false
					allInstrs(fn, func(x ssa.Instruction) {
						if isStdMethod(x, "sync/atomic", "Uint32", "CompareAndSwap") {
							if _, isLocal := stripLoad(recvValue(x)).(*ssa.Alloc); isLocal && tokenPassedToDrain(cx, fn, recvValue(x)) {
								for _, j := range ifsOn(x.(ssa.Value)) {
									cut[edge{j.If.Block(), 1 - j.TrueIdx}] = true
									handoff = true
								}
							}
						}
					})
					ok, w := MustFollowPt(Pt{succ, 0}, isUnlock, exitReturn, cut)
					d := "a successful TryLock(evictionMutex) is released on every path to return"
					if handoff {
						d += " (except the token hand-off edge: the executor task owns the lock and releases it in drainBuffers)"
					}
					cx.R.Check(ok, rule, name, fmt.Sprintf("TryLock#%d", nl), cx.P.where(in), d, w...)
				}
			}
		})
	}
	// the hand-off receiver: drainBuffers releases on the token-won branch
	db := cx.need(rule, "", "cache", "drainBuffers")
	maint := cx.P.Func("", "cache", "maintenance")
	if db == nil || maint == nil {
		return
	}
	allInstrs(db, func(in ssa.Instruction) {
		if isStdMethod(in, "sync/atomic", "Uint32", "CompareAndSwap") {
			if _, isParam := recvValue(in).(*ssa.Parameter); isParam {
				for _, j := range ifsOn(in.(ssa.Value)) {
					succ := j.If.Block().Succs[j.TrueIdx]
					ok, w := MustFollowPt(Pt{succ, 0}, isUnlock, exitReturn, nil)
					cx.R.Check(ok, rule, funcName(db), "token won", cx.P.where(in), "the executor task that wins the token runs with the scheduler's lock and releases it", w...)
					ok2, w2 := MustFollowPt(Pt{succ, 0}, func(x ssa.Instruction) bool { return isCallTo(x, maint) }, exitReturn, nil)
					cx.R.Check(ok2, rule, funcName(db), "token won: maintenance", cx.P.where(in), "the executor task that wins the token runs maintenance", w2...)
				}
			}
		}
	})
}

func tokenPassedToDrain(cx *Ctx, fn *ssa.Function, tok ssa.Value) bool {
	db := cx.P.Func("", "cache", "drainBuffers")
	if db == nil {
		return false
	}
	found := false
	withClosures(fn, func(f *ssa.Function) {
		allInstrs(f, func(in ssa.Instruction) {
			if isCallTo(in, db) {
				found = true
			}
		})
	})
	_ = tok
	return found
}

// ---- C14.dispatch ----
func ruleC14Dispatch(cx *Ctx) {
	const rule = "C14.dispatch"
	cx.R.Rule(rule, 1, "a scheduled drain really runs maintenance: scheduleDrainBuffers publishes processingToIdle and hands a task to the executor that must reach maintenance; drainBuffers reaches maintenance on all paths")
	sdb := cx.need(rule, "", "cache", "scheduleDrainBuffers")
	db := cx.need(rule, "", "cache", "drainBuffers")
	maint := cx.need(rule, "", "cache", "maintenance")
	mu := cx.needField(rule, "", "cache", "evictionMutex")
	ds := cx.needField(rule, "", "cache", "drainStatus")
	ex := cx.needField(rule, "", "cache", "executor")
	st := cx.status(rule)
	if sdb == nil || db == nil || maint == nil || mu == nil || ds == nil || ex == nil || !st.ok {
		return
	}
	memo := map[*ssa.Function]int{}
	isMaint := func(in ssa.Instruction) bool { return isCallTo(in, maint) }
	cx.R.Check(mustPerform(db, isMaint, memo), rule, funcName(db), "reaches maintenance", cx.P.Pos(db.Pos()), "every path of drainBuffers runs maintenance (directly or via performCleanUp)")
	// in scheduleDrainBuffers: after a successful TryLock every path either releases (status already processing) or dispatches
	name := funcName(sdb)
	isDispatch := func(in ssa.Instruction) bool {
		cc := callCommon(in)
		if cc == nil || cc.IsInvoke() || cc.StaticCallee() != nil {
			return false
		}
		if !sameField(fieldOf(cc.Value), ex) || len(cc.Args) != 1 {
			return false
		}
		cl := closureOf(cc.Args[0])
		return cl != nil && mustPerform(cl, func(x ssa.Instruction) bool { return isCallTo(x, db) }, map[*ssa.Function]int{})
	}
	n := 0
	allInstrs(sdb, func(in ssa.Instruction) {
		if !mutexOp(in, mu, "TryLock") {
			return
		}
		for _, i := range ifsOn(in.(ssa.Value)) {
			n++
			succ := i.If.Block().Succs[i.TrueIdx]
			// cut the edge on which the re-read status is already >= processingToIdle
			cut := map[edge]bool{}
			allInstrs(sdb, func(x ssa.Instruction) {
				ifi, ok := x.(*ssa.If)
				if !ok {
					return
				}
				c, neg := stripNot(ifi.Cond)
				if b, ok := c.(*ssa.BinOp); ok && isLoadOf(b.X, ds) && instrDominates(in, ifi) {
					if k, ok := constInt(b.Y); ok && k == st.pToIdle && b.Op.String() == ">=" {
						idx := 0
						if neg {
							idx = 1
						}
						cut[edge{ifi.Block(), idx}] = true
					}
				}
			})
			ok, w := MustFollowPt(Pt{succ, 0}, isDispatch, exitReturn, cut)
			cx.R.Check(ok, rule, name, "dispatch", cx.P.where(in), "after winning the lock with status < processingToIdle an executor task that reaches drainBuffers is submitted", w...)
			ok2, w2 := MustFollowPt(Pt{succ, 0}, func(x ssa.Instruction) bool {
				return isStoreConst(x, ds, st.pToIdle) || isDispatch(x)
			}, exitReturn, cut)
			// the status store must precede the dispatch
			var storeI, dispI ssa.Instruction
			allInstrs(sdb, func(x ssa.Instruction) {
				if isStoreConst(x, ds, st.pToIdle) {
					storeI = x
				}
				if isDispatch(x) {
					dispI = x
				}
			})
			cx.R.Check(ok2 && storeI != nil && dispI != nil && instrDominates(storeI, dispI), rule, name, "publish-before-dispatch", cx.P.where(in),
				"drainStatus.Store(processingToIdle) precedes the executor dispatch (concurrent writers then rely on this run)", w2...)
		}
	})
	if n == 0 {
		cx.R.Violate(rule, name, "TryLock", cx.P.Pos(sdb.Pos()), "scheduleDrainBuffers no longer try-locks the eviction lock")
	}
}

// mustFollowInter is MustFollow that, when a function exit is reached first, continues after every synchronous call
// site of that function (helpers such as unlockAndReschedule / lockedMaintenance keep the obligation with the caller).
func mustFollowInter(cx *Ctx, from ssa.Instruction, is func(ssa.Instruction) bool, depth int) (bool, []string) {
	ok, w := MustFollow(from, is, exitReturn)
	if ok || depth == 0 {
		return ok, w
	}
	lc := lockContext(cx)
	if lc == nil {
		return false, w
	}
	fn := origin(from.Parent())
	if from.Parent().Parent() != nil {
		return false, w // closures: no continuation
	}
	sites := lc.sites[fn]
	if len(sites) == 0 {
		return false, w
	}
	for _, s := range sites {
		if ok2, w2 := mustFollowInter(cx, s, is, depth-1); !ok2 {
			return false, append(append(w, "… continuing after the call at "+cx.P.where(s)+" in "+funcName(s.Parent())), w2...)
		}
	}
	return true, nil
}

package main

import (
	"fmt"
	"go/token"
	"go/types"
	"strings"

	"golang.org/x/tools/go/ssa"
)

func init() {
	register("C14",
		"Decides the protocol obligations the try-lock hand-off argument of 'maintenance is never stranded' needs, on every control-flow path of the real source: "+
			"a successful write-buffer push is followed by scheduleAfterWrite (else caller-runs clean-up), every release of the eviction lock is followed by "+
			"rescheduleCleanUpIfIncomplete, the drain-status machine has the documented shape (begin/end of maintenance, drain cap, exhaustive switches, CAS before leaving the "+
			"processing-to-idle case), Lock/TryLock are paired with Unlock, and a scheduled drain really dispatches maintenance. "+
			"NOT decided: absence of lost wake-ups over all interleavings (a model-checking question).",
		[]string{"the default executor runs every submitted function eventually", "sync.Mutex and sync/atomic behave as documented"},
		ruleC14After, ruleC14Resched, ruleC14Status, ruleC14LockPair, ruleC14Dispatch, ruleC14Transitions, ruleC01Config, ruleC13Order)
}

type statusConsts struct {
	idle, required, pToIdle, pToRequired int64
	ok                                   bool
}

func (cx *Ctx) status(rule string) statusConsts {
	var s statusConsts
	get := func(n string) (int64, bool) {
		c := cx.P.Const("", n)
		if c == nil {
			cx.R.Undecided(rule, n, "anchor", "-", "drain status constant "+n+" does not resolve")
			return 0, false
		}
		v, ok := constInt(ssa.NewConst(c.Val(), c.Type()))
		return v, ok
	}
	var o1, o2, o3, o4 bool
	s.idle, o1 = get("idle")
	s.required, o2 = get("required")
	s.pToIdle, o3 = get("processingToIdle")
	s.pToRequired, o4 = get("processingToRequired")
	s.ok = o1 && o2 && o3 && o4
	return s
}

func isStoreConst(in ssa.Instruction, f *types.Var, c int64) bool {
	if !atomicOp(in, f, "Store") {
		return false
	}
	a := atomicArgs(in, f, "Store")
	if len(a) != 1 {
		return false
	}
	v, ok := constInt(a[0])
	return ok && v == c
}

func isCASConst(in ssa.Instruction, f *types.Var, from, to int64) bool {
	if !atomicOp(in, f, "CompareAndSwap") {
		return false
	}
	a := atomicArgs(in, f, "CompareAndSwap")
	if len(a) != 2 {
		return false
	}
	x, ok1 := constInt(a[0])
	y, ok2 := constInt(a[1])
	return ok1 && ok2 && x == from && y == to
}

// ---- C14.after ----
func ruleC14After(cx *Ctx) {
	const rule = "C14.after"
	cx.R.Rule(rule, 1, "a successful writeBuffer.TryPush is followed by scheduleAfterWrite on all paths; every path of the enqueue function ends in that or in performCleanUp(task)")
	wb := cx.needField(rule, "", "cache", "writeBuffer")
	tryPush := cx.need(rule, "internal/deque/queue", "MPSC", "TryPush")
	saw := cx.need(rule, "", "cache", "scheduleAfterWrite")
	pcu := cx.need(rule, "", "cache", "performCleanUp")
	if wb == nil || tryPush == nil || saw == nil || pcu == nil {
		return
	}
	// a "push wrapper" is a helper that returns true exactly when it pushed its task parameter (a retry loop split off the
	// enqueue function): its calls are treated like the push itself, with the task argument mapped through
	type wrapper struct{ taskParam int }
	wrappers := map[*ssa.Function]wrapper{}
	isPush := func(in ssa.Instruction) (task ssa.Value, ok bool) {
		if callOnField(in, wb, tryPush) {
			if a := callArgs(in); len(a) == 1 {
				return a[0], true
			}
			return nil, true
		}
		if g := calleeOf(in); g != nil {
			if w, isW := wrappers[origin(g)]; isW {
				if cc := callCommon(in); cc != nil && w.taskParam < len(cc.Args) {
					return cc.Args[w.taskParam], true
				}
			}
		}
		return nil, false
	}
	asWrapper := func(fn *ssa.Function, pushes []ssa.Instruction) (wrapper, bool) {
		res := fn.Signature.Results()
		if res.Len() != 1 || !types.Identical(res.At(0).Type(), types.Typ[types.Bool]) {
			return wrapper{}, false
		}
		cut := map[edge]bool{}
		tp := -1
		for _, p := range pushes {
			v, _ := p.(ssa.Value)
			ifs := ifsOn(v)
			if len(ifs) == 0 {
				return wrapper{}, false
			}
			for _, i := range ifs {
				cut[edge{i.If.Block(), i.TrueIdx}] = true
				// everything that returns after a success returns true
				seen := map[*ssa.BasicBlock]bool{}
				stack := []*ssa.BasicBlock{i.If.Block().Succs[i.TrueIdx]}
				for len(stack) > 0 {
					b := stack[len(stack)-1]
					stack = stack[:len(stack)-1]
					if seen[b] {
						continue
					}
					seen[b] = true
					if ret, isRet := b.Instrs[len(b.Instrs)-1].(*ssa.Return); isRet {
						if k, isK := constBool(ret.Results[0]); !isK || !k {
							return wrapper{}, false
						}
					}
					stack = append(stack, b.Succs...)
				}
			}
			task, _ := isPush(p)
			for j, q := range fn.Params {
				if ssa.Value(q) == task {
					tp = j
				}
			}
		}
		if tp < 0 {
			return wrapper{}, false
		}
		// without a success nothing returns true
		reach := reachableBlocks(fn, cut)
		for b := range reach {
			if ret, isRet := b.Instrs[len(b.Instrs)-1].(*ssa.Return); isRet {
				if k, isK := constBool(ret.Results[0]); !isK || k {
					return wrapper{}, false
				}
			}
		}
		return wrapper{tp}, true
	}
	found := 0
	for round := 0; round < 3; round++ {
		grew := false
		for _, fn := range cx.P.FuncsOfPkg("") {
			if _, isW := wrappers[origin(fn)]; isW || len(fn.Blocks) == 0 {
				continue
			}
			var pushes []ssa.Instruction
			allInstrs(fn, func(in ssa.Instruction) {
				if _, ok := isPush(in); ok {
					pushes = append(pushes, in)
				}
			})
			if len(pushes) == 0 {
				continue
			}
			if w, ok := asWrapper(fn, pushes); ok {
				wrappers[origin(fn)] = w
				grew = true
			}
		}
		if !grew {
			break
		}
	}
	for _, fn := range cx.P.FuncsOfPkg("") {
		if _, isW := wrappers[origin(fn)]; isW {
			found++
			cx.R.OK(rule, funcName(fn), "push wrapper", cx.P.Pos(fn.Pos()), "returns true exactly when it pushed its task: its callers are held to the enqueue discipline")
			continue
		}
		var pushes []ssa.Instruction
		allInstrs(fn, func(in ssa.Instruction) {
			if _, ok := isPush(in); ok {
				pushes = append(pushes, in)
			}
		})
		if len(pushes) == 0 {
			continue
		}
		found++
		name := funcName(fn)
		isSched := func(in ssa.Instruction) bool { return isCallTo(in, saw) }
		for _, p := range pushes {
			v, _ := p.(ssa.Value)
			ifs := ifsOn(v)
			if len(ifs) == 0 {
				cx.R.Violate(rule, name, "TryPush result", cx.P.where(p), "the result of writeBuffer.TryPush does not decide a branch: a refused task would be dropped silently")
				continue
			}
			for _, i := range ifs {
				succ := i.If.Block().Succs[i.TrueIdx]
				ok, w := MustFollowPt(Pt{succ, 0}, isSched, exitReturn, nil)
				cx.R.Check(ok, rule, name, "TryPush success edge", cx.P.where(p), "after a successful TryPush every path to return calls scheduleAfterWrite", w...)
			}
			// the pushed task is a parameter of the function
			task, _ := isPush(p)
			isFallback := func(in ssa.Instruction) bool {
				if !isCallTo(in, pcu) {
					return false
				}
				a := callArgs(in)
				return len(a) == 1 && task != nil && a[0] == task
			}
			ok, w := MustFollowPt(Pt{fn.Blocks[0], 0}, func(in ssa.Instruction) bool { return isSched(in) || isFallback(in) }, exitReturn, nil)
			cx.R.Check(ok, rule, name, "no dropped task", cx.P.where(p), "every path of the enqueue function ends in scheduleAfterWrite (after a successful push) or performCleanUp(task)", w...)
		}
	}
	if found == 0 {
		cx.R.Undecided(rule, "*", "enqueue", "-", "no function pushes to cache.writeBuffer")
	}
}

// ---- C14.resched ----
func ruleC14Resched(cx *Ctx) {
	const rule = "C14.resched"
	cx.R.Rule(rule, 3, "every release of the eviction lock is followed on all paths by rescheduleCleanUpIfIncomplete (a writer whose TryLock failed relies on the holder)")
	mu := cx.needField(rule, "", "cache", "evictionMutex")
	resched := cx.need(rule, "", "cache", "rescheduleCleanUpIfIncomplete")
	pcu := cx.P.Func("", "cache", "performCleanUp")
	if mu == nil || resched == nil {
		return
	}
	memo := map[*ssa.Function]int{}
	isRes := func(in ssa.Instruction) bool {
		if isCallTo(in, resched) {
			return true
		}
		// a callee that itself always ends with unlock+reschedule (performCleanUp)
		if c := calleeOf(in); c != nil && pcu != nil && c == origin(pcu) {
			return mustPerform(c, func(x ssa.Instruction) bool { return isCallTo(x, resched) }, memo)
		}
		return false
	}
	// exceptions: one named construct each, with the reason
	exempt := map[string]string{
		"(*cache).scheduleDrainBuffers": "an executor task has been dispatched (or another holder is processing: status >= processingToIdle) and will run maintenance and reschedule",
	}
	for _, fn := range cx.P.FuncsOfPkg("") {
		name := funcName(fn)
		n := 0
		allInstrs(fn, func(in ssa.Instruction) {
			if !mutexOp(in, mu, "Unlock") {
				return
			}
			n++
			construct := fmt.Sprintf("Unlock(evictionMutex)#%d", n)
			if why, ok := exempt[name]; ok {
				cx.R.OK(rule, name, construct, cx.P.where(in), "exempt: "+why)
				return
			}
			if d, isDefer := in.(*ssa.Defer); isDefer {
				// deferred unlock: a reschedule must be deferred earlier (it then runs after the unlock)
				ok := false
				for _, d2 := range deferredCalls(fn) {
					if d2 != d && isRes(d2) && instrDominates(d2, d) {
						ok = true
					}
				}
				cx.R.Check(ok, rule, name, construct, cx.P.where(in), "deferred Unlock of the eviction lock must be followed by a reschedule (deferred before it)")
				return
			}
			ok, w := mustFollowInter(cx, in, isRes, 3)
			cx.R.Check(ok, rule, name, construct, cx.P.where(in), "Unlock of the eviction lock is followed by rescheduleCleanUpIfIncomplete on every path to return (continuing in the callers when the unlock sits in a helper)", w...)
		})
	}
	// rescheduleCleanUpIfIncomplete itself: status == required (and default executor) leads to scheduleDrainBuffers
	sdb := cx.need(rule, "", "cache", "scheduleDrainBuffers")
	ds := cx.needField(rule, "", "cache", "drainStatus")
	st := cx.status(rule)
	if sdb == nil || ds == nil || !st.ok {
		return
	}
	var call ssa.Instruction
	allInstrs(resched, func(in ssa.Instruction) {
		if isCallTo(in, sdb) {
			call = in
		}
	})
	if call == nil {
		cx.R.Violate(rule, funcName(resched), "schedule", cx.P.Pos(resched.Pos()), "rescheduleCleanUpIfIncomplete never calls scheduleDrainBuffers")
		return
	}
	okReq := false
	extra := ""
	for _, g := range guardsAt(call.Block()) {
		x, c, isEq, ok := eqConst(g.Cond)
		if ok && isLoadOf(x, ds) {
			if c == st.required && (isEq == g.Truth) {
				okReq = true
			} else {
				extra = fmt.Sprintf("guarded by drainStatus %s %d", map[bool]string{true: "==", false: "!="}[isEq == g.Truth], c)
			}
		}
	}
	cx.R.Check(okReq && extra == "", rule, funcName(resched), "schedule", cx.P.where(call), "scheduleDrainBuffers is called exactly when drainStatus == required "+extra)
	// and nothing but the executor kind may stand between: the only other guard allowed is hasDefaultExecutor
	for _, g := range guardsAt(call.Block()) {
		if _, _, _, ok := eqConst(g.Cond); ok {
			continue
		}
		f := fieldOf(g.Cond)
		if f != nil && fname(f) == "hasDefaultExecutor" && g.Truth {
			continue
		}
		cx.R.Violate(rule, funcName(resched), "schedule-guard", cx.P.where(g.If), "unexpected extra guard on the reschedule: "+g.Cond.String())
	}
}

// isLoadOf: v is the result of an atomic Load (or plain load) of the struct field f.
func isLoadOf(v ssa.Value, f *types.Var) bool {
	v = stripConv(v)
	if c, ok := v.(*ssa.Call); ok {
		return atomicOp(c, f, "Load")
	}
	return sameField(fieldOf(v), f)
}

// ---- C14.status ----
func ruleC14Status(cx *Ctx) {
	const rule = "C14.status"
	cx.R.Rule(rule, 4, "drain-status protocol shape: maintenance begins with Store(processingToIdle) and ends with CAS(processingToIdle->idle) else Store(required); the drain cap stores processingToRequired; scheduleAfterWrite leaves the processingToIdle case only after a successful CAS; status switches are exhaustive")
	ds := cx.needField(rule, "", "cache", "drainStatus")
	st := cx.status(rule)
	maint := cx.need(rule, "", "cache", "maintenance")
	dwb := cx.need(rule, "", "cache", "drainWriteBuffer")
	saw := cx.need(rule, "", "cache", "scheduleAfterWrite")
	sdb := cx.need(rule, "", "cache", "scheduleDrainBuffers")
	shd := cx.need(rule, "", "cache", "shouldDrainBuffers")
	if ds == nil || !st.ok || maint == nil || dwb == nil || saw == nil || sdb == nil || shd == nil {
		return
	}
	// (a) maintenance: first effect is Store(processingToIdle)
	{
		name := funcName(maint)
		var first ssa.Instruction
		for _, in := range maint.Blocks[0].Instrs {
			if callCommon(in) != nil {
				first = in
				break
			}
		}
		cx.R.Check(first != nil && isStoreConst(first, ds, st.pToIdle), rule, name, "begin", cx.P.Pos(maint.Pos()),
			"maintenance's first action is drainStatus.Store(processingToIdle), before any buffer is drained")
		// (b) end: the only way to reach return without Store(required) is the success edge of CAS(processingToIdle, idle)
		cut := map[edge]bool{}
		ncas := 0
		allInstrs(maint, func(in ssa.Instruction) {
			if isCASConst(in, ds, st.pToIdle, st.idle) {
				ncas++
				// also when the outcome is first named (becameIdle := status == processingToIdle && CAS(...)): on the true
				// edge of a test of that conjunction the CAS succeeded
				for _, i := range ifsOnConj(in.(ssa.Value)) {
					cut[edge{i.If.Block(), i.TrueIdx}] = true
				}
			}
		})
		ok, w := MustFollowPt(Pt{maint.Blocks[0], 0}, func(in ssa.Instruction) bool { return isStoreConst(in, ds, st.required) }, exitReturn, cut)
		cx.R.Check(ok && ncas > 0, rule, name, "end", cx.P.Pos(maint.Pos()),
			"maintenance returns only after CAS(processingToIdle->idle) succeeded or after Store(required)", w...)
		// the CAS must come after all draining/eviction work: no module call may follow it
		allInstrs(maint, func(in ssa.Instruction) {
			if !isCASConst(in, ds, st.pToIdle, st.idle) {
				return
			}
			bad := ""
			allInstrs(maint, func(x ssa.Instruction) {
				if c := calleeOf(x); c != nil && c.Pkg != nil && c.Pkg.Pkg.Path() == modPath && canReach(in, x) {
					bad = funcName(c)
				}
			})
			cx.R.Check(bad == "", rule, name, "end-last", cx.P.where(in), "no maintenance work follows the final status CAS "+bad)
		})
	}
	// (c) drain cap: every return of drainWriteBuffer is on the empty-queue edge, the no-maintenance edge, or after Store(processingToRequired)
	{
		tryPop := cx.P.Func("internal/deque/queue", "MPSC", "TryPop")
		// the drain step proper: the function maintenance reaches that pops the write buffer (drainWriteBuffer itself,
		// or the loop split off into a helper of it)
		if f := popperReachedFrom(maint, tryPop, map[*ssa.Function]bool{}, 0); f != nil {
			dwb = f
		}
		// "pop one task and run it" may be a loop-free step of its own that reports whether there was a task
		// (runNextWriteTask() bool): the drain loop is then the function that calls the step, and the step's false
		// result is the empty-queue edge
		var popStep *ssa.Function
		if !hasLoop(dwb) && dwb.Signature.Results().Len() == 1 && types.Identical(dwb.Signature.Results().At(0).Type(), types.Typ[types.Bool]) {
			// false exactly on the nil edge of the pop
			nilRet, other := 0, 0
			for _, b := range dwb.Blocks {
				ret, isRet := b.Instrs[len(b.Instrs)-1].(*ssa.Return)
				if !isRet {
					continue
				}
				k, isK := constBool(ret.Results[0])
				onNil := false
				for _, g := range guardsAt(b) {
					if x, isEq, okN := nilCmp(g.Cond); okN && isEq == g.Truth {
						if c, isC := x.(*ssa.Call); isC && isCallTo(c, tryPop) {
							onNil = true
						}
					}
				}
				if isK && !k && onNil {
					nilRet++
				} else if isK && k && !onNil {
					other++
				} else {
					nilRet = -100
				}
			}
			if nilRet > 0 && other > 0 {
				if f := popperReachedFrom(maint, dwb, map[*ssa.Function]bool{}, 0); f != nil {
					popStep = dwb
					dwb = f
				}
			}
		}
		name := funcName(dwb)
		cut := map[edge]bool{}
		allInstrs(dwb, func(in ssa.Instruction) {
			if popStep != nil && isCallTo(in, popStep) {
				for _, i := range ifsOn(in.(ssa.Value)) {
					cut[edge{i.If.Block(), 1 - i.TrueIdx}] = true
				}
			}
			if tryPop != nil && isCallTo(in, tryPop) {
				for _, u := range usesOf(in.(ssa.Value)) {
					if b, ok := u.(*ssa.BinOp); ok {
						if _, isEq, ok := nilCmp(b); ok {
							for _, i := range ifsOn(b) {
								idx := i.TrueIdx
								if !isEq {
									idx = 1 - idx
								}
								cut[edge{i.If.Block(), idx}] = true
							}
						}
					}
				}
			}
			// !withMaintenance early return
			if ifi, ok := in.(*ssa.If); ok {
				c, neg := stripNot(ifi.Cond)
				if f := fieldOf(c); f != nil && fname(f) == "withMaintenance" {
					idx := 1 // false edge of the flag
					if neg {
						idx = 0
					}
					cut[edge{ifi.Block(), idx}] = true
				}
			}
		})
		isReq := func(in ssa.Instruction) bool { return isStoreConst(in, ds, st.pToRequired) }
		ok, w := MustFollowPt(Pt{dwb.Blocks[0], 0}, isReq, exitReturn, cut)
		if !ok && len(cut) >= 1 {
			// the loop may report how it ended instead of storing the status itself: it returns one constant on the
			// exits that leave nothing behind (cut edges) and the other one at the cap, and every caller stores
			// processingToRequired on the cap value
			res := dwb.Signature.Results()
			if res.Len() == 1 && types.Identical(res.At(0).Type(), types.Typ[types.Bool]) {
				reach := reachableBlocks(dwb, cut)
				capVal, capOK, restOK := false, true, true
				nCap := 0
				for _, b := range dwb.Blocks {
					ret, isRet := b.Instrs[len(b.Instrs)-1].(*ssa.Return)
					if !isRet {
						continue
					}
					k, isK := constBool(ret.Results[0])
					if reach[b] {
						if !isK || (nCap > 0 && k != capVal) {
							capOK = false
						}
						capVal = k
						nCap++
					}
				}
				for _, b := range dwb.Blocks {
					ret, isRet := b.Instrs[len(b.Instrs)-1].(*ssa.Return)
					if isRet && !reach[b] {
						if k, isK := constBool(ret.Results[0]); !isK || k == capVal {
							restOK = false
						}
					}
				}
				callers := 0
				callersOK := true
				if capOK && restOK && nCap > 0 {
					for _, f := range cx.P.FuncsOfPkg("") {
						allInstrs(f, func(in ssa.Instruction) {
							if !isCallTo(in, dwb) {
								return
							}
							callers++
							v, _ := in.(ssa.Value)
							ifs := ifsOn(v)
							if len(ifs) == 0 {
								callersOK = false
							}
							for _, i := range ifs {
								idx := i.TrueIdx
								if !capVal {
									idx = 1 - idx
								}
								if o, _ := MustFollowPt(Pt{i.If.Block().Succs[idx], 0}, isReq, exitReturn, nil); !o {
									callersOK = false
								}
							}
						})
					}
				}
				if capOK && restOK && nCap > 0 && callers > 0 && callersOK {
					ok, w = true, nil
				}
			}
		}
		cx.R.Check(ok && len(cut) >= 1, rule, name, "drain-cap", cx.P.Pos(dwb.Pos()),
			"leaving the drain loop with tasks possibly pending stores processingToRequired", w...)
	}
	// (d)-(f) decided on the control-flow graph specialised to one status value at a time: every comparison of the
	// loaded drain status with a constant is decided, so switch, if-chains, || conditions and early returns are alike
	statuses := []struct {
		k    int64
		name string
	}{{st.idle, "idle"}, {st.required, "required"}, {st.pToIdle, "processingToIdle"}, {st.pToRequired, "processingToRequired"}}
	// (d) scheduleAfterWrite
	{
		name := funcName(saw)
		isSDB := func(x ssa.Instruction) bool { return isCallTo(x, sdb) }
		// tier 2 (computed lazily): the same clauses on the path summaries, for a machine that was reshaped
		var tier2 map[string]bool
		t2 := func(key string) bool {
			if tier2 == nil {
				tier2 = sawPathTier(cx, saw, st)
			}
			return tier2[key]
		}
		check := func(ok bool, key, text string) {
			cx.R.Check(ok || t2(key), rule, name, key, cx.P.Pos(saw.Pos()), text)
		}
		for _, sv := range statuses {
			g := specialise(saw, ds, sv.k)
			check(!g.reaches(func(in ssa.Instruction) bool { _, ok := in.(*ssa.Panic); return ok }, nil, nil), "status "+sv.name+" handled", "a valid drain status never reaches the invalid-status panic")
			isRet := func(in ssa.Instruction) bool { _, ok := in.(*ssa.Return); return ok }
			switch sv.k {
			case st.idle:
				ok := g.reaches(isRet, nil, nil) &&
					!g.reaches(isRet, func(in ssa.Instruction) bool { return isCASConst(in, ds, st.idle, st.required) }, nil) &&
					!g.reaches(isRet, isSDB, nil)
				check(ok, "case idle", "idle: CAS(idle->required) and scheduleDrainBuffers before returning")
			case st.required:
				check(g.reaches(isRet, nil, nil) && !g.reaches(isRet, isSDB, nil), "case required", "required: scheduleDrainBuffers before returning")
			case st.pToIdle:
				// no return without winning CAS(processingToIdle->processingToRequired): cut the success edges
				cut := map[edge]bool{}
				hasCAS := false
				allInstrs(saw, func(in ssa.Instruction) {
					if c, ok := in.(*ssa.Call); ok && isCASConst(c, ds, st.pToIdle, st.pToRequired) {
						for _, i := range ifsOn(c) {
							cut[edge{i.If.Block(), i.TrueIdx}] = true
							hasCAS = true
						}
					}
				})
				check(hasCAS && g.reaches(isRet, nil, nil) && !g.reaches(isRet, nil, cut), "case processingToIdle", "processingToIdle: return only on the success edge of CAS(processingToIdle->processingToRequired); otherwise retry")
			case st.pToRequired:
				check(g.reaches(isRet, nil, nil), "case processingToRequired", "processingToRequired: the running maintenance will see it")
			}
		}
	}
	// (f) shouldDrainBuffers decision table: idle -> !delayable, required -> true, processing* -> false
	{
		name := funcName(shd)
		for _, sv := range statuses {
			g := specialise(shd, ds, sv.k)
			cx.R.Check(!g.reaches(func(in ssa.Instruction) bool { _, ok := in.(*ssa.Panic); return ok }, nil, nil), rule, name, "status "+sv.name+" handled", cx.P.Pos(shd.Pos()), "a valid drain status never reaches the invalid-status panic")
			n := 0
			okAll := true
			for _, blk := range shd.Blocks {
				if !g.live[blk] {
					continue
				}
				ret, ok := blk.Instrs[len(blk.Instrs)-1].(*ssa.Return)
				if !ok || len(ret.Results) != 1 {
					continue
				}
				n++
				res := ret.Results[0]
				// a result merged from several returns (named result / result variable): take the edges that are live
				vals := []ssa.Value{res}
				if ph, isPhi := res.(*ssa.Phi); isPhi {
					vals = nil
					for i, e := range ph.Edges {
						if g.liveEdge[edge{ph.Block().Preds[i], succIndex(ph.Block().Preds[i], ph.Block())}] {
							vals = append(vals, e)
						}
					}
				}
				for _, v := range vals {
					switch sv.k {
					case st.idle:
						x, neg := stripNot(v)
						_, isParam := x.(*ssa.Parameter)
						okAll = okAll && isParam && neg
					case st.required:
						c, isC := constBool(v)
						okAll = okAll && isC && c
					default:
						c, isC := constBool(v)
						okAll = okAll && isC && !c
					}
				}
			}
			want := map[int64]string{st.idle: "idle: drain iff the read was not delayable (buffer full)", st.required: "required: always drain", st.pToIdle: "processing: never schedule another drain", st.pToRequired: "processing: never schedule another drain"}[sv.k]
			cx.R.Check(n > 0 && okAll, rule, name, "table "+sv.name, cx.P.Pos(shd.Pos()), want)
		}
	}
}

// specialised control flow: the blocks and edges of fn that can execute when every load of the status field yields k.
type specCFG struct {
	fn       *ssa.Function
	live     map[*ssa.BasicBlock]bool
	liveEdge map[edge]bool
}

func succIndex(from, to *ssa.BasicBlock) int {
	for i, s := range from.Succs {
		if s == to {
			return i
		}
	}
	return 0
}

func specialise(fn *ssa.Function, f *types.Var, k int64) *specCFG {
	g := &specCFG{fn: fn, live: map[*ssa.BasicBlock]bool{}, liveEdge: map[edge]bool{}}
	// value of a boolean under the specialisation, arriving from pred (for phis): 1 true, 0 false, -1 unknown
	var eval func(v ssa.Value, pred *ssa.BasicBlock, depth int) int
	eval = func(v ssa.Value, pred *ssa.BasicBlock, depth int) int {
		if depth > 8 {
			return -1
		}
		switch x := v.(type) {
		case *ssa.Const:
			if b, ok := constBool(x); ok {
				if b {
					return 1
				}
				return 0
			}
		case *ssa.UnOp:
			if x.Op == token.NOT {
				if r := eval(x.X, pred, depth+1); r >= 0 {
					return 1 - r
				}
			}
		case *ssa.BinOp:
			var c int64
			var isC bool
			var other ssa.Value
			flip := false
			if c, isC = constInt(x.Y); isC {
				other = x.X
			} else if c, isC = constInt(x.X); isC {
				other, flip = x.Y, true
			}
			if !isC || !isLoadOf(other, f) {
				return -1
			}
			l, r := k, c
			if flip {
				l, r = c, k
			}
			var res bool
			switch x.Op {
			case token.EQL:
				res = l == r
			case token.NEQ:
				res = l != r
			case token.LSS:
				res = l < r
			case token.LEQ:
				res = l <= r
			case token.GTR:
				res = l > r
			case token.GEQ:
				res = l >= r
			default:
				return -1
			}
			if res {
				return 1
			}
			return 0
		case *ssa.Phi:
			if pred == nil {
				return -1
			}
			for i, p := range x.Block().Preds {
				if p == pred {
					return eval(x.Edges[i], nil, depth+1)
				}
			}
		}
		return -1
	}
	type item struct{ b, pred *ssa.BasicBlock }
	work := []item{{fn.Blocks[0], nil}}
	seen := map[item]bool{}
	for len(work) > 0 {
		it := work[len(work)-1]
		work = work[:len(work)-1]
		if seen[it] {
			continue
		}
		seen[it] = true
		g.live[it.b] = true
		last := it.b.Instrs[len(it.b.Instrs)-1]
		if ifi, ok := last.(*ssa.If); ok {
			pred := it.pred
			if ph, isPhi := ifi.Cond.(*ssa.Phi); !isPhi || ph.Block() != it.b {
				pred = nil
			}
			switch eval(ifi.Cond, pred, 0) {
			case 1:
				g.liveEdge[edge{it.b, 0}] = true
				work = append(work, item{it.b.Succs[0], it.b})
			case 0:
				g.liveEdge[edge{it.b, 1}] = true
				work = append(work, item{it.b.Succs[1], it.b})
			default:
				for i, s := range it.b.Succs {
					g.liveEdge[edge{it.b, i}] = true
					work = append(work, item{s, it.b})
				}
			}
			continue
		}
		for i, s := range it.b.Succs {
			g.liveEdge[edge{it.b, i}] = true
			work = append(work, item{s, it.b})
		}
	}
	return g
}

// reaches: some live path from the entry reaches an instruction satisfying target without first crossing an instruction
// satisfying barrier (nil: none) and without using an edge in cut.
func (g *specCFG) reaches(target, barrier func(ssa.Instruction) bool, cut map[edge]bool) bool {
	seen := map[*ssa.BasicBlock]bool{}
	var walk func(b *ssa.BasicBlock) bool
	walk = func(b *ssa.BasicBlock) bool {
		if seen[b] {
			return false
		}
		seen[b] = true
		for _, in := range b.Instrs {
			if barrier != nil && barrier(in) {
				return false
			}
			if target(in) {
				return true
			}
		}
		for i, s := range b.Succs {
			if !g.liveEdge[edge{b, i}] || cut[edge{b, i}] {
				continue
			}
			if walk(s) {
				return true
			}
		}
		return false
	}
	return walk(g.fn.Blocks[0])
}

// ---- C14.lockpair ----
func ruleC14LockPair(cx *Ctx) {
	const rule = "C14.lockpair"
	cx.R.Rule(rule, 3, "Lock / successful TryLock of the eviction lock is paired with Unlock on all paths (token hand-off in scheduleDrainBuffers modelled explicitly)")
	mu := cx.needField(rule, "", "cache", "evictionMutex")
	if mu == nil {
		return
	}
	isUnlock := func(in ssa.Instruction) bool { return unlockLike(in, mu) }
	for _, fn := range cx.P.FuncsOfPkg("") {
		name := funcName(fn)
		nl := 0
		if mutexEffect(fn, mu, 0) == effAcquire {
			continue // a helper that returns holding the lock: its callers are checked instead
		}
		allInstrs(fn, func(in ssa.Instruction) {
			if _, isDefer := in.(*ssa.Defer); isDefer {
				return
			}
			if lockLike(in, mu) {
				nl++
				ok, w := MustFollow(in, isUnlock, exitReturn)
				cx.R.Check(ok, rule, name, fmt.Sprintf("Lock#%d", nl), cx.P.where(in), "Lock(evictionMutex) is released on every path to return", w...)
			}
			if mutexOp(in, mu, "TryLock") {
				nl++
				v := in.(ssa.Value)
				ifs := ifsOn(v)
				if len(ifs) == 0 {
					cx.R.Violate(rule, name, fmt.Sprintf("TryLock#%d", nl), cx.P.where(in), "TryLock result does not decide a branch")
					return
				}
				for _, i := range ifs {
					succ := i.If.Block().Succs[i.TrueIdx]
					// token hand-off: the path on which a local token's CAS(0,1) fails hands the lock to the executor task
					cut := map[edge]bool{}
					handoff := false
					allInstrs(fn, func(x ssa.Instruction) {
						if tok, isClaim := tokenClaim(x); isClaim {
							if isLocal := freshBase(tok); isLocal && tokenPassedToDrain(cx, fn, tok) {
								for _, j := range ifsOn(x.(ssa.Value)) {
									cut[edge{j.If.Block(), 1 - j.TrueIdx}] = true
									handoff = true
								}
							}
						}
					})
					ok, w := MustFollowPt(Pt{succ, 0}, isUnlock, exitReturn, cut)
					d := "a successful TryLock(evictionMutex) is released on every path to return"
					if handoff {
						d += " (except the token hand-off edge: the executor task owns the lock and releases it in drainBuffers)"
					}
					cx.R.Check(ok, rule, name, fmt.Sprintf("TryLock#%d", nl), cx.P.where(in), d, w...)
				}
			}
		})
	}
	// the hand-off receiver: drainBuffers releases on the token-won branch
	db := drainTaskFn(cx, rule)
	maint := cx.P.Func("", "cache", "maintenance")
	if db == nil || maint == nil {
		return
	}
	allInstrs(db, func(in ssa.Instruction) {
		if tok, isClaim := tokenClaim(in); isClaim {
			if _, isParam := rootOf(tok).(*ssa.Parameter); isParam {
				for _, j := range ifsOn(in.(ssa.Value)) {
					succ := j.If.Block().Succs[j.TrueIdx]
					ok, w := MustFollowPt(Pt{succ, 0}, isUnlock, exitReturn, nil)
					cx.R.Check(ok, rule, funcName(db), "token won", cx.P.where(in), "the executor task that wins the token runs with the scheduler's lock and releases it", w...)
					memo := map[*ssa.Function]int{}
					isMaint := func(x ssa.Instruction) bool { return isCallTo(x, maint) }
					ok2, w2 := MustFollowPt(Pt{succ, 0}, func(x ssa.Instruction) bool {
						if isMaint(x) {
							return true
						}
						c := calleeOf(x)
						return c != nil && c.Pkg != nil && c.Pkg.Pkg.Path() == modPath && mustPerform(c, isMaint, memo)
					}, exitReturn, nil)
					cx.R.Check(ok2, rule, funcName(db), "token won: maintenance", cx.P.where(in), "the executor task that wins the token runs maintenance", w2...)
				}
			}
		}
	})
}

func tokenPassedToDrain(cx *Ctx, fn *ssa.Function, tok ssa.Value) bool {
	db := drainTaskFn(cx, "")
	if db == nil {
		return false
	}
	found := false
	withClosures(fn, func(f *ssa.Function) {
		allInstrs(f, func(in ssa.Instruction) {
			if isCallTo(in, db) {
				found = true
			}
			// a named method handed over as a value (job.run) that reaches drainBuffers
			if mc, ok := in.(*ssa.MakeClosure); ok {
				if bm := boundMethod(mc); bm != nil {
					if origin(bm) == origin(db) {
						found = true
					}
					if ok, _ := reachesInstr(origin(bm), func(x ssa.Instruction) bool { return isCallTo(x, db) }, map[*ssa.Function]bool{}, nil); ok {
						found = true
					}
				}
			}
		})
	})
	_ = tok
	return found
}

// freshBase: the address lies inside an object allocated in this function (a local, or a field of a new struct).
func freshBase(v ssa.Value) bool {
	for i := 0; i < 4; i++ {
		v = stripLoad(v)
		switch x := v.(type) {
		case *ssa.Alloc:
			return true
		case *ssa.FieldAddr:
			v = x.X
		default:
			return false
		}
	}
	return false
}

// ---- C14.dispatch ----
func ruleC14Dispatch(cx *Ctx) {
	const rule = "C14.dispatch"
	cx.R.Rule(rule, 1, "a scheduled drain really runs maintenance: scheduleDrainBuffers publishes processingToIdle and hands a task to the executor that must reach maintenance; drainBuffers reaches maintenance on all paths")
	sdb := cx.need(rule, "", "cache", "scheduleDrainBuffers")
	db := drainTaskFn(cx, rule)
	maint := cx.need(rule, "", "cache", "maintenance")
	mu := cx.needField(rule, "", "cache", "evictionMutex")
	ds := cx.needField(rule, "", "cache", "drainStatus")
	ex := cx.needField(rule, "", "cache", "executor")
	st := cx.status(rule)
	if sdb == nil || db == nil || maint == nil || mu == nil || ds == nil || ex == nil || !st.ok {
		return
	}
	memo := map[*ssa.Function]int{}
	isMaint := func(in ssa.Instruction) bool { return isCallTo(in, maint) }
	cx.R.Check(mustPerform(db, isMaint, memo), rule, funcName(db), "reaches maintenance", cx.P.Pos(db.Pos()), "every path of drainBuffers runs maintenance (directly or via performCleanUp)")
	// in scheduleDrainBuffers: after a successful TryLock every path either releases (status already processing) or dispatches
	name := funcName(sdb)
	isDispatch := func(in ssa.Instruction) bool {
		cc := callCommon(in)
		if cc == nil || cc.IsInvoke() || cc.StaticCallee() != nil {
			return false
		}
		if !sameField(fieldOf(cc.Value), ex) || len(cc.Args) != 1 {
			return false
		}
		cl := closureOf(cc.Args[0])
		return cl != nil && mustPerform(cl, func(x ssa.Instruction) bool { return isCallTo(x, db) }, map[*ssa.Function]int{})
	}
	n := 0
	allInstrs(sdb, func(in ssa.Instruction) {
		if !mutexOp(in, mu, "TryLock") {
			return
		}
		for _, i := range ifsOn(in.(ssa.Value)) {
			n++
			succ := i.If.Block().Succs[i.TrueIdx]
			// cut the edge on which the re-read status is already >= processingToIdle
			cut := map[edge]bool{}
			allInstrs(sdb, func(x ssa.Instruction) {
				ifi, ok := x.(*ssa.If)
				if !ok {
					return
				}
				c, neg := stripNot(ifi.Cond)
				if b, ok := c.(*ssa.BinOp); ok && isLoadOf(b.X, ds) && instrDominates(in, ifi) {
					if k, ok := constInt(b.Y); ok && k == st.pToIdle && b.Op.String() == ">=" {
						idx := 0
						if neg {
							idx = 1
						}
						cut[edge{ifi.Block(), idx}] = true
					}
				}
			})
			ok, w := MustFollowPt(Pt{succ, 0}, isDispatch, exitReturn, cut)
			cx.R.Check(ok, rule, name, "dispatch", cx.P.where(in), "after winning the lock with status < processingToIdle an executor task that reaches drainBuffers is submitted", w...)
			ok2, w2 := MustFollowPt(Pt{succ, 0}, func(x ssa.Instruction) bool {
				return isStoreConst(x, ds, st.pToIdle) || isDispatch(x)
			}, exitReturn, cut)
			// the status store must precede the dispatch
			var storeI, dispI ssa.Instruction
			allInstrs(sdb, func(x ssa.Instruction) {
				if isStoreConst(x, ds, st.pToIdle) {
					storeI = x
				}
				if isDispatch(x) {
					dispI = x
				}
			})
			cx.R.Check(ok2 && storeI != nil && dispI != nil && instrDominates(storeI, dispI), rule, name, "publish-before-dispatch", cx.P.where(in),
				"drainStatus.Store(processingToIdle) precedes the executor dispatch (concurrent writers then rely on this run)", w2...)
		}
	})
	if n == 0 {
		cx.R.Violate(rule, name, "TryLock", cx.P.Pos(sdb.Pos()), "scheduleDrainBuffers no longer try-locks the eviction lock")
	}
}

// mustFollowInter is MustFollow that, when a function exit is reached first, continues after every synchronous call
// site of that function (helpers such as unlockAndReschedule / lockedMaintenance keep the obligation with the caller).
func mustFollowInter(cx *Ctx, from ssa.Instruction, is func(ssa.Instruction) bool, depth int) (bool, []string) {
	ok, w := MustFollow(from, is, exitReturn)
	if ok || depth == 0 {
		return ok, w
	}
	lc := lockContext(cx)
	if lc == nil {
		return false, w
	}
	fn := origin(from.Parent())
	if from.Parent().Parent() != nil {
		return false, w // closures: no continuation
	}
	sites := lc.sites[fn]
	if len(sites) == 0 {
		return false, w
	}
	for _, s := range sites {
		if ok2, w2 := mustFollowInter(cx, s, is, depth-1); !ok2 {
			return false, append(append(w, "… continuing after the call at "+cx.P.where(s)+" in "+funcName(s.Parent())), w2...)
		}
	}
	return true, nil
}

// popperReachedFrom returns the function statically reached from fn (depth <= 3, module only) that calls tryPop itself.
func popperReachedFrom(fn, tryPop *ssa.Function, seen map[*ssa.Function]bool, depth int) *ssa.Function {
	fn = origin(fn)
	if fn == nil || tryPop == nil || seen[fn] || depth > 3 || len(fn.Blocks) == 0 {
		return nil
	}
	seen[fn] = true
	var out *ssa.Function
	allInstrs(fn, func(in ssa.Instruction) {
		if out == nil && isCallTo(in, tryPop) {
			out = fn
		}
	})
	if out != nil {
		return out
	}
	allInstrs(fn, func(in ssa.Instruction) {
		if out != nil {
			return
		}
		if g := calleeOf(in); g != nil && g.Pkg != nil && strings.HasPrefix(g.Pkg.Pkg.Path(), modPath) {
			out = popperReachedFrom(g, tryPop, seen, depth+1)
		}
	})
	return out
}

// tokenClaim recognises the claim of the hand-off token: CompareAndSwap on an atomic.Uint32, made directly or through a
// straight-line method of the module that wraps exactly that operation on a field of its receiver and returns its
// result. It returns the token object (the atomic itself, or the value whose method was called).
func tokenClaim(in ssa.Instruction) (ssa.Value, bool) {
	if _, isCall := in.(*ssa.Call); !isCall {
		return nil, false
	}
	if isStdMethod(in, "sync/atomic", "Uint32", "CompareAndSwap") {
		return recvValue(in), true
	}
	g := calleeOf(in)
	if g == nil || g.Pkg == nil || !strings.HasPrefix(g.Pkg.Pkg.Path(), modPath) {
		return nil, false
	}
	g = origin(g)
	if len(g.Blocks) != 1 || len(g.Params) == 0 || g.Signature.Recv() == nil {
		return nil, false
	}
	var cas ssa.Value
	n := 0
	var ret *ssa.Return
	allInstrs(g, func(x ssa.Instruction) {
		if isStdMethod(x, "sync/atomic", "Uint32", "CompareAndSwap") {
			n++
			if rootOf(recvValue(x)) == ssa.Value(g.Params[0]) {
				cas, _ = x.(ssa.Value)
			}
		} else if c, isC := x.(*ssa.Call); isC && c != nil {
			n += 2 // any other call: not a plain wrapper
		}
		if r, isR := x.(*ssa.Return); isR {
			ret = r
		}
	})
	if n != 1 || cas == nil || ret == nil || len(ret.Results) != 1 || ret.Results[0] != cas {
		return nil, false
	}
	cc := callCommon(in)
	if cc == nil || len(cc.Args) == 0 {
		return nil, false
	}
	return cc.Args[0], true
}

// drainTaskFn: the function the executor runs for a scheduled drain - cache.drainBuffers, or, when the hand-off became an
// object of its own, the function handed to the executor by scheduleDrainBuffers (or called by that closure) that
// try-locks the eviction mutex. rule == "": no obligation is recorded when nothing is found.
func drainTaskFn(cx *Ctx, rule string) *ssa.Function {
	if f := cx.P.Func("", "cache", "drainBuffers"); f != nil && len(f.Blocks) > 0 {
		return f
	}
	sched := cx.P.Func("", "cache", "scheduleDrainBuffers")
	ex := cx.P.Field("", "cache", "executor")
	mu := cx.P.Field("", "cache", "evictionMutex")
	var found *ssa.Function
	if sched != nil && ex != nil && mu != nil {
		consider := func(f *ssa.Function) {
			if f == nil || found != nil {
				return
			}
			f = origin(f)
			allInstrs(f, func(in ssa.Instruction) {
				if mutexOp(in, mu, "TryLock") {
					found = f
				}
			})
		}
		allInstrs(sched, func(in ssa.Instruction) {
			cc := callCommon(in)
			if cc == nil || cc.IsInvoke() || cc.StaticCallee() != nil || !sameField(fieldOf(cc.Value), ex) || len(cc.Args) != 1 {
				return
			}
			var cands []*ssa.Function
			if cl := closureOf(cc.Args[0]); cl != nil {
				cands = append(cands, cl)
			}
			cands = append(cands, funcValuesOf(cc.Args[0], 0, map[ssa.Value]bool{}, nil)...)
			for _, f := range cands {
				consider(f)
				allInstrs(f, func(x ssa.Instruction) {
					if c := calleeOf(x); c != nil && c.Pkg != nil && strings.HasPrefix(c.Pkg.Pkg.Path(), modPath) {
						consider(c)
					}
				})
			}
		})
	}
	if found == nil && rule != "" {
		cx.R.Undecided(rule, "cache.drainBuffers", "anchor", "-", "anchored mechanism cache.drainBuffers does not resolve any more")
	}
	return found
}

package main

import (
	"fmt"
	"go/token"
	"go/types"
	"strings"

	"golang.org/x/tools/go/ssa"
)

func init() {
	register("C17",
		"Decides the disciplines that keep the lossy read buffer from corrupting reads, on every path of internal/lossy and of its users: a producer stores into a ring slot only after winning the tail CAS, into the slot of the tail it reserved, and only below the fixed capacity (constants agree with the array length); "+
			"the consumer hands over only non-nil loaded slots, clears a slot before the head is published, stops at the first unpublished slot and advances the head once per delivered element; the stripe table and stripe slots are written only inside the busy region, which is always left; expansion copies every existing stripe; draining happens only under the eviction lock; "+
			"the status returned by Add influences nothing but the drain-scheduling decision. NOT decided: absence of loss/duplication over all interleavings.",
		[]string{"sync/atomic operations are sequentially consistent", "a single consumer drains (decided by C17.single)"},
		ruleC17Reserve, ruleC17Drain, ruleC17Busy, ruleC17Copy, ruleC17Single, ruleC17NoEffect, ruleC17OnceAdd, ruleC17Current, ruleC17Walk, ruleC17Init, ruleC17Bound, ruleC17Delivered, ruleC17DrainAll)
}

const lossyPkg = "internal/lossy"

// ringSlot recognises &r.buffer[idx] on lossy.ring, written in place or obtained from a slot accessor.
func ringSlot(cx *Ctx, v ssa.Value) (idx ssa.Value, ok bool) {
	ia, isIA := v.(*ssa.IndexAddr)
	if !isIA {
		if _, _, ok := ringSlotOf(cx, v); ok {
			return nil, true
		}
		return nil, false
	}
	buf := cx.P.Field(lossyPkg, "ring", "buffer")
	if buf == nil || !sameField(fieldOf(ia.X), buf) {
		return nil, false
	}
	return ia.Index, true
}

// maskOf: v = x & c or, for a power of two c+1, x % (c+1): the count x reduced to a slot index.
func maskOf(v ssa.Value) (ssa.Value, int64, bool) {
	if x, c, ok := andMask(v); ok {
		return x, c, true
	}
	if b, ok := v.(*ssa.BinOp); ok && b.Op == token.REM {
		if c, ok := constInt(b.Y); ok && c > 0 && c&(c-1) == 0 {
			if t, isB := b.X.Type().Underlying().(*types.Basic); isB && t.Info()&types.IsUnsigned != 0 {
				return b.X, c - 1, true
			}
		}
	}
	return nil, 0, false
}

// ringSlotOf: v addresses the ring slot of the read/write count x, i.e. &r.buffer[x & m]: in place, or through a
// straight-line accessor `func (r *ring) slot(count) *unsafe.Pointer { return &r.buffer[count & m] }`.
func ringSlotOf(cx *Ctx, v ssa.Value) (x ssa.Value, m int64, ok bool) {
	buf := cx.P.Field(lossyPkg, "ring", "buffer")
	if buf == nil {
		return nil, 0, false
	}
	if ia, isIA := v.(*ssa.IndexAddr); isIA && sameField(fieldOf(ia.X), buf) {
		return maskOf(ia.Index)
	}
	c, isCall := v.(*ssa.Call)
	if !isCall || c.Call.IsInvoke() || c.Call.StaticCallee() == nil {
		return nil, 0, false
	}
	callee := origin(c.Call.StaticCallee())
	if callee == nil || len(callee.Blocks) != 1 || len(callee.Params) != len(c.Call.Args) {
		return nil, 0, false
	}
	for _, in := range callee.Blocks[0].Instrs {
		ret, isRet := in.(*ssa.Return)
		if !isRet || len(ret.Results) != 1 {
			continue
		}
		ia, isIA := ret.Results[0].(*ssa.IndexAddr)
		if !isIA || !sameField(fieldOf(ia.X), buf) {
			return nil, 0, false
		}
		px, pm, pok := maskOf(ia.Index)
		if !pok {
			return nil, 0, false
		}
		for i, p := range callee.Params {
			if ssa.Value(p) == px {
				return c.Call.Args[i], pm, true
			}
		}
	}
	return nil, 0, false
}

func andMask(v ssa.Value) (ssa.Value, int64, bool) {
	b, ok := v.(*ssa.BinOp)
	if !ok || b.Op != token.AND {
		return nil, 0, false
	}
	if c, ok := constInt(b.Y); ok {
		return b.X, c, true
	}
	if c, ok := constInt(b.X); ok {
		return b.Y, c, true
	}
	return nil, 0, false
}

func ringLen(cx *Ctx) int64 {
	buf := cx.P.Field(lossyPkg, "ring", "buffer")
	if buf == nil {
		return -1
	}
	if a, ok := buf.Type().Underlying().(*types.Array); ok {
		return a.Len()
	}
	return -1
}

func ruleC17Reserve(cx *Ctx) {
	const rule = "C17.reserve"
	cx.R.Rule(rule, 2, "ring.add: the slot store is dominated by the successful CAS(tail, t, t+1), targets slot t & (len-1), and the CAS is attempted only when tail-head < len(buffer); result codes match what happened")
	fn := cx.need(rule, lossyPkg, "ring", "add")
	head := cx.needField(rule, lossyPkg, "ring", "head")
	tail := cx.needField(rule, lossyPkg, "ring", "tail")
	if fn == nil || head == nil || tail == nil {
		return
	}
	name := funcName(fn)
	n := ringLen(cx)
	var cas *ssa.Call
	allInstrs(fn, func(in ssa.Instruction) {
		if c, ok := in.(*ssa.Call); ok && atomicOp(c, tail, "CompareAndSwap") {
			cas = c
		}
	})
	if cas == nil {
		cx.R.Violate(rule, name, "tail CAS", cx.P.Pos(fn.Pos()), "ring.add has no CompareAndSwap on tail")
		return
	}
	a := callArgs(cas)
	t := a[0]
	cx.R.Check(atomicFieldLoad(t, tail) && isAddConst(a[1], t, 1), rule, name, "CAS shape", cx.P.where(cas), "a single CAS(tail, t, t+1) on the tail value read in this call")
	// capacity guard
	capOK := false
	for _, g := range guardsAt(cas.Block()) {
		b, ok := g.Cond.(*ssa.BinOp)
		if !ok {
			continue
		}
		bx, bop, by := constOnRight(b)
		k, isK := constInt(by)
		d, isD := bx.(*ssa.BinOp)
		if isK && isD && d.Op == token.SUB && d.X == t && atomicFieldLoad(d.Y, head) {
			if (bop == token.GEQ && !g.Truth && k == n) || (bop == token.LSS && g.Truth && k == n) || (bop == token.GTR && !g.Truth && k == n-1) || (bop == token.LEQ && g.Truth && k == n-1) {
				capOK = true
			}
		}
	}
	cx.R.Check(capOK, rule, name, "capacity guard", cx.P.where(cas), fmt.Sprintf("the reservation is attempted only when tail-head < %d = len(ring.buffer)", n))
	var stores []ssa.Instruction
	allInstrs(fn, func(in ssa.Instruction) {
		if isAtomicPtr(in, "StorePointer") {
			if _, ok := ringSlot(cx, callCommon(in).Args[0]); ok {
				stores = append(stores, in)
			}
		}
		if st, ok := in.(*ssa.Store); ok {
			if _, isSlot := ringSlot(cx, st.Addr); isSlot {
				cx.R.Violate(rule, name, "plain slot store", cx.P.where(in), "ring slot written without sync/atomic in a function that runs concurrently with the consumer")
			}
		}
	})
	if len(stores) != 1 {
		cx.R.Violate(rule, name, "slot store", cx.P.Pos(fn.Pos()), fmt.Sprintf("expected exactly one atomic slot store in ring.add, found %d", len(stores)))
		return
	}
	st := stores[0]
	dom := false
	for _, i := range ifsOn(cas) {
		if cfgOf(fn).dominatedByEdge(edge{i.If.Block(), i.TrueIdx})[st.Block()] {
			dom = true
		}
	}
	cx.R.Check(dom, rule, name, "reserve-before-publish", cx.P.where(st), "the slot store executes only after the tail CAS succeeded")
	x, m, ok := ringSlotOf(cx, callCommon(st).Args[0])
	cx.R.Check(ok && x == t && m == n-1, rule, name, "slot index", cx.P.where(st), fmt.Sprintf("slot = reserved tail & %d (len-1)", n-1))
	// stored value is the argument node
	sv := callCommon(st).Args[1]
	okVal := false
	if c, isCall := sv.(*ssa.Call); isCall && invokeName(c) == "AsPointer" {
		_, okVal = c.Call.Value.(*ssa.Parameter)
	}
	cx.R.Check(okVal, rule, name, "stored value", cx.P.where(st), "the stored pointer is the recorded node's")
	// result codes
	succ, full, failed := statusConst(cx, "Success"), statusConst(cx, "Full"), statusConst(cx, "Failed")
	allInstrs(fn, func(in ssa.Instruction) {
		ret, ok := in.(*ssa.Return)
		if !ok || len(ret.Results) != 1 {
			return
		}
		c, isC := constInt(ret.Results[0])
		if !isC {
			cx.R.Violate(rule, name, "result", cx.P.where(ret), "non-constant status")
			return
		}
		switch c {
		case succ:
			cx.R.Check(instrDominates(st, ret), rule, name, "Success", cx.P.where(ret), "Success is returned only after the slot store")
		case full:
			onCap := false
			for _, g := range guardsAt(ret.Block()) {
				// size >= capacity, in either spelling: (size >= n) true, or (size < n) false
				if b, ok := g.Cond.(*ssa.BinOp); ok {
					if _, bop, _ := constOnRight(b); (bop == token.GEQ && g.Truth) || (bop == token.LSS && !g.Truth) {
						onCap = true
					}
				}
			}
			cx.R.Check(onCap && !canReach(cas, ret), rule, name, "Full", cx.P.where(ret), "Full is returned only on the capacity edge, without reserving")
		case failed:
			cx.R.Check(!canReach(st, ret), rule, name, "Failed", cx.P.where(ret), "Failed is returned only when nothing was stored")
		}
	})
}

func statusConst(cx *Ctx, name string) int64 {
	c := cx.P.Const(lossyPkg, name)
	if c == nil {
		return -99
	}
	v, _ := constInt(ssa.NewConst(c.Val(), c.Type()))
	return v
}

func ruleC17Drain(cx *Ctx) {
	const rule = "C17.drain"
	cx.R.Rule(rule, 2, "ring.drainTo: the consumer gets only a loaded non-nil slot, the slot is cleared before the consumer runs and before head is published, draining stops at the first unpublished slot, head advances by one per delivered element")
	fn := cx.need(rule, lossyPkg, "ring", "drainTo")
	head := cx.needField(rule, lossyPkg, "ring", "head")
	if fn == nil || head == nil {
		return
	}
	name := funcName(fn)
	n := ringLen(cx)
	var load, clear, consume, publish ssa.Instruction
	allInstrs(fn, func(in ssa.Instruction) {
		switch {
		case isAtomicPtr(in, "LoadPointer"):
			if _, ok := ringSlot(cx, callCommon(in).Args[0]); ok {
				load = in
			}
		case isAtomicPtr(in, "StorePointer"):
			if _, ok := ringSlot(cx, callCommon(in).Args[0]); ok && isNilConst(callCommon(in).Args[1]) {
				clear = in
			}
		case atomicOp(in, head, "Store"):
			publish = in
		default:
			if cc := callCommon(in); cc != nil && !cc.IsInvoke() {
				if p, ok := cc.Value.(*ssa.Parameter); ok && p == bparam(fn, 1) {
					consume = in
				}
			}
		}
	})
	if load == nil || clear == nil || consume == nil || publish == nil {
		cx.R.Violate(rule, name, "shape", cx.P.Pos(fn.Pos()), "drainTo no longer has the load / clear / consumer call / head publish shape")
		return
	}
	lv := load.(*ssa.Call)
	// consumer argument derives from the loaded pointer
	argOK := false
	fromPtr := cx.P.Func("internal/generated/node", "Manager", "FromPointer")
	if c, ok := callCommon(consume).Args[0].(*ssa.Call); ok && fromPtr != nil && isCallTo(c, fromPtr) {
		for _, a := range c.Call.Args {
			if a == ssa.Value(lv) {
				argOK = true
			}
		}
	}
	cx.R.Check(argOK, rule, name, "delivered element", cx.P.where(consume), "the consumer receives exactly the pointer loaded from the slot")
	nonNil := false
	for _, g := range guardsAt(consume.Block()) {
		if x, isEq, ok := nilCmp(g.Cond); ok && x == ssa.Value(lv) && (isEq != g.Truth) {
			nonNil = true
		}
	}
	cx.R.Check(nonNil, rule, name, "non-nil only", cx.P.where(consume), "the consumer is called only on the edge where the loaded slot is non-nil")
	// same slot loaded and cleared
	hx, m, okm := ringSlotOf(cx, callCommon(load).Args[0])
	cxv, cm, okc := ringSlotOf(cx, callCommon(clear).Args[0])
	sameSlot := okm && okc && hx == cxv && m == cm
	if callCommon(load).Args[0] == callCommon(clear).Args[0] {
		sameSlot = okm // the very same address value (slot := r.slot(head))
	}
	cx.R.Check(sameSlot && okm && m == n-1, rule, name, "slot identity", cx.P.where(clear), fmt.Sprintf("the cleared slot is the loaded slot head & %d", n-1))
	cx.R.Check(instrDominates(clear, consume), rule, name, "clear ≺ deliver", cx.P.where(clear), "a slot is cleared before its element is delivered (never delivered twice by a later drain)")
	// stop at first unpublished slot: from the nil edge the consumer call is unreachable
	stopOK := false
	for _, u := range usesOf(lv) {
		if b, ok := u.(*ssa.BinOp); ok {
			if _, isEq, ok := nilCmp(b); ok {
				for _, i := range ifsOn(b) {
					idx := i.TrueIdx
					if !isEq {
						idx = 1 - idx
					}
					tgt := i.If.Block().Succs[idx]
					if !blockReachable(tgt, consume.Block()) {
						stopOK = true
					}
				}
			}
		}
	}
	cx.R.Check(stopOK, rule, name, "stop at unpublished", cx.P.where(load), "an unpublished (nil) slot ends the drain; later slots are not skipped to")
	// head advances by exactly one per delivered element: the loop-carried head is phi(loaded head, head+1) with the +1 in the consumer's block chain
	advOK := false
	if ph, ok := hx.(*ssa.Phi); ok {
		for i, e := range ph.Edges {
			if isAddConst(e, ph, 1) && blockReachable(consume.Block(), ph.Block().Preds[i]) {
				advOK = true
			}
		}
		pa := callArgs(publish)
		cx.R.Check(len(pa) == 1 && pa[0] == ssa.Value(ph), rule, name, "publish head", cx.P.where(publish), "the published head is the loop-carried head (one past the last delivered slot)")
	}
	cx.R.Check(advOK, rule, name, "advance by one", cx.P.where(consume), "head advances by exactly one for each delivered element")
	cx.R.Check(!canReach(publish, consume), rule, name, "publish last", cx.P.where(publish), "head is published after the last delivery of this drain")
}

func ruleC17Busy(cx *Ctx) {
	const rule = "C17.busy"
	cx.R.Rule(rule, 1, "stores to Striped.striped and to a stripe slot happen only inside a busy region (after winning busy.CAS(0,1)), and every busy region ends with busy.Store(0) on all paths")
	busy := cx.needField(rule, lossyPkg, "Striped", "busy")
	striped := cx.needField(rule, lossyPkg, "Striped", "striped")
	buffers := cx.needField(rule, lossyPkg, "striped", "buffers")
	if busy == nil || striped == nil || buffers == nil {
		return
	}
	for _, fn := range cx.P.FuncsOfPkg(lossyPkg) {
		name := funcName(fn)
		var regions []*ssa.Call
		allInstrs(fn, func(in ssa.Instruction) {
			if c, ok := in.(*ssa.Call); ok && (atomicOp(c, busy, "CompareAndSwap") || flagTry(c, busy)) {
				regions = append(regions, c)
			}
		})
		isRelease := func(in ssa.Instruction) bool { return flagRelease(in, busy) }
		for ri, c := range regions {
			cx.R.Check(flagTry(c, busy), rule, name, fmt.Sprintf("acquire#%d", ri+1), cx.P.where(c), "the busy flag is taken with CAS(0,1)")
			for _, i := range ifsOn(c) {
				succ := i.If.Block().Succs[i.TrueIdx]
				ok, w := MustFollowPt(Pt{succ, 0}, isRelease, exitReturn|exitPanic, nil)
				cx.R.Check(ok, rule, name, fmt.Sprintf("release#%d", ri+1), cx.P.where(c), "every path out of the busy region stores busy=0", w...)
			}
		}
		// protected writes
		nw := 0
		allInstrs(fn, func(in ssa.Instruction) {
			isTableStore := isStdMethod(in, "sync/atomic", "Pointer", "Store") && sameField(recvField(in), striped)
			isSlotStore := false
			var slotBase ssa.Value
			if isStdMethod(in, "sync/atomic", "Pointer", "Store") {
				if ia, ok := recvValue(in).(*ssa.IndexAddr); ok && sameField(fieldOf(ia.X), buffers) {
					isSlotStore = true
					if fa, ok := stripLoad(ia.X).(*ssa.FieldAddr); ok {
						slotBase = fa.X
					}
				} else if len(slotFromHelper(recvValue(in), buffers)) > 0 {
					isSlotStore = true // the slot address comes from a helper (s.emptySlot(t))
				}
			}
			if !isTableStore && !isSlotStore {
				return
			}
			nw++
			// a slot of a table allocated in this function and not yet published is private
			if isSlotStore {
				if fresh := freshObject(slotBase); fresh {
					published := false
					for _, u := range usesOf(slotBase) {
						if isStdMethod(u, "sync/atomic", "Pointer", "Store") && sameField(recvField(u), striped) && instrDominates(u, in) {
							published = true
						}
					}
					if !published {
						// still must be inside the busy region because it is published there; fall through to the region test
					}
				}
			}
			inRegion := false
			if bc := busyContext(cx); bc != nil {
				inRegion = bc.heldAt(in)
			}
			what := "stripe table"
			if isSlotStore {
				what = "stripe slot"
			}
			cx.R.Check(inRegion, rule, name, fmt.Sprintf("%s store #%d", what, nw), cx.P.where(in), what+" is written only while the busy flag is held")
		})
	}
}

func ruleC17Copy(cx *Ctx) {
	const rule = "C17.copy"
	cx.R.Rule(rule, 1, "expansion doubles the stripe table and copies every existing stripe (index j < old.len, same j on both sides) before publishing it; attach re-checks the slot under the busy flag")
	striped := cx.needField(rule, lossyPkg, "Striped", "striped")
	buffers := cx.needField(rule, lossyPkg, "striped", "buffers")
	lenF := cx.needField(rule, lossyPkg, "striped", "len")
	if striped == nil || buffers == nil || lenF == nil {
		return
	}
	slotOf := func(v ssa.Value) (base, idx ssa.Value, ok bool) {
		ia, isIA := v.(*ssa.IndexAddr)
		if !isIA {
			return nil, nil, false
		}
		if ms, isMS := ia.X.(*ssa.MakeSlice); isMS {
			// the new table's slice is filled before the table literal is built around it: the table is the object whose
			// buffers field receives this slice
			for _, u := range usesOf(ms) {
				if st, isSt := u.(*ssa.Store); isSt && st.Val == ssa.Value(ms) {
					if fa, isFA := st.Addr.(*ssa.FieldAddr); isFA && sameField(fieldOf(fa), buffers) {
						return fa.X, ia.Index, true
					}
				}
			}
			return nil, nil, false
		}
		if !sameField(fieldOf(ia.X), buffers) {
			return nil, nil, false
		}
		fa, _ := stripLoad(ia.X).(*ssa.FieldAddr)
		if fa == nil {
			return nil, nil, false
		}
		return fa.X, ia.Index, true
	}
	copies := 0
	for _, fn := range cx.P.FuncsOfPkg(lossyPkg) {
		name := funcName(fn)
		allInstrs(fn, func(in ssa.Instruction) {
			if !isStdMethod(in, "sync/atomic", "Pointer", "Store") {
				return
			}
			nb, ni, ok := slotOf(recvValue(in))
			if !ok {
				return
			}
			a := callArgs(in)
			ld, isLd := a[0].(*ssa.Call)
			if !isLd || !isStdMethod(ld, "sync/atomic", "Pointer", "Load") {
				return
			}
			ob, oi, ok := slotOf(recvValue(ld))
			if !ok {
				return
			}
			copies++
			fresh := freshObject(nb)
			cx.R.Check(fresh && nb != ob && ni == oi, rule, name, "copy index", cx.P.where(in), "new.buffers[j] = old.buffers[j] with the same j, into a freshly allocated table")
			boundOK := false
			var header *ssa.BasicBlock
			if ph, isPhi := ni.(*ssa.Phi); isPhi {
				header = ph.Block()
				if init, bound, ok := loopInduction(ph); ok {
					c0, isC := constInt(init)
					if isC && c0 == 0 && sameField(fieldOf(bound), lenF) {
						if fa, ok := stripLoad(bound).(*ssa.FieldAddr); ok && fa.X == ob {
							boundOK = true
						}
					}
				}
			}
			cx.R.Check(boundOK, rule, name, "copy bound", cx.P.where(in), "the copy loop runs j = 0 .. old.len-1 (every existing stripe)")
			// published after the loop: the publish is dominated by the loop header and lies outside the copy loop
			pubOK := false
			if header != nil {
				loop := naturalLoop(header)
				allInstrs(fn, func(x ssa.Instruction) {
					if isStdMethod(x, "sync/atomic", "Pointer", "Store") && sameField(recvField(x), striped) {
						if pa := callArgs(x); len(pa) == 1 && pa[0] == nb && !loop[x.Block()] && (header.Dominates(x.Block()) || dominatesViaGuard(header, x.Block())) {
							pubOK = true
						}
					}
				})
			}
			cx.R.Check(pubOK, rule, name, "publish after copy", cx.P.where(in), "the doubled table is published only after the copy loop")
			dbl := false
			for _, u := range usesOf(nb) {
				if fa, ok := u.(*ssa.FieldAddr); ok && sameField(fieldOf(fa), lenF) {
					for _, w := range usesOf(fa) {
						if st, ok := w.(*ssa.Store); ok {
							t := newTermBuilder().of(st.Val)
							if t.Op == "*" && len(t.Args) == 2 {
								for i := 0; i < 2; i++ {
									if t.Args[i].isConst() && t.Args[i].C == 2 && strings.HasPrefix(t.Args[1-i].String(), "field:len(") {
										dbl = true
									}
								}
							}
						}
					}
				}
			}
			// the table built by a constructor: its len field is stored there from a parameter; take the argument
			if call, isCall := nb.(*ssa.Call); isCall && !dbl {
				if ctor := calleeOf(call); ctor != nil {
					allInstrs(ctor, func(x ssa.Instruction) {
						st, ok := x.(*ssa.Store)
						if !ok || !sameField(fieldOf(st.Addr), lenF) {
							return
						}
						for pi, p := range ctor.Params {
							if ssa.Value(p) == st.Val && pi < len(call.Call.Args) {
								t := newTermBuilder().of(call.Call.Args[pi])
								if t.Op == "*" && len(t.Args) == 2 {
									for i := 0; i < 2; i++ {
										if t.Args[i].isConst() && t.Args[i].C == 2 && strings.HasPrefix(t.Args[1-i].String(), "field:len(") {
											dbl = true
										}
									}
								}
							}
						}
					})
				}
			}
			cx.R.Check(dbl, rule, name, "doubling", cx.P.where(in), "the new table has twice the old length (power of two keeps idx & (len-1) valid)")
		})
	}
	if copies == 0 {
		cx.R.Violate(rule, "lossy", "copy loop", "-", "NOT SATISFIED: expansion no longer copies existing stripes into the new table")
	}
}

func ruleC17Single(cx *Ctx) {
	const rule = "C17.single"
	cx.R.Rule(rule, 1, "readBuffer.DrainTo is called only with the eviction lock held (single consumer)")
	rb := cx.needField(rule, "", "cache", "readBuffer")
	drain := cx.need(rule, lossyPkg, "Striped", "DrainTo")
	if rb == nil || drain == nil {
		return
	}
	lc := lockContext(cx)
	if lc == nil {
		cx.R.Undecided(rule, "*", "lock context", "-", "eviction-lock context analysis unavailable")
		return
	}
	for _, fn := range cx.P.FuncsOfPkg("") {
		allInstrs(fn, func(in ssa.Instruction) {
			if callOnField(in, rb, drain) {
				cx.R.Check(lc.heldAtCtx(in), rule, funcName(fn), "DrainTo", cx.P.where(in), "the read buffer is drained under the eviction lock: "+lc.explain(in))
			}
		})
	}
	// ring.drainTo is reachable only through Striped.DrainTo
	rd := cx.P.Func(lossyPkg, "ring", "drainTo")
	if rd != nil {
		for _, fn := range cx.P.ModuleFuncs() {
			allInstrs(fn, func(in ssa.Instruction) {
				if isCallTo(in, rd) {
					cx.R.Check(onlyWithin(cx, outermost(fn), drain, 0), rule, funcName(fn), "ring.drainTo caller", cx.P.where(in), "rings are drained only through Striped.DrainTo (itself, its closures, or a helper that only it uses)")
				}
			})
		}
	}
}

// ruleC17NoEffect: forward slice of the Add status inside package otter reaches only the scheduling decision.
func ruleC17NoEffect(cx *Ctx) {
	const rule = "C17.noeffect"
	cx.R.Rule(rule, 1, "the status returned by readBuffer.Add flows only into the drain-scheduling decision, never into a result, a store or another call")
	rb := cx.needField(rule, "", "cache", "readBuffer")
	add := cx.need(rule, lossyPkg, "Striped", "Add")
	shd := cx.need(rule, "", "cache", "shouldDrainBuffers")
	if rb == nil || add == nil || shd == nil {
		return
	}
	for _, fn := range cx.P.FuncsOfPkg("") {
		allInstrs(fn, func(in ssa.Instruction) {
			if !callOnField(in, rb, add) {
				return
			}
			v, isV := in.(ssa.Value)
			if !isV {
				cx.R.Violate(rule, funcName(fn), "Add", cx.P.where(in), "Add used in go/defer")
				return
			}
			seen := map[ssa.Value]bool{}
			bad := ""
			var walk func(x ssa.Value)
			walk = func(x ssa.Value) {
				if seen[x] {
					return
				}
				seen[x] = true
				for _, u := range usesOf(x) {
					switch y := u.(type) {
					case *ssa.BinOp:
						walk(y)
					case *ssa.UnOp:
						walk(y)
					case *ssa.Phi:
						walk(y)
					case *ssa.Convert:
						walk(y)
					case *ssa.If, *ssa.DebugRef:
					case *ssa.Call:
						if isCallTo(y, shd) {
							continue
						}
						bad = "passed to " + describeCallee(y) + " at " + cx.P.where(y)
					default:
						bad = fmt.Sprintf("%T at %s", u, cx.P.where(u))
					}
				}
			}
			walk(v)
			cx.R.Check(bad == "", rule, funcName(fn), "Add status", cx.P.where(in), "buffer status influences only whether a drain is scheduled "+bad)
		})
	}
	// and the function consuming it returns nothing
	ar := cx.P.Func("", "cache", "afterRead")
	if ar != nil {
		cx.R.Check(ar.Signature.Results().Len() == 0, rule, funcName(ar), "no result", cx.P.Pos(ar.Pos()), "the read hook has no result through which a dropped read could change a return value")
	}
}

// ruleC17OnceAdd: one Add call records its node at most once (a recorded entry is never handed over twice).
func ruleC17OnceAdd(cx *Ctx) {
	const rule = "C17.onceadd"
	cx.R.Rule(rule, 1, "within one Striped.Add / expandOrRetry call the node is recorded at most once: after a ring accepted it (add != Failed) or a new ring was created with it, no further recording is reachable")
	radd := cx.need(rule, lossyPkg, "ring", "add")
	newRing := cx.need(rule, lossyPkg, "", "newRing")
	failed := statusConst(cx, "Failed")
	if radd == nil || newRing == nil {
		return
	}
	for _, fname := range []string{"Add", "expandOrRetry"} {
		fn := cx.need(rule, lossyPkg, "Striped", fname)
		if fn == nil {
			continue
		}
		name := funcName(fn)
		isRecord := func(in ssa.Instruction) bool {
			if isCallTo(in, radd) {
				return true
			}
			if isCallTo(in, newRing) {
				return true
			}
			// delegating to a helper of the package that (transitively) records counts too
			if c := calleeOf(in); c != nil && c.Pkg != nil && strings.HasSuffix(c.Pkg.Pkg.Path(), lossyPkg) && origin(c) != origin(radd) && origin(c) != origin(newRing) {
				if ok, _ := reachesInstr(c, func(x ssa.Instruction) bool { return isCallTo(x, radd) || isCallTo(x, newRing) }, map[*ssa.Function]bool{}, nil); ok {
					return true
				}
			}
			return false
		}
		reachesRecord := func(start Pt) (bool, string) {
			type key struct{ b, prev *ssa.BasicBlock }
			seen := map[key]bool{}
			// comparisons already decided where the walk starts (x != nil tested again later on the same value x)
			condKey := func(v ssa.Value) (string, bool) {
				c, neg := stripNot(v)
				b, ok := c.(*ssa.BinOp)
				if !ok {
					return "", false
				}
				op := b.Op
				if op == token.NEQ {
					op, neg = token.EQL, !neg
				}
				vk := func(v ssa.Value) string {
					if c, ok := v.(*ssa.Const); ok {
						return "const:" + c.String()
					}
					return fmt.Sprintf("%p", v)
				}
				return fmt.Sprintf("%v|%s|%s", op, vk(b.X), vk(b.Y)), neg
			}
			known := map[string]bool{}
			for _, g := range rawGuardsAt(start.B) {
				if k, neg := condKey(g.Cond); k != "" {
					known[k] = g.Truth != neg
				}
			}
			var walk func(b, prev *ssa.BasicBlock, i int) (bool, string)
			walk = func(b, prev *ssa.BasicBlock, i int) (bool, string) {
				for ; i < len(b.Instrs); i++ {
					if isRecord(b.Instrs[i]) {
						return true, cx.P.where(b.Instrs[i])
					}
				}
				succs := b.Succs
				if ifi, ok := b.Instrs[len(b.Instrs)-1].(*ssa.If); ok {
					if k, neg := condKey(ifi.Cond); k != "" {
						if t, has := known[k]; has {
							if t != neg {
								succs = b.Succs[:1]
							} else {
								succs = b.Succs[1:2]
							}
						}
					}
				}
				// a branch on a phi of constants is decided by the edge we came in on
				if ifi, ok := b.Instrs[len(b.Instrs)-1].(*ssa.If); ok && prev != nil {
					c, neg := stripNot(ifi.Cond)
					if ph, ok := c.(*ssa.Phi); ok && ph.Block() == b {
						for pi, p := range b.Preds {
							if p == prev {
								if v, ok := constBool(ph.Edges[pi]); ok {
									if v != neg {
										succs = b.Succs[:1]
									} else {
										succs = b.Succs[1:2]
									}
								}
							}
						}
					}
				}
				for _, s := range succs {
					k := key{s, b}
					if seen[k] {
						continue
					}
					seen[k] = true
					if r, w := walk(s, b, 0); r {
						return true, w
					}
				}
				return false, ""
			}
			return walk(start.B, nil, start.I)
		}
		n := 0
		allInstrs(fn, func(in ssa.Instruction) {
			switch {
			case isCallTo(in, newRing):
				n++
				p := ptOf(in)
				p.I++
				r, w := reachesRecord(p)
				cx.R.Check(!r, rule, name, fmt.Sprintf("after newRing#%d", n), cx.P.where(in), "after the node was placed into a freshly created ring no further recording is reachable "+w)
			case isCallTo(in, radd):
				n++
				v := in.(ssa.Value)
				decided := false
				for _, u := range usesOf(v) {
					b, ok := u.(*ssa.BinOp)
					if !ok {
						continue
					}
					if _, c, isEq, ok := eqConst(b); ok && c == failed {
						for _, i := range ifsOn(b) {
							decided = true
							idx := i.TrueIdx // edge where result == Failed (isEq) or != Failed
							if isEq {
								idx = 1 - idx
							}
							succ := i.If.Block().Succs[idx]
							r, w := reachesRecord(Pt{succ, 0})
							cx.R.Check(!r, rule, name, fmt.Sprintf("after accepted add#%d", n), cx.P.where(in), "once a ring accepted (or definitively refused) the node, the call does not record it again "+w)
						}
					}
				}
				if !decided {
					// result returned directly or compared elsewhere: no later record may be reachable at all unless guarded by == Failed
					p := ptOf(in)
					p.I++
					r, w := reachesRecord(p)
					if r {
						// allowed only through an explicit Failed test
						okGuard := false
						for _, u := range usesOf(v) {
							if b, ok := u.(*ssa.BinOp); ok {
								if _, c, _, ok := eqConst(b); ok && c == failed {
									okGuard = true
								}
							}
						}
						cx.R.Check(okGuard, rule, name, fmt.Sprintf("after add#%d", n), cx.P.where(in), "a retry after ring.add is taken only when it reported Failed "+w)
					} else {
						cx.R.OK(rule, name, fmt.Sprintf("after add#%d", n), cx.P.where(in), "no further recording after this add")
					}
				}
			}
		})
	}
}

// ruleC17Current: writes into the shared stripe table act on the table that is current while the busy flag is held.
func ruleC17Current(cx *Ctx) {
	const rule = "C17.current"
	cx.R.Rule(rule, 2, "a ring is attached to a slot of, and a new stripe table replaces, only the table that is current under the busy flag: the table was loaded from Striped.striped while the flag is held, or a load made under the flag was compared equal to it (a snapshot taken before the flag was won may already have been replaced by a concurrent expansion: the attached ring and its element would be lost)")
	stripedF := cx.needField(rule, lossyPkg, "Striped", "striped")
	buffers := cx.needField(rule, lossyPkg, "striped", "buffers")
	bc := busyContext(cx)
	if stripedF == nil || buffers == nil || bc == nil {
		if bc == nil {
			cx.R.Undecided(rule, "lossy", "busy context", "-", "busy-flag context analysis unavailable")
		}
		return
	}
	isTableLoad := func(v ssa.Value) (*ssa.Call, bool) {
		c, ok := v.(*ssa.Call)
		if ok && isStdMethod(c, "sync/atomic", "Pointer", "Load") && sameField(recvField(c), stripedF) {
			return c, true
		}
		return nil, false
	}
	// current(v, at): v denotes the table that is current under the flag at instruction `at`
	var current func(v ssa.Value, at ssa.Instruction, depth int) (bool, string)
	current = func(v ssa.Value, at ssa.Instruction, depth int) (bool, string) {
		if c, ok := isTableLoad(v); ok {
			if bc.heldAt(c) {
				return true, "loaded under the flag"
			}
			// fallthrough: a snapshot, needs the comparison
		}
		for _, g := range guardsAt(at.Block()) {
			b, ok := g.Cond.(*ssa.BinOp)
			if !ok || (b.Op != token.EQL && b.Op != token.NEQ) || g.Truth != (b.Op == token.EQL) {
				continue
			}
			for _, pair := range [][2]ssa.Value{{b.X, b.Y}, {b.Y, b.X}} {
				if ld, ok := isTableLoad(pair[0]); ok && pair[1] == v && bc.heldAt(ld) {
					return true, "compared with a load made under the flag"
				}
			}
		}
		if p, ok := v.(*ssa.Parameter); ok && depth < 3 {
			fn := p.Parent()
			idx := -1
			for i, q := range fn.Params {
				if q == p {
					idx = i
				}
			}
			sites := 0
			for _, caller := range cx.P.FuncsOfPkg(lossyPkg) {
				okAll := true
				var why string
				allInstrs(caller, func(in ssa.Instruction) {
					cc := callCommon(in)
					if cc == nil || cc.IsInvoke() || cc.StaticCallee() == nil || origin(cc.StaticCallee()) != origin(fn) || idx >= len(cc.Args) {
						return
					}
					sites++
					if ok, w := current(cc.Args[idx], in, depth+1); !ok {
						okAll = false
						why = "call at " + cx.P.where(in) + ": " + w
					}
				})
				if !okAll {
					return false, why
				}
			}
			if sites > 0 {
				return true, "every caller passes the current table"
			}
		}
		return false, "the table value is a snapshot that is neither loaded nor re-validated under the busy flag"
	}
	n := 0
	for _, fn := range cx.P.FuncsOfPkg(lossyPkg) {
		name := funcName(fn)
		allInstrs(fn, func(in ssa.Instruction) {
			if !isStdMethod(in, "sync/atomic", "Pointer", "Store") {
				return
			}
			// slot store through an address handed out by a helper: the helper must take it from the current table and
			// the flag must be held from there to the store
			if ias := slotFromHelper(recvValue(in), buffers); len(ias) > 0 {
				n++
				ok, why := bc.heldAt(in) && bc.heldAt(recvValue(in).(*ssa.Call)), "the busy flag is held at the helper call and at the store"
				for _, ia := range ias {
					fa, _ := stripLoad(ia.X).(*ssa.FieldAddr)
					if fa == nil {
						ok, why = false, "slot base not recognisable"
						continue
					}
					// the table the helper indexes is a parameter of the helper: what counts is the argument of this very
					// call (other calls of the helper may only read the slot)
					hc := recvValue(in).(*ssa.Call)
					if p, isP := fa.X.(*ssa.Parameter); isP {
						idx := -1
						for i, q := range p.Parent().Params {
							if q == p {
								idx = i
							}
						}
						if idx >= 0 && idx < len(hc.Call.Args) {
							if okc, w := current(hc.Call.Args[idx], hc, 1); !okc {
								ok, why = false, w
							}
							continue
						}
					}
					if okc, w := current(fa.X, ia, 0); !okc {
						ok, why = false, w
					}
				}
				cx.R.Check(ok, rule, name, fmt.Sprintf("attach #%d", n), cx.P.where(in), "the slot written belongs to the table current under the busy flag ("+why+")")
				return
			}
			// slot store
			if ia, ok := recvValue(in).(*ssa.IndexAddr); ok && sameField(fieldOf(ia.X), buffers) {
				fa, _ := stripLoad(ia.X).(*ssa.FieldAddr)
				if fa == nil {
					return
				}
				if fresh := freshObject(fa.X); fresh {
					return // table under construction (C17.copy / C17.busy)
				}
				n++
				ok, why := current(fa.X, in, 0)
				cx.R.Check(ok, rule, name, fmt.Sprintf("attach #%d", n), cx.P.where(in), "the slot written belongs to the table current under the busy flag ("+why+")")
				return
			}
			// publish
			if sameField(recvField(in), stripedF) {
				n++
				a := callArgs(in)
				fresh := freshObject(a[0])
				// the tables the new one was derived from: every table value read in this function that is not the new one
				okAny, whyAny := false, "no table value re-validated under the flag justifies the replacement"
				seen := map[ssa.Value]bool{}
				allInstrs(fn, func(x ssa.Instruction) {
					v, isV := x.(ssa.Value)
					if !isV {
						return
					}
					if _, isLd := isTableLoad(v); !isLd {
						if _, isP := v.(*ssa.Parameter); !isP {
							return
						}
					}
					if seen[v] || !instrDominates(x, in) {
						return
					}
					seen[v] = true
					if ok, why := current(v, in, 0); ok {
						okAny, whyAny = true, why
					}
				})
				for _, p := range fn.Params {
					if okAny {
						break
					}
					if namedTypeName(p.Type()) != "striped" {
						continue
					}
					if ok, why := current(p, in, 0); ok {
						okAny, whyAny = true, why
					}
				}
				cx.R.Check(fresh && okAny, rule, name, fmt.Sprintf("publish #%d", n), cx.P.where(in), "a freshly built table replaces the table that is current under the busy flag ("+whyAny+")")
			}
		})
	}
}

// freshObject: v is an object allocated right here: a composite literal / new in this function, or the result of a
// constructor of the module whose every return value is such an allocation (newStripedTable(length)).
func freshObject(v ssa.Value) bool {
	switch x := v.(type) {
	case *ssa.Alloc:
		return true
	case *ssa.Call:
		c := x.Call.StaticCallee()
		if c == nil || x.Call.IsInvoke() {
			return false
		}
		o := origin(c)
		if o == nil || o.Pkg == nil || !strings.HasPrefix(o.Pkg.Pkg.Path(), modPath) {
			return false
		}
		ok, n := true, 0
		allInstrs(o, func(in ssa.Instruction) {
			if r, isRet := in.(*ssa.Return); isRet {
				n++
				if len(r.Results) != 1 {
					ok = false
				} else if _, isAlloc := r.Results[0].(*ssa.Alloc); !isAlloc {
					ok = false
				}
			}
		})
		return ok && n > 0
	}
	return false
}

// slotFromHelper: v is the result of a helper of the package that returns the address of a stripe slot (or nil): the
// IndexAddr instructions inside the helper that it may return.
func slotFromHelper(v ssa.Value, buffers *types.Var) []*ssa.IndexAddr {
	c, ok := v.(*ssa.Call)
	if !ok || c.Call.IsInvoke() || c.Call.StaticCallee() == nil {
		return nil
	}
	h := origin(c.Call.StaticCallee())
	if h == nil || h.Pkg == nil || !strings.HasSuffix(h.Pkg.Pkg.Path(), lossyPkg) {
		return nil
	}
	var out []*ssa.IndexAddr
	good := true
	var visit func(r ssa.Value, d int)
	visit = func(r ssa.Value, d int) {
		switch x := r.(type) {
		case *ssa.IndexAddr:
			if sameField(fieldOf(x.X), buffers) {
				out = append(out, x)
			} else {
				good = false
			}
		case *ssa.Const:
			if !x.IsNil() {
				good = false
			}
		case *ssa.Phi:
			if d > 3 {
				good = false
				return
			}
			for _, e := range x.Edges {
				visit(e, d+1)
			}
		default:
			good = false
		}
	}
	allInstrs(h, func(in ssa.Instruction) {
		if r, ok := in.(*ssa.Return); ok {
			if len(r.Results) != 1 {
				good = false
				return
			}
			visit(r.Results[0], 0)
		}
	})
	if !good {
		return nil
	}
	return out
}

// constOnRight: the comparison with its constant operand on the right (16 <= size is size >= 16).
func constOnRight(b *ssa.BinOp) (ssa.Value, token.Token, ssa.Value) {
	if _, lc := constInt(b.X); lc {
		if _, rc := constInt(b.Y); !rc {
			m := map[token.Token]token.Token{token.LSS: token.GTR, token.GTR: token.LSS, token.LEQ: token.GEQ, token.GEQ: token.LEQ, token.EQL: token.EQL, token.NEQ: token.NEQ}
			if op, ok := m[b.Op]; ok {
				return b.Y, op, b.X
			}
		}
	}
	return b.X, b.Op, b.Y
}

package main

import (
	"fmt"
	"go/types"
	"strings"

	"golang.org/x/tools/go/ssa"
)

// Rules added after the seventh round of seeded changes.

func init() {
	alsoUnder(ruleC11Quiet, "C11", "C12")
	alsoUnder(ruleC17Monotone, "C17")
}

// execClosuresOf: the closures handed to cache.executor anywhere in the root package.
func execClosuresOf(cx *Ctx, rule string) map[*ssa.Function]bool {
	ex := cx.needField(rule, "", "cache", "executor")
	out := map[*ssa.Function]bool{}
	if ex == nil {
		return nil
	}
	for _, fn := range cx.P.FuncsOfPkg("") {
		allInstrs(fn, func(in ssa.Instruction) {
			cc := callCommon(in)
			if cc != nil && !cc.IsInvoke() && cc.StaticCallee() == nil && sameField(fieldOf(cc.Value), ex) && len(cc.Args) == 1 {
				if cl := closureOf(cc.Args[0]); cl != nil {
					out[cl] = true
					// a method value (job.run): the task is the method behind the bound-method wrapper
					if cl.Synthetic != "" {
						allInstrs(cl, func(x ssa.Instruction) {
							if c := calleeOf(x); c != nil {
								out[origin(c)] = true
							}
						})
					}
				}
				// a task built by a constructor / held in a variable: every function value that can flow here
				for _, f := range funcValuesOf(cc.Args[0], 0, map[ssa.Value]bool{}, nil) {
					out[origin(f)] = true
				}
			}
		})
	}
	return out
}

// ---- C11.quiet ----
// An explicit refresh looks its entry up quietly: before the reload it hands to the executor has produced a result the
// entry's expiration deadline is not touched and the read hook of the expiry calculator is not consulted ("a failed
// reload leaves it and its expiry untouched"; the deadline after a read is read time + ExpireAfterRead only for reads).
func ruleC11Quiet(cx *Ctx) {
	const rule = "C11.quiet"
	cx.R.Rule(rule, 2, "outside the reload it hands to the executor, Refresh / BulkRefresh reach no store of an expiration deadline and no call of ExpiryCalculator.ExpireAfterRead: an explicit refresh is not a read of the entry, and its expiry moves only when a reload installs a result")
	execCl := execClosuresOf(cx, rule)
	if execCl == nil {
		return
	}
	touches := func(in ssa.Instruction) bool {
		switch invokeName(in) {
		case "SetExpiresAt", "CASExpiresAt":
			return isNodeIface(namedTypeName(callCommon(in).Value.Type()))
		case "ExpireAfterRead":
			return true
		}
		return false
	}
	for _, m := range []string{"Refresh", "BulkRefresh"} {
		fn := cx.need(rule, "", "cache", m)
		if fn == nil {
			continue
		}
		bad, where := reachesInstr(fn, touches, map[*ssa.Function]bool{}, func(f *ssa.Function) bool {
			for g := f; g != nil; g = g.Parent() {
				if execCl[g] {
					return true // the reload itself, and the closures nested in it
				}
			}
			return false
		})
		cx.R.Check(!bad, rule, funcName(fn), "synchronous part moves no expiration deadline", cx.P.Pos(fn.Pos()), "before its reload runs an explicit refresh neither consults ExpireAfterRead nor stores an expiration deadline "+where)
	}
}

// ---- C17.monotone ----
// The ring's two counters only ever grow: the producers' count by a CAS from the value read to that value + 1, the
// consumer's count by a store of a value computed from the count it read. A reset (Store(0), a "clear") while a producer
// has claimed a slot but not yet published it makes the late publication land in a slot nobody owns: an entry is then
// delivered in place of another or a lap late.
func ruleC17Monotone(cx *Ctx) {
	const rule = "C17.monotone"
	cx.R.Rule(rule, 2, "every write of ring.tail is a compare-and-swap from the value compared to that value + 1, every write of ring.head stores a value computed from a load of that head (never a constant), and a ring slot is set to nil only by a function that advances head (constructors of a still private ring excepted)")
	head := cx.needField(rule, lossyPkg, "ring", "head")
	tail := cx.needField(rule, lossyPkg, "ring", "tail")
	if head == nil || tail == nil {
		return
	}
	writes := []string{"Store", "Swap", "Add", "CompareAndSwap", "And", "Or"}
	for _, fn := range cx.P.ModuleFuncs() {
		name := funcName(fn)
		fresh := func(in ssa.Instruction) bool {
			// the receiver is a ring allocated in this very function
			cc := callCommon(in)
			if cc == nil {
				return false
			}
			var recv ssa.Value
			if len(cc.Args) > 0 {
				recv = cc.Args[0]
			}
			for i := 0; i < 4 && recv != nil; i++ {
				switch x := recv.(type) {
				case *ssa.FieldAddr:
					recv = x.X
				case *ssa.Alloc:
					return x.Heap || true
				default:
					recv = nil
				}
			}
			return false
		}
		advancesHead := false
		allInstrs(fn, func(in ssa.Instruction) {
			if c := innerAtomic(in, head, "Store"); c != nil {
				advancesHead = true
			}
		})
		allInstrs(fn, func(in ssa.Instruction) {
			for _, op := range writes {
				if c := innerAtomic(in, tail, op); c != nil {
					if fresh(c) {
						cx.R.OK(rule, name, "tail initialised on a private ring", cx.P.where(in), "constructor")
						continue
					}
					a := callArgs(c)
					ok := op == "CompareAndSwap" && len(a) == 2 && isAddConst(a[1], a[0], 1)
					cx.R.Check(ok, rule, name, "tail "+op, cx.P.where(in), "the producers' count changes only by CompareAndSwap(t, t+1)")
				}
				if c := innerAtomic(in, head, op); c != nil {
					if fresh(c) {
						cx.R.OK(rule, name, "head initialised on a private ring", cx.P.where(in), "constructor")
						continue
					}
					a := callArgs(c)
					ok := false
					if op == "Store" && len(a) == 1 {
						ok = dependsOnLoad(a[0], head, map[ssa.Value]bool{})
					}
					cx.R.Check(ok, rule, name, "head "+op, cx.P.where(in), "the consumer's count is stored as a value computed from the count it loaded (never reset)")
				}
			}
			// nil into a slot
			var addr, val ssa.Value
			if isAtomicPtr(in, "StorePointer") {
				addr, val = callCommon(in).Args[0], callCommon(in).Args[1]
			} else if st, ok := in.(*ssa.Store); ok {
				addr, val = st.Addr, st.Val
			}
			if addr == nil {
				return
			}
			if _, isSlot := ringSlot(cx, addr); !isSlot {
				return
			}
			if c, ok := val.(*ssa.Const); ok && c.IsNil() {
				cx.R.Check(advancesHead, rule, name, "slot cleared", cx.P.where(in), "a slot is emptied only by the function that consumes it and advances head")
			}
		})
	}
}

// dependsOnLoad: v is computed (through arithmetic and phis) from an atomic load of the field and is not a constant.
func dependsOnLoad(v ssa.Value, field *types.Var, seen map[ssa.Value]bool) bool {
	if v == nil || seen[v] {
		return false
	}
	seen[v] = true
	if atomicFieldLoad(v, field) {
		return true
	}
	switch x := v.(type) {
	case *ssa.Phi:
		for _, e := range x.Edges {
			if dependsOnLoad(e, field, seen) {
				return true
			}
		}
	case *ssa.BinOp:
		return dependsOnLoad(x.X, field, seen) || dependsOnLoad(x.Y, field, seen)
	case *ssa.Convert:
		return dependsOnLoad(x.X, field, seen)
	case *ssa.ChangeType:
		return dependsOnLoad(x.X, field, seen)
	case *ssa.UnOp:
		if a, ok := x.X.(*ssa.Alloc); ok {
			// a local spilled to memory: any store into it
			for _, r := range *a.Referrers() {
				if st, ok := r.(*ssa.Store); ok && st.Addr == a && dependsOnLoad(st.Val, field, seen) {
					return true
				}
			}
		}
	}
	return false
}

var _ = fmt.Sprintf
var _ = strings.HasPrefix

func init() {
	alsoUnder(ruleC20Recorder, "C20")
	alsoUnder(ruleC20AutoCause, "C20", "C06")
	alsoUnder(ruleC08Sync, "C08", "C20")
	alsoUnder(ruleC11ReloadArg, "C01")
	alsoUnder(ruleC09Cancel, "C02")
}

// ---- C20.recorder ----
// Statistics are recorded for whatever recorder the user attached: the constructor replaces the recorder only when none
// is configured or when it is the package's own no-op type - decided by a type assertion to that concrete type, never by
// an optional interface a user's recorder may satisfy by accident (method promotion through embedding).
func ruleC20Recorder(cx *Ctx) {
	const rule = "C20.recorder"
	cx.R.Rule(rule, 1, "on the construction path every type assertion on the configured stats.Recorder asserts the concrete type *stats.NoopRecorder: whether statistics are recorded depends on nothing else about the user's recorder")
	nc := cx.need(rule, "", "", "newCache")
	if nc == nil {
		return
	}
	n := 0
	seen := map[*ssa.Function]bool{}
	var visit func(fn *ssa.Function, depth int)
	visit = func(fn *ssa.Function, depth int) {
		fn = origin(fn)
		if fn == nil || seen[fn] || depth > 4 || len(fn.Blocks) == 0 {
			return
		}
		seen[fn] = true
		withClosures(fn, func(f *ssa.Function) {
			allInstrs(f, func(in ssa.Instruction) {
				if ta, ok := in.(*ssa.TypeAssert); ok {
					xt, _ := ta.X.Type().(*types.Named)
					if xt == nil || xt.Obj().Name() != "Recorder" || xt.Obj().Pkg() == nil || !strings.HasSuffix(xt.Obj().Pkg().Path(), "/stats") {
						return
					}
					if !flowsToStatsDecision(ta) {
						return // an optional capability of the recorder (a snapshot source), not the decision to record
					}
					n++
					okT := false
					if pt, isPtr := ta.AssertedType.(*types.Pointer); isPtr {
						if nt, isNamed := pt.Elem().(*types.Named); isNamed && nt.Obj().Name() == "NoopRecorder" {
							okT = true
						}
					}
					cx.R.Check(okT, rule, funcName(f), "recorder assertion", cx.P.where(in), "the configured recorder is compared with the concrete no-op type only (asserted: "+ta.AssertedType.String()+")")
				}
				if c := calleeOf(in); c != nil && c.Pkg != nil && c.Pkg.Pkg.Path() == modPath {
					visit(c, depth+1)
				}
			})
		})
	}
	visit(nc, 0)
	if n == 0 {
		// no assertion at all: every configured recorder is used (nothing to decide)
		cx.R.OK(rule, funcName(nc), "recorder assertion", cx.P.Pos(nc.Pos()), "the constructor makes no type assertion on the recorder")
	}
}

// ---- C20.autocause ----
// Whoever removes an entry with the cause Overflow accounts it as an eviction: a function in which the constant
// CauseOverflow is used (other than handing it back to its caller) reaches Recorder.RecordEviction.
func ruleC20AutoCause(cx *Ctx) {
	const rule = "C20.autocause"
	cx.R.Rule(rule, 1, "every function of the cache that uses the cause Overflow (the constant as an operand; a helper that only returns it passes the duty to its callers) also records the eviction (Recorder.RecordEviction is reachable from it): there is no second removal path for size that the statistics do not see")
	k := cx.P.Const("", "CauseOverflow")
	if k == nil {
		cx.R.Undecided(rule, "CauseOverflow", "anchor", "-", "constant CauseOverflow not found")
		return
	}
	isOverflow := func(v ssa.Value) bool {
		c, ok := v.(*ssa.Const)
		if !ok || c.Value == nil {
			return false
		}
		nt, isNamed := c.Type().(*types.Named)
		return isNamed && nt.Obj().Name() == "DeletionCause" && c.Value.ExactString() == k.Val().ExactString()
	}
	isRecord := func(in ssa.Instruction) bool { return invokeName(in) == "RecordEviction" }
	users := map[*ssa.Function]ssa.Instruction{}
	onlyReturns := map[*ssa.Function]bool{}
	for _, fn := range cx.P.FuncsOfPkg("") {
		if fn.Signature.Recv() != nil {
			if nt := namedTypeName(fn.Signature.Recv().Type()); nt == "DeletionCause" || nt == "DeletionEvent" {
				continue // String / IsEviction / WasEvicted describe the causes
			}
		}
		top := outermost(fn)
		allInstrs(fn, func(in ssa.Instruction) {
			var ops []*ssa.Value
			for _, op := range in.Operands(ops) {
				if op != nil && *op != nil && isOverflow(*op) {
					if _, isRet := in.(*ssa.Return); isRet {
						if _, used := users[top]; !used {
							onlyReturns[top] = true
						}
						continue
					}
					users[top] = in
					delete(onlyReturns, top)
				}
			}
		})
	}
	// callers of helpers that only return the constant
	for h := range onlyReturns {
		for _, fn := range cx.P.FuncsOfPkg("") {
			allInstrs(fn, func(in ssa.Instruction) {
				if c := calleeOf(in); c != nil && origin(c) == h {
					users[outermost(fn)] = in
				}
			})
		}
	}
	n := 0
	for fn, in := range users {
		n++
		ok, _ := reachesInstr(fn, isRecord, map[*ssa.Function]bool{}, nil)
		cx.R.Check(ok, rule, funcName(fn), "a removal for size is recorded", cx.P.where(in), "the function uses CauseOverflow and reaches Recorder.RecordEviction")
	}
	if n == 0 {
		cx.R.Undecided(rule, "cache", "uses of CauseOverflow", "-", "no function uses the constant CauseOverflow")
	}
}

// ---- C08.sync ----
// The loader runs on the stack of doCall / doBulkCall: the in-flight record is finished (waiters released, record
// removed) by the deferred epilogue of that very activation, so it outlives the invocation. A loader started with `go`
// keeps running after its record is gone, and the next Get starts an overlapping invocation.
func ruleC08Sync(cx *Ctx) {
	const rule = "C08.sync"
	cx.R.Rule(rule, 2, "the load function handed to doCall / doBulkCall is never passed to, or captured by, a function started with a go statement (followed through helper parameters): the loader invocation does not outlive the in-flight record")
	for _, m := range []string{"doCall", "doBulkCall"} {
		fn := cx.need(rule, "", "group", m)
		if fn == nil {
			continue
		}
		var load *ssa.Parameter
		for _, p := range fn.Params {
			if sig, ok := p.Type().Underlying().(*types.Signature); ok && sig.Results().Len() == 2 && sig.Params().Len() == 2 {
				load = p
			}
		}
		if load == nil {
			cx.R.Undecided(rule, funcName(fn), "load parameter", cx.P.Pos(fn.Pos()), "no parameter of type func(ctx, key(s)) (value(s), error)")
			continue
		}
		bad := goCaptures(fn, load, 0, map[*ssa.Function]bool{})
		cx.R.Check(bad == "", rule, funcName(fn), "loader invoked on this activation's stack", cx.P.Pos(fn.Pos()), "no go statement receives or captures the load function "+bad)
	}
}

// goCaptures: a go statement in fn (or its closures, or helpers the value is handed to) starts a function that holds v.
func goCaptures(fn *ssa.Function, v ssa.Value, depth int, seen map[*ssa.Function]bool) string {
	if depth > 4 || seen[fn] {
		return ""
	}
	seen[fn] = true
	// values equal to v inside fn and its closures: v itself, free variables bound to it, cells it was spilled into
	holds := map[ssa.Value]bool{v: true}
	changed := true
	for changed {
		changed = false
		withClosures(fn, func(f *ssa.Function) {
			allInstrs(f, func(in ssa.Instruction) {
				switch x := in.(type) {
				case *ssa.MakeClosure:
					cl, _ := x.Fn.(*ssa.Function)
					for i, b := range x.Bindings {
						if holds[b] {
							if !holds[x] {
								holds[x] = true
								changed = true
							}
							if cl != nil && i < len(cl.FreeVars) && !holds[cl.FreeVars[i]] {
								holds[cl.FreeVars[i]] = true
								changed = true
							}
						}
					}
				case *ssa.Store:
					if holds[x.Val] && !holds[x.Addr] {
						holds[x.Addr] = true
						changed = true
					}
				case *ssa.UnOp:
					if holds[x.X] && !holds[x] {
						holds[x] = true
						changed = true
					}
				case *ssa.ChangeType:
					if holds[x.X] && !holds[x] {
						holds[x] = true
						changed = true
					}
				case *ssa.Phi:
					for _, e := range x.Edges {
						if holds[e] && !holds[x] {
							holds[x] = true
							changed = true
						}
					}
				}
			})
		})
	}
	bad := ""
	withClosures(fn, func(f *ssa.Function) {
		allInstrs(f, func(in ssa.Instruction) {
			if g, ok := in.(*ssa.Go); ok {
				if holds[g.Call.Value] {
					bad = flowProg.Pos(g.Pos())
				}
				for _, a := range g.Call.Args {
					if holds[a] {
						bad = flowProg.Pos(g.Pos())
					}
				}
				return
			}
			// handed to a helper of the module: follow the parameter
			cc := callCommon(in)
			if cc == nil {
				return
			}
			c := calleeOf(in)
			if c == nil || c.Pkg == nil || !strings.HasPrefix(c.Pkg.Pkg.Path(), modPath) {
				return
			}
			oc := origin(c)
			args := cc.Args
			for i, a := range args {
				if holds[a] && i < len(oc.Params) {
					if w := goCaptures(oc, oc.Params[i], depth+1, seen); w != "" {
						bad = w
					}
				}
			}
		})
	})
	return bad
}

// flowsToStatsDecision: the outcome of the assertion is data the withStats flag or the stored recorder is computed from.
func flowsToStatsDecision(ta *ssa.TypeAssert) bool {
	seen := map[ssa.Value]bool{}
	work := []ssa.Value{ta}
	for len(work) > 0 {
		v := work[len(work)-1]
		work = work[:len(work)-1]
		if seen[v] {
			continue
		}
		seen[v] = true
		refs := v.Referrers()
		if refs == nil {
			continue
		}
		for _, r := range *refs {
			switch x := r.(type) {
			case *ssa.Store:
				if x.Val != v {
					continue
				}
				if f := fieldOf(x.Addr); f != nil && (fname(f) == "withStats" || fname(f) == "stats") {
					return true
				}
				if a, ok := x.Addr.(*ssa.Alloc); ok {
					work = append(work, a)
				}
			case ssa.Value:
				if _, isCall := x.(*ssa.Call); isCall {
					// only a call ON the asserted value (d.DiscardsStats()) or with it as argument carries the outcome
				}
				work = append(work, x)
			}
		}
	}
	return false
}

func init() {
	alsoUnder(ruleC16Direct, "C16", "C05", "C06", "C13")
	alsoUnder(ruleC01Step, "C07", "C15")
	alsoUnder(ruleC12SatOnly, "C13")
	alsoUnder(ruleC10Distribute, "C09")
	alsoUnder(ruleC05RunTask, "C14")
	alsoUnder(ruleC09Install, "C09")
	alsoUnder(ruleC13NoDrop, "C05")
	alsoUnder(ruleC15CopyLock, "C06")
}

func ruleC12SatOnly(cx *Ctx) { ruleC12Hooks(cx) }

// ---- C16.direct ----
// Events of one key reach the policies in the order they were produced. A task that does not travel through the write
// buffer (the writer's own task when the buffer is full, a delete applied under the lock) is therefore run only after
// everything buffered before it has been replayed: every direct runTask is dominated, in its function or in every
// caller of it, by a step that drains the write buffer.
func ruleC16Direct(cx *Ctx) {
	const rule = "C16.direct"
	cx.R.Rule(rule, 2, "every call of runTask on a task that was not just popped from the write buffer is preceded on all paths - in the same function or, failing that, at every call site of that function, with constant boolean arguments matched against the guards of the site - by a step that pops the write buffer: a newer event never overtakes the buffered older events of its key")
	rt := cx.need(rule, "", "cache", "runTask")
	tryPop := cx.need(rule, queuePkg, "MPSC", "TryPop")
	if rt == nil || tryPop == nil {
		return
	}
	pops := func(in ssa.Instruction) bool { return isCallTo(in, tryPop) }
	// flags: configuration flags known (with their value) on the way to the task being run; a draining step guarded
	// only by such flags counts as preceding the site when the test itself does
	flagGuards := func(b *ssa.BasicBlock) map[string]bool {
		out := map[string]bool{}
		for _, g := range guardsAt(b) {
			if f := fieldOf(g.Cond); f != nil && strings.HasPrefix(fname(f), "with") {
				out[fname(f)] = g.Truth
			}
		}
		return out
	}
	drainsBefore := func(site ssa.Instruction, flags map[string]bool) bool {
		fn := site.Parent()
		found := false
		siteGuards := map[ssa.Value]bool{}
		for _, g := range guardsAt(site.Block()) {
			siteGuards[g.Cond] = true
		}
		allInstrs(fn, func(in ssa.Instruction) {
			if in == site || found {
				return
			}
			d := pops(in)
			if c := calleeOf(in); !d && c != nil && c.Pkg != nil && strings.HasPrefix(c.Pkg.Pkg.Path(), modPath) && origin(c) != origin(rt) {
				d, _ = reachesInstr(c, pops, map[*ssa.Function]bool{}, nil)
			}
			if !d {
				return
			}
			if instrDominates(in, site) {
				found = true
				return
			}
			// guarded by known flags only, and every such test precedes the site
			ok := true
			for _, g := range guardsAt(in.Block()) {
				if siteGuards[g.Cond] {
					continue
				}
				f := fieldOf(g.Cond)
				if f == nil {
					ok = false
					break
				}
				v, known := flags[fname(f)]
				if fname(f) == "withMaintenance" && g.Truth {
					// without maintenance there is no write buffer (C01.config: the buffers exist exactly under this flag):
					// a drain skipped for that reason skips nothing
					v, known = true, true
				}
				if !known || v != g.Truth {
					ok = false
					break
				}
				dom := false
				for _, b := range fn.Blocks {
					if len(b.Instrs) == 0 {
						continue
					}
					if i, isIf := b.Instrs[len(b.Instrs)-1].(*ssa.If); isIf && i.Cond == g.Cond && instrDominates(i, site) {
						dom = true
					}
				}
				if !dom {
					ok = false
					break
				}
			}
			if ok && blockReaches(in.Block(), site.Block()) {
				found = true
			}
		})
		return found
	}
	// call sites of a function inside the root package
	sitesOf := func(f *ssa.Function) []ssa.Instruction {
		var out []ssa.Instruction
		for _, g := range cx.P.FuncsOfPkg("") {
			allInstrs(g, func(in ssa.Instruction) {
				if c := calleeOf(in); c != nil && origin(c) == origin(f) {
					out = append(out, in)
				}
			})
		}
		return out
	}
	var ordered func(site ssa.Instruction, depth int, seen map[ssa.Instruction]bool, flags map[string]bool) (bool, string)
	ordered = func(site ssa.Instruction, depth int, seen map[ssa.Instruction]bool, flags map[string]bool) (bool, string) {
		if seen[site] {
			return true, ""
		}
		seen[site] = true
		fl := map[string]bool{}
		for k, v := range flags {
			fl[k] = v
		}
		for k, v := range flagGuards(site.Block()) {
			fl[k] = v
		}
		flags = fl
		if drainsBefore(site, flags) {
			return true, ""
		}
		fn := origin(site.Parent())
		if depth > 5 {
			return false, "call chain too deep at " + funcName(fn)
		}
		if par := fn.Parent(); par != nil {
			// a closure: judged where its parent hands it on (the closure runs no earlier than that)
			var use ssa.Instruction
			allInstrs(par, func(in ssa.Instruction) {
				mc, ok := in.(*ssa.MakeClosure)
				if !ok || mc.Fn != ssa.Value(site.Parent()) && origin(mc.Fn.(*ssa.Function)) != fn {
					return
				}
				use = in
				for _, r := range *mc.Referrers() {
					if _, isCall := r.(ssa.CallInstruction); isCall {
						use = r
					}
				}
			})
			if use == nil {
				return false, "in closure " + funcName(fn) + " no draining step precedes " + cx.P.where(site)
			}
			return ordered(use, depth+1, seen, flags)
		}
		// constant boolean parameters the site is guarded by
		type bg struct {
			idx   int
			truth bool
		}
		var guards []bg
		for _, g := range guardsAt(site.Block()) {
			if i := paramIndexOf(g.Cond); i >= 0 {
				if b, ok := g.Cond.Type().Underlying().(*types.Basic); ok && b.Info()&types.IsBoolean != 0 {
					guards = append(guards, bg{i, g.Truth})
				}
			}
		}
		callers := sitesOf(fn)
		if len(callers) == 0 {
			return false, funcName(fn) + " runs the task at " + cx.P.where(site) + " and nothing drains the write buffer before it"
		}
		for _, cs := range callers {
			args := callCommon(cs).Args // raw operands: the receiver is parameter 0, as for paramIndexOf
			skip := false
			for _, g := range guards {
				if g.idx < len(args) {
					if k, ok := args[g.idx].(*ssa.Const); ok && k.Value != nil && (k.Value.ExactString() == "true") != g.truth {
						skip = true // this caller never takes the branch of the site
					}
				}
			}
			if skip {
				continue
			}
			if ok, why := ordered(cs, depth+1, seen, flags); !ok {
				return false, why
			}
		}
		return true, ""
	}
	n := 0
	for _, fn := range cx.P.FuncsOfPkg("") {
		allInstrs(fn, func(in ssa.Instruction) {
			if !isCallTo(in, rt) {
				return
			}
			args := callArgs(in)
			arg := args[len(args)-1]
			// a task taken out of the buffer by this function is the drain itself
			popped := false
			var fromPop func(v ssa.Value, d int) bool
			fromPop = func(v ssa.Value, d int) bool {
				if d > 4 {
					return false
				}
				switch x := v.(type) {
				case *ssa.Call:
					return isCallTo(x, tryPop)
				case *ssa.Phi:
					for _, e := range x.Edges {
						if !fromPop(e, d+1) {
							return false
						}
					}
					return len(x.Edges) > 0
				}
				return false
			}
			popped = fromPop(arg, 0)
			if popped {
				return
			}
			n++
			ok, why := ordered(in, 0, map[ssa.Instruction]bool{}, nil)
			cx.R.Check(ok, rule, funcName(fn), "direct task after the drain", cx.P.where(in), "the write buffer is drained before a task that bypasses it is run "+why)
		})
	}
	if n == 0 {
		cx.R.Undecided(rule, "cache", "direct runTask sites", "-", "no direct runTask call found")
	}
}

// ---- C09.install ----
// The value a load produced reaches the table only through the guarded installer: the `value` field of a call record
// is never handed to a write operation of the cache (set / atomicSet / Set* / Compute* / node creation) outside
// afterDeleteCall, whose computation installs it only for the record that is still registered.
func ruleC09Install(cx *Ctx) {
	const rule = "C09.install"
	cx.R.Rule(rule, 1, "a loaded value (field value of a call record) is an argument of a table write (cache.set, atomicSet, Set, SetIfAbsent, Compute*, Manager.Create) only inside the installer afterDeleteCall and the helpers only it calls: no second install path bypasses the 'is this still the registered load' test")
	val := cx.needField(rule, "", "call", "value")
	inst := cx.need(rule, "", "cache", "afterDeleteCall")
	if val == nil || inst == nil {
		return
	}
	writers := map[string]bool{"set": true, "atomicSet": true, "Set": true, "SetIfAbsent": true, "Compute": true, "ComputeIfAbsent": true, "ComputeIfPresent": true, "doCompute": true, "newNode": true, "Create": true}
	// functions reachable only from the installer
	onlyInst := map[*ssa.Function]bool{origin(inst): true}
	withClosures(inst, func(f *ssa.Function) { onlyInst[f] = true })
	for changed := true; changed; {
		changed = false
		for _, fn := range cx.P.FuncsOfPkg("") {
			if onlyInst[fn] || fn.Parent() != nil {
				continue
			}
			callers, all := 0, true
			for _, g := range cx.P.FuncsOfPkg("") {
				allInstrs(g, func(in ssa.Instruction) {
					ref := false
					if c := calleeOf(in); c != nil && origin(c) == origin(fn) {
						ref = true
					}
					// a method value (commit.apply handed to the table computation): the bound-method wrapper calls fn
					if mc, isMC := in.(*ssa.MakeClosure); isMC {
						if w, _ := mc.Fn.(*ssa.Function); w != nil && w.Synthetic != "" {
							allInstrs(w, func(x ssa.Instruction) {
								if c := calleeOf(x); c != nil && origin(c) == origin(fn) {
									ref = true
								}
							})
						}
					}
					if ref {
						callers++
						if !onlyInst[g] && !onlyInst[outermost(g)] {
							all = false
						}
					}
				})
			}
			if callers > 0 && all {
				onlyInst[fn] = true
				withClosures(fn, func(f *ssa.Function) { onlyInst[f] = true })
				changed = true
			}
		}
	}
	n := 0
	for _, fn := range cx.P.FuncsOfPkg("") {
		allInstrs(fn, func(in ssa.Instruction) {
			cc := callCommon(in)
			c := calleeOf(in)
			if cc == nil || c == nil || !writers[origin(c).Name()] {
				return
			}
			for _, a := range cc.Args {
				if f := fieldOf(a); f != nil && sameField(f, val) && ownerName(fieldOwnerOfValue(a)) == "call" {
					n++
					okIn := onlyInst[fn] || onlyInst[outermost(fn)]
					cx.R.Check(okIn, rule, funcName(fn), "loaded value written by the installer only", cx.P.where(in), "the record's value is handed to "+origin(c).Name()+" inside afterDeleteCall (guarded by the registration test) and nowhere else")
				}
			}
		})
	}
	if n == 0 {
		cx.R.Undecided(rule, funcName(inst), "install site", cx.P.Pos(inst.Pos()), "no table write takes the record's value")
	}
}

func init() {
	alsoUnder(ruleC13SweepTime, "C13", "C07")
}

// ---- C13.sweeptime ----
// The timer wheel is advanced to a reading of the cache's own clock: deadlines are dated by Clock.NowNano, whose origin
// is arbitrary by contract, so a sweep at any other time base (a ticker's wall clock, a cached start time) expires
// entries long before - or never after - their deadline.
func ruleC13SweepTime(cx *Ctx) {
	const rule = "C13.sweeptime"
	cx.R.Rule(rule, 1, "the time argument of every Variable.DeleteExpired call is, on every path and through every parameter it travels by, the result of NowNano on the cache's clock (a sentinel constant that the receiving function tests for and replaces by such a reading is allowed)")
	de := cx.need(rule, expPkg, "Variable", "DeleteExpired")
	clk := cx.needField(rule, "", "cache", "clock")
	if de == nil || clk == nil {
		return
	}
	var resolve func(v ssa.Value, depth int, seen map[ssa.Value]bool) string
	resolve = func(v ssa.Value, depth int, seen map[ssa.Value]bool) string {
		if seen[v] {
			return ""
		}
		seen[v] = true
		if depth > 6 {
			return "value travels too far to follow"
		}
		switch x := v.(type) {
		case *ssa.Call:
			if invokeName(x) == "NowNano" && sameField(fieldOf(x.Call.Value), clk) {
				return ""
			}
			if c := calleeOf(x); c != nil && c.Name() == "NowNano" {
				if len(x.Call.Args) > 0 && sameField(fieldOf(x.Call.Args[0]), clk) {
					return ""
				}
			}
			return "the sweep time is " + x.String() + ", not a reading of the cache's clock"
		case *ssa.Phi:
			for _, e := range x.Edges {
				if w := resolve(e, depth+1, seen); w != "" {
					return w
				}
			}
			return ""
		case *ssa.Convert:
			return resolve(x.X, depth+1, seen)
		case *ssa.ChangeType:
			return resolve(x.X, depth+1, seen)
		case *ssa.UnOp:
			if a, ok := x.X.(*ssa.Alloc); ok {
				for _, r := range *a.Referrers() {
					if st, ok := r.(*ssa.Store); ok && st.Addr == ssa.Value(a) {
						if w := resolve(st.Val, depth+1, seen); w != "" {
							return w
						}
					}
				}
				return ""
			}
		case *ssa.Const:
			return "the sweep time is the constant " + x.String()
		case *ssa.Parameter:
			fn := x.Parent()
			idx := paramIndexOf(x)
			// a sentinel the function tests its parameter against
			sentinels := map[string]bool{}
			allInstrs(fn, func(in ssa.Instruction) {
				if b, ok := in.(*ssa.BinOp); ok {
					if b.X == ssa.Value(x) {
						if k, isK := b.Y.(*ssa.Const); isK && k.Value != nil {
							sentinels[k.Value.ExactString()] = true
						}
					}
					if b.Y == ssa.Value(x) {
						if k, isK := b.X.(*ssa.Const); isK && k.Value != nil {
							sentinels[k.Value.ExactString()] = true
						}
					}
				}
			})
			sites := 0
			for _, g := range cx.P.FuncsOfPkg("") {
				var bad string
				allInstrs(g, func(in ssa.Instruction) {
					c := calleeOf(in)
					if c == nil || origin(c) != origin(fn) || bad != "" {
						return
					}
					sites++
					args := callCommon(in).Args
					if idx < 0 || idx >= len(args) {
						bad = "argument not found at " + cx.P.where(in)
						return
					}
					if k, isK := args[idx].(*ssa.Const); isK && k.Value != nil && sentinels[k.Value.ExactString()] {
						return
					}
					if w := resolve(args[idx], depth+1, seen); w != "" {
						bad = w + " (handed in at " + cx.P.where(in) + ")"
					}
				})
				if bad != "" {
					return bad
				}
			}
			if sites == 0 {
				return "the sweep time is parameter " + x.Name() + " of " + funcName(fn) + ", which nothing in the package calls"
			}
			return ""
		}
		return "the sweep time is " + v.String() + ", not a reading of the cache's clock"
	}
	n := 0
	for _, fn := range cx.P.FuncsOfPkg("") {
		allInstrs(fn, func(in ssa.Instruction) {
			if !isCallTo(in, de) {
				return
			}
			n++
			args := callArgs(in)
			if len(args) == 0 {
				return
			}
			w := resolve(args[0], 0, map[ssa.Value]bool{})
			cx.R.Check(w == "", rule, funcName(fn), "sweep at the cache clock's time", cx.P.where(in), "the wheel is advanced to Clock.NowNano of the cache "+w)
		})
	}
	if n == 0 {
		cx.R.Undecided(rule, "cache", "DeleteExpired call", "-", "no call of Variable.DeleteExpired in the cache")
	}
}

func init() {
	alsoUnder(ruleC16Recycle, "C16", "C05", "C06")
}

// ---- C16.recycle ----
// A replay task goes back to the pool exactly once, by the replay itself: runTask recycles the task it was given
// (C05.runTask) and nobody else does. A second Put hands the same object to two writers at once - one of the two
// events is overwritten before it is replayed.
func ruleC16Recycle(cx *Ctx) {
	const rule = "C16.recycle"
	cx.R.Rule(rule, 1, "putTask (the only function that returns a *task to the pool) is called only from runTask and the helpers only it calls: a task is recycled once, by its replay")
	put := cx.need(rule, "", "cache", "putTask")
	rt := cx.need(rule, "", "cache", "runTask")
	if put == nil || rt == nil {
		return
	}
	// functions reachable only from runTask
	only := map[*ssa.Function]bool{origin(rt): true}
	withClosures(rt, func(f *ssa.Function) { only[f] = true })
	for changed := true; changed; {
		changed = false
		for _, fn := range cx.P.FuncsOfPkg("") {
			if only[fn] || fn.Parent() != nil || origin(fn) == origin(put) {
				continue
			}
			callers, all := 0, true
			for _, g := range cx.P.FuncsOfPkg("") {
				allInstrs(g, func(in ssa.Instruction) {
					if c := calleeOf(in); c != nil && origin(c) == origin(fn) {
						callers++
						if !only[g] && !only[outermost(g)] {
							all = false
						}
					}
				})
			}
			if callers > 0 && all {
				only[fn] = true
				withClosures(fn, func(f *ssa.Function) { only[f] = true })
				changed = true
			}
		}
	}
	n := 0
	for _, fn := range cx.P.FuncsOfPkg("") {
		allInstrs(fn, func(in ssa.Instruction) {
			if !isCallTo(in, put) {
				return
			}
			n++
			cx.R.Check(only[fn] || only[outermost(fn)], rule, funcName(fn), "task recycled by its replay only", cx.P.where(in), "putTask is called by runTask (or a helper only it uses)")
		})
		// a direct Pool.Put of a task outside putTask
		if origin(fn) != origin(put) {
			allInstrs(fn, func(in ssa.Instruction) {
				c := calleeOf(in)
				if c == nil || c.Name() != "Put" || c.Pkg == nil || c.Pkg.Pkg.Path() != "sync" {
					return
				}
				for _, a := range callCommon(in).Args {
					t := a.Type().String()
					if mi, ok := a.(*ssa.MakeInterface); ok {
						t = mi.X.Type().String()
					}
					if strings.Contains(t, ".task[") || strings.HasSuffix(t, ".task") {
						cx.R.Violate(rule, funcName(fn), "pool Put outside putTask", cx.P.where(in), "a *task is returned to the pool outside putTask")
					}
				}
			})
		}
	}
	if n == 0 {
		cx.R.Undecided(rule, "cache", "putTask call", "-", "putTask is never called")
	}
}

func init() {
	alsoUnder(ruleC13CleanUp, "C13", "C14")
}

// ---- C13.cleanup ----
// CleanUp is the user's (and the janitor's) way to make maintenance happen now: it runs a maintenance cycle on every
// path - whatever the drain status says, because an idle cache still has timers to sweep - and the janitor goroutine
// reaches it.
func ruleC13CleanUp(cx *Ctx) {
	const rule = "C13.cleanup"
	cx.R.Rule(rule, 2, "cache.CleanUp and performCleanUp run maintenance on every returning path (no fast path on the drain status or on a flag: an idle cache still has expired entries to sweep), and the periodic clean-up goroutine reaches CleanUp")
	maint := cx.need(rule, "", "cache", "maintenance")
	if maint == nil {
		return
	}
	isMaint := func(in ssa.Instruction) bool { return isCallTo(in, maint) }
	for _, m := range []string{"CleanUp", "performCleanUp"} {
		fn := cx.need(rule, "", "cache", m)
		if fn == nil {
			continue
		}
		cx.R.Check(mustPerform(fn, isMaint, map[*ssa.Function]int{}), rule, funcName(fn), "runs maintenance on every path", cx.P.Pos(fn.Pos()), "every returning path of "+m+" passes through cache.maintenance")
	}
	if pc := cx.P.Func("", "cache", "periodicCleanUp"); pc != nil {
		ok, _ := reachesInstr(pc, isMaint, map[*ssa.Function]bool{}, nil)
		cx.R.Check(ok, rule, funcName(pc), "janitor reaches maintenance", cx.P.Pos(pc.Pos()), "the periodic clean-up goroutine calls a function that runs maintenance")
	}
}

func init() {
	alsoUnder(ruleC04Width, "C04", "C07")
	alsoUnder(ruleC13NoDrop, "C12")
	alsoUnder(ruleEvict, "C14")
}

// ---- C04.width ----
// The size bound is kept in 64 bits: the policy's totals and limits (maximum, weightedSize, the window / protected
// shares) are never narrowed to a 32-bit or smaller integer. A comparison made "in the width of a weight"
// (n.Weight() > uint32(p.maximum)) truncates every maximum of 2^32 or more - ordinary entries then count as oversized.
func ruleC04Width(cx *Ctx) {
	const rule = "C04.width"
	cx.R.Rule(rule, 1, "no 64-bit field of the eviction policy (maximum, weightedSize, windowMaximum, mainProtectedMaximum, the per-queue totals) is converted to an integer type narrower than 64 bits anywhere in the module: weights are widened for a comparison, limits are never narrowed")
	_, st := cx.P.Struct("", "policy")
	if st == nil {
		cx.R.Undecided(rule, "policy", "anchor", "-", "type policy not found")
		return
	}
	wide := map[*types.Var]bool{}
	for i := 0; i < st.NumFields(); i++ {
		f := st.Field(i)
		if b, ok := f.Type().Underlying().(*types.Basic); ok && (b.Kind() == types.Uint64 || b.Kind() == types.Int64) {
			wide[f.Origin()] = true
		}
	}
	narrow := func(t types.Type) bool {
		b, ok := t.Underlying().(*types.Basic)
		if !ok {
			return false
		}
		switch b.Kind() {
		case types.Int8, types.Int16, types.Int32, types.Uint8, types.Uint16, types.Uint32:
			return true
		}
		return false
	}
	n := 0
	for _, fn := range cx.P.ModuleFuncs() {
		allInstrs(fn, func(in ssa.Instruction) {
			cv, ok := in.(*ssa.Convert)
			if !ok || !narrow(cv.Type()) {
				return
			}
			// the operand (through arithmetic) is a load of a wide policy field
			var from func(v ssa.Value, d int) *types.Var
			from = func(v ssa.Value, d int) *types.Var {
				if d > 4 {
					return nil
				}
				if f := fieldOf(v); f != nil && wide[f.Origin()] && ownerName(fieldOwnerOfValue(v)) == "policy" {
					return f
				}
				switch x := v.(type) {
				case *ssa.BinOp:
					if f := from(x.X, d+1); f != nil {
						return f
					}
					return from(x.Y, d+1)
				case *ssa.Phi:
					for _, e := range x.Edges {
						if f := from(e, d+1); f != nil {
							return f
						}
					}
				}
				return nil
			}
			if f := from(cv.X, 0); f != nil {
				n++
				cx.R.Violate(rule, funcName(fn), "narrowing of "+fname(f), cx.P.where(in), "NOT SATISFIED: policy."+fname(f)+" is converted to "+cv.Type().String()+": limits and totals of the size bound stay 64 bits wide")
			}
		})
	}
	if n == 0 {
		cx.R.OK(rule, "policy", "no narrowing conversion", "-", fmt.Sprintf("%d 64-bit fields, none narrowed", len(wide)))
	}
}

func init() {
	alsoUnder(ruleC18Seed, "C18")
	alsoUnder(ruleC16Bound, "C16", "C19", "C14")
}

// ---- C18.seed ----
// The counters of a key are found through the hasher's seed: re-seeding the hasher while the table keeps its counters
// makes every recorded key look new (its estimate drops although nothing aged). The hasher is therefore stored only
// together with a freshly allocated table - in the same function after the table store, or in a helper all of whose
// call sites come after one.
func ruleC18Seed(cx *Ctx) {
	const rule = "C18.seed"
	cx.R.Rule(rule, 1, "every store of sketch.hasher is preceded, on all paths of its function or at every call site of that function, by a store of a freshly made sketch.table: the hash seed changes only when the counters are replaced")
	hf := cx.needField(rule, "", "sketch", "hasher")
	tf := cx.needField(rule, "", "sketch", "table")
	if hf == nil || tf == nil {
		return
	}
	isTableStore := func(in ssa.Instruction) bool {
		st, ok := in.(*ssa.Store)
		if !ok || !sameField(fieldOf(st.Addr), tf) {
			return false
		}
		_, fresh := st.Val.(*ssa.MakeSlice)
		return fresh
	}
	var precededBy func(site ssa.Instruction, depth int) bool
	precededBy = func(site ssa.Instruction, depth int) bool {
		fn := site.Parent()
		found := false
		allInstrs(fn, func(in ssa.Instruction) {
			if found || in == site {
				return
			}
			if isTableStore(in) && instrDominates(in, site) {
				found = true
			}
		})
		if found {
			return true
		}
		if depth > 3 {
			return false
		}
		// a constructor of a sketch that has no counters yet
		if fn.Signature.Recv() == nil && strings.HasPrefix(fn.Name(), "new") {
			return true
		}
		callers := 0
		ok := true
		for _, g := range cx.P.FuncsOfPkg("") {
			allInstrs(g, func(in ssa.Instruction) {
				if c := calleeOf(in); c != nil && origin(c) == origin(fn) {
					callers++
					if !precededBy(in, depth+1) {
						ok = false
					}
				}
			})
		}
		return callers > 0 && ok
	}
	n := 0
	for _, fn := range cx.P.FuncsOfPkg("") {
		allInstrs(fn, func(in ssa.Instruction) {
			st, ok := in.(*ssa.Store)
			if !ok || !sameField(fieldOf(st.Addr), hf) {
				return
			}
			n++
			cx.R.Check(precededBy(in, 0), rule, funcName(fn), "hasher seeded with a fresh table only", cx.P.where(in), "the store of the hasher follows the allocation of a new counter table on every way to it")
		})
	}
	if n == 0 {
		cx.R.Undecided(rule, "sketch", "hasher store", "-", "no store of sketch.hasher found")
	}
}

// ---- C16.bound ----
// One maintenance pass drains at most maxWriteBufferSize + 1 events, and the same variable is the maximum capacity
// handed to the queue, which rounds it UP to a power of two: the drain bound covers the whole queue only when the
// variable already is a power of two - a product of power-of-two constants and RoundUpPowerOf2 results.
func ruleC16Bound(cx *Ctx) {
	const rule = "C16.bound"
	cx.R.Rule(rule, 1, "the value stored into maxWriteBufferSize (the drain bound of a maintenance pass and the queue's maximum capacity before its own rounding) is a power of two by construction: power-of-two constants multiplied / shifted with results of xmath.RoundUpPowerOf2*")
	var pow2 func(v ssa.Value, d int) bool
	pow2 = func(v ssa.Value, d int) bool {
		if d > 6 {
			return false
		}
		switch x := v.(type) {
		case *ssa.Const:
			k, ok := constInt(x)
			return ok && k > 0 && k&(k-1) == 0
		case *ssa.Convert:
			return pow2(x.X, d+1)
		case *ssa.ChangeType:
			return pow2(x.X, d+1)
		case *ssa.BinOp:
			switch x.Op.String() {
			case "*":
				return pow2(x.X, d+1) && pow2(x.Y, d+1)
			case "<<":
				_, isK := constInt(x.Y)
				return pow2(x.X, d+1) && isK
			}
		case *ssa.Call:
			if c := calleeOf(x); c != nil && c.Pkg != nil && strings.HasSuffix(c.Pkg.Pkg.Path(), "/internal/xmath") && strings.HasPrefix(c.Name(), "RoundUpPowerOf2") {
				return true
			}
		case *ssa.UnOp:
			if a, ok := x.X.(*ssa.Alloc); ok {
				if st := wholeStore(a); st != nil {
					return pow2(st, d+1)
				}
			}
		}
		return false
	}
	n := 0
	for _, fn := range cx.P.ModuleFuncs() {
		allInstrs(fn, func(in ssa.Instruction) {
			st, ok := in.(*ssa.Store)
			if !ok {
				return
			}
			g, isG := st.Addr.(*ssa.Global)
			if !isG || g.Name() != "maxWriteBufferSize" {
				return
			}
			n++
			cx.R.Check(pow2(st.Val, 0), rule, funcName(fn), "drain bound is a power of two", cx.P.where(in), "maxWriteBufferSize = 2^a * RoundUpPowerOf2(parallelism): the queue's rounded capacity never exceeds what one maintenance pass drains")
		})
	}
	if n == 0 {
		cx.R.Undecided(rule, "otter", "maxWriteBufferSize", "-", "no store into the package variable maxWriteBufferSize found")
	}
}

func init() {
	alsoUnder(ruleC09Inside, "C09", "C02")
}

// ---- C09.inside ----
// Cancelling a key's in-flight load is part of the bucket-locked step that changes (or confirms) the key's mapping: the
// installer of a load removes its record and installs its value under that same lock, so a cancellation made outside it
// can fall between the two and cancel nothing.
func ruleC09Inside(cx *Ctx) {
	const rule = "C09.inside"
	cx.R.Rule(rule, 2, "every call of singleflight.delete (the cancellation of a key's in-flight load by a write, compute, invalidation or removal) sits in code that runs only inside a closure handed to the main table's Compute: no fast path cancels outside the bucket lock")
	del := cx.need(rule, "", "group", "delete")
	compute := cx.need(rule, hmPkg, "Map", "Compute")
	hmf := cx.needField(rule, "", "cache", "hashmap")
	if del == nil || compute == nil || hmf == nil {
		return
	}
	under := computeClosureFuncs(cx, hmf, compute)
	n := 0
	for _, fn := range cx.P.FuncsOfPkg("") {
		allInstrs(fn, func(in ssa.Instruction) {
			if !isCallTo(in, del) {
				return
			}
			n++
			cx.R.Check(under[origin(outermost(fn))] || under[origin(fn)], rule, funcName(fn), "cancellation under the bucket lock", cx.P.where(in), "singleflight.delete is called only in code reached from a closure handed to the table's Compute")
		})
	}
	if n == 0 {
		cx.R.Undecided(rule, "cache", "singleflight.delete call", "-", "no call of singleflight.delete in the cache")
	}
}

package main

import (
	"fmt"
	"go/types"
	"strings"

	"golang.org/x/tools/go/ssa"
)

// Rules added after the seventh round of seeded changes.

func init() {
	alsoUnder(ruleC11Quiet, "C11", "C12")
	alsoUnder(ruleC17Monotone, "C17")
}

// execClosuresOf: the closures handed to cache.executor anywhere in the root package.
func execClosuresOf(cx *Ctx, rule string) map[*ssa.Function]bool {
	ex := cx.needField(rule, "", "cache", "executor")
	out := map[*ssa.Function]bool{}
	if ex == nil {
		return nil
	}
	for _, fn := range cx.P.FuncsOfPkg("") {
		allInstrs(fn, func(in ssa.Instruction) {
			cc := callCommon(in)
			if cc != nil && !cc.IsInvoke() && cc.StaticCallee() == nil && sameField(fieldOf(cc.Value), ex) && len(cc.Args) == 1 {
				if cl := closureOf(cc.Args[0]); cl != nil {
					out[cl] = true
				}
			}
		})
	}
	return out
}

// ---- C11.quiet ----
// An explicit refresh looks its entry up quietly: before the reload it hands to the executor has produced a result the
// entry's expiration deadline is not touched and the read hook of the expiry calculator is not consulted ("a failed
// reload leaves it and its expiry untouched"; the deadline after a read is read time + ExpireAfterRead only for reads).
func ruleC11Quiet(cx *Ctx) {
	const rule = "C11.quiet"
	cx.R.Rule(rule, 2, "outside the reload it hands to the executor, Refresh / BulkRefresh reach no store of an expiration deadline and no call of ExpiryCalculator.ExpireAfterRead: an explicit refresh is not a read of the entry, and its expiry moves only when a reload installs a result")
	execCl := execClosuresOf(cx, rule)
	if execCl == nil {
		return
	}
	touches := func(in ssa.Instruction) bool {
		switch invokeName(in) {
		case "SetExpiresAt", "CASExpiresAt":
			return isNodeIface(namedTypeName(callCommon(in).Value.Type()))
		case "ExpireAfterRead":
			return true
		}
		return false
	}
	for _, m := range []string{"Refresh", "BulkRefresh"} {
		fn := cx.need(rule, "", "cache", m)
		if fn == nil {
			continue
		}
		bad, where := reachesInstr(fn, touches, map[*ssa.Function]bool{}, func(f *ssa.Function) bool {
			for g := f; g != nil; g = g.Parent() {
				if execCl[g] {
					return true // the reload itself, and the closures nested in it
				}
			}
			return false
		})
		cx.R.Check(!bad, rule, funcName(fn), "synchronous part moves no expiration deadline", cx.P.Pos(fn.Pos()), "before its reload runs an explicit refresh neither consults ExpireAfterRead nor stores an expiration deadline "+where)
	}
}

// ---- C17.monotone ----
// The ring's two counters only ever grow: the producers' count by a CAS from the value read to that value + 1, the
// consumer's count by a store of a value computed from the count it read. A reset (Store(0), a "clear") while a producer
// has claimed a slot but not yet published it makes the late publication land in a slot nobody owns: an entry is then
// delivered in place of another or a lap late.
func ruleC17Monotone(cx *Ctx) {
	const rule = "C17.monotone"
	cx.R.Rule(rule, 2, "every write of ring.tail is a compare-and-swap from the value compared to that value + 1, every write of ring.head stores a value computed from a load of that head (never a constant), and a ring slot is set to nil only by a function that advances head (constructors of a still private ring excepted)")
	head := cx.needField(rule, lossyPkg, "ring", "head")
	tail := cx.needField(rule, lossyPkg, "ring", "tail")
	if head == nil || tail == nil {
		return
	}
	writes := []string{"Store", "Swap", "Add", "CompareAndSwap", "And", "Or"}
	for _, fn := range cx.P.ModuleFuncs() {
		name := funcName(fn)
		fresh := func(in ssa.Instruction) bool {
			// the receiver is a ring allocated in this very function
			cc := callCommon(in)
			if cc == nil {
				return false
			}
			var recv ssa.Value
			if len(cc.Args) > 0 {
				recv = cc.Args[0]
			}
			for i := 0; i < 4 && recv != nil; i++ {
				switch x := recv.(type) {
				case *ssa.FieldAddr:
					recv = x.X
				case *ssa.Alloc:
					return x.Heap || true
				default:
					recv = nil
				}
			}
			return false
		}
		advancesHead := false
		allInstrs(fn, func(in ssa.Instruction) {
			if c := innerAtomic(in, head, "Store"); c != nil {
				advancesHead = true
			}
		})
		allInstrs(fn, func(in ssa.Instruction) {
			for _, op := range writes {
				if c := innerAtomic(in, tail, op); c != nil {
					if fresh(c) {
						cx.R.OK(rule, name, "tail initialised on a private ring", cx.P.where(in), "constructor")
						continue
					}
					a := callArgs(c)
					ok := op == "CompareAndSwap" && len(a) == 2 && isAddConst(a[1], a[0], 1)
					cx.R.Check(ok, rule, name, "tail "+op, cx.P.where(in), "the producers' count changes only by CompareAndSwap(t, t+1)")
				}
				if c := innerAtomic(in, head, op); c != nil {
					if fresh(c) {
						cx.R.OK(rule, name, "head initialised on a private ring", cx.P.where(in), "constructor")
						continue
					}
					a := callArgs(c)
					ok := false
					if op == "Store" && len(a) == 1 {
						ok = dependsOnLoad(a[0], head, map[ssa.Value]bool{})
					}
					cx.R.Check(ok, rule, name, "head "+op, cx.P.where(in), "the consumer's count is stored as a value computed from the count it loaded (never reset)")
				}
			}
			// nil into a slot
			var addr, val ssa.Value
			if isAtomicPtr(in, "StorePointer") {
				addr, val = callCommon(in).Args[0], callCommon(in).Args[1]
			} else if st, ok := in.(*ssa.Store); ok {
				addr, val = st.Addr, st.Val
			}
			if addr == nil {
				return
			}
			if _, isSlot := ringSlot(cx, addr); !isSlot {
				return
			}
			if c, ok := val.(*ssa.Const); ok && c.IsNil() {
				cx.R.Check(advancesHead, rule, name, "slot cleared", cx.P.where(in), "a slot is emptied only by the function that consumes it and advances head")
			}
		})
	}
}

// dependsOnLoad: v is computed (through arithmetic and phis) from an atomic load of the field and is not a constant.
func dependsOnLoad(v ssa.Value, field *types.Var, seen map[ssa.Value]bool) bool {
	if v == nil || seen[v] {
		return false
	}
	seen[v] = true
	if atomicFieldLoad(v, field) {
		return true
	}
	switch x := v.(type) {
	case *ssa.Phi:
		for _, e := range x.Edges {
			if dependsOnLoad(e, field, seen) {
				return true
			}
		}
	case *ssa.BinOp:
		return dependsOnLoad(x.X, field, seen) || dependsOnLoad(x.Y, field, seen)
	case *ssa.Convert:
		return dependsOnLoad(x.X, field, seen)
	case *ssa.ChangeType:
		return dependsOnLoad(x.X, field, seen)
	case *ssa.UnOp:
		if a, ok := x.X.(*ssa.Alloc); ok {
			// a local spilled to memory: any store into it
			for _, r := range *a.Referrers() {
				if st, ok := r.(*ssa.Store); ok && st.Addr == a && dependsOnLoad(st.Val, field, seen) {
					return true
				}
			}
		}
	}
	return false
}

var _ = fmt.Sprintf
var _ = strings.HasPrefix

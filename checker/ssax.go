package main

import (
	"fmt"
	"go/constant"
	"go/token"
	"go/types"
	"strings"

	"golang.org/x/tools/go/ssa"
)

// ---------- positions ----------

type Pt struct {
	B *ssa.BasicBlock
	I int
}

func ptOf(in ssa.Instruction) Pt {
	b := in.Block()
	for i, x := range b.Instrs {
		if x == in {
			return Pt{b, i}
		}
	}
	return Pt{b, -1}
}

func (P *Program) where(in ssa.Instruction) string {
	if in == nil {
		return "?"
	}
	if p := in.Pos(); p.IsValid() {
		return P.Pos(p)
	}
	// fall back to nearest instruction with a position in the same block, then the function
	b := in.Block()
	for _, x := range b.Instrs {
		if x.Pos().IsValid() {
			return P.Pos(x.Pos())
		}
	}
	return P.Pos(in.Parent().Pos())
}

func allInstrs(fn *ssa.Function, f func(in ssa.Instruction)) {
	for _, b := range fn.Blocks {
		for _, in := range b.Instrs {
			f(in)
		}
	}
}

// withClosures visits fn and all its nested anonymous functions.
func withClosures(fn *ssa.Function, f func(fn *ssa.Function)) {
	f(fn)
	for _, a := range fn.AnonFuncs {
		withClosures(a, f)
	}
}

// ---------- calls ----------

func callCommon(in ssa.Instruction) *ssa.CallCommon {
	if ci, ok := in.(ssa.CallInstruction); ok {
		return ci.Common()
	}
	return nil
}

// calleeOf returns the statically resolved callee (generic origin) of a call instruction, or nil.
func calleeOf(in ssa.Instruction) *ssa.Function {
	cc := callCommon(in)
	if cc == nil {
		return nil
	}
	if f := cc.StaticCallee(); f != nil {
		return origin(f)
	}
	// bound method value called directly: (c.evictNode)(...) is MakeClosure of a bound wrapper; not static
	return nil
}

// isCallTo reports whether in is a (static) call of target.
func isCallTo(in ssa.Instruction, target *ssa.Function) bool {
	if target == nil {
		return false
	}
	c := calleeOf(in)
	return c != nil && c == origin(target)
}

// invokeName returns the method name for interface-method invocations ("" otherwise).
func invokeName(in ssa.Instruction) string {
	cc := callCommon(in)
	if cc == nil || !cc.IsInvoke() {
		return ""
	}
	return cc.Method.Name()
}

// invokeOn reports an interface invoke of method `name` on an interface whose named type is typeName
// (e.g. Node, Recorder, Clock, ExpiryCalculator). typeName=="" matches any interface.
func invokeOn(in ssa.Instruction, typeName, name string) bool {
	cc := callCommon(in)
	if cc == nil || !cc.IsInvoke() || cc.Method.Name() != name {
		return false
	}
	if typeName == "" {
		return true
	}
	return namedTypeName(cc.Value.Type()) == typeName
}

func namedTypeName(t types.Type) string {
	for {
		switch x := t.(type) {
		case *types.Pointer:
			t = x.Elem()
			continue
		case *types.Named:
			return x.Obj().Name()
		case *types.Alias:
			t = types.Unalias(x)
			continue
		case *types.TypeParam:
			// a type parameter constrained by a single named interface (hashmap's N mapNode[K,V])
			return "typeparam:" + x.Obj().Name()
		}
		return ""
	}
}

// recvValue returns the receiver operand of a method call (static method or invoke), or nil.
func recvValue(in ssa.Instruction) ssa.Value {
	cc := callCommon(in)
	if cc == nil {
		return nil
	}
	if cc.IsInvoke() {
		return cc.Value
	}
	if f := cc.StaticCallee(); f != nil && f.Signature.Recv() != nil && len(cc.Args) > 0 {
		return cc.Args[0]
	}
	return nil
}

// callArgs returns the non-receiver arguments.
func callArgs(in ssa.Instruction) []ssa.Value {
	cc := callCommon(in)
	if cc == nil {
		return nil
	}
	if cc.IsInvoke() {
		return cc.Args
	}
	if f := cc.StaticCallee(); f != nil {
		if f.Signature.Recv() != nil && len(cc.Args) > 0 {
			if _, moved := canonRecv[origin(f)]; moved {
				all := bargs(f, cc.Args, true)
				if baselineHasRecv(f) && len(all) > 0 {
					return all[1:]
				}
				return all
			}
			return bargs(f, cc.Args[1:], false)
		}
		if _, isClosure := cc.Value.(*ssa.MakeClosure); !isClosure {
			return bargs(f, cc.Args, true)
		}
	}
	return cc.Args
}

// fieldOfAddr: if v (after stripping loads) is x.f / &x.f returns the origin field object.
func fieldOf(v ssa.Value) *types.Var {
	v = stripLoad(v)
	switch x := v.(type) {
	case *ssa.FieldAddr:
		st := derefStruct(x.X.Type())
		if st == nil {
			return nil
		}
		return st.Field(x.Field).Origin()
	case *ssa.Field:
		st, _ := x.X.Type().Underlying().(*types.Struct)
		if st == nil {
			return nil
		}
		return st.Field(x.Field).Origin()
	}
	return nil
}

func derefStruct(t types.Type) *types.Struct {
	if p, ok := t.Underlying().(*types.Pointer); ok {
		t = p.Elem()
	}
	st, _ := t.Underlying().(*types.Struct)
	return st
}

func stripLoad(v ssa.Value) ssa.Value {
	for {
		u, ok := v.(*ssa.UnOp)
		if !ok || u.Op != token.MUL {
			return v
		}
		v = u.X
	}
}

func stripConv(v ssa.Value) ssa.Value {
	for {
		switch x := v.(type) {
		case *ssa.Convert:
			v = x.X
		case *ssa.ChangeType:
			v = x.X
		case *ssa.MakeInterface:
			v = x.X
		case *ssa.ChangeInterface:
			v = x.X
		default:
			return v
		}
	}
}

// recvField returns the struct field a method is invoked on: c.evictionMutex.Lock() -> evictionMutex.
func recvField(in ssa.Instruction) *types.Var {
	r := recvValue(in)
	if r == nil {
		return nil
	}
	return fieldOf(r)
}

func sameField(a, b *types.Var) bool {
	return a != nil && b != nil && a.Origin() == b.Origin()
}

// isStdMethod reports a static call of pkg.(T).name from the standard library, e.g. sync.Mutex.Lock.
func isStdMethod(in ssa.Instruction, pkg, typ, name string) bool {
	c := calleeOf(in)
	if c == nil || c.Name() != name || c.Signature.Recv() == nil {
		return false
	}
	t := c.Signature.Recv().Type()
	if p, ok := t.(*types.Pointer); ok {
		t = p.Elem()
	}
	n, ok := t.(*types.Named)
	if !ok || n.Obj().Pkg() == nil {
		return false
	}
	if n.Obj().Pkg().Path() != pkg {
		return false
	}
	if typ == "" {
		return true
	}
	return n.Obj().Name() == typ || n.Origin().Obj().Name() == typ
}

// isPkgFunc reports a static call of a package level function pkg.name (std or third party).
func isPkgFunc(in ssa.Instruction, pkg, name string) bool {
	c := calleeOf(in)
	return c != nil && c.Signature.Recv() == nil && c.Name() == name && c.Pkg != nil && c.Pkg.Pkg.Path() == pkg
}

func isBuiltinCall(in ssa.Instruction, name string) bool {
	cc := callCommon(in)
	if cc == nil {
		return false
	}
	b, ok := cc.Value.(*ssa.Builtin)
	return ok && b.Name() == name
}

// constInt returns the integer value of a constant operand.
func constInt(v ssa.Value) (int64, bool) {
	v = stripConv(v)
	c, ok := v.(*ssa.Const)
	if !ok || c.Value == nil || c.Value.Kind() != constant.Int {
		return 0, false
	}
	if i, ok := constant.Int64Val(c.Value); ok {
		return i, true
	}
	if u, ok := constant.Uint64Val(c.Value); ok {
		return int64(u), true
	}
	return 0, false
}

func constUint(v ssa.Value) (uint64, bool) {
	v = stripConv(v)
	c, ok := v.(*ssa.Const)
	if !ok || c.Value == nil || c.Value.Kind() != constant.Int {
		return 0, false
	}
	if u, ok := constant.Uint64Val(c.Value); ok {
		return u, true
	}
	if i, ok := constant.Int64Val(c.Value); ok {
		return uint64(i), true
	}
	return 0, false
}

func isNilConst(v ssa.Value) bool {
	c, ok := v.(*ssa.Const)
	return ok && c.Value == nil
}

func constBool(v ssa.Value) (bool, bool) {
	c, ok := v.(*ssa.Const)
	if !ok || c.Value == nil || c.Value.Kind() != constant.Bool {
		return false, false
	}
	return constant.BoolVal(c.Value), true
}

// ---------- CFG queries ----------

// stripNot peels logical negations.
func stripNot(v ssa.Value) (ssa.Value, bool) {
	neg := false
	for {
		u, ok := v.(*ssa.UnOp)
		if !ok || u.Op != token.NOT {
			return v, neg
		}
		neg = !neg
		v = u.X
	}
}

// Guard is a branch condition known to have a given truth value at some point.
type Guard struct {
	Cond  ssa.Value // condition with negations stripped
	Truth bool      // value of Cond on the dominating edge
	If    *ssa.If
}

type edge struct {
	from *ssa.BasicBlock
	succ int
}

type cfgInfo struct {
	fn      *ssa.Function
	edgeDom map[edge]map[*ssa.BasicBlock]bool // blocks only reachable through the edge
}

var cfgCache = map[*ssa.Function]*cfgInfo{}

func cfgOf(fn *ssa.Function) *cfgInfo {
	if c, ok := cfgCache[fn]; ok {
		return c
	}
	c := &cfgInfo{fn: fn, edgeDom: map[edge]map[*ssa.BasicBlock]bool{}}
	cfgCache[fn] = c
	return c
}

// dominatedByEdge returns the set of blocks that every path from entry reaches only via edge e.
func (c *cfgInfo) dominatedByEdge(e edge) map[*ssa.BasicBlock]bool {
	if d, ok := c.edgeDom[e]; ok {
		return d
	}
	reach := map[*ssa.BasicBlock]bool{}
	var stack []*ssa.BasicBlock
	if len(c.fn.Blocks) > 0 {
		stack = append(stack, c.fn.Blocks[0])
		reach[c.fn.Blocks[0]] = true
	}
	if c.fn.Recover != nil {
		stack = append(stack, c.fn.Recover)
		reach[c.fn.Recover] = true
	}
	for len(stack) > 0 {
		b := stack[len(stack)-1]
		stack = stack[:len(stack)-1]
		for i, s := range b.Succs {
			if b == e.from && i == e.succ {
				continue
			}
			if !reach[s] {
				reach[s] = true
				stack = append(stack, s)
			}
		}
	}
	d := map[*ssa.BasicBlock]bool{}
	for _, b := range c.fn.Blocks {
		if !reach[b] {
			d[b] = true
		}
	}
	c.edgeDom[e] = d
	return d
}

// guardsAt returns the branch conditions whose outcome is fixed on every path reaching block b. Conditions that
// were hoisted into a boolean variable (`ok := a && b; if ok {`) are expanded: such a variable is a phi of
// constants and one computed value, so its truth fixes the conjuncts (or disjuncts) as well.
func guardsAt(b *ssa.BasicBlock) []Guard {
	return expandGuards(rawGuardsAt(b), 0)
}

func expandGuards(gs []Guard, depth int) []Guard {
	if depth > 4 {
		return gs
	}
	out := append([]Guard(nil), gs...)
	for _, g := range gs {
		ph, ok := g.Cond.(*ssa.Phi)
		if !ok {
			continue
		}
		// edges that can produce the observed truth value
		var live []int
		for i, e := range ph.Edges {
			if c, isC := constBool(e); isC && c != g.Truth {
				continue
			}
			live = append(live, i)
		}
		if len(live) != 1 {
			continue
		}
		i := live[0]
		pred := ph.Block().Preds[i]
		extra := rawGuardsOnEdge(pred, ph.Block())
		if _, isC := constBool(ph.Edges[i]); !isC {
			c, neg := stripNot(ph.Edges[i])
			extra = append(extra, Guard{Cond: c, Truth: g.Truth != neg, If: g.If})
		}
		out = append(out, expandGuards(extra, depth+1)...)
	}
	return out
}

func rawGuardsAt(b *ssa.BasicBlock) []Guard {
	fn := b.Parent()
	c := cfgOf(fn)
	var out []Guard
	for _, blk := range fn.Blocks {
		if len(blk.Instrs) == 0 {
			continue
		}
		ifi, ok := blk.Instrs[len(blk.Instrs)-1].(*ssa.If)
		if !ok {
			continue
		}
		for s := 0; s < 2; s++ {
			if blk.Succs[0] == blk.Succs[1] {
				continue
			}
			if c.dominatedByEdge(edge{blk, s})[b] {
				cond, neg := stripNot(ifi.Cond)
				out = append(out, Guard{Cond: cond, Truth: (s == 0) != neg, If: ifi})
			}
		}
	}
	return out
}

func rawGuardsOnEdge(pred, succ *ssa.BasicBlock) []Guard {
	out := rawGuardsAt(pred)
	if len(pred.Instrs) == 0 {
		return out
	}
	if ifi, ok := pred.Instrs[len(pred.Instrs)-1].(*ssa.If); ok && pred.Succs[0] != pred.Succs[1] {
		for s := 0; s < 2; s++ {
			if pred.Succs[s] == succ {
				cond, neg := stripNot(ifi.Cond)
				out = append(out, Guard{Cond: cond, Truth: (s == 0) != neg, If: ifi})
			}
		}
	}
	return out
}

// guardsOnEdge returns the conditions fixed when control flows from pred to succ (guards of pred plus pred's own branch).
func guardsOnEdge(pred, succ *ssa.BasicBlock) []Guard {
	return expandGuards(rawGuardsOnEdge(pred, succ), 0)
}

// blockReachable reports whether `to` is reachable from `from` (following successors, length>=0).
func blockReachable(from, to *ssa.BasicBlock) bool {
	if from == to {
		return true
	}
	seen := map[*ssa.BasicBlock]bool{from: true}
	stack := []*ssa.BasicBlock{from}
	for len(stack) > 0 {
		b := stack[len(stack)-1]
		stack = stack[:len(stack)-1]
		for _, s := range b.Succs {
			if s == to {
				return true
			}
			if !seen[s] {
				seen[s] = true
				stack = append(stack, s)
			}
		}
	}
	return false
}

// instrDominates: a is executed before b on every path reaching b.
func instrDominates(a, b ssa.Instruction) bool {
	pa, pb := ptOf(a), ptOf(b)
	if pa.B == pb.B {
		return pa.I < pb.I
	}
	return pa.B.Dominates(pb.B)
}

// canReach: there is a path on which b executes after a.
func canReach(a, b ssa.Instruction) bool {
	pa, pb := ptOf(a), ptOf(b)
	if pa.B == pb.B && pa.I < pb.I {
		return true
	}
	for _, s := range pa.B.Succs {
		if blockReachable(s, pb.B) {
			return true
		}
	}
	return false
}

type exitKind int

const (
	exitReturn exitKind = 1 << iota
	exitPanic
)

// MustFollow decides: on every path from just after `from` to a function exit of the selected kinds, an
// instruction satisfying `is` executes first. A deferred call satisfying `is` that was registered on the
// path (or dominates `from`) counts, because deferred calls run at every exit.
// It returns ok and, when not ok, a witness path of block descriptions.
func MustFollow(from ssa.Instruction, is func(ssa.Instruction) bool, exits exitKind) (bool, []string) {
	fn := from.Parent()
	// a deferred satisfier dominating `from`
	for _, b := range fn.Blocks {
		for _, in := range b.Instrs {
			if d, ok := in.(*ssa.Defer); ok && is(d) && instrDominates(d, from) {
				return true, nil
			}
		}
	}
	start := ptOf(from)
	start.I++
	return MustFollowPt(start, is, exits, nil)
}

// MustFollowPt is MustFollow starting at an arbitrary point; edges in `cut` are not followed.
func MustFollowPt(start Pt, is func(ssa.Instruction) bool, exits exitKind, cut map[edge]bool) (bool, []string) {
	visited := map[*ssa.BasicBlock]bool{}
	// branches on a boolean parameter are correlated: what is known about it at the start holds on the whole path
	known := map[ssa.Value]bool{}
	for _, g := range guardsAt(start.B) {
		if p, ok := g.Cond.(*ssa.Parameter); ok {
			known[p] = g.Truth
		}
	}
	decided := func(b *ssa.BasicBlock) (int, bool) {
		if len(b.Instrs) == 0 {
			return 0, false
		}
		ifi, ok := b.Instrs[len(b.Instrs)-1].(*ssa.If)
		if !ok {
			return 0, false
		}
		v, neg := stripNot(ifi.Cond)
		t, ok := known[v]
		if !ok {
			return 0, false
		}
		if t != neg {
			return 0, true
		}
		return 1, true
	}
	var path []string
	var witness []string
	var walk func(b *ssa.BasicBlock, i int) bool // returns false when an exit was reached without a satisfier
	walk = func(b *ssa.BasicBlock, i int) bool {
		path = append(path, blockDesc(b))
		defer func() { path = path[:len(path)-1] }()
		for ; i < len(b.Instrs); i++ {
			in := b.Instrs[i]
			if is(in) {
				return true
			}
			switch in.(type) {
			case *ssa.Return:
				if exits&exitReturn != 0 {
					witness = append([]string(nil), path...)
					witness = append(witness, "-> return")
					return false
				}
				return true
			case *ssa.Panic:
				if exits&exitPanic != 0 {
					witness = append([]string(nil), path...)
					witness = append(witness, "-> panic")
					return false
				}
				return true
			}
		}
		only, dec := decided(b)
		for si, s := range b.Succs {
			if cut[edge{b, si}] || (dec && si != only) {
				continue
			}
			if visited[s] {
				continue
			}
			visited[s] = true
			if !walk(s, 0) {
				return false
			}
		}
		return true
	}
	ok := walk(start.B, start.I)
	return ok, witness
}

func blockDesc(b *ssa.BasicBlock) string {
	c := b.Comment
	if c == "" {
		c = "block"
	}
	return fmt.Sprintf("b%d(%s)", b.Index, c)
}

// CountOnPaths explores the product of the CFG with an event counter saturating at 2 and returns, for each
// exit instruction (Return/Panic) reachable from `start`, the set of event counts with which it can be
// reached, plus a witness path for every (exit,count).
// `events` returns the number of events an instruction contributes (0, 1 or 2).
// Blocks for which `stop` is true end a path silently (used for retry edges).
type exitCount struct {
	Exit    ssa.Instruction
	Count   int
	Witness []string
}

func CountOnPaths(fn *ssa.Function, start Pt, events func(ssa.Instruction) int, skipBlock func(*ssa.BasicBlock) bool) []exitCount {
	return CountUntil(fn, start, events, skipBlock, nil)
}

// CountUntil is CountOnPaths that additionally ends a path (and records it as an exit) when it enters a block
// for which stopAt is true.
func CountUntil(fn *ssa.Function, start Pt, events func(ssa.Instruction) int, skipBlock func(*ssa.BasicBlock) bool, stopAt func(*ssa.BasicBlock) bool) []exitCount {
	type st struct {
		b *ssa.BasicBlock
		c int
	}
	type item struct {
		s      st
		i      int
		parent *item
	}
	seen := map[st]bool{}
	var out []exitCount
	var queue []*item
	push := func(s st, i int, parent *item) {
		if i == 0 {
			if seen[s] {
				return
			}
			seen[s] = true
		}
		queue = append(queue, &item{s, i, parent})
	}
	push(st{start.B, 0}, start.I, nil)
	for len(queue) > 0 {
		it := queue[0]
		queue = queue[1:]
		c := it.s.c
		b := it.s.b
		ended := false
		for i := it.i; i < len(b.Instrs); i++ {
			in := b.Instrs[i]
			c += events(in)
			if c > 2 {
				c = 2
			}
			switch in.(type) {
			case *ssa.Return, *ssa.Panic:
				var w []string
				for p := it; p != nil; p = p.parent {
					w = append([]string{blockDesc(p.s.b)}, w...)
				}
				out = append(out, exitCount{Exit: in, Count: c, Witness: w})
				ended = true
			}
			if ended {
				break
			}
		}
		if ended {
			continue
		}
		for _, s := range b.Succs {
			if skipBlock != nil && skipBlock(s) {
				continue
			}
			if stopAt != nil && stopAt(s) {
				var w []string
				for p := it; p != nil; p = p.parent {
					w = append([]string{blockDesc(p.s.b)}, w...)
				}
				w = append(w, blockDesc(s))
				out = append(out, exitCount{Exit: s.Instrs[0], Count: c, Witness: w})
				continue
			}
			push(st{s, c}, 0, it)
		}
	}
	return out
}

// deferredCalls returns the Defer instructions of fn.
func deferredCalls(fn *ssa.Function) []*ssa.Defer {
	var out []*ssa.Defer
	allInstrs(fn, func(in ssa.Instruction) {
		if d, ok := in.(*ssa.Defer); ok {
			out = append(out, d)
		}
	})
	return out
}

// closureOf returns the anonymous function behind a value (MakeClosure or plain *ssa.Function).
func closureOf(v ssa.Value) *ssa.Function {
	switch x := v.(type) {
	case *ssa.MakeClosure:
		f, _ := x.Fn.(*ssa.Function)
		return f
	case *ssa.Function:
		return x
	case *ssa.ChangeType:
		return closureOf(x.X)
	}
	return nil
}

// boundMethod: if v is a bound-method closure (c.evictNode) return the method's origin.
func boundMethod(v ssa.Value) *ssa.Function {
	mc, ok := v.(*ssa.MakeClosure)
	if !ok {
		return nil
	}
	f, _ := mc.Fn.(*ssa.Function)
	if f == nil || !strings.HasSuffix(f.Name(), "$bound") {
		return nil
	}
	// the wrapper's single call is to the method
	var target *ssa.Function
	allInstrs(f, func(in ssa.Instruction) {
		if c := calleeOf(in); c != nil && target == nil {
			target = c
		}
	})
	return target
}

// loopBlocks returns the set of blocks that lie on a cycle.
func loopBlocks(fn *ssa.Function) map[*ssa.BasicBlock]bool {
	out := map[*ssa.BasicBlock]bool{}
	for _, b := range fn.Blocks {
		for _, s := range b.Succs {
			if blockReachable(s, b) {
				out[b] = true
				break
			}
		}
	}
	return out
}

func hasLoop(fn *ssa.Function) bool { return len(loopBlocks(fn)) > 0 }

// usesOf returns the instructions using v (referrers), following through loads/converts is left to callers.
func usesOf(v ssa.Value) []ssa.Instruction {
	r := v.Referrers()
	if r == nil {
		return nil
	}
	return *r
}

// mustPerform: every entry->return path of fn executes an instruction satisfying `is`, directly or through a
// statically called function of the module that itself must perform it. Panicking exits are not counted.
func mustPerform(fn *ssa.Function, is func(ssa.Instruction) bool, memo map[*ssa.Function]int) bool {
	fn = origin(fn)
	if fn == nil || len(fn.Blocks) == 0 {
		return false
	}
	switch memo[fn] {
	case 1:
		return true
	case 2, 3: // false or in progress
		return false
	}
	memo[fn] = 3
	sat := func(in ssa.Instruction) bool {
		if is(in) {
			return true
		}
		if _, isGo := in.(*ssa.Go); isGo {
			return false
		}
		if c := calleeOf(in); c != nil && len(c.Blocks) > 0 && c != fn {
			return mustPerform(c, is, memo)
		}
		return false
	}
	// deferred satisfier in the entry block dominates everything
	ok, _ := MustFollowPt(Pt{fn.Blocks[0], 0}, sat, exitReturn, nil)
	if ok {
		memo[fn] = 1
	} else {
		memo[fn] = 2
	}
	return ok
}

// eqConst: if v is `x == c` or `x != c` (c integer constant) returns x, c, isEq.
func eqConst(v ssa.Value) (ssa.Value, int64, bool, bool) {
	b, ok := v.(*ssa.BinOp)
	if !ok || (b.Op != token.EQL && b.Op != token.NEQ) {
		return nil, 0, false, false
	}
	if c, ok := constInt(b.Y); ok {
		return b.X, c, b.Op == token.EQL, true
	}
	if c, ok := constInt(b.X); ok {
		return b.Y, c, b.Op == token.EQL, true
	}
	return nil, 0, false, false
}

// nilCmp: if v is `x == nil` / `x != nil` returns x and whether the comparison is equality.
func nilCmp(v ssa.Value) (ssa.Value, bool, bool) {
	b, ok := v.(*ssa.BinOp)
	if !ok || (b.Op != token.EQL && b.Op != token.NEQ) {
		return nil, false, false
	}
	if isNilConst(b.Y) {
		return b.X, b.Op == token.EQL, true
	}
	if isNilConst(b.X) {
		return b.Y, b.Op == token.EQL, true
	}
	return nil, false, false
}

// ifOn returns the If instructions whose condition (negations stripped) is v, with the polarity:
// succ index taken when v is true.
func ifsOn(v ssa.Value) []struct {
	If      *ssa.If
	TrueIdx int
} {
	var out []struct {
		If      *ssa.If
		TrueIdx int
	}
	var visit func(x ssa.Value, neg bool)
	visit = func(x ssa.Value, neg bool) {
		for _, u := range usesOf(x) {
			switch y := u.(type) {
			case *ssa.If:
				idx := 0
				if neg {
					idx = 1
				}
				out = append(out, struct {
					If      *ssa.If
					TrueIdx int
				}{y, idx})
			case *ssa.UnOp:
				if y.Op == token.NOT {
					visit(y, !neg)
				}
			}
		}
	}
	visit(v, false)
	return out
}

// ifsOnConj is ifsOn that also follows a condition hoisted into a conjunction variable (`x := a && v`, lowered to a
// phi of the constant false and v): on the true edge of an If on that variable v is true. (The false edge only says
// "a is false or v is false".)
func ifsOnConj(v ssa.Value) []struct {
	If      *ssa.If
	TrueIdx int
} {
	out := ifsOn(v)
	for _, u := range usesOf(v) {
		ph, ok := u.(*ssa.Phi)
		if !ok {
			continue
		}
		conj := true
		for _, e := range ph.Edges {
			if e == v {
				continue
			}
			if b, isC := constBool(e); !isC || b {
				conj = false
			}
		}
		if conj {
			out = append(out, ifsOn(ph)...)
		}
	}
	return out
}

type ssaInstr = ssa.Instruction

// flowsOnlyTo: every use of function value v (through cells, phis and closure captures inside root) is as an
// argument of one of the sink functions. Returns a description of the first other use.
func flowsOnlyTo(v ssa.Value, sinks []*ssa.Function, root *ssa.Function, seen map[ssa.Value]bool) string {
	if seen[v] {
		return ""
	}
	seen[v] = true
	isSink := func(in ssa.Instruction) bool {
		for _, s := range sinks {
			if isCallTo(in, s) {
				return true
			}
		}
		return false
	}
	for _, u := range usesOf(v) {
		switch x := u.(type) {
		case *ssa.DebugRef:
		case *ssa.Store:
			if x.Val != v {
				continue
			}
			// all loads of the cell (also through closures capturing it)
			if bad := cellLoadsFlow(x.Addr, sinks, root, seen); bad != "" {
				return bad
			}
		case *ssa.Phi:
			if bad := flowsOnlyTo(x, sinks, root, seen); bad != "" {
				return bad
			}
		case *ssa.MakeClosure:
			// captured by value into a closure: follow the free variable
			if f, ok := x.Fn.(*ssa.Function); ok {
				for bi, b := range x.Bindings {
					if b == v && bi < len(f.FreeVars) {
						if bad := flowsOnlyTo(f.FreeVars[bi], sinks, root, seen); bad != "" {
							return bad
						}
					}
				}
			}
		case ssa.CallInstruction:
			if !isSink(x) {
				// handed on to a helper of the module: follow the parameter it arrives in
				g := calleeOf(x)
				followed := false
				if g != nil && g.Pkg != nil && strings.HasPrefix(g.Pkg.Pkg.Path(), modPath) && len(origin(g).Blocks) > 0 && x.Common().Value != v {
					og := origin(g)
					for i, a := range x.Common().Args {
						if a == v && i < len(og.Params) {
							followed = true
							if bad := flowsOnlyTo(og.Params[i], sinks, og, seen); bad != "" {
								return bad
							}
						}
					}
				}
				if !followed {
					return "used by " + describeCallee(x)
				}
			}
		case *ssa.Return:
			// handed back to the callers of a helper (a function that selects / builds the value): follow every call site
			fn := x.Parent()
			if fn.Parent() != nil || flowProg == nil || len(x.Results) != 1 {
				return "used by " + u.String()
			}
			sites := 0
			for _, g := range flowProg.ModuleFuncs() {
				var bad string
				allInstrs(g, func(in ssa.Instruction) {
					if bad != "" || !isCallTo(in, fn) {
						return
					}
					sites++
					if cv, ok := in.(ssa.Value); ok {
						bad = flowsOnlyTo(cv, sinks, outermost(g), seen)
					} else {
						bad = "result of " + funcName(fn) + " discarded or deferred"
					}
				})
				if bad != "" {
					return bad
				}
			}
			if sites == 0 {
				return "returned by " + funcName(fn) + " which has no caller in the module"
			}
		default:
			return "used by " + u.String()
		}
	}
	return ""
}

// flowProg: the program in which flowsOnlyTo follows values returned from helpers to their call sites.
var flowProg *Program

func cellLoadsFlow(addr ssa.Value, sinks []*ssa.Function, root *ssa.Function, seen map[ssa.Value]bool) string {
	if seen[addr] {
		return ""
	}
	seen[addr] = true
	for _, u := range usesOf(addr) {
		switch x := u.(type) {
		case *ssa.UnOp:
			if bad := flowsOnlyTo(x, sinks, root, seen); bad != "" {
				return bad
			}
		case *ssa.MakeClosure:
			if f, ok := x.Fn.(*ssa.Function); ok {
				for bi, b := range x.Bindings {
					if b == addr && bi < len(f.FreeVars) {
						if bad := cellLoadsFlow(f.FreeVars[bi], sinks, root, seen); bad != "" {
							return bad
						}
					}
				}
			}
		}
	}
	return ""
}

func types_Identical(a, b types.Type) bool { return types.Identical(a, b) }

// loopInduction recognises an induction variable i = init; i < bound; i++ in both shapes go/ssa produces:
// the classic header test `phi < bound` and the rotated range-over-int loop whose body ends with `phi+1 < bound`
// (guarded by `init < bound` before the loop). It also accepts `bound > phi` spellings and range-over-slice
// (`rangeindex`) loops whose bound is len(x).
func loopInduction(ph *ssa.Phi) (init ssa.Value, bound ssa.Value, ok bool) {
	var inc ssa.Value
	for _, e := range ph.Edges {
		if isAddConst(e, ph, 1) {
			inc = e
		} else {
			init = e
		}
	}
	if inc == nil || init == nil {
		return nil, nil, false
	}
	find := func(v ssa.Value) ssa.Value {
		for _, u := range usesOf(v) {
			b, isB := u.(*ssa.BinOp)
			if !isB {
				continue
			}
			if b.Op == token.LSS && b.X == v {
				return b.Y
			}
			if b.Op == token.GTR && b.Y == v {
				return b.X
			}
		}
		return nil
	}
	if b := find(ph); b != nil {
		return init, b, true
	}
	if b := find(inc); b != nil {
		return init, b, true
	}
	return nil, nil, false
}

// indexInduction generalises loopInduction to the value actually used as index: either the phi itself, or - in
// range-over-slice loops (`for i := range xs`, lowered with a phi starting at -1 that is incremented before use) -
// the incremented value. It returns the value to treat as "i", its first value and its exclusive bound.
func indexInduction(v ssa.Value) (iv ssa.Value, first int64, bound ssa.Value, ok bool) {
	if ph, isPhi := v.(*ssa.Phi); isPhi {
		if init, b, ok := loopInduction(ph); ok {
			if c, isC := constInt(init); isC {
				return ph, c, b, true
			}
		}
		return nil, 0, nil, false
	}
	if b, isB := v.(*ssa.BinOp); isB && b.Op == token.ADD {
		if ph, isPhi := b.X.(*ssa.Phi); isPhi && isAddConst(b, ph, 1) {
			hasSelf, initC := false, int64(0)
			hasInit := false
			for _, e := range ph.Edges {
				if e == ssa.Value(b) {
					hasSelf = true
				} else if c, isC := constInt(e); isC {
					initC, hasInit = c, true
				}
			}
			if hasSelf && hasInit {
				for _, u := range usesOf(b) {
					if cmp, isCmp := u.(*ssa.BinOp); isCmp && cmp.Op == token.LSS && cmp.X == ssa.Value(b) {
						return b, initC + 1, cmp.Y, true
					}
				}
			}
		}
	}
	return nil, 0, nil, false
}

// naturalLoop returns the blocks of the loop headed by h (back edges are predecessors dominated by h).
func naturalLoop(h *ssa.BasicBlock) map[*ssa.BasicBlock]bool {
	loop := map[*ssa.BasicBlock]bool{h: true}
	var stack []*ssa.BasicBlock
	for _, p := range h.Preds {
		if h.Dominates(p) && !loop[p] {
			loop[p] = true
			stack = append(stack, p)
		}
	}
	for len(stack) > 0 {
		b := stack[len(stack)-1]
		stack = stack[:len(stack)-1]
		for _, p := range b.Preds {
			if !loop[p] {
				loop[p] = true
				stack = append(stack, p)
			}
		}
	}
	return loop
}

// dominatesViaGuard: for rotated loops the code after the loop is dominated by the block that guards the loop
// (its immediate dominator), not by the loop body; accept when h's immediate dominator dominates b and b is
// reachable from h.
func dominatesViaGuard(h, b *ssa.BasicBlock) bool {
	id := h.Idom()
	return id != nil && id.Dominates(b) && blockReachable(h, b)
}

// cfgPath is one acyclic entry->exit path of a function: its blocks, the branch decisions taken and the exit.
type cfgPath struct {
	Blocks []*ssa.BasicBlock
	Conds  []condTaken
	Exit   ssa.Instruction
}

type condTaken struct {
	If    *ssa.If
	Truth bool
}

// enumPaths lists the acyclic entry->return/panic paths of a (small) function; ok is false when there are more than max.
func enumPaths(fn *ssa.Function, max int) (paths []cfgPath, ok bool) {
	ok = true
	var walk func(b *ssa.BasicBlock, onPath map[*ssa.BasicBlock]bool, blocks []*ssa.BasicBlock, conds []condTaken)
	walk = func(b *ssa.BasicBlock, onPath map[*ssa.BasicBlock]bool, blocks []*ssa.BasicBlock, conds []condTaken) {
		if onPath[b] || !ok {
			return
		}
		if len(paths) > max {
			ok = false
			return
		}
		onPath[b] = true
		defer delete(onPath, b)
		blocks = append(blocks, b)
		switch x := b.Instrs[len(b.Instrs)-1].(type) {
		case *ssa.Return, *ssa.Panic:
			paths = append(paths, cfgPath{Blocks: append([]*ssa.BasicBlock(nil), blocks...), Conds: append([]condTaken(nil), conds...), Exit: x})
		case *ssa.If:
			walk(b.Succs[0], onPath, blocks, append(append([]condTaken(nil), conds...), condTaken{x, true}))
			walk(b.Succs[1], onPath, blocks, append(append([]condTaken(nil), conds...), condTaken{x, false}))
		default:
			for _, s := range b.Succs {
				walk(s, onPath, blocks, conds)
			}
		}
	}
	if len(fn.Blocks) > 0 {
		walk(fn.Blocks[0], map[*ssa.BasicBlock]bool{}, nil, nil)
	}
	return paths, ok
}

// instrsOf: the instructions executed on the path, in order.
func (p cfgPath) instrs() []ssa.Instruction {
	var out []ssa.Instruction
	for _, b := range p.Blocks {
		out = append(out, b.Instrs...)
	}
	return out
}

// asInstr: the instruction that defines v (nil for parameters, constants, ...).
func asInstr(v ssa.Value) ssa.Instruction {
	in, _ := v.(ssa.Instruction)
	return in
}

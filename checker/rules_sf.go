package main

import (
	"fmt"
	"go/types"
	"strings"

	"golang.org/x/tools/go/ssa"
)

// ruleC08GetOrCreate: startCall creates a record only inside the in-flight table computation when none exists.
func ruleC08GetOrCreate(cx *Ctx) {
	const rule = "C08.getorcreate"
	cx.R.Rule(rule, 1, "startCall returns an existing record with shouldLoad=false, or creates one inside the in-flight table's computation on the prev==nil path and returns shouldLoad=true exactly there")
	roles := startCallRoles(cx)
	if len(roles) == 0 {
		cx.need(rule, "", "group", "startCall") // reports the vanished anchor
		return
	}
	for _, role := range roles {
		ruleC08GetOrCreateOne(cx, rule, cname(role.fn))
	}
	ruleC08DeleteCall(cx, rule)
}

func ruleC08GetOrCreateOne(cx *Ctx, rule, fnName string) {
	r := cx.runOp(rule, opSpec{fnName, "group", fnName, nil, "startCall", nil})
	if r == nil {
		return
	}
	a := newAgg(cx, rule, funcName(r.fn), cx.P.Pos(r.fn.Pos()))
	for _, o := range r.outs {
		if o.Cut || o.Panic || len(o.Rets) != 2 {
			continue
		}
		sfs := comps(o, "SFEnter", "SFExit")
		created := strings.HasPrefix(o.Rets[0], "&complit") || strings.HasPrefix(o.Rets[0], "&new")
		switch {
		case o.Rets[1] == "true":
			ok := len(sfs) == 1 && sfs[0].closed && sfs[0].exit == o.Rets[0] && created
			if ok {
				n, k := predOf(o, "IsNil("+sfs[0].cur+")")
				ok = k && n
			}
			a.check("shouldLoad=true", ok, "shouldLoad is reported only for a record created inside the computation when no record existed", "returns ("+strings.Join(o.Rets, ", ")+")", o)
			// the new record's wait group is armed before it is published
			armed := false
			for i, e := range o.S.trace {
				if e.Kind == "Sync" && e.Args[0] == "Add" && len(sfs) > 0 && i < sfs[0].exitIdx {
					armed = true
				}
			}
			a.check("armed before publish", armed, "the record's WaitGroup is incremented before the record becomes visible", "no Add before SFExit", o)
		case o.Rets[1] == "false":
			a.check("shouldLoad=false", !created, "an existing record is returned as is", "returns ("+strings.Join(o.Rets, ", ")+")", o)
			for _, c := range sfs {
				if c.closed {
					a.check("existing record kept", c.exit == c.cur, "the computation leaves an existing record in place", "exit "+c.exit, o)
				}
			}
		default:
			a.check("shouldLoad decided", false, "shouldLoad is a constant per path", o.Rets[1], o)
		}
	}
	a.flush()
}

func ruleC08DeleteCall(cx *Ctx, rule string) {
	// deleteCall removes only its own record
	r2 := cx.runOp(rule, opSpec{"deleteCall", "group", "deleteCall", nil, "deleteCall", nil})
	if r2 != nil {
		a2 := newAgg(cx, rule, funcName(r2.fn), cx.P.Pos(r2.fn.Pos()))
		for _, o := range r2.outs {
			if o.Cut || o.Panic {
				continue
			}
			for _, c := range comps(o, "SFEnter", "SFExit") {
				if !c.closed {
					continue
				}
				if isZeroTerm(c.exit) {
					same := false
					for atom, v := range o.S.preds {
						if strings.HasPrefix(atom, "Eq(") && strings.Contains(atom, c.cur) && strings.Contains(atom, "param:c") && v {
							same = true
						}
					}
					a2.check("removes only its own record", same, "the in-flight record is removed only when it is the finishing call itself (identity test inside the computation)", "removed "+c.cur+" without identity test", o)
				}
			}
			if len(o.Rets) == 1 && o.Rets[0] == "true" {
				rem := false
				for _, c := range comps(o, "SFEnter", "SFExit") {
					if c.closed && isZeroTerm(c.exit) {
						rem = true
					}
				}
				a2.check("reports true only after removing", rem, "deleteCall reports ownership only when it removed its record", "", o)
			}
		}
		a2.flush()
	}
}

// ruleC08Finish: doCall / doBulkCall always finish their records (deferred, recovering).
func ruleC08Finish(cx *Ctx) {
	const rule = "C08.finish"
	cx.R.Rule(rule, 2, "doCall/doBulkCall register, before the loader is invoked, a deferred closure that recovers a panic and runs the finish callback for the record (every record of the bulk map, synthetic ones included); on every path each record is finished")
	for _, name := range []string{"doCall", "doBulkCall"} {
		fn := cx.need(rule, "", "group", name)
		if fn == nil {
			continue
		}
		fname := funcName(fn)
		// the loader invocation = dynamic call of the `load`/`bulkLoad` parameter (#3)
		var loadCall ssa.Instruction
		loadIdx := 3
		for i, q := range fn.Params {
			if q == bparam(fn, 3) {
				loadIdx = i
			}
		}
		loads := paramCalls(fn, loadIdx)
		if len(loads) == 1 {
			loadCall = loads[0]
		}
		if name == "doBulkCall" && loadCall != nil {
			// the loader is asked for exactly the keys of the records of this bulk: the key list is built here, from the
			// bulk map - a list handed in by the caller can name keys whose records belong to somebody else
			keysOK := false
			if cc := callCommon(loadCall); cc != nil && len(cc.Args) == 2 {
				keysOK = true
				seen := map[ssa.Value]bool{}
				var walk func(v ssa.Value, d int)
				walk = func(v ssa.Value, d int) {
					if seen[v] || d > 8 {
						return
					}
					seen[v] = true
					switch x := v.(type) {
					case *ssa.Parameter:
						keysOK = false
					case *ssa.Phi:
						for _, e := range x.Edges {
							walk(e, d+1)
						}
					case *ssa.Call:
						if isBuiltinCall(x, "append") && len(x.Call.Args) > 0 {
							walk(x.Call.Args[0], d+1)
						} else if g := calleeOf(x); g != nil && g.Pkg != nil && strings.HasPrefix(g.Pkg.Pkg.Path(), modPath) {
							// a helper that builds the list: from the bulk map it is given
							okArg := false
							for _, a := range x.Call.Args {
								if rootOf(a) == ssa.Value(bparam(fn, 2)) {
									okArg = true
								}
							}
							if !okArg {
								keysOK = false
							}
						}
					case *ssa.Slice:
						walk(x.X, d+1)
					case *ssa.UnOp:
						if al, isAl := x.X.(*ssa.Alloc); isAl {
							for _, r := range *al.Referrers() {
								if st, isSt := r.(*ssa.Store); isSt && st.Addr == ssa.Value(al) {
									walk(st.Val, d+1)
								}
							}
						}
					}
				}
				walk(cc.Args[1], 0)
			}
			cx.R.Check(keysOK, rule, fname, "loader keys", cx.P.where(loadCall), "the key list handed to the bulk loader is built by doBulkCall from the bulk map (the keys of the records it will finish), not handed in")
		}
		cx.R.Check(loadCall != nil, rule, fname, "single loader invocation", cx.P.Pos(fn.Pos()), fmt.Sprintf("the loader is invoked exactly once (%d call sites)", len(loads)))
		var def *ssa.Defer
		for _, d := range deferredCalls(fn) {
			if cl := closureOf(d.Call.Value); cl != nil && hasRecover(cl) {
				def = d
			}
		}
		if def == nil {
			cx.R.Violate(rule, fname, "deferred recover", cx.P.Pos(fn.Pos()), "NOT SATISFIED: no deferred closure that recovers loader panics")
			continue
		}
		if loadCall != nil {
			cx.R.Check(instrDominates(def, loadCall), rule, fname, "defer ≺ loader", cx.P.where(def), "the recovering finish handler is registered before the loader runs")
		}
		cl := closureOf(def.Call.Value)
		// inside the deferred closure: the finish callback (param #4 of fn, captured) is called - there, or in a helper the
		// closure hands the callback (and the bulk map) to; for the bulk variant inside a range over the map
		type fsite struct {
			in      ssa.Instruction
			host    *ssa.Function
			mapRoot ssa.Value         // what the bulk map is called in host
			outer   []ssa.Instruction // the helper call in the closure, when host is a helper
		}
		var sites []fsite
		var perRecord []ssa.Instruction // calls (in the closure) of a per-record finishing helper with a record of the ranged bulk map
		finishP, mapP := ssa.Value(bparam(fn, 4)), ssa.Value(bparam(fn, 2))
		// the callback may also be held by the group (a field set when the group is built) instead of being passed in
		isFinish := func(v ssa.Value) bool {
			if rootOf(v) == finishP {
				return true
			}
			return finishP == ssa.Value(noParam) && isFuncOfCall(v) && fieldOf(v) != nil && stripLoad(v) != v
		}
		allInstrs(cl, func(in ssa.Instruction) {
			cc := callCommon(in)
			if cc == nil || cc.IsInvoke() {
				return
			}
			if cc.StaticCallee() == nil {
				if isFinish(cc.Value) {
					sites = append(sites, fsite{in, cl, mapP, nil})
				}
				return
			}
			h := origin(cc.StaticCallee())
			if h.Pkg == nil || !strings.HasPrefix(h.Pkg.Pkg.Path(), modPath) || len(h.Blocks) == 0 {
				return
			}
			fi, mi := -1, -1
			for i, a := range cc.Args {
				if rootOf(a) == finishP {
					fi = i
				}
				if rootOf(a) == mapP {
					mi = i
				}
			}
			if fi < 0 && finishP == ssa.Value(noParam) {
				// a helper that calls the group's own callback field (finishCall / finishBulkCalls)
				var mr ssa.Value
				if mi >= 0 && mi < len(h.Params) {
					mr = h.Params[mi]
				}
				allInstrs(h, func(x ssa.Instruction) {
					hc := callCommon(x)
					if hc != nil && !hc.IsInvoke() && hc.StaticCallee() == nil && isFinish(hc.Value) {
						sites = append(sites, fsite{x, h, mr, []ssa.Instruction{in}})
					}
				})
				return
			}
			if fi < 0 || fi >= len(h.Params) {
				return
			}
			var mr ssa.Value
			if mi >= 0 && mi < len(h.Params) {
				mr = h.Params[mi]
			}
			allInstrs(h, func(x ssa.Instruction) {
				hc := callCommon(x)
				if hc != nil && !hc.IsInvoke() && hc.StaticCallee() == nil && rootOf(hc.Value) == ssa.Value(h.Params[fi]) {
					// a per-record helper: it finishes the record it is given, and the closure calls it for the
					// records of a range over the bulk map
					if len(hc.Args) == 1 {
						for ri, hp := range h.Params {
							if hc.Args[0] == ssa.Value(hp) && ri < len(cc.Args) {
								if ex, ok := cc.Args[ri].(*ssa.Extract); ok && ex.Index == 2 {
									if nx, ok := ex.Tuple.(*ssa.Next); ok {
										if rg, ok := nx.Iter.(*ssa.Range); ok && rootOf(rg.X) == mapP {
											perRecord = append(perRecord, in)
										}
									}
								}
							}
						}
					}
					sites = append(sites, fsite{x, h, mr, []ssa.Instruction{in}})
				}
			})
		})
		finishCalls := len(sites)
		inLoop := false
		for _, st := range sites {
			if loopBlocks(st.host)[st.in.Block()] {
				inLoop = true
			}
		}
		cx.R.Check(finishCalls >= 1, rule, fname, "finish in defer", cx.P.where(def), "the deferred closure runs the finish callback")
		if name == "doBulkCall" {
			// the records finished are the values of a range over the bulk map itself - not records looked up through
			// keys kept elsewhere (a slice that was also handed to the user's loader can be rewritten by it)
			overMap := false
			for _, st := range sites {
				cc := callCommon(st.in)
				if len(cc.Args) != 1 || st.mapRoot == nil {
					continue
				}
				if ex, ok := cc.Args[0].(*ssa.Extract); ok && ex.Index == 2 {
					if nx, ok := ex.Tuple.(*ssa.Next); ok {
						if rg, ok := nx.Iter.(*ssa.Range); ok && rootOf(rg.X) == st.mapRoot {
							overMap = true
						}
					}
				}
			}
			for _, pr := range perRecord {
				if loopBlocks(cl)[pr.Block()] {
					inLoop, overMap = true, true
				}
			}
			cx.R.Check(inLoop && overMap, rule, fname, "finish every record", cx.P.where(def), "the finish callback runs in a range over the bulk map itself (all records, fake ones included; not via keys that the loader could have rewritten)")
		}
		// the finish callback is not conditional on recover()/err
		ok := true
		for _, st := range sites {
			for _, at := range append([]ssa.Instruction{st.in}, st.outer...) {
				for _, g := range guardsAt(at.Block()) {
					if _, _, isNil := nilCmp(g.Cond); isNil {
						ok = false
					}
				}
			}
		}
		cx.R.Check(ok, rule, fname, "finish unconditional", cx.P.where(def), "finishing does not depend on whether the loader failed or panicked")
	}
	// path view: every outcome of doCall finishes the record exactly once
	r := cx.runOp(rule, opSpec{"doCall", "group", "doCall", nil, "doCall", nil})
	if r != nil {
		a := newAgg(cx, rule, funcName(r.fn), cx.P.Pos(r.fn.Pos()))
		for _, o := range r.outs {
			if o.Cut {
				continue
			}
			fin := 0
			for _, e := range userCalls(o, "afterFinish") {
				if len(e.Args) > 2 && e.Args[2] == "param:c" {
					fin++
				}
			}
			kind := "normal"
			if len(allEvents(o, "UserPanic")) > 0 {
				kind = "loader panic"
			}
			a.check(kind+": finished exactly once", fin == 1 && !o.Panic, "the record is finished exactly once and the panic is converted into an error", fmt.Sprintf("%d finish call(s), panics=%v", fin, o.Panic), o)
		}
		a.flush()
	}
}

// finisherTarget resolves the finish callback handed to doCall/doBulkCall: a bound method value, or a closure that does
// nothing but forward its record to one function (returned), "" otherwise.
func finisherTarget(v ssa.Value) *ssa.Function { return finisherTargetD(v, 0) }

func finisherTargetD(v ssa.Value, depth int) *ssa.Function {
	if bm := boundMethod(v); bm != nil {
		return origin(bm)
	}
	// a factory of the module that builds the callback: every value it returns resolves to the same target
	if c, ok := v.(*ssa.Call); ok && depth < 2 {
		if g := calleeOf(c); g != nil && g.Pkg != nil && strings.HasPrefix(g.Pkg.Pkg.Path(), modPath) && len(origin(g).Blocks) > 0 {
			var target *ssa.Function
			okAll, n := true, 0
			allInstrs(origin(g), func(in ssa.Instruction) {
				ret, isRet := in.(*ssa.Return)
				if !isRet || len(ret.Results) != 1 {
					return
				}
				n++
				t := finisherTargetD(ret.Results[0], depth+1)
				if t == nil || (target != nil && t != target) {
					okAll = false
				}
				target = t
			})
			if okAll && n > 0 {
				return target
			}
			return nil
		}
	}
	cl := closureOf(v)
	if cl == nil || len(cl.Params) != 1 {
		return nil
	}
	var target *ssa.Function
	n := 0
	ok := true
	allInstrs(cl, func(in ssa.Instruction) {
		switch x := in.(type) {
		case *ssa.Call:
			n++
			c := calleeOf(x)
			a := callArgs(x)
			if c == nil || len(a) != 1 || a[0] != ssa.Value(cl.Params[0]) {
				ok = false
				return
			}
			target = origin(c)
		case *ssa.Return, *ssa.UnOp, *ssa.FieldAddr, *ssa.DebugRef:
		default:
			ok = false
		}
	})
	if !ok || n != 1 {
		return nil
	}
	return target
}

// ruleC10Finisher: the finish step analysed by C10.table is the only finish step in use.
func ruleC10Finisher(cx *Ctx) {
	const rule = "C10.finisher"
	cx.R.Rule(rule, 2, "every dispatch (doCall / doBulkCall call site) hands over cache.afterDeleteCall as its finish callback - the bound method or a closure that only forwards its record to it; afterDeleteCall is the step whose table effect, clock sample and hooks C10.table / C12.hook decide, and it is called from nowhere else")
	adc := cx.need(rule, "", "cache", "afterDeleteCall")
	doCall := cx.need(rule, "", "group", "doCall")
	doBulk := cx.need(rule, "", "group", "doBulkCall")
	if adc == nil || doCall == nil || doBulk == nil {
		return
	}
	for _, fn := range cx.P.ModuleFuncs() {
		n := 0
		allInstrs(fn, func(in ssa.Instruction) {
			if isCallTo(in, doCall) || isCallTo(in, doBulk) {
				n++
				a := callArgs(in)
				if len(a) == 0 || !isFuncOfCall(a[len(a)-1]) {
					// the dispatch no longer takes the callback: the group holds it in a field set when the group is built
					t := fieldFinisher(cx, calleeOf(in))
					cx.R.Check(t != nil && t == origin(adc), rule, funcName(fn), fmt.Sprintf("finish callback #%d", n), cx.P.where(in), "the finish callback of this dispatch is cache.afterDeleteCall")
					return
				}
				t := finisherTarget(a[len(a)-1])
				cx.R.Check(t != nil && t == origin(adc), rule, funcName(fn), fmt.Sprintf("finish callback #%d", n), cx.P.where(in), "the finish callback of this dispatch is cache.afterDeleteCall")
				return
			}
			// direct calls of the finish step outside a forwarding closure
			if isCallTo(in, adc) {
				fwd := false
				if fn.Parent() != nil && len(fn.Params) == 1 {
					if a := callArgs(in); len(a) == 1 && a[0] == ssa.Value(fn.Params[0]) {
						fwd = true
					}
				}
				cx.R.Check(fwd, rule, funcName(fn), "direct call of afterDeleteCall", cx.P.where(in), "afterDeleteCall runs only as the finish callback of a dispatch")
			}
		})
	}
}

// ruleC10Inv: record invariants maintained by doCall / doBulkCall (sibling agreement).
func ruleC10Inv(cx *Ctx) {
	const rule = "C10.inv"
	cx.R.Rule(rule, 1, "record invariants of doCall and doBulkCall agree: wherever a record is marked not-found its error is the not-found error; wherever a record's error is overwritten with another error the not-found mark is recomputed/cleared; synthetic records for volunteered keys are created before the error marking of the deferred epilogue")
	nf := newPathSum(cx).errNotFoundTerm()
	for _, name := range []string{"doCall", "doBulkCall"} {
		r := cx.runOp(rule, opSpec{name, "group", name, nil, name, nil})
		if r == nil {
			continue
		}
		a := newAgg(cx, rule, funcName(r.fn), cx.P.Pos(r.fn.Pos()))
		for _, o := range r.outs {
			type st struct{ err, nf string }
			last := map[string]*st{}
			var order []string
			for _, e := range o.S.trace {
				if e.Kind != "FieldStore" {
					continue
				}
				addr := e.Args[0]
				var rec, fld string
				if i := strings.LastIndex(addr, "."); i > 0 {
					rec, fld = addr[:i], addr[i+1:]
				}
				if fld != "err" && fld != "isNotFound" {
					continue
				}
				if strings.Contains(rec, "complit") {
					continue // construction of a synthetic record
				}
				s := last[rec]
				if s == nil {
					s = &st{err: "?", nf: "?"}
					last[rec] = s
					order = append(order, rec)
				}
				if fld == "err" {
					s.err = e.Args[1]
					// overwriting the error invalidates an earlier mark unless recomputed afterwards
					if s.nf == "true" && e.Args[1] != nf {
						s.nf = "stale-true"
					}
				} else {
					s.nf = e.Args[1]
				}
			}
			for _, rec := range order {
				s := last[rec]
				switch {
				case s.nf == "true":
					a.check("marked not-found => error is ErrNotFound", s.err == nf, "a record marked not-found carries the not-found error (otherwise waiters receive a zero value with a nil error)", "isNotFound=true with err="+s.err, o)
				case s.nf == "stale-true":
					a.check("error overwritten => mark recomputed", false, "when the error of a record is replaced the not-found mark is recomputed or cleared", "err="+s.err+" but isNotFound left true", o)
				case strings.HasPrefix(s.nf, "IsNotFound(") || strings.HasPrefix(s.nf, "res:Is#"):
					a.check("mark derived from the stored error", strings.Contains(s.nf, s.err) || strings.HasPrefix(s.nf, "res:Is#"), "isNotFound is computed from the very error stored in the record", "isNotFound="+s.nf+" err="+s.err, o)
				case s.nf == "false" || s.nf == "?":
					if s.err != "?" && s.nf == "?" {
						a.check("error stored => mark set", false, "storing an error into a record also (re)sets its not-found mark", "err="+s.err+" without a mark", o)
					} else {
						a.check("mark cleared with foreign error", true, "", "", o)
					}
				}
			}
			// synthetic records are added by the function body, not by the deferred epilogue
			for _, e := range allEvents(o, "MapUpdate") {
				if e.Args[0] == "param:callsInBulk" {
					a.check("volunteered keys registered before the epilogue", !strings.Contains(e.In, "$"), "records for keys the loader volunteered are added before the deferred error marking, so a failed bulk load caches nothing", "added in "+e.In, o)
				}
			}
		}
		a.flush()
	}
}

// isFuncOfCall: v has type func(*call) - the shape of the finish callback.
func isFuncOfCall(v ssa.Value) bool {
	sig, ok := v.Type().Underlying().(*types.Signature)
	if !ok || sig.Params().Len() != 1 || sig.Results().Len() != 0 {
		return false
	}
	return namedTypeName(sig.Params().At(0).Type()) == "call"
}

// fieldFinisher: the dispatch function d calls its finish callback through a field of the group; every store to that
// field in the module resolves to the same function, which is returned.
func fieldFinisher(cx *Ctx, d *ssa.Function) *ssa.Function {
	if d == nil {
		return nil
	}
	var fld *types.Var
	seen := map[*ssa.Function]bool{}
	var scan func(f *ssa.Function, depth int)
	scan = func(f *ssa.Function, depth int) {
		f = origin(f)
		if seen[f] || depth > 2 || len(f.Blocks) == 0 {
			return
		}
		seen[f] = true
		for _, a := range f.AnonFuncs {
			scan(a, depth)
		}
		allInstrs(f, func(in ssa.Instruction) {
			cc := callCommon(in)
			if cc == nil || cc.IsInvoke() {
				return
			}
			if cc.StaticCallee() != nil {
				if g := origin(cc.StaticCallee()); g.Pkg != nil && g.Pkg == origin(d).Pkg {
					scan(g, depth+1)
				}
				return
			}
			if isFuncOfCall(cc.Value) {
				if fv := fieldOf(cc.Value); fv != nil && stripLoad(cc.Value) != cc.Value {
					fld = fv
				}
			}
		})
	}
	scan(d, 0)
	if fld == nil {
		return nil
	}
	var target *ssa.Function
	ok, n := true, 0
	record := func(v ssa.Value) {
		n++
		t := finisherTarget(v)
		if t == nil || (target != nil && t != target) {
			ok = false
		}
		target = t
	}
	for _, f := range cx.P.ModuleFuncs() {
		allInstrs(f, func(in ssa.Instruction) {
			if st, isSt := in.(*ssa.Store); isSt && sameField(fieldOf(st.Addr), fld) {
				v := st.Val
				// a constructor parameter: follow to the constructor's call sites
				if p, isP := v.(*ssa.Parameter); isP {
					idx := -1
					for i, q := range p.Parent().Params {
						if q == p {
							idx = i
						}
					}
					for _, g := range cx.P.ModuleFuncs() {
						allInstrs(g, func(x ssa.Instruction) {
							if isCallTo(x, p.Parent()) {
								if cc := callCommon(x); idx >= 0 && idx < len(cc.Args) {
									record(cc.Args[idx])
								}
							}
						})
					}
					return
				}
				record(v)
			}
		})
	}
	if !ok || n == 0 {
		return nil
	}
	return target
}

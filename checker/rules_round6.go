package main

// Round-6 rules: the small helpers, constructors and geometry functions the larger rules take for granted.

import (
	"fmt"
	"go/types"
	"strings"

	"golang.org/x/tools/go/ssa"
)

// retTerm: the term of the single returned value of a loop-free helper with helpers inlined ("" when the function has
// several differing return terms).
func retTerm(fn *ssa.Function) string {
	out, n := "", 0
	allInstrs(fn, func(in ssa.Instruction) {
		if r, ok := in.(*ssa.Return); ok && len(r.Results) == 1 {
			t := newInliningTermBuilder().of(r.Results[0]).String()
			if n > 0 && t != out {
				out = "<several: " + out + " | " + t + ">"
			} else {
				out = t
			}
			n++
		}
	})
	return out
}

// ---------------------------------------------------------------------------------------------------------------
// C16.geometry: chunk geometry of the MPSC queue
// ---------------------------------------------------------------------------------------------------------------

func ruleC16Geometry(cx *Ctx) {
	const rule = "C16.geometry"
	cx.R.Rule(rule, 6, "the chunk geometry of the queue is self-consistent: a chunk of length n carries mask (n-2)<<1 wherever a mask is stored with a chunk (constructor, resize, consumer switch); an element's slot is (index & mask) >> 1 and the link slot (mask+2) >> 1 = n-1, outside the element slots; the next chunk has 2*(n-1)+1 slots; Size is (producer - consumer) >> 1")
	p0, p1 := tVar("param0"), tVar("param1")
	off := cx.need(rule, queuePkg, "", "modifiedCalcElementOffset")
	if off != nil {
		got := retTerm(off)
		cx.R.Check(got == mk(">>", mk("&", p0, p1), tConst(1)).String(), rule, "queue.modifiedCalcElementOffset", "slot = (index & mask) >> 1", cx.P.Pos(off.Pos()), "found "+trunc(got, 80))
	}
	if nao := cx.need(rule, queuePkg, "", "nextArrayOffset"); nao != nil {
		got := retTerm(nao)
		cx.R.Check(got == mk(">>", mk("+", p0, tConst(2)), tConst(1)).String(), rule, "queue.nextArrayOffset", "link slot = (mask + 2) >> 1", cx.P.Pos(nao.Pos()), "found "+trunc(got, 80))
	}
	if g := cx.need(rule, queuePkg, "MPSC", "getNextBufferSize"); g != nil {
		// 2*(len-1)+1 on the returning path
		l := mk("builtin:len", mk("field:data", mk("load", p1)))
		want := mk("+", mk("*", tConst(2), mk("-", l, tConst(1))), tConst(1)).String()
		got := retTerm(g)
		if got != want {
			// the slice may render without the explicit load
			l2 := mk("builtin:len", mk("field:data", p1))
			want = mk("+", mk("*", tConst(2), mk("-", l2, tConst(1))), tConst(1)).String()
		}
		cx.R.Check(got == want, rule, "queue.(*MPSC).getNextBufferSize", "next chunk has 2*(len-1)+1 slots", cx.P.Pos(g.Pos()), "found "+trunc(got, 100))
	}
	// mask stored with a chunk: (n-2)<<1
	nb := cx.need(rule, queuePkg, "", "newBuffer")
	maskFields := map[string]bool{"consumerMask": true, "producerMask": true}
	n := 0
	for _, fn := range cx.P.FuncsOfPkg(queuePkg) {
		fn := fn
		if fn.Parent() != nil {
			continue
		}
		var chunkLen ssa.Value // length the chunk of this function was made with / has
		allInstrs(fn, func(in ssa.Instruction) {
			if nb != nil && isCallTo(in, nb) {
				chunkLen = callArgs(in)[0]
			}
		})
		allInstrs(fn, func(in ssa.Instruction) {
			if !isStdMethod(in, "sync/atomic", "", "Store") {
				return
			}
			f := recvField(in)
			if f == nil || !maskFields[fname(f)] {
				return
			}
			n++
			arg := callArgs(in)[0]
			tb := newInliningTermBuilder()
			key := fmt.Sprintf("mask store #%d (%s)", n, fname(f))
			okM, detail := false, ""
			if chunkLen != nil {
				// constructor: len = c+1, mask = (c-1)<<1 for the same c; resize: mask = (len-2)<<1
				lt := tb.of(chunkLen)
				mt := tb.of(arg).String()
				if mt == mk("<<", mk("-", lt, tConst(2)), tConst(1)).String() {
					okM = true
				} else if lt.Op == "+" && len(lt.Args) == 2 {
					for i := 0; i < 2; i++ {
						if lt.Args[i].isConst() && lt.Args[i].C == 1 {
							c := lt.Args[1-i]
							if mt == mk("<<", mk("-", c, tConst(1)), tConst(1)).String() {
								okM = true
							}
						}
					}
				}
				detail = "mask " + trunc(mt, 60) + " chunk length " + trunc(lt.String(), 60)
			} else {
				// consumer switch: the chunk is a parameter, its length is len(b.data)
				mt := tb.of(arg)
				ms := mt.String()
				okM = strings.Contains(ms, "builtin:len(field:data(") && mt.Op == "*" && strings.Contains(ms, ",2)") && func() bool {
					// (len - 2) * 2
					for _, a := range mt.Args {
						if a.Op == "-" && len(a.Args) == 2 && a.Args[1].isConst() && a.Args[1].C == 2 && strings.HasPrefix(a.Args[0].Op, "builtin:len") {
							return true
						}
					}
					return false
				}()
				detail = "mask " + trunc(ms, 80)
			}
			cx.R.Check(okM, rule, funcName(fn), key, cx.P.where(in), "a chunk of length n is used with mask (n-2)<<1 ("+detail+")")
		})
	}
	cx.R.Check(n >= 3, rule, "queue", "mask stores found", "-", fmt.Sprintf("%d", n))
	if sz := cx.need(rule, queuePkg, "MPSC", "Size"); sz != nil {
		okS, nr := true, 0
		allInstrs(sz, func(in ssa.Instruction) {
			r, ok := in.(*ssa.Return)
			if !ok || len(r.Results) != 1 {
				return
			}
			if c, isC := constUint(r.Results[0]); isC && c == 0 {
				return
			}
			nr++
			w := newDepWalker(false, "MPSC")
			w.walk(r.Results[0])
			got := strings.Join(w.keys(), ",")
			sh, isB := r.Results[0].(*ssa.BinOp)
			if got != "consumerIndex,producerIndex" || !isB || sh.Op.String() != ">>" {
				okS = false
			} else if k, isK := constUint(sh.Y); !isK || k != 1 {
				okS = false
			} else if d, isD := sh.X.(*ssa.BinOp); !isD || d.Op.String() != "-" || fieldOf(recvValueOf(d.X)) == nil || fname(fieldOf(recvValueOf(d.X))) != "producerIndex" {
				okS = false
			}
		})
		cx.R.Check(okS && nr > 0, rule, "queue.(*MPSC).Size", "(producer - consumer) >> 1", cx.P.Pos(sz.Pos()), "the number of queued events is half the distance of the two indices")
	}
}

// recvValueOf: for the result of a method call x.f.Load() the receiver operand.
func recvValueOf(v ssa.Value) ssa.Value {
	if c, ok := v.(*ssa.Call); ok {
		if in, isI := ssa.Value(c).(ssa.Instruction); isI {
			return recvValue(in)
		}
	}
	// the value may be a phi of loads (retry loops): take the first edge
	if ph, ok := v.(*ssa.Phi); ok && len(ph.Edges) > 0 {
		return recvValueOf(ph.Edges[len(ph.Edges)-1])
	}
	return nil
}

// ---------------------------------------------------------------------------------------------------------------
// C17.init: a fresh ring, the ring's length, the striped buffer's constructor
// ---------------------------------------------------------------------------------------------------------------

func ruleC17Init(cx *Ctx) {
	const rule = "C17.init"
	cx.R.Rule(rule, 3, "a fresh ring holds exactly the element it was created for: slot 0 = the node, tail = 1, head = 0; ring.len is tail - head; NewStriped keeps the maximum it is given")
	nr := cx.need(rule, lossyPkg, "", "newRing")
	if nr != nil {
		slot0, tail1, headTouched := false, false, false
		allInstrs(nr, func(in ssa.Instruction) {
			switch x := in.(type) {
			case *ssa.Store:
				if ia, ok := x.Addr.(*ssa.IndexAddr); ok {
					if f := fieldOf(ia.X); f != nil && fname(f) == "buffer" {
						if k, isK := constInt(ia.Index); isK && k == 0 {
							if c, isC := x.Val.(*ssa.Call); isC && invokeName(c) == "AsPointer" && paramIndexOf(c.Call.Value) == 1 {
								slot0 = true
							}
						}
					}
				}
			}
			if isStdMethod(in, "sync/atomic", "", "Store") {
				if f := recvField(in); f != nil {
					switch fname(f) {
					case "tail":
						if k, isK := constInt(callArgs(in)[0]); isK && k == 1 {
							tail1 = true
						}
					case "head":
						headTouched = true
					}
				}
			}
			if isAtomicPtr(in, "StorePointer") {
				if ia, ok := callCommon(in).Args[0].(*ssa.IndexAddr); ok {
					if k, isK := constInt(ia.Index); isK && k == 0 {
						if c, isC := callCommon(in).Args[1].(*ssa.Call); isC && invokeName(c) == "AsPointer" {
							slot0 = true
						}
					}
				}
			}
		})
		cx.R.Check(slot0 && tail1 && !headTouched, rule, "lossy.newRing", "slot 0 = node, tail = 1, head = 0", cx.P.Pos(nr.Pos()), "the creating read is the ring's only element")
	}
	if rl := cx.need(rule, lossyPkg, "ring", "len"); rl != nil {
		w := newDepWalker(false, "ring")
		okL := false
		allInstrs(rl, func(in ssa.Instruction) {
			if r, ok := in.(*ssa.Return); ok && len(r.Results) == 1 {
				w.walk(r.Results[0])
				if b, isB := stripConv(r.Results[0]).(*ssa.BinOp); isB && b.Op.String() == "-" {
					fx, fy := fieldOf(recvValueOf(b.X)), fieldOf(recvValueOf(b.Y))
					okL = fx != nil && fy != nil && fname(fx) == "tail" && fname(fy) == "head"
				}
			}
		})
		cx.R.Check(okL, rule, "lossy.(*ring).len", "tail - head", cx.P.Pos(rl.Pos()), "the number of buffered reads is the distance of the two counters")
	}
	if ns := cx.need(rule, lossyPkg, "", "NewStriped"); ns != nil {
		okN := false
		allInstrs(ns, func(in ssa.Instruction) {
			if st, ok := in.(*ssa.Store); ok {
				if f := fieldOf(st.Addr); f != nil && fname(f) == "maxLen" && paramIndexOf(st.Val) == 0 {
					okN = true
				}
			}
		})
		cx.R.Check(okN, rule, "lossy.NewStriped", "maxLen is the argument", cx.P.Pos(ns.Pos()), "the stripe table stops growing at the configured maximum")
	}
}

// ---------------------------------------------------------------------------------------------------------------
// C10.adapter: the function adapters of the loader interfaces
// ---------------------------------------------------------------------------------------------------------------

func ruleC10Adapter(cx *Ctx) {
	const rule = "C10.adapter"
	cx.R.Rule(rule, 4, "LoaderFunc / BulkLoaderFunc call the wrapped function exactly once with the context and key(s) they were given, in that order, and return its results unchanged")
	for _, m := range [][2]string{{"LoaderFunc", "Load"}, {"LoaderFunc", "Reload"}, {"BulkLoaderFunc", "BulkLoad"}, {"BulkLoaderFunc", "BulkReload"}} {
		fn := cx.need(rule, "", m[0], m[1])
		if fn == nil {
			continue
		}
		var call *ssa.Call
		nCalls := 0
		var ret *ssa.Return
		allInstrs(fn, func(in ssa.Instruction) {
			if c, ok := in.(*ssa.Call); ok {
				nCalls++
				if c.Call.Value == ssa.Value(fn.Params[0]) {
					call = c
				}
			}
			if r, ok := in.(*ssa.Return); ok {
				ret = r
			}
		})
		ok := call != nil && nCalls == 1 && ret != nil && len(fn.Blocks) == 1 && len(call.Call.Args) == 2 && len(fn.Params) >= 3 &&
			call.Call.Args[0] == ssa.Value(fn.Params[1]) && call.Call.Args[1] == ssa.Value(fn.Params[2])
		if ok {
			for j, r := range ret.Results {
				e, isE := r.(*ssa.Extract)
				if !isE || e.Tuple != ssa.Value(call) || e.Index != j {
					ok = false
				}
			}
		}
		cx.R.Check(ok, rule, m[0]+"."+m[1], "forwards (ctx, key) and returns the results", cx.P.Pos(fn.Pos()), "the adapter invokes the wrapped function once with its own context and key argument and hands the results back")
	}
}

// ---------------------------------------------------------------------------------------------------------------
// C19.file: the file front ends of persistence
// ---------------------------------------------------------------------------------------------------------------

func ruleC19File(cx *Ctx) {
	const rule = "C19.file"
	cx.R.Rule(rule, 2, "SaveCacheToFile / LoadCacheFromFile hand the cache they were given and the file they opened to SaveCacheTo / LoadCacheFrom and return that call's error when it fails")
	for _, m := range [][2]string{{"SaveCacheToFile", "SaveCacheTo"}, {"LoadCacheFromFile", "LoadCacheFrom"}} {
		fn := cx.need(rule, "", "", m[0])
		core := cx.need(rule, "", "", m[1])
		if fn == nil || core == nil {
			continue
		}
		okCall, okErr := false, false
		var call *ssa.Call
		allInstrs(fn, func(in ssa.Instruction) {
			if c, ok := in.(*ssa.Call); ok && isCallTo(c, core) {
				call = c
				if paramIndexOf(c.Call.Args[0]) == 0 {
					okCall = true
				}
			}
		})
		if call != nil {
			// the error of the core call reaches a return
			allInstrs(fn, func(in ssa.Instruction) {
				if r, ok := in.(*ssa.Return); ok && len(r.Results) == 1 {
					w := map[ssa.Value]bool{}
					var reach func(v ssa.Value, d int) bool
					reach = func(v ssa.Value, d int) bool {
						if v == ssa.Value(call) {
							return true
						}
						if d > 6 || w[v] {
							return false
						}
						w[v] = true
						switch x := v.(type) {
						case *ssa.Phi:
							for _, e := range x.Edges {
								if reach(e, d+1) {
									return true
								}
							}
						case *ssa.Call:
							for _, a := range x.Call.Args {
								if reach(a, d+1) {
									return true
								}
							}
						case *ssa.MakeInterface:
							return reach(x.X, d+1)
						case *ssa.UnOp:
							return reach(x.X, d+1)
						case *ssa.Slice:
							return reach(x.X, d+1)
						case *ssa.Alloc:
							for _, u := range *x.Referrers() {
								if st, isS := u.(*ssa.Store); isS && st.Addr == ssa.Value(x) && reach(st.Val, d+1) {
									return true
								}
								if ia, ok := u.(*ssa.IndexAddr); ok {
									for _, uu := range *ia.Referrers() {
										if st, isS := uu.(*ssa.Store); isS && reach(st.Val, d+1) {
											return true
										}
									}
								}
							}
						}
						return false
					}
					if reach(r.Results[0], 0) {
						okErr = true
					}
				}
			})
		}
		cx.R.Check(okCall && okErr, rule, m[0], "delegates to "+m[1], cx.P.Pos(fn.Pos()), "the file variant works on the given cache and reports the stream variant's error")
	}
	_ = types.Typ
}

// ---------------------------------------------------------------------------------------------------------------
// C05.gettask: the replay task handed out carries exactly what the writer recorded
// ---------------------------------------------------------------------------------------------------------------

func ruleC05GetTask(cx *Ctx) {
	const rule = "C05.gettask"
	cx.R.Rule(rule, 2, "getTask returns, on every path (fresh or recycled object), a task whose node, old node, reason and cause are its four arguments; putTask clears all four before the object returns to the pool (a recycled task never carries a previous write)")
	gt := cx.need(rule, "", "cache", "getTask")
	if gt == nil {
		return
	}
	ps := newPathSum(cx)
	outs := ps.Run(gt, nil)
	a := newAgg(cx, rule, funcName(gt), cx.P.Pos(gt.Pos()))
	want := map[string]string{"n": "param:" + pname(bparam(gt, 1)), "old": "param:" + pname(bparam(gt, 2)), "writeReason": "param:" + pname(bparam(gt, 3)), "deletionCause": "param:" + pname(bparam(gt, 4))}
	n := 0
	for _, o := range outs {
		if o.Cut || o.Panic || len(o.Rets) != 1 {
			continue
		}
		n++
		obj := trimAmp(o.Rets[0])
		got := map[string]string{}
		for _, e := range o.S.trace {
			if (e.Kind == "FieldStore" || e.Kind == "LitStore") && len(e.Args) == 2 && strings.HasPrefix(e.Args[0], obj+".") {
				got[e.Args[0][len(obj)+1:]] = e.Args[1]
			}
		}
		for f, w := range want {
			a.check("field "+f+" is the argument", got[f] == w, "the task returned carries the argument in its field "+f, fmt.Sprintf("got %q want %q", got[f], w), o)
		}
	}
	a.flush()
	cx.R.Check(n >= 1, rule, funcName(gt), "returning paths", cx.P.Pos(gt.Pos()), fmt.Sprintf("%d", n))
	if pt := cx.need(rule, "", "cache", "putTask"); pt != nil {
		// every field store before the Put stores a zero value, and all four fields are stored
		fields := map[string]bool{}
		okZ := true
		var put ssa.Instruction
		allInstrs(pt, func(in ssa.Instruction) {
			if isStdMethod(in, "sync", "Pool", "Put") {
				put = in
			}
		})
		allInstrs(pt, func(in ssa.Instruction) {
			st, ok := in.(*ssa.Store)
			if !ok {
				return
			}
			f := fieldOf(st.Addr)
			if f == nil || structNameOfAddr(st.Addr) != "task" {
				return
			}
			fields[fname(f)] = true
			zero := isNilConst(st.Val)
			if c, isC := constInt(stripConv(st.Val)); isC && c == 0 {
				zero = true
			}
			if !zero || put == nil || !instrDominates(st, put) {
				okZ = false
			}
		})
		cx.R.Check(okZ && put != nil && len(fields) == 4, rule, funcName(pt), "all fields cleared before Put", cx.P.Pos(pt.Pos()), fmt.Sprintf("cleared %d of 4 fields", len(fields)))
	}
}

// ---------------------------------------------------------------------------------------------------------------
// C04.exit: size eviction gives up only when there is nothing left to examine
// ---------------------------------------------------------------------------------------------------------------

func ruleC04Exit(cx *Ctx) {
	const rule = "C04.exit"
	cx.R.Rule(rule, 1, "the eviction loop of evictFromMain is left only when weightedSize <= maximum or when both cursors are exhausted in the last queue: no counter, quota or other condition may end it while the cache is over its maximum (the overflow would stay until some later write)")
	fn := cx.need(rule, "", "policy", "evictFromMain")
	ws := cx.needField(rule, "", "policy", "weightedSize")
	mx := cx.needField(rule, "", "policy", "maximum")
	if fn == nil || ws == nil || mx == nil {
		return
	}
	isSizeGuard := func(v ssa.Value) (bool, bool) { // (is the guard, true means "over the maximum")
		b, ok := v.(*ssa.BinOp)
		if !ok {
			return false, false
		}
		fx, fy := fieldOf(b.X), fieldOf(b.Y)
		switch {
		case sameField(fx, ws) && sameField(fy, mx) && b.Op.String() == ">":
			return true, true
		case sameField(fx, mx) && sameField(fy, ws) && b.Op.String() == "<":
			return true, true
		case sameField(fx, ws) && sameField(fy, mx) && b.Op.String() == "<=":
			return true, false
		case sameField(fx, mx) && sameField(fy, ws) && b.Op.String() == ">=":
			return true, false
		}
		return false, false
	}
	// nilTests: the values a guard list shows to be nil (node.Equals(x, nil) true, x == nil true)
	nilShown := func(gs []Guard) int {
		n := 0
		for _, g := range gs {
			c, _ := stripNot(g.Cond)
			truth := g.Truth
			if c != g.Cond {
				truth = !truth
			}
			if call, ok := c.(*ssa.Call); ok && call.Call.StaticCallee() != nil && origin(call.Call.StaticCallee()).Name() == "Equals" && len(call.Call.Args) == 2 && isNilConst(stripConv(call.Call.Args[1])) && truth {
				n++
			}
			if _, isNil, ok := nilCmp(c); ok && isNil == truth {
				n++
			}
		}
		return n
	}
	var exitOK func(f *ssa.Function, from, to *ssa.BasicBlock, depth int) (bool, string)
	exitOK = func(f *ssa.Function, from, to *ssa.BasicBlock, depth int) (bool, string) {
		gs := append(append([]Guard{}, guardsAt(from)...), guardsOnEdge(from, to)...)
		for _, g := range gs {
			if is, over := isSizeGuard(g.Cond); is && over != g.Truth {
				return true, ""
			}
		}
		if nilShown(gs) >= 2 {
			return true, ""
		}
		// decided by a helper's result (if !scan.step() { break }): every "stop" result of the helper is justified the same way
		if depth < 2 {
			for _, g := range guardsOnEdge(from, to) {
				c, neg := stripNot(g.Cond)
				call, ok := c.(*ssa.Call)
				if !ok {
					continue
				}
				h := call.Call.StaticCallee()
				if h == nil {
					continue
				}
				h = origin(h)
				if h.Pkg == nil || !strings.HasPrefix(h.Pkg.Pkg.Path(), modPath) || len(h.Blocks) == 0 {
					continue
				}
				stop := g.Truth != neg // the boolean the helper returned on this edge
				all, n := true, 0
				allInstrs(h, func(in ssa.Instruction) {
					r, isR := in.(*ssa.Return)
					if !isR || len(r.Results) == 0 {
						return
					}
					last := r.Results[len(r.Results)-1]
					if b, isC := constBool(last); isC {
						if b != stop {
							return
						}
						n++
						gh := guardsAt(r.Block())
						okR := nilShown(gh) >= 2
						for _, x := range gh {
							if is, over := isSizeGuard(x.Cond); is && over != x.Truth {
								okR = true
							}
						}
						// ... or the helper delegates the decision once more
						if !okR {
							for _, x := range gh {
								if cc, isCall := x.Cond.(*ssa.Call); isCall && cc.Call.StaticCallee() != nil {
									okR = okR || false
								}
							}
						}
						if !okR {
							all = false
						}
					} else if ph, isPhi := last.(*ssa.Phi); isPhi {
						for i, e := range ph.Edges {
							if b, isC := constBool(e); isC && b == stop {
								n++
								ge := append(append([]Guard{}, guardsAt(ph.Block().Preds[i])...), guardsOnEdge(ph.Block().Preds[i], ph.Block())...)
								if nilShown(ge) < 2 {
									all = false
								}
							}
						}
					} else if cc, isCall := last.(*ssa.Call); isCall && cc.Call.StaticCallee() != nil {
						// return e.nextVictimQueue(): the callee's stop results, under this return's guards
						hh := origin(cc.Call.StaticCallee())
						if nilShown(guardsAt(r.Block())) >= 2 {
							n++ // whatever the delegate answers, both cursors are known to be exhausted here
							return
						}
						_ = hh
						all = false
					}
				})
				if all && n > 0 {
					return true, ""
				}
			}
		}
		return false, "exit " + blockDesc(from) + " -> " + blockDesc(to)
	}
	n := 0
	for _, b := range fn.Blocks {
		if len(b.Instrs) == 0 {
			continue
		}
		iff, ok := b.Instrs[len(b.Instrs)-1].(*ssa.If)
		if !ok {
			continue
		}
		if is, _ := isSizeGuard(iff.Cond); !is || !isLoopHeader(b) {
			continue
		}
		loop := naturalLoop(b)
		for u := range loop {
			for _, v := range u.Succs {
				if loop[v] {
					continue
				}
				n++
				ok, why := exitOK(fn, u, v, 0)
				cx.R.Check(ok, rule, funcName(fn), fmt.Sprintf("loop exit #%d", n), cx.P.where(u.Instrs[len(u.Instrs)-1]), "the loop is left only with weightedSize <= maximum or with both cursors nil ("+why+")")
			}
		}
	}
	cx.R.Check(n >= 1, rule, funcName(fn), "eviction loop found", cx.P.Pos(fn.Pos()), fmt.Sprintf("%d exit(s)", n))
}

// ---------------------------------------------------------------------------------------------------------------
// C15.sizecopy: the table's striped size counter across helpers and resizes
// ---------------------------------------------------------------------------------------------------------------

// stripeAddr: v is the address of a stripe's counter (&t.size[i].c), directly or as the result of a one-line accessor of
// the module; the IndexAddr that selects the stripe is returned.
func stripeAddr(v ssa.Value, cF *types.Var) (*ssa.IndexAddr, bool) {
	v = stripLoad(v)
	if fa, ok := v.(*ssa.FieldAddr); ok && sameField(fieldOf(fa), cF) {
		ia, _ := fa.X.(*ssa.IndexAddr)
		return ia, true
	}
	if c, ok := v.(*ssa.Call); ok && c.Call.StaticCallee() != nil {
		g := origin(c.Call.StaticCallee())
		if g.Pkg != nil && strings.HasPrefix(g.Pkg.Pkg.Path(), modPath) && len(g.Blocks) == 1 {
			var out *ssa.IndexAddr
			found := false
			allInstrs(g, func(y ssa.Instruction) {
				if r, isR := y.(*ssa.Return); isR && len(r.Results) == 1 {
					if fa, isF := r.Results[0].(*ssa.FieldAddr); isF && sameField(fieldOf(fa), cF) {
						out, _ = fa.X.(*ssa.IndexAddr)
						found = true
					}
				}
			})
			return out, found
		}
	}
	return nil, false
}

func ruleC15SizeCopy(cx *Ctx) {
	const rule = "C15.sizecopy"
	cx.R.Rule(rule, 4, "the striped size counter is written only by addSize / addSizePlain, which add their delta to the stripe (len(size)-1) & bucket index; sumSize adds up every stripe; a resize credits the new table with exactly the number of nodes each bucket copier reports - the reported size equals the number of keys once quiescent")
	cF := cx.needField(rule, hmPkg, "counterStripe", "c")
	if cF == nil {
		return
	}
	adders := map[*ssa.Function]bool{}
	for _, n := range []string{"addSize", "addSizePlain"} {
		fn := cx.need(rule, hmPkg, "mapTable", n)
		if fn == nil {
			continue
		}
		adders[origin(fn)] = true
		// the stripe index and the amount
		okIdx, okAmt := false, false
		allInstrs(fn, func(in ssa.Instruction) {
			var addr, amt ssa.Value
			if isPkgFunc(in, "sync/atomic", "AddInt64") {
				a := callCommon(in).Args
				addr, amt = a[0], a[1]
			}
			if st, ok := in.(*ssa.Store); ok {
				if _, isStripe := stripeAddr(st.Addr, cF); isStripe {
					if b, isB := st.Val.(*ssa.BinOp); isB && b.Op.String() == "+" {
						addr = st.Addr
						amt = b.Y
						if ld, isLd := b.Y.(*ssa.UnOp); isLd {
							if _, isS := stripeAddr(ld.X, cF); isS {
								amt = b.X
							}
						}
					}
				}
			}
			if addr == nil {
				return
			}
			ia, isStripe := stripeAddr(addr, cF)
			if !isStripe {
				return
			}
			if paramIndexOf(stripConv(amt)) == 2 {
				okAmt = true
			}
			if ia == nil {
				return
			}
			t := newInliningTermBuilder().of(ia.Index)
			// (len(size)-1) & bucketIdx
			if t.Op == "&" && len(t.Args) == 2 {
				for i := 0; i < 2; i++ {
					if strings.HasPrefix(t.Args[i].String(), "-(builtin:len(field:size(") && strings.HasSuffix(t.Args[i].String(), ",1)") && t.Args[1-i].Op == "v" {
						okIdx = true
					}
				}
			}
		})
		cx.R.Check(okIdx && okAmt, rule, "hashmap.(*mapTable)."+n, "adds delta to stripe (len-1) & bucket", cx.P.Pos(fn.Pos()), fmt.Sprintf("index ok %v, amount is the delta %v", okIdx, okAmt))
	}
	// census of writers
	for _, f := range cx.P.FuncsOfPkg(hmPkg) {
		allInstrs(f, func(in ssa.Instruction) {
			w := false
			if st, ok := in.(*ssa.Store); ok {
				if _, isS := stripeAddr(st.Addr, cF); isS {
					w = true
				}
			}
			if isPkgFunc(in, "sync/atomic", "AddInt64") || isPkgFunc(in, "sync/atomic", "StoreInt64") || isPkgFunc(in, "sync/atomic", "SwapInt64") {
				if _, isS := stripeAddr(callCommon(in).Args[0], cF); isS {
					w = true
				}
			}
			if !w {
				return
			}
			// a stripe accessor's caller writes through the returned pointer: the store is in the adder itself
			cx.R.Check(adders[origin(outermost(f))], rule, funcName(f), "writer of the size counter", cx.P.where(in), "only addSize / addSizePlain change a stripe of the size counter")
		})
	}
	// sumSize walks every stripe
	if ss := cx.need(rule, hmPkg, "mapTable", "sumSize"); ss != nil {
		okS := false
		allInstrs(ss, func(in ssa.Instruction) {
			var addr ssa.Value
			if isPkgFunc(in, "sync/atomic", "LoadInt64") {
				addr = callCommon(in).Args[0]
			} else if ld, ok := in.(*ssa.UnOp); ok && sameField(fieldOf(ld.X), cF) {
				addr = ld.X
			}
			if addr == nil || !sameField(fieldOf(addr), cF) {
				return
			}
			fa, _ := stripLoad(addr).(*ssa.FieldAddr)
			if fa == nil {
				return
			}
			if ia, isIA := fa.X.(*ssa.IndexAddr); isIA {
				if iv, first, bound, ok := indexInduction(ia.Index); ok && first == 0 {
					if bc, isC := bound.(*ssa.Call); isC && isBuiltinCall(bc, "len") && sameField(fieldOf(bc.Call.Args[0]), fieldOf(ia.X)) {
						// every iteration adds its stripe: the load dominates every back edge of the loop
						every := true
						var hdr *ssa.BasicBlock
						if ph, isPhi := iv.(*ssa.Phi); isPhi {
							hdr = ph.Block()
						} else if b, isB := iv.(*ssa.BinOp); isB {
							if ph, isPhi := b.X.(*ssa.Phi); isPhi {
								hdr = ph.Block()
							}
						}
						if hdr != nil {
							loop := naturalLoop(hdr)
							for _, p := range hdr.Preds {
								if loop[p] && !in.Block().Dominates(p) {
									every = false
								}
							}
						}
						okS = every
					}
				}
			}
		})
		cx.R.Check(okS, rule, "hashmap.(*mapTable).sumSize", "sums stripes 0..len-1", cx.P.Pos(ss.Pos()), "the size is the sum of every stripe")
	}
	// resize: what a copier reports is what the new table is credited with
	n := 0
	for _, f := range cx.P.FuncsOfPkg(hmPkg) {
		f := f
		allInstrs(f, func(in ssa.Instruction) {
			c := calleeOf(in)
			if c == nil || !strings.HasPrefix(cname(c), "copyBucket") {
				return
			}
			n++
			v, isV := in.(ssa.Value)
			credited := false
			if isV {
				for _, u := range usesOf(v) {
					if g := calleeOf(u); g != nil && adders[origin(g)] {
						a := callArgs(u)
						if len(a) > 0 && a[len(a)-1] == v {
							credited = true
						}
					}
				}
			}
			cx.R.Check(credited, rule, funcName(f), fmt.Sprintf("copier #%d result credited", n), cx.P.where(in), "the number of nodes a bucket copier reports is added to the new table's size counter")
		})
	}
	cx.R.Check(n >= 1, rule, "hashmap", "bucket copier calls found", "-", fmt.Sprintf("%d", n))
}

// ---------------------------------------------------------------------------------------------------------------
// C15.srcreadonly: a resize never writes the table it copies from
// ---------------------------------------------------------------------------------------------------------------

func ruleC15SrcReadOnly(cx *Ctx) {
	const rule = "C15.srcreadonly"
	cx.R.Rule(rule, 2, "the bucket copiers of resize only read the source chain: no slot, meta word or link of a source bucket is stored to (lock-free readers and iterations that started before the resize keep using the old table)")
	n := 0
	for _, fn := range cx.P.FuncsOfPkg(hmPkg) {
		if fn.Parent() != nil || !strings.HasPrefix(cname(fn), "copyBucket") {
			continue
		}
		// the source bucket parameter: the *bucketPadded parameter (the destination is a table)
		var src ssa.Value
		for _, p := range fn.Params {
			if namedTypeName(derefType(p.Type())) == "bucketPadded" {
				src = p
			}
		}
		if src == nil {
			continue
		}
		n++
		derived := map[ssa.Value]bool{src: true}
		rootOf := func(v ssa.Value) ssa.Value {
			for {
				switch x := v.(type) {
				case *ssa.FieldAddr:
					v = x.X
					continue
				case *ssa.IndexAddr:
					v = x.X
					continue
				}
				return v
			}
		}
		for changed := true; changed; {
			changed = false
			allInstrs(fn, func(in ssa.Instruction) {
				v, isV := in.(ssa.Value)
				if !isV || derived[v] {
					return
				}
				switch x := in.(type) {
				case *ssa.Phi:
					for _, e := range x.Edges {
						if derived[e] {
							derived[v], changed = true, true
						}
					}
				case *ssa.Call:
					if isStdMethod(x, "sync/atomic", "", "Load") && derived[rootOf(recvValue(x))] {
						derived[v], changed = true, true
					}
				}
			})
		}
		bad := ""
		var writes func(f *ssa.Function, d map[ssa.Value]bool, depth int)
		writes = func(f *ssa.Function, d map[ssa.Value]bool, depth int) {
			allInstrs(f, func(in ssa.Instruction) {
				switch x := in.(type) {
				case *ssa.Store:
					if d[rootOf(x.Addr)] {
						bad = "store at " + cx.P.where(in)
					}
				case *ssa.Call:
					cc := x.Common()
					if c := cc.StaticCallee(); c != nil {
						name := origin(c).Name()
						pkg := ""
						if oc := origin(c); oc.Pkg != nil {
							pkg = oc.Pkg.Pkg.Path()
						} else if c.Pkg != nil {
							pkg = c.Pkg.Pkg.Path()
						}
						if pkg == "sync/atomic" && (strings.HasPrefix(name, "Store") || strings.HasPrefix(name, "Swap") || strings.HasPrefix(name, "CompareAndSwap") || strings.HasPrefix(name, "Add")) && len(cc.Args) > 0 && d[rootOf(cc.Args[0])] {
							bad = "atomic " + name + " at " + cx.P.where(in)
						}
						// a helper of the package handed a source bucket: it must not write it either
						if strings.HasSuffix(pkg, hmPkg) && depth < 2 && len(origin(c).Blocks) > 0 {
							d2 := map[ssa.Value]bool{}
							for i, a := range cc.Args {
								if d[a] && i < len(origin(c).Params) {
									d2[origin(c).Params[i]] = true
								}
							}
							if len(d2) > 0 {
								writes(origin(c), d2, depth+1)
							}
						}
					}
				}
			})
		}
		writes(fn, derived, 0)
		cx.R.Check(bad == "", rule, funcName(fn), "source chain is only read", cx.P.Pos(fn.Pos()), "the copier writes nothing into the bucket chain it copies from "+bad)
	}
	cx.R.Check(n >= 1, rule, "hashmap", "bucket copiers found", "-", fmt.Sprintf("%d", n))
}

// ---------------------------------------------------------------------------------------------------------------
// C17.bound: the stripe table is doubled only below its maximum
// ---------------------------------------------------------------------------------------------------------------

func ruleC17Bound(cx *Ctx) {
	const rule = "C17.bound"
	cx.R.Rule(rule, 1, "the table that is doubled is one whose length was tested to be below maxLen on the path - the very value, a value compared equal to it, or (in a helper) the argument of every call - so the read buffer never holds more than its fixed number of stripes")
	lenF := cx.needField(rule, lossyPkg, "striped", "len")
	maxF := cx.needField(rule, lossyPkg, "Striped", "maxLen")
	if lenF == nil || maxF == nil {
		return
	}
	// below(v, at): on every path to `at` the table value v has len < maxLen
	var below func(v ssa.Value, at ssa.Instruction, depth int) bool
	below = func(v ssa.Value, at ssa.Instruction, depth int) bool {
		if depth > 3 {
			return false
		}
		gs := guardsAt(at.Block())
		lenOf := func(x ssa.Value) ssa.Value { // x = T.len -> T
			x = stripConv(x)
			if ld, ok := x.(*ssa.UnOp); ok {
				if fa, isFA := ld.X.(*ssa.FieldAddr); isFA && sameField(fieldOf(fa), lenF) {
					return fa.X
				}
			}
			return nil
		}
		isMax := func(x ssa.Value) bool { f := fieldOf(stripConv(x)); return f != nil && sameField(f, maxF) }
		for _, g := range gs {
			b, ok := g.Cond.(*ssa.BinOp)
			if !ok {
				continue
			}
			var t ssa.Value
			lt := false // the guard establishes len < max
			switch {
			case lenOf(b.X) != nil && isMax(b.Y):
				t = lenOf(b.X)
				lt = (b.Op.String() == ">=" && !g.Truth) || (b.Op.String() == "<" && g.Truth)
			case lenOf(b.Y) != nil && isMax(b.X):
				t = lenOf(b.Y)
				lt = (b.Op.String() == "<=" && !g.Truth) || (b.Op.String() == ">" && g.Truth)
			}
			if t != nil && lt && t == v {
				return true
			}
		}
		// compared equal to a value that is below
		for _, g := range gs {
			b, ok := g.Cond.(*ssa.BinOp)
			if !ok || !((b.Op.String() == "==" && g.Truth) || (b.Op.String() == "!=" && !g.Truth)) {
				continue
			}
			var other ssa.Value
			if b.X == v {
				other = b.Y
			} else if b.Y == v {
				other = b.X
			}
			if other != nil && below(other, at, depth+1) {
				return true
			}
		}
		// a parameter: every call site passes a table that is below there
		if p, ok := v.(*ssa.Parameter); ok {
			f := p.Parent()
			idx := -1
			for i, q := range f.Params {
				if q == p {
					idx = i
				}
			}
			sites, all := 0, true
			for _, g := range cx.P.FuncsOfPkg(lossyPkg) {
				allInstrs(g, func(in ssa.Instruction) {
					if isCallTo(in, f) {
						sites++
						cc := callCommon(in)
						if idx >= len(cc.Args) || !below(cc.Args[idx], in, depth+1) {
							all = false
						}
					}
				})
			}
			return sites > 0 && all
		}
		return false
	}
	n := 0
	for _, fn := range cx.P.FuncsOfPkg(lossyPkg) {
		fn := fn
		allInstrs(fn, func(in ssa.Instruction) {
			// len * 2 of some table
			b, ok := in.(*ssa.BinOp)
			if !ok {
				return
			}
			dbl := false
			if k, isK := constInt(b.Y); isK && ((b.Op.String() == "<<" && k == 1) || (b.Op.String() == "*" && k == 2)) {
				dbl = true
			}
			if k, isK := constInt(b.X); isK && b.Op.String() == "*" && k == 2 {
				dbl = true
			}
			if !dbl {
				return
			}
			var tbl ssa.Value
			for _, side := range []ssa.Value{b.X, b.Y} {
				if ld, isLd := stripConv(side).(*ssa.UnOp); isLd {
					if fa, isFA := ld.X.(*ssa.FieldAddr); isFA && sameField(fieldOf(fa), lenF) {
						tbl = fa.X
					}
				}
			}
			if tbl == nil {
				return
			}
			n++
			cx.R.Check(below(tbl, in, 0), rule, funcName(fn), fmt.Sprintf("doubling #%d", n), cx.P.where(in), "the table whose length is doubled was tested to be shorter than maxLen on this path")
		})
	}
	cx.R.Check(n >= 1, rule, "lossy", "doubling found", "-", fmt.Sprintf("%d", n))
}

// ---------------------------------------------------------------------------------------------------------------
// C17.delivered: maintenance hands every recorded read to the policies, in every configuration
// ---------------------------------------------------------------------------------------------------------------

func ruleC17Delivered(cx *Ctx) {
	const rule = "C17.delivered"
	cx.R.Rule(rule, 2, "where maintenance drains the read buffer it does so on every path on which skipReadBuffer answered false, whatever the configuration, and the consumer is cache.onAccess (or the eviction policy's access handler where expiration is known to be off): every successfully recorded read is delivered when maintenance runs")
	skip := cx.need(rule, "", "cache", "skipReadBuffer")
	drain := cx.need(rule, lossyPkg, "Striped", "DrainTo")
	onAcc := cx.need(rule, "", "cache", "onAccess")
	if skip == nil || drain == nil || onAcc == nil {
		return
	}
	rb := cx.P.Field("", "cache", "readBuffer")
	polAcc := cx.P.Func("", "policy", "access")
	// a delivering drain: DrainTo on the cache's read buffer with a consumer that does something (InvalidateAll discards
	// the recorded reads of entries it removes with an empty consumer)
	isDrain := func(in ssa.Instruction) bool {
		if !isCallTo(in, drain) || (rb != nil && !sameField(recvField(in), rb)) {
			return false
		}
		a := callArgs(in)
		if mc, ok := a[len(a)-1].(*ssa.MakeClosure); ok && boundMethod(mc) == nil {
			if cl, _ := mc.Fn.(*ssa.Function); cl != nil && len(cl.Blocks) == 1 && len(cl.Blocks[0].Instrs) <= 1 {
				return false
			}
		}
		if cl, ok := a[len(a)-1].(*ssa.Function); ok && len(cl.Blocks) == 1 && len(cl.Blocks[0].Instrs) <= 1 {
			return false
		}
		return true
	}
	n := 0
	for _, fn := range cx.P.FuncsOfPkg("") {
		fn := fn
		has := false
		allInstrs(fn, func(in ssa.Instruction) {
			if isDrain(in) {
				has = true
			}
		})
		if !has {
			continue
		}
		allInstrs(fn, func(in ssa.Instruction) {
			if !isDrain(in) {
				return
			}
			n++
			a := callArgs(in)
			cons := a[len(a)-1]
			ok := false
			if mc, isMC := cons.(*ssa.MakeClosure); isMC {
				if bm := boundMethod(mc); bm != nil {
					switch {
					case origin(bm) == origin(onAcc):
						ok = true
					case polAcc != nil && origin(bm) == origin(polAcc):
						for _, g := range guardsAt(in.Block()) {
							if f := fieldOf(g.Cond); f != nil && fname(f) == "withExpiration" && !g.Truth {
								ok = true
							}
						}
					}
				}
			}
			cx.R.Check(ok, rule, funcName(fn), fmt.Sprintf("consumer #%d", n), cx.P.where(in), "the drained reads go to cache.onAccess (policy access + timer reschedule)")
		})
		found := false
		allInstrs(fn, func(in ssa.Instruction) {
			if !isCallTo(in, skip) {
				return
			}
			v, _ := in.(ssa.Value)
			for _, u := range usesOf(v) {
				var iff *ssa.If
				neg := false
				switch x := u.(type) {
				case *ssa.If:
					iff = x
				case *ssa.UnOp:
					for _, uu := range usesOf(x) {
						if y, isIf := uu.(*ssa.If); isIf {
							iff, neg = y, true
						}
					}
				}
				if iff == nil {
					continue
				}
				found = true
				notSkipped := iff.Block().Succs[1]
				if neg {
					notSkipped = iff.Block().Succs[0]
				}
				// within the region the negative answer leads into, the drain comes first
				ok, wit := MustFollowPt(Pt{notSkipped, 0}, isDrain, exitReturn, nil)
				cx.R.Check(ok, rule, funcName(fn), "drains whenever the buffer is in use", cx.P.where(in), "every path on which skipReadBuffer is false reaches DrainTo", wit...)
			}
		})
		if !found {
			ok, wit := MustFollowPt(Pt{fn.Blocks[0], 0}, isDrain, exitReturn, nil)
			cx.R.Check(ok, rule, funcName(fn), "drains whenever the buffer is in use", cx.P.Pos(fn.Pos()), "every path of the draining step reaches DrainTo", wit...)
		}
	}
	cx.R.Check(n >= 1, rule, "cache", "delivering drain found", "-", fmt.Sprintf("%d", n))
}

// ---------------------------------------------------------------------------------------------------------------
// X.math: the arithmetic helpers every size / mask computation rests on
// ---------------------------------------------------------------------------------------------------------------

func ruleXMath(cx *Ctx) {
	const rule = "C16.math"
	cx.R.Rule(rule, 3, "xmath.RoundUpPowerOf2 / RoundUpPowerOf264 smear the highest set bit of v-1 over all lower bits (shifts 1, 2, 4, ... up to half the width) and add 1, returning 1 for 0 - every table length, stripe count and queue capacity that is used with a length-1 mask comes from them; xmath.Abs negates exactly the negative arguments")
	for _, d := range []struct {
		name   string
		shifts []uint64
	}{{"RoundUpPowerOf2", []uint64{1, 2, 4, 8, 16}}, {"RoundUpPowerOf264", []uint64{1, 2, 4, 8, 16, 32}}} {
		fn := cx.need(rule, "internal/xmath", "", d.name)
		if fn == nil {
			continue
		}
		// expected: t0 = v-1; t_{k+1} = t_k | (t_k >> s_k); result t_n + 1
		t := mk("-", tVar("param0"), tConst(1))
		for _, sft := range d.shifts {
			t = mk("|", t, mk(">>", t, tConst(sft)))
		}
		want := mk("+", t, tConst(1)).String()
		okMain, okZero, n := false, false, 0
		allInstrs(fn, func(in ssa.Instruction) {
			r, ok := in.(*ssa.Return)
			if !ok || len(r.Results) != 1 {
				return
			}
			n++
			if c, isC := constUint(r.Results[0]); isC {
				if c == 1 {
					for _, g := range guardsAt(r.Block()) {
						if x, k, isEq, okc := eqConst(g.Cond); okc && k == 0 && isEq == g.Truth && paramIndexOf(x) == 0 {
							okZero = true
						}
					}
				}
				return
			}
			got := newTermBuilder().of(r.Results[0]).String()
			if got == want {
				okMain = true
			}
			// the same number spelled with the bit length: 1 << bits.Len(v-1)
			for _, ln := range []string{"call:Len32", "call:Len64", "call:Len"} {
				if got == mk("<<", tConst(1), mk(ln, mk("-", tVar("param0"), tConst(1)))).String() {
					okMain = true
				}
			}
		})
		cx.R.Check(okMain && okZero && n == 2, rule, "xmath."+d.name, "bit smear + 1, and 1 for 0", cx.P.Pos(fn.Pos()), "the result is the next power of two >= v")
	}
	if fn := cx.need(rule, "internal/xmath", "", "Abs"); fn != nil {
		okNeg, okPos, n := false, false, 0
		allInstrs(fn, func(in ssa.Instruction) {
			r, ok := in.(*ssa.Return)
			if !ok || len(r.Results) != 1 {
				return
			}
			n++
			neg := func(gs []Guard) (bool, bool) { // (guard found, argument known negative)
				for _, g := range gs {
					if b, isB := g.Cond.(*ssa.BinOp); isB && paramIndexOf(b.X) == 0 {
						if k, isK := constInt(b.Y); isK && k == 0 {
							switch b.Op.String() {
							case "<":
								return true, g.Truth
							case ">=":
								return true, !g.Truth
							}
						}
					}
				}
				return false, false
			}
			found, isNeg := neg(guardsAt(r.Block()))
			if u, isU := r.Results[0].(*ssa.UnOp); isU && u.Op.String() == "-" && paramIndexOf(u.X) == 0 {
				okNeg = found && isNeg
			} else if paramIndexOf(r.Results[0]) == 0 {
				okPos = found && !isNeg
			}
		})
		cx.R.Check(okNeg && okPos && n == 2, rule, "xmath.Abs", "-a exactly for a < 0", cx.P.Pos(fn.Pos()), "the absolute value negates the negative arguments and only those")
	}
}

// ---------------------------------------------------------------------------------------------------------------
// C18.handoff: the window's candidate is the one that contests the main space
// ---------------------------------------------------------------------------------------------------------------

func ruleC18Handoff(cx *Ctx) {
	const rule = "C18.handoff"
	cx.R.Rule(rule, 1, "evictNodes hands the candidate evictFromWindow returned to evictFromMain, together with the eviction callback it was given: the entries that left the window are the ones the admission contest is about")
	fn := cx.need(rule, "", "policy", "evictNodes")
	efw := cx.need(rule, "", "policy", "evictFromWindow")
	efm := cx.need(rule, "", "policy", "evictFromMain")
	if fn == nil || efw == nil || efm == nil {
		return
	}
	ok := false
	allInstrs(fn, func(in ssa.Instruction) {
		if !isCallTo(in, efm) {
			return
		}
		a := callArgs(in)
		if len(a) >= 2 {
			if c, isC := a[0].(*ssa.Call); isC && isCallTo(c, efw) && paramIndexOf(a[1]) == 1 {
				ok = true
			}
		}
	})
	cx.R.Check(ok, rule, funcName(fn), "candidate and callback handed on", cx.P.Pos(fn.Pos()), "evictFromMain(evictFromWindow(), evictNode)")
}

// ---------------------------------------------------------------------------------------------------------------
// C05.views: the derived views read the bookkeeping they are named after
// ---------------------------------------------------------------------------------------------------------------

func ruleC05Views(cx *Ctx) {
	const rule = "C05.views"
	cx.R.Rule(rule, 3, "EstimatedSize is the table's Size(), WeightedSize is the policy's weightedSize (0 for an unweighted cache), GetMaximum is the policy's maximum (the largest value without a size bound), each returned unchanged")
	if fn := cx.need(rule, "", "cache", "EstimatedSize"); fn != nil {
		size := cx.P.Func(hmPkg, "Map", "Size")
		hm := cx.P.Field("", "cache", "hashmap")
		ok, n := true, 0
		allInstrs(fn, func(in ssa.Instruction) {
			if r, isR := in.(*ssa.Return); isR && len(r.Results) == 1 {
				n++
				c, isC := stripConv(r.Results[0]).(*ssa.Call)
				if !isC || size == nil || !isCallTo(c, size) || (hm != nil && !sameField(recvField(c), hm)) {
					ok = false
				}
			}
		})
		cx.R.Check(ok && n > 0, rule, funcName(fn), "returns the table's size", cx.P.Pos(fn.Pos()), "EstimatedSize() is hashmap.Size()")
	}
	for _, v := range []struct{ m, field string }{{"WeightedSize", "weightedSize"}, {"GetMaximum", "maximum"}} {
		fn := cx.need(rule, "", "cache", v.m)
		if fn == nil {
			continue
		}
		ok, n := true, 0
		allInstrs(fn, func(in ssa.Instruction) {
			r, isR := in.(*ssa.Return)
			if !isR || len(r.Results) != 1 {
				return
			}
			n++
			var chk func(x ssa.Value, d int)
			chk = func(x ssa.Value, d int) {
				x = stripConv(x)
				if d > 4 {
					ok = false
					return
				}
				switch y := x.(type) {
				case *ssa.Const:
					// the fixed answer of a cache without the feature
				case *ssa.Phi:
					for _, e := range y.Edges {
						chk(e, d+1)
					}
				case *ssa.UnOp:
					f := fieldOf(y)
					if f == nil || fname(f) != v.field || ownerName(fieldOwnerOfValue(y.X)) != "policy" {
						// a local the field was read into
						if al, isAl := y.X.(*ssa.Alloc); isAl {
							if w := wholeStore(al); w != nil {
								chk(w, d+1)
								return
							}
						}
						ok = false
					}
				case *ssa.Call:
					// read through a helper (readPolicy(func)): the helper's results
					if g := y.Call.StaticCallee(); g != nil && len(origin(g).Blocks) > 0 && strings.HasPrefix(origin(g).Pkg.Pkg.Path(), modPath) {
						w := newDepWalker(false, "policy")
						w.walk(y)
						for _, a := range y.Call.Args {
							if cl := closureOf(a); cl != nil {
								allInstrs(cl, func(z ssa.Instruction) {
									if rr, isRR := z.(*ssa.Return); isRR {
										for _, res := range rr.Results {
											w.walk(res)
										}
									}
								})
							}
						}
						ks := w.keys()
						if len(ks) != 1 || ks[0] != v.field {
							ok = false
						}
						return
					}
					ok = false
				default:
					ok = false
				}
			}
			chk(r.Results[0], 0)
		})
		cx.R.Check(ok && n > 0, rule, funcName(fn), "returns the policy's "+v.field, cx.P.Pos(fn.Pos()), v.m+"() is evictionPolicy."+v.field+" (a constant without the feature)")
	}
}

// ---------------------------------------------------------------------------------------------------------------
// C08.wait: the record's wait / release primitives
// ---------------------------------------------------------------------------------------------------------------

func ruleC08Wait(cx *Ctx) {
	const rule = "C08.wait"
	cx.R.Rule(rule, 2, "call.wait blocks on the record's wait group on every path (a waiter never reads a result before the load finished); call.cancel releases the wait group exactly once on every path of a real record and never for a synthetic one")
	wgF := cx.needField(rule, "", "call", "wg")
	if wgF == nil {
		return
	}
	if w := cx.need(rule, "", "call", "wait"); w != nil {
		isWait := func(in ssa.Instruction) bool { return isStdMethod(in, "sync", "WaitGroup", "Wait") && sameField(recvField(in), wgF) }
		ok, wit := MustFollowPt(Pt{w.Blocks[0], 0}, isWait, exitReturn, nil)
		cx.R.Check(ok, rule, funcName(w), "waits on every path", cx.P.Pos(w.Pos()), "every returning path of wait passed wg.Wait()", wit...)
	}
	if c := cx.need(rule, "", "call", "cancel"); c != nil {
		isDone := func(in ssa.Instruction) int {
			if isStdMethod(in, "sync", "WaitGroup", "Done") && sameField(recvField(in), wgF) {
				return 1
			}
			return 0
		}
		ok := true
		var wit []string
		n := 0
		for _, ex := range CountOnPaths(c, Pt{c.Blocks[0], 0}, isDone, nil) {
			r, isRet := ex.Exit.(*ssa.Return)
			if !isRet {
				continue
			}
			n++
			fake := false
			for _, g := range guardsAt(r.Block()) {
				if f := fieldOf(g.Cond); f != nil && fname(f) == "isFake" && g.Truth {
					fake = true
				}
			}
			want := 1
			if fake {
				want = 0
			}
			if ex.Count != want {
				ok, wit = false, ex.Witness
			}
		}
		cx.R.Check(ok && n > 0, rule, funcName(c), "releases once unless synthetic", cx.P.Pos(c.Pos()), "cancel calls wg.Done() exactly once for a real record and not at all for a synthetic one", wit...)
	}
}

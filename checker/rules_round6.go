package main

// Round-6 rules: the small helpers, constructors and geometry functions the larger rules take for granted.

import (
	"fmt"
	"go/types"
	"strings"

	"golang.org/x/tools/go/ssa"
)

// retTerm: the term of the single returned value of a loop-free helper with helpers inlined ("" when the function has
// several differing return terms).
func retTerm(fn *ssa.Function) string {
	out, n := "", 0
	allInstrs(fn, func(in ssa.Instruction) {
		if r, ok := in.(*ssa.Return); ok && len(r.Results) == 1 {
			t := newInliningTermBuilder().of(r.Results[0]).String()
			if n > 0 && t != out {
				out = "<several: " + out + " | " + t + ">"
			} else {
				out = t
			}
			n++
		}
	})
	return out
}

// ---------------------------------------------------------------------------------------------------------------
// C16.geometry: chunk geometry of the MPSC queue
// ---------------------------------------------------------------------------------------------------------------

func ruleC16Geometry(cx *Ctx) {
	const rule = "C16.geometry"
	cx.R.Rule(rule, 6, "the chunk geometry of the queue is self-consistent: a chunk of length n carries mask (n-2)<<1 wherever a mask is stored with a chunk (constructor, resize, consumer switch); an element's slot is (index & mask) >> 1 and the link slot (mask+2) >> 1 = n-1, outside the element slots; the next chunk has 2*(n-1)+1 slots; Size is (producer - consumer) >> 1")
	p0, p1 := tVar("param0"), tVar("param1")
	off := cx.need(rule, queuePkg, "", "modifiedCalcElementOffset")
	if off != nil {
		got := retTerm(off)
		cx.R.Check(got == mk(">>", mk("&", p0, p1), tConst(1)).String(), rule, "queue.modifiedCalcElementOffset", "slot = (index & mask) >> 1", cx.P.Pos(off.Pos()), "found "+trunc(got, 80))
	}
	if nao := cx.need(rule, queuePkg, "", "nextArrayOffset"); nao != nil {
		got := retTerm(nao)
		cx.R.Check(got == mk(">>", mk("+", p0, tConst(2)), tConst(1)).String(), rule, "queue.nextArrayOffset", "link slot = (mask + 2) >> 1", cx.P.Pos(nao.Pos()), "found "+trunc(got, 80))
	}
	if g := cx.need(rule, queuePkg, "MPSC", "getNextBufferSize"); g != nil {
		// 2*(len-1)+1 on the returning path
		l := mk("builtin:len", mk("field:data", mk("load", p1)))
		want := mk("+", mk("*", tConst(2), mk("-", l, tConst(1))), tConst(1)).String()
		got := retTerm(g)
		if got != want {
			// the slice may render without the explicit load
			l2 := mk("builtin:len", mk("field:data", p1))
			want = mk("+", mk("*", tConst(2), mk("-", l2, tConst(1))), tConst(1)).String()
		}
		cx.R.Check(got == want, rule, "queue.(*MPSC).getNextBufferSize", "next chunk has 2*(len-1)+1 slots", cx.P.Pos(g.Pos()), "found "+trunc(got, 100))
	}
	// mask stored with a chunk: (n-2)<<1
	nb := cx.need(rule, queuePkg, "", "newBuffer")
	maskFields := map[string]bool{"consumerMask": true, "producerMask": true}
	n := 0
	for _, fn := range cx.P.FuncsOfPkg(queuePkg) {
		fn := fn
		if fn.Parent() != nil {
			continue
		}
		var chunkLen ssa.Value // length the chunk of this function was made with / has
		allInstrs(fn, func(in ssa.Instruction) {
			if nb != nil && isCallTo(in, nb) {
				chunkLen = callArgs(in)[0]
			}
		})
		allInstrs(fn, func(in ssa.Instruction) {
			if !isStdMethod(in, "sync/atomic", "", "Store") {
				return
			}
			f := recvField(in)
			if f == nil || !maskFields[fname(f)] {
				return
			}
			n++
			arg := callArgs(in)[0]
			tb := newInliningTermBuilder()
			key := fmt.Sprintf("mask store #%d (%s)", n, fname(f))
			okM, detail := false, ""
			if chunkLen != nil {
				// constructor: len = c+1, mask = (c-1)<<1 for the same c; resize: mask = (len-2)<<1
				lt := tb.of(chunkLen)
				mt := tb.of(arg).String()
				if mt == mk("<<", mk("-", lt, tConst(2)), tConst(1)).String() {
					okM = true
				} else if lt.Op == "+" && len(lt.Args) == 2 {
					for i := 0; i < 2; i++ {
						if lt.Args[i].isConst() && lt.Args[i].C == 1 {
							c := lt.Args[1-i]
							if mt == mk("<<", mk("-", c, tConst(1)), tConst(1)).String() {
								okM = true
							}
						}
					}
				}
				detail = "mask " + trunc(mt, 60) + " chunk length " + trunc(lt.String(), 60)
			} else {
				// consumer switch: the chunk is a parameter, its length is len(b.data)
				mt := tb.of(arg)
				ms := mt.String()
				okM = strings.Contains(ms, "builtin:len(field:data(") && mt.Op == "*" && strings.Contains(ms, ",2)") && func() bool {
					// (len - 2) * 2
					for _, a := range mt.Args {
						if a.Op == "-" && len(a.Args) == 2 && a.Args[1].isConst() && a.Args[1].C == 2 && strings.HasPrefix(a.Args[0].Op, "builtin:len") {
							return true
						}
					}
					return false
				}()
				detail = "mask " + trunc(ms, 80)
			}
			cx.R.Check(okM, rule, funcName(fn), key, cx.P.where(in), "a chunk of length n is used with mask (n-2)<<1 ("+detail+")")
		})
	}
	cx.R.Check(n >= 3, rule, "queue", "mask stores found", "-", fmt.Sprintf("%d", n))
	if sz := cx.need(rule, queuePkg, "MPSC", "Size"); sz != nil {
		okS, nr := true, 0
		allInstrs(sz, func(in ssa.Instruction) {
			r, ok := in.(*ssa.Return)
			if !ok || len(r.Results) != 1 {
				return
			}
			if c, isC := constUint(r.Results[0]); isC && c == 0 {
				return
			}
			nr++
			w := newDepWalker(false, "MPSC")
			w.walk(r.Results[0])
			got := strings.Join(w.keys(), ",")
			sh, isB := r.Results[0].(*ssa.BinOp)
			if got != "consumerIndex,producerIndex" || !isB || sh.Op.String() != ">>" {
				okS = false
			} else if k, isK := constUint(sh.Y); !isK || k != 1 {
				okS = false
			} else if d, isD := sh.X.(*ssa.BinOp); !isD || d.Op.String() != "-" || fieldOf(recvValueOf(d.X)) == nil || fname(fieldOf(recvValueOf(d.X))) != "producerIndex" {
				okS = false
			}
		})
		cx.R.Check(okS && nr > 0, rule, "queue.(*MPSC).Size", "(producer - consumer) >> 1", cx.P.Pos(sz.Pos()), "the number of queued events is half the distance of the two indices")
	}
}

// recvValueOf: for the result of a method call x.f.Load() the receiver operand.
func recvValueOf(v ssa.Value) ssa.Value {
	if c, ok := v.(*ssa.Call); ok {
		if in, isI := ssa.Value(c).(ssa.Instruction); isI {
			return recvValue(in)
		}
	}
	// the value may be a phi of loads (retry loops): take the first edge
	if ph, ok := v.(*ssa.Phi); ok && len(ph.Edges) > 0 {
		return recvValueOf(ph.Edges[len(ph.Edges)-1])
	}
	return nil
}

// ---------------------------------------------------------------------------------------------------------------
// C17.init: a fresh ring, the ring's length, the striped buffer's constructor
// ---------------------------------------------------------------------------------------------------------------

func ruleC17Init(cx *Ctx) {
	const rule = "C17.init"
	cx.R.Rule(rule, 3, "a fresh ring holds exactly the element it was created for: slot 0 = the node, tail = 1, head = 0; ring.len is tail - head; NewStriped keeps the maximum it is given")
	nr := cx.need(rule, lossyPkg, "", "newRing")
	if nr != nil {
		slot0, tail1, headTouched := false, false, false
		allInstrs(nr, func(in ssa.Instruction) {
			switch x := in.(type) {
			case *ssa.Store:
				if ia, ok := x.Addr.(*ssa.IndexAddr); ok {
					if f := fieldOf(ia.X); f != nil && fname(f) == "buffer" {
						if k, isK := constInt(ia.Index); isK && k == 0 {
							if c, isC := x.Val.(*ssa.Call); isC && invokeName(c) == "AsPointer" && paramIndexOf(c.Call.Value) == 1 {
								slot0 = true
							}
						}
					}
				}
			}
			if isStdMethod(in, "sync/atomic", "", "Store") {
				if f := recvField(in); f != nil {
					switch fname(f) {
					case "tail":
						if k, isK := constInt(callArgs(in)[0]); isK && k == 1 {
							tail1 = true
						}
					case "head":
						headTouched = true
					}
				}
			}
			if isAtomicPtr(in, "StorePointer") {
				if ia, ok := callCommon(in).Args[0].(*ssa.IndexAddr); ok {
					if k, isK := constInt(ia.Index); isK && k == 0 {
						if c, isC := callCommon(in).Args[1].(*ssa.Call); isC && invokeName(c) == "AsPointer" {
							slot0 = true
						}
					}
				}
			}
		})
		cx.R.Check(slot0 && tail1 && !headTouched, rule, "lossy.newRing", "slot 0 = node, tail = 1, head = 0", cx.P.Pos(nr.Pos()), "the creating read is the ring's only element")
	}
	if rl := cx.need(rule, lossyPkg, "ring", "len"); rl != nil {
		w := newDepWalker(false, "ring")
		okL := false
		allInstrs(rl, func(in ssa.Instruction) {
			if r, ok := in.(*ssa.Return); ok && len(r.Results) == 1 {
				w.walk(r.Results[0])
				if b, isB := stripConv(r.Results[0]).(*ssa.BinOp); isB && b.Op.String() == "-" {
					fx, fy := fieldOf(recvValueOf(b.X)), fieldOf(recvValueOf(b.Y))
					okL = fx != nil && fy != nil && fname(fx) == "tail" && fname(fy) == "head"
				}
			}
		})
		cx.R.Check(okL, rule, "lossy.(*ring).len", "tail - head", cx.P.Pos(rl.Pos()), "the number of buffered reads is the distance of the two counters")
	}
	if ns := cx.need(rule, lossyPkg, "", "NewStriped"); ns != nil {
		okN := false
		allInstrs(ns, func(in ssa.Instruction) {
			if st, ok := in.(*ssa.Store); ok {
				if f := fieldOf(st.Addr); f != nil && fname(f) == "maxLen" && paramIndexOf(st.Val) == 0 {
					okN = true
				}
			}
		})
		cx.R.Check(okN, rule, "lossy.NewStriped", "maxLen is the argument", cx.P.Pos(ns.Pos()), "the stripe table stops growing at the configured maximum")
	}
}

// ---------------------------------------------------------------------------------------------------------------
// C10.adapter: the function adapters of the loader interfaces
// ---------------------------------------------------------------------------------------------------------------

func ruleC10Adapter(cx *Ctx) {
	const rule = "C10.adapter"
	cx.R.Rule(rule, 4, "LoaderFunc / BulkLoaderFunc call the wrapped function exactly once with the context and key(s) they were given, in that order, and return its results unchanged")
	for _, m := range [][2]string{{"LoaderFunc", "Load"}, {"LoaderFunc", "Reload"}, {"BulkLoaderFunc", "BulkLoad"}, {"BulkLoaderFunc", "BulkReload"}} {
		fn := cx.need(rule, "", m[0], m[1])
		if fn == nil {
			continue
		}
		var call *ssa.Call
		nCalls := 0
		var ret *ssa.Return
		allInstrs(fn, func(in ssa.Instruction) {
			if c, ok := in.(*ssa.Call); ok {
				nCalls++
				if c.Call.Value == ssa.Value(fn.Params[0]) {
					call = c
				}
			}
			if r, ok := in.(*ssa.Return); ok {
				ret = r
			}
		})
		ok := call != nil && nCalls == 1 && ret != nil && len(fn.Blocks) == 1 && len(call.Call.Args) == 2 && len(fn.Params) >= 3 &&
			call.Call.Args[0] == ssa.Value(fn.Params[1]) && call.Call.Args[1] == ssa.Value(fn.Params[2])
		if ok {
			for j, r := range ret.Results {
				e, isE := r.(*ssa.Extract)
				if !isE || e.Tuple != ssa.Value(call) || e.Index != j {
					ok = false
				}
			}
		}
		cx.R.Check(ok, rule, m[0]+"."+m[1], "forwards (ctx, key) and returns the results", cx.P.Pos(fn.Pos()), "the adapter invokes the wrapped function once with its own context and key argument and hands the results back")
	}
}

// ---------------------------------------------------------------------------------------------------------------
// C19.file: the file front ends of persistence
// ---------------------------------------------------------------------------------------------------------------

func ruleC19File(cx *Ctx) {
	const rule = "C19.file"
	cx.R.Rule(rule, 2, "SaveCacheToFile / LoadCacheFromFile hand the cache they were given and the file they opened to SaveCacheTo / LoadCacheFrom and return that call's error when it fails")
	for _, m := range [][2]string{{"SaveCacheToFile", "SaveCacheTo"}, {"LoadCacheFromFile", "LoadCacheFrom"}} {
		fn := cx.need(rule, "", "", m[0])
		core := cx.need(rule, "", "", m[1])
		if fn == nil || core == nil {
			continue
		}
		okCall, okErr := false, false
		var call *ssa.Call
		allInstrs(fn, func(in ssa.Instruction) {
			if c, ok := in.(*ssa.Call); ok && isCallTo(c, core) {
				call = c
				if paramIndexOf(c.Call.Args[0]) == 0 {
					okCall = true
				}
			}
		})
		if call != nil {
			// the error of the core call reaches a return
			allInstrs(fn, func(in ssa.Instruction) {
				if r, ok := in.(*ssa.Return); ok && len(r.Results) == 1 {
					w := map[ssa.Value]bool{}
					var reach func(v ssa.Value, d int) bool
					reach = func(v ssa.Value, d int) bool {
						if v == ssa.Value(call) {
							return true
						}
						if d > 6 || w[v] {
							return false
						}
						w[v] = true
						switch x := v.(type) {
						case *ssa.Phi:
							for _, e := range x.Edges {
								if reach(e, d+1) {
									return true
								}
							}
						case *ssa.Call:
							for _, a := range x.Call.Args {
								if reach(a, d+1) {
									return true
								}
							}
						case *ssa.MakeInterface:
							return reach(x.X, d+1)
						case *ssa.UnOp:
							return reach(x.X, d+1)
						case *ssa.Slice:
							return reach(x.X, d+1)
						case *ssa.Alloc:
							for _, u := range *x.Referrers() {
								if st, isS := u.(*ssa.Store); isS && st.Addr == ssa.Value(x) && reach(st.Val, d+1) {
									return true
								}
								if ia, ok := u.(*ssa.IndexAddr); ok {
									for _, uu := range *ia.Referrers() {
										if st, isS := uu.(*ssa.Store); isS && reach(st.Val, d+1) {
											return true
										}
									}
								}
							}
						}
						return false
					}
					if reach(r.Results[0], 0) {
						okErr = true
					}
				}
			})
		}
		cx.R.Check(okCall && okErr, rule, m[0], "delegates to "+m[1], cx.P.Pos(fn.Pos()), "the file variant works on the given cache and reports the stream variant's error")
	}
	_ = types.Typ
}

// ---------------------------------------------------------------------------------------------------------------
// C05.gettask: the replay task handed out carries exactly what the writer recorded
// ---------------------------------------------------------------------------------------------------------------

func ruleC05GetTask(cx *Ctx) {
	const rule = "C05.gettask"
	cx.R.Rule(rule, 2, "getTask returns, on every path (fresh or recycled object), a task whose node, old node, reason and cause are its four arguments; putTask clears all four before the object returns to the pool (a recycled task never carries a previous write)")
	gt := cx.need(rule, "", "cache", "getTask")
	if gt == nil {
		return
	}
	ps := newPathSum(cx)
	outs := ps.Run(gt, nil)
	a := newAgg(cx, rule, funcName(gt), cx.P.Pos(gt.Pos()))
	want := map[string]string{"n": "param:" + pname(bparam(gt, 1)), "old": "param:" + pname(bparam(gt, 2)), "writeReason": "param:" + pname(bparam(gt, 3)), "deletionCause": "param:" + pname(bparam(gt, 4))}
	n := 0
	for _, o := range outs {
		if o.Cut || o.Panic || len(o.Rets) != 1 {
			continue
		}
		n++
		obj := trimAmp(o.Rets[0])
		got := map[string]string{}
		for _, e := range o.S.trace {
			if (e.Kind == "FieldStore" || e.Kind == "LitStore") && len(e.Args) == 2 && strings.HasPrefix(e.Args[0], obj+".") {
				got[e.Args[0][len(obj)+1:]] = e.Args[1]
			}
		}
		for f, w := range want {
			a.check("field "+f+" is the argument", got[f] == w, "the task returned carries the argument in its field "+f, fmt.Sprintf("got %q want %q", got[f], w), o)
		}
	}
	a.flush()
	cx.R.Check(n >= 1, rule, funcName(gt), "returning paths", cx.P.Pos(gt.Pos()), fmt.Sprintf("%d", n))
	if pt := cx.need(rule, "", "cache", "putTask"); pt != nil {
		// every field store before the Put stores a zero value, and all four fields are stored
		fields := map[string]bool{}
		okZ := true
		var put ssa.Instruction
		allInstrs(pt, func(in ssa.Instruction) {
			if isStdMethod(in, "sync", "Pool", "Put") {
				put = in
			}
		})
		allInstrs(pt, func(in ssa.Instruction) {
			st, ok := in.(*ssa.Store)
			if !ok {
				return
			}
			f := fieldOf(st.Addr)
			if f == nil || structNameOfAddr(st.Addr) != "task" {
				return
			}
			fields[fname(f)] = true
			zero := isNilConst(st.Val)
			if c, isC := constInt(stripConv(st.Val)); isC && c == 0 {
				zero = true
			}
			if !zero || put == nil || !instrDominates(st, put) {
				okZ = false
			}
		})
		cx.R.Check(okZ && put != nil && len(fields) == 4, rule, funcName(pt), "all fields cleared before Put", cx.P.Pos(pt.Pos()), fmt.Sprintf("cleared %d of 4 fields", len(fields)))
	}
}

package main

// Round-6 rules: the small helpers, constructors and geometry functions the larger rules take for granted.

import (
	"fmt"
	"go/types"
	"os"
	"strings"

	"golang.org/x/tools/go/ssa"
)

// retTerm: the term of the single returned value of a loop-free helper with helpers inlined ("" when the function has
// several differing return terms).
func retTerm(fn *ssa.Function) string {
	out, n := "", 0
	allInstrs(fn, func(in ssa.Instruction) {
		if r, ok := in.(*ssa.Return); ok && len(r.Results) == 1 {
			t := newInliningTermBuilder().of(r.Results[0]).String()
			if n > 0 && t != out {
				out = "<several: " + out + " | " + t + ">"
			} else {
				out = t
			}
			n++
		}
	})
	return out
}

// ---------------------------------------------------------------------------------------------------------------
// C16.geometry: chunk geometry of the MPSC queue
// ---------------------------------------------------------------------------------------------------------------

func ruleC16Geometry(cx *Ctx) {
	const rule = "C16.geometry"
	cx.R.Rule(rule, 6, "the chunk geometry of the queue is self-consistent: a chunk of length n carries mask (n-2)<<1 wherever a mask is stored with a chunk (constructor, resize, consumer switch); an element's slot is (index & mask) >> 1 and the link slot (mask+2) >> 1 = n-1, outside the element slots; the next chunk has 2*(n-1)+1 slots; Size is (producer - consumer) >> 1")
	p0, p1 := tVar("param0"), tVar("param1")
	dataField := "field:data"
	if df := cx.P.Field(queuePkg, "buffer", "data"); df != nil {
		dataField = "field:" + df.Name() // the slots of a chunk, whatever the field is called today
	}
	off := cx.need(rule, queuePkg, "", "modifiedCalcElementOffset")
	if off != nil {
		got := retTerm(off)
		cx.R.Check(got == mk(">>", mk("&", p0, p1), tConst(1)).String(), rule, "queue.modifiedCalcElementOffset", "slot = (index & mask) >> 1", cx.P.Pos(off.Pos()), "found "+trunc(got, 80))
	}
	if nao := cx.need(rule, queuePkg, "", "nextArrayOffset"); nao != nil {
		got := retTerm(nao)
		cx.R.Check(got == mk(">>", mk("+", p0, tConst(2)), tConst(1)).String(), rule, "queue.nextArrayOffset", "link slot = (mask + 2) >> 1", cx.P.Pos(nao.Pos()), "found "+trunc(got, 80))
	}
	if g := cx.need(rule, queuePkg, "MPSC", "getNextBufferSize"); g != nil {
		// 2*(len-1)+1 on the returning path
		l := mk("builtin:len", mk(dataField, mk("load", p1)))
		want := mk("+", mk("*", tConst(2), mk("-", l, tConst(1))), tConst(1)).String()
		got := retTerm(g)
		if got != want {
			// the slice may render without the explicit load
			l2 := mk("builtin:len", mk(dataField, p1))
			want = mk("+", mk("*", tConst(2), mk("-", l2, tConst(1))), tConst(1)).String()
		}
		if got != want {
			// 2*(len-1) is even: "| 1" sets the same bit "+ 1" does
			for _, l := range []*Term{mk("builtin:len", mk(dataField, mk("load", p1))), mk("builtin:len", mk(dataField, p1))} {
				if got == mk("|", mk("*", tConst(2), mk("-", l, tConst(1))), tConst(1)).String() {
					want = got
				}
			}
		}
		cx.R.Check(got == want, rule, "queue.(*MPSC).getNextBufferSize", "next chunk has 2*(len-1)+1 slots", cx.P.Pos(g.Pos()), "found "+trunc(got, 100))
	}
	// mask stored with a chunk: (n-2)<<1
	nb := cx.need(rule, queuePkg, "", "newBuffer")
	maskFields := map[string]bool{"consumerMask": true, "producerMask": true}
	n := 0
	for _, fn := range cx.P.FuncsOfPkg(queuePkg) {
		fn := fn
		if fn.Parent() != nil {
			continue
		}
		var chunkLen ssa.Value // length the chunk of this function was made with / has
		allInstrs(fn, func(in ssa.Instruction) {
			if nb != nil && isCallTo(in, nb) {
				chunkLen = callArgs(in)[0]
			}
		})
		allInstrs(fn, func(in ssa.Instruction) {
			if !isStdMethod(in, "sync/atomic", "", "Store") {
				return
			}
			f := recvField(in)
			if f == nil || !maskFields[fname(f)] {
				return
			}
			n++
			arg := callArgs(in)[0]
			tb := newInliningTermBuilder()
			key := fmt.Sprintf("mask store #%d (%s)", n, fname(f))
			okM, detail := false, ""
			if chunkLen != nil {
				// constructor: len = c+1, mask = (c-1)<<1 for the same c; resize: mask = (len-2)<<1
				lt := tb.of(chunkLen)
				mt := tb.of(arg).String()
				if mt == mk("<<", mk("-", lt, tConst(2)), tConst(1)).String() {
					okM = true
				} else if lt.Op == "+" && len(lt.Args) == 2 {
					for i := 0; i < 2; i++ {
						if lt.Args[i].isConst() && lt.Args[i].C == 1 {
							c := lt.Args[1-i]
							if mt == mk("<<", mk("-", c, tConst(1)), tConst(1)).String() {
								okM = true
							}
						}
					}
				}
				detail = "mask " + trunc(mt, 60) + " chunk length " + trunc(lt.String(), 60)
			} else {
				// consumer switch: the chunk is a parameter, its length is len(b.data)
				lenForm := func(mt *Term) bool {
					ms := mt.String()
					return strings.Contains(ms, "builtin:len("+dataField+"(") && mt.Op == "*" && strings.Contains(ms, ",2)") && func() bool {
						// (len - 2) * 2
						for _, a := range mt.Args {
							if a.Op == "-" && len(a.Args) == 2 && a.Args[1].isConst() && a.Args[1].C == 2 && strings.HasPrefix(a.Args[0].Op, "builtin:len") {
								return true
							}
						}
						return false
					}()
				}
				mt := tb.of(arg)
				ms := mt.String()
				okM = lenForm(mt)
				if pi := paramIndexOf(arg); !okM && pi >= 0 {
					// the mask is computed by the callers: (len(chunk)-2)<<1 at every call site
					sites := 0
					okM = true
					for _, g := range cx.P.FuncsOfPkg(queuePkg) {
						allInstrs(g, func(x ssa.Instruction) {
							if c := calleeOf(x); c != nil && origin(c) == origin(fn) {
								sites++
								as := callCommon(x).Args
								if pi >= len(as) || !lenForm(newInliningTermBuilder().of(as[pi])) {
									okM = false
								}
							}
						})
					}
					okM = okM && sites > 0
				}
				detail = "mask " + trunc(ms, 80)
			}
			cx.R.Check(okM, rule, funcName(fn), key, cx.P.where(in), "a chunk of length n is used with mask (n-2)<<1 ("+detail+")")
		})
	}
	cx.R.Check(n >= 3, rule, "queue", "mask stores found", "-", fmt.Sprintf("%d", n))
	if sz := cx.need(rule, queuePkg, "MPSC", "Size"); sz != nil {
		okS, nr := true, 0
		allInstrs(sz, func(in ssa.Instruction) {
			r, ok := in.(*ssa.Return)
			if !ok || len(r.Results) != 1 {
				return
			}
			if c, isC := constUint(r.Results[0]); isC && c == 0 {
				return
			}
			nr++
			w := newDepWalker(false, "MPSC")
			w.walk(r.Results[0])
			got := strings.Join(w.keys(), ",")
			// as a term: (producer - consumer) >> 1, however the halving is spelled (>> 1, / 2)
			tb := newTermBuilder()
			allInstrs(sz, func(ld ssa.Instruction) {
				if v, isV := ld.(ssa.Value); isV && isStdMethod(ld, "sync/atomic", "", "Load") && recvField(ld) != nil {
					tb.subst[v] = tVar("load:" + fname(recvField(ld)))
				}
			})
			t := tb.of(r.Results[0])
			if got != "consumerIndex,producerIndex" || t.Op != ">>" || len(t.Args) != 2 || !t.Args[1].isConst() || t.Args[1].C != 1 {
				okS = false
			} else if d := t.Args[0]; d.Op != "-" || len(d.Args) != 2 || d.Args[0].String() != "load:producerIndex" || strings.Contains(d.Args[1].String(), "producerIndex") {
				okS = false
			}
		})
		cx.R.Check(okS && nr > 0, rule, "queue.(*MPSC).Size", "(producer - consumer) >> 1", cx.P.Pos(sz.Pos()), "the number of queued events is half the distance of the two indices")
	}
}

// recvValueOf: for the result of a method call x.f.Load() the receiver operand.
func recvValueOf(v ssa.Value) ssa.Value {
	if c, ok := v.(*ssa.Call); ok {
		if in, isI := ssa.Value(c).(ssa.Instruction); isI {
			return recvValue(in)
		}
	}
	// the value may be a phi of loads (retry loops): take the first edge
	if ph, ok := v.(*ssa.Phi); ok && len(ph.Edges) > 0 {
		return recvValueOf(ph.Edges[len(ph.Edges)-1])
	}
	return nil
}

// ---------------------------------------------------------------------------------------------------------------
// C17.init: a fresh ring, the ring's length, the striped buffer's constructor
// ---------------------------------------------------------------------------------------------------------------

func ruleC17Init(cx *Ctx) {
	const rule = "C17.init"
	cx.R.Rule(rule, 3, "a fresh ring holds exactly the element it was created for: slot 0 = the node, tail = 1, head = 0; ring.len is tail - head; NewStriped keeps the maximum it is given")
	nr := cx.need(rule, lossyPkg, "", "newRing")
	if nr != nil {
		slot0, tail1, headTouched := false, false, false
		allInstrs(nr, func(in ssa.Instruction) {
			switch x := in.(type) {
			case *ssa.Store:
				if ia, ok := x.Addr.(*ssa.IndexAddr); ok {
					if f := fieldOf(ia.X); f != nil && fname(f) == "buffer" {
						if k, isK := constInt(ia.Index); isK && k == 0 {
							if c, isC := x.Val.(*ssa.Call); isC && invokeName(c) == "AsPointer" && paramIndexOf(c.Call.Value) == 1 {
								slot0 = true
							}
						}
					}
				}
			}
			if isStdMethod(in, "sync/atomic", "", "Store") {
				if f := recvField(in); f != nil {
					switch fname(f) {
					case "tail":
						if k, isK := constInt(callArgs(in)[0]); isK && k == 1 {
							tail1 = true
						}
					case "head":
						headTouched = true
					}
				}
			}
			if isAtomicPtr(in, "StorePointer") {
				if ia, ok := callCommon(in).Args[0].(*ssa.IndexAddr); ok {
					if k, isK := constInt(ia.Index); isK && k == 0 {
						if c, isC := callCommon(in).Args[1].(*ssa.Call); isC && invokeName(c) == "AsPointer" {
							slot0 = true
						}
					}
				}
			}
		})
		cx.R.Check(slot0 && tail1 && !headTouched, rule, "lossy.newRing", "slot 0 = node, tail = 1, head = 0", cx.P.Pos(nr.Pos()), "the creating read is the ring's only element")
	}
	if rl := cx.need(rule, lossyPkg, "ring", "len"); rl != nil {
		w := newDepWalker(false, "ring")
		okL := false
		allInstrs(rl, func(in ssa.Instruction) {
			if r, ok := in.(*ssa.Return); ok && len(r.Results) == 1 {
				w.walk(r.Results[0])
				if b, isB := stripConv(r.Results[0]).(*ssa.BinOp); isB && b.Op.String() == "-" {
					fx, fy := fieldOf(recvValueOf(b.X)), fieldOf(recvValueOf(b.Y))
					okL = fx != nil && fy != nil && fname(fx) == "tail" && fname(fy) == "head"
				}
			}
		})
		cx.R.Check(okL, rule, "lossy.(*ring).len", "tail - head", cx.P.Pos(rl.Pos()), "the number of buffered reads is the distance of the two counters")
	}
	if ns := cx.need(rule, lossyPkg, "", "NewStriped"); ns != nil {
		okN := false
		allInstrs(ns, func(in ssa.Instruction) {
			if st, ok := in.(*ssa.Store); ok {
				if f := fieldOf(st.Addr); f != nil && fname(f) == "maxLen" && paramIndexOf(st.Val) == 0 {
					okN = true
				}
			}
		})
		cx.R.Check(okN, rule, "lossy.NewStriped", "maxLen is the argument", cx.P.Pos(ns.Pos()), "the stripe table stops growing at the configured maximum")
	}
}

// ---------------------------------------------------------------------------------------------------------------
// C10.adapter: the function adapters of the loader interfaces
// ---------------------------------------------------------------------------------------------------------------

func ruleC10Adapter(cx *Ctx) {
	const rule = "C10.adapter"
	cx.R.Rule(rule, 4, "LoaderFunc / BulkLoaderFunc call the wrapped function exactly once with the context and key(s) they were given, in that order, and return its results unchanged")
	for _, m := range [][2]string{{"LoaderFunc", "Load"}, {"LoaderFunc", "Reload"}, {"BulkLoaderFunc", "BulkLoad"}, {"BulkLoaderFunc", "BulkReload"}} {
		fn := cx.need(rule, "", m[0], m[1])
		if fn == nil {
			continue
		}
		var call *ssa.Call
		nCalls := 0
		var ret *ssa.Return
		allInstrs(fn, func(in ssa.Instruction) {
			if c, ok := in.(*ssa.Call); ok {
				nCalls++
				if c.Call.Value == ssa.Value(fn.Params[0]) {
					call = c
				}
			}
			if r, ok := in.(*ssa.Return); ok {
				ret = r
			}
		})
		ok := call != nil && nCalls == 1 && ret != nil && len(fn.Blocks) == 1 && len(call.Call.Args) == 2 && len(fn.Params) >= 3 &&
			call.Call.Args[0] == ssa.Value(fn.Params[1]) && call.Call.Args[1] == ssa.Value(fn.Params[2])
		if ok {
			for j, r := range ret.Results {
				e, isE := r.(*ssa.Extract)
				if !isE || e.Tuple != ssa.Value(call) || e.Index != j {
					ok = false
				}
			}
		}
		cx.R.Check(ok, rule, m[0]+"."+m[1], "forwards (ctx, key) and returns the results", cx.P.Pos(fn.Pos()), "the adapter invokes the wrapped function once with its own context and key argument and hands the results back")
	}
}

// ---------------------------------------------------------------------------------------------------------------
// C19.file: the file front ends of persistence
// ---------------------------------------------------------------------------------------------------------------

func ruleC19File(cx *Ctx) {
	const rule = "C19.file"
	cx.R.Rule(rule, 2, "SaveCacheToFile / LoadCacheFromFile hand the cache they were given and the file they opened to SaveCacheTo / LoadCacheFrom and return that call's error when it fails")
	for _, m := range [][2]string{{"SaveCacheToFile", "SaveCacheTo"}, {"LoadCacheFromFile", "LoadCacheFrom"}} {
		fn := cx.need(rule, "", "", m[0])
		core := cx.need(rule, "", "", m[1])
		if fn == nil || core == nil {
			continue
		}
		okCall, okErr := false, false
		var call *ssa.Call
		allInstrs(fn, func(in ssa.Instruction) {
			if c, ok := in.(*ssa.Call); ok && isCallTo(c, core) {
				call = c
				if paramIndexOf(c.Call.Args[0]) == 0 {
					okCall = true
				}
			}
		})
		if call != nil {
			// the error of the core call reaches a return
			allInstrs(fn, func(in ssa.Instruction) {
				if r, ok := in.(*ssa.Return); ok && len(r.Results) == 1 {
					w := map[ssa.Value]bool{}
					var reach func(v ssa.Value, d int) bool
					reach = func(v ssa.Value, d int) bool {
						if v == ssa.Value(call) {
							return true
						}
						if d > 6 || w[v] {
							return false
						}
						w[v] = true
						switch x := v.(type) {
						case *ssa.Phi:
							for _, e := range x.Edges {
								if reach(e, d+1) {
									return true
								}
							}
						case *ssa.Call:
							for _, a := range x.Call.Args {
								if reach(a, d+1) {
									return true
								}
							}
						case *ssa.MakeInterface:
							return reach(x.X, d+1)
						case *ssa.UnOp:
							return reach(x.X, d+1)
						case *ssa.Slice:
							return reach(x.X, d+1)
						case *ssa.Alloc:
							for _, u := range *x.Referrers() {
								if st, isS := u.(*ssa.Store); isS && st.Addr == ssa.Value(x) && reach(st.Val, d+1) {
									return true
								}
								if ia, ok := u.(*ssa.IndexAddr); ok {
									for _, uu := range *ia.Referrers() {
										if st, isS := uu.(*ssa.Store); isS && reach(st.Val, d+1) {
											return true
										}
									}
								}
							}
						}
						return false
					}
					if reach(r.Results[0], 0) {
						okErr = true
					}
				}
			})
		}
		cx.R.Check(okCall && okErr, rule, m[0], "delegates to "+m[1], cx.P.Pos(fn.Pos()), "the file variant works on the given cache and reports the stream variant's error")
		if m[0] == "SaveCacheToFile" {
			// the snapshot replaces what the file held: a file opened with os.OpenFile for saving is truncated (or must
			// not exist) - a shorter snapshot written over a longer one leaves the old tail behind the new stream, which
			// the loader then reads as further (corrupt) records
			allInstrs(fn, func(in ssa.Instruction) {
				c := calleeOf(in)
				if c == nil || c.Pkg == nil || c.Pkg.Pkg.Path() != "os" || c.Name() != "OpenFile" {
					return
				}
				a := callArgs(in)
				if len(a) < 2 {
					return
				}
				k, isK := constInt(a[1])
				const oTRUNC, oEXCL, oAPPEND = 0x200, 0x80, 0x400
				ok := isK && (k&oTRUNC != 0 || k&oEXCL != 0) && k&oAPPEND == 0
				cx.R.Check(ok, rule, m[0], "file opened for saving starts empty", cx.P.where(in), "os.OpenFile for the snapshot carries O_TRUNC (or O_EXCL) and not O_APPEND, as os.Create does")
			})
		}
	}
	_ = types.Typ
}

// ---------------------------------------------------------------------------------------------------------------
// C05.gettask: the replay task handed out carries exactly what the writer recorded
// ---------------------------------------------------------------------------------------------------------------

func ruleC05GetTask(cx *Ctx) {
	const rule = "C05.gettask"
	cx.R.Rule(rule, 2, "getTask returns, on every path (fresh or recycled object), a task whose node, old node, reason and cause are its four arguments; putTask clears all four before the object returns to the pool (a recycled task never carries a previous write)")
	gt := cx.need(rule, "", "cache", "getTask")
	if gt == nil {
		return
	}
	ps := newPathSum(cx)
	outs := ps.Run(gt, nil)
	a := newAgg(cx, rule, funcName(gt), cx.P.Pos(gt.Pos()))
	want := map[string]string{"n": "param:" + pname(bparam(gt, 1)), "old": "param:" + pname(bparam(gt, 2)), "writeReason": "param:" + pname(bparam(gt, 3)), "deletionCause": "param:" + pname(bparam(gt, 4))}
	n := 0
	for _, o := range outs {
		if o.Cut || o.Panic || len(o.Rets) != 1 {
			continue
		}
		n++
		obj := trimAmp(o.Rets[0])
		got := map[string]string{}
		for _, e := range o.S.trace {
			if (e.Kind == "FieldStore" || e.Kind == "LitStore") && len(e.Args) == 2 && strings.HasPrefix(e.Args[0], obj+".") {
				got[e.Args[0][len(obj)+1:]] = e.Args[1]
			}
		}
		for f, w := range want {
			a.check("field "+f+" is the argument", got[f] == w, "the task returned carries the argument in its field "+f, fmt.Sprintf("got %q want %q", got[f], w), o)
		}
	}
	a.flush()
	cx.R.Check(n >= 1, rule, funcName(gt), "returning paths", cx.P.Pos(gt.Pos()), fmt.Sprintf("%d", n))
	if pt := cx.need(rule, "", "cache", "putTask"); pt != nil {
		// on every path: all four fields hold a zero value when the object is handed to the pool (the clearing may live
		// in a helper; decided on the path summaries)
		fields := map[string]bool{}
		okZ := true
		var put ssa.Instruction
		allInstrs(pt, func(in ssa.Instruction) {
			if isStdMethod(in, "sync", "Pool", "Put") {
				put = in
			}
		})
		ps2 := newPathSum(cx)
		np := 0
		for _, o := range ps2.Run(pt, nil) {
			if o.Cut || o.Panic {
				continue
			}
			np++
			last := map[string]string{}
			putSeen := false
			for _, e := range o.S.trace {
				switch {
				case (e.Kind == "FieldStore" || e.Kind == "LitStore") && len(e.Args) == 2 && !putSeen:
					if k := strings.LastIndex(e.Args[0], "."); k >= 0 {
						last[e.Args[0][k+1:]] = e.Args[1]
					}
				case e.Kind == "PutTask":
					putSeen = true
				}
			}
			cleared := 0
			for _, f := range []string{"n", "old", "writeReason", "deletionCause"} {
				if v, ok := last[f]; ok && (v == "nil" || v == "const(0)" || v == "zero") {
					cleared++
					fields[f] = true
				}
			}
			if !putSeen || cleared != 4 {
				okZ = false
			}
		}
		if np == 0 {
			okZ = false
		}
		cx.R.Check(okZ && put != nil && len(fields) == 4, rule, funcName(pt), "all fields cleared before Put", cx.P.Pos(pt.Pos()), fmt.Sprintf("cleared %d of 4 fields", len(fields)))
	}
}

// ---------------------------------------------------------------------------------------------------------------
// C04.exit: size eviction gives up only when there is nothing left to examine
// ---------------------------------------------------------------------------------------------------------------

func ruleC04Exit(cx *Ctx) {
	const rule = "C04.exit"
	cx.R.Rule(rule, 1, "the eviction loop of evictFromMain is left only when weightedSize <= maximum or when both cursors are exhausted in the last queue: no counter, quota or other condition may end it while the cache is over its maximum (the overflow would stay until some later write)")
	fn := cx.need(rule, "", "policy", "evictFromMain")
	ws := cx.needField(rule, "", "policy", "weightedSize")
	mx := cx.needField(rule, "", "policy", "maximum")
	if fn == nil || ws == nil || mx == nil {
		return
	}
	isSizeGuard := func(v ssa.Value) (bool, bool) { // (is the guard, true means "over the maximum")
		b, ok := v.(*ssa.BinOp)
		if !ok {
			return false, false
		}
		fx, fy := fieldOf(b.X), fieldOf(b.Y)
		switch {
		case sameField(fx, ws) && sameField(fy, mx) && b.Op.String() == ">":
			return true, true
		case sameField(fx, mx) && sameField(fy, ws) && b.Op.String() == "<":
			return true, true
		case sameField(fx, ws) && sameField(fy, mx) && b.Op.String() == "<=":
			return true, false
		case sameField(fx, mx) && sameField(fy, ws) && b.Op.String() == ">=":
			return true, false
		}
		return false, false
	}
	// nilTests: the values a guard list shows to be nil (node.Equals(x, nil) true, x == nil true)
	nilShown := func(gs []Guard) int {
		n := 0
		for _, g := range gs {
			c, _ := stripNot(g.Cond)
			truth := g.Truth
			if c != g.Cond {
				truth = !truth
			}
			if call, ok := c.(*ssa.Call); ok && call.Call.StaticCallee() != nil && origin(call.Call.StaticCallee()).Name() == "Equals" && len(call.Call.Args) == 2 && isNilConst(stripConv(call.Call.Args[1])) && truth {
				n++
			}
			if _, isNil, ok := nilCmp(c); ok && isNil == truth {
				n++
			}
		}
		return n
	}
	var exitOK func(f *ssa.Function, from, to *ssa.BasicBlock, depth int) (bool, string)
	exitOK = func(f *ssa.Function, from, to *ssa.BasicBlock, depth int) (bool, string) {
		gs := append(append([]Guard{}, guardsAt(from)...), guardsOnEdge(from, to)...)
		for _, g := range gs {
			if is, over := isSizeGuard(g.Cond); is && over != g.Truth {
				return true, ""
			}
		}
		if nilShown(gs) >= 2 {
			return true, ""
		}
		// decided by a helper's result (if !scan.step() { break }): every "stop" result of the helper is justified the same way
		if depth < 2 {
			for _, g := range guardsOnEdge(from, to) {
				c, neg := stripNot(g.Cond)
				call, ok := c.(*ssa.Call)
				if !ok {
					continue
				}
				h := call.Call.StaticCallee()
				if h == nil {
					continue
				}
				h = origin(h)
				if h.Pkg == nil || !strings.HasPrefix(h.Pkg.Pkg.Path(), modPath) || len(h.Blocks) == 0 {
					continue
				}
				stop := g.Truth != neg // the boolean the helper returned on this edge
				all, n := true, 0
				allInstrs(h, func(in ssa.Instruction) {
					r, isR := in.(*ssa.Return)
					if !isR || len(r.Results) == 0 {
						return
					}
					last := r.Results[len(r.Results)-1]
					if b, isC := constBool(last); isC {
						if b != stop {
							return
						}
						n++
						gh := guardsAt(r.Block())
						okR := nilShown(gh) >= 2
						for _, x := range gh {
							if is, over := isSizeGuard(x.Cond); is && over != x.Truth {
								okR = true
							}
						}
						// ... or the helper delegates the decision once more
						if !okR {
							for _, x := range gh {
								if cc, isCall := x.Cond.(*ssa.Call); isCall && cc.Call.StaticCallee() != nil {
									okR = okR || false
								}
							}
						}
						if !okR {
							all = false
						}
					} else if ph, isPhi := last.(*ssa.Phi); isPhi {
						for i, e := range ph.Edges {
							if b, isC := constBool(e); isC && b == stop {
								n++
								ge := append(append([]Guard{}, guardsAt(ph.Block().Preds[i])...), guardsOnEdge(ph.Block().Preds[i], ph.Block())...)
								if nilShown(ge) < 2 {
									all = false
								}
							}
						}
					} else if cc, isCall := last.(*ssa.Call); isCall && cc.Call.StaticCallee() != nil {
						// return e.nextVictimQueue(): the callee's stop results, under this return's guards
						hh := origin(cc.Call.StaticCallee())
						if nilShown(guardsAt(r.Block())) >= 2 {
							n++ // whatever the delegate answers, both cursors are known to be exhausted here
							return
						}
						_ = hh
						all = false
					}
				})
				if all && n > 0 {
					return true, ""
				}
			}
		}
		return false, "exit " + blockDesc(from) + " -> " + blockDesc(to)
	}
	n := 0
	for _, b := range fn.Blocks {
		if len(b.Instrs) == 0 {
			continue
		}
		iff, ok := b.Instrs[len(b.Instrs)-1].(*ssa.If)
		if !ok {
			continue
		}
		if is, _ := isSizeGuard(iff.Cond); !is || !isLoopHeader(b) {
			continue
		}
		loop := naturalLoop(b)
		for u := range loop {
			for _, v := range u.Succs {
				if loop[v] {
					continue
				}
				n++
				ok, why := exitOK(fn, u, v, 0)
				cx.R.Check(ok, rule, funcName(fn), fmt.Sprintf("loop exit #%d", n), cx.P.where(u.Instrs[len(u.Instrs)-1]), "the loop is left only with weightedSize <= maximum or with both cursors nil ("+why+")")
			}
		}
	}
	cx.R.Check(n >= 1, rule, funcName(fn), "eviction loop found", cx.P.Pos(fn.Pos()), fmt.Sprintf("%d exit(s)", n))
}

// ---------------------------------------------------------------------------------------------------------------
// C15.sizecopy: the table's striped size counter across helpers and resizes
// ---------------------------------------------------------------------------------------------------------------

// stripeAddr: v is the address of a stripe's counter (&t.size[i].c), directly or as the result of a one-line accessor of
// the module; the IndexAddr that selects the stripe is returned.
func stripeAddr(v ssa.Value, cF *types.Var) (*ssa.IndexAddr, bool) {
	v = stripLoad(v)
	if fa, ok := v.(*ssa.FieldAddr); ok && sameField(fieldOf(fa), cF) {
		ia, _ := fa.X.(*ssa.IndexAddr)
		return ia, true
	}
	if c, ok := v.(*ssa.Call); ok && c.Call.StaticCallee() != nil {
		g := origin(c.Call.StaticCallee())
		if g.Pkg != nil && strings.HasPrefix(g.Pkg.Pkg.Path(), modPath) && len(g.Blocks) == 1 {
			var out *ssa.IndexAddr
			found := false
			allInstrs(g, func(y ssa.Instruction) {
				if r, isR := y.(*ssa.Return); isR && len(r.Results) == 1 {
					if fa, isF := r.Results[0].(*ssa.FieldAddr); isF && sameField(fieldOf(fa), cF) {
						out, _ = fa.X.(*ssa.IndexAddr)
						found = true
					}
				}
			})
			return out, found
		}
	}
	return nil, false
}

func ruleC15SizeCopy(cx *Ctx) {
	const rule = "C15.sizecopy"
	cx.R.Rule(rule, 4, "the striped size counter is written only by addSize / addSizePlain, which add their delta to the stripe (len(size)-1) & bucket index; sumSize adds up every stripe; a resize credits the new table with exactly the number of nodes each bucket copier reports - the reported size equals the number of keys once quiescent")
	cF := cx.needField(rule, hmPkg, "counterStripe", "c")
	if cF == nil {
		return
	}
	adders := map[*ssa.Function]bool{}
	for _, n := range []string{"addSize", "addSizePlain"} {
		fn := cx.need(rule, hmPkg, "mapTable", n)
		if fn == nil {
			continue
		}
		adders[origin(fn)] = true
		// the stripe index and the amount
		okIdx, okAmt := false, false
		allInstrs(fn, func(in ssa.Instruction) {
			var addr, amt ssa.Value
			if isPkgFunc(in, "sync/atomic", "AddInt64") {
				a := callCommon(in).Args
				addr, amt = a[0], a[1]
			}
			if st, ok := in.(*ssa.Store); ok {
				if _, isStripe := stripeAddr(st.Addr, cF); isStripe {
					if b, isB := st.Val.(*ssa.BinOp); isB && b.Op.String() == "+" {
						addr = st.Addr
						amt = b.Y
						if ld, isLd := b.Y.(*ssa.UnOp); isLd {
							if _, isS := stripeAddr(ld.X, cF); isS {
								amt = b.X
							}
						}
					}
				}
			}
			if addr == nil {
				return
			}
			ia, isStripe := stripeAddr(addr, cF)
			if !isStripe {
				return
			}
			if paramIndexOf(stripConv(amt)) == 2 {
				okAmt = true
			}
			if ia == nil {
				return
			}
			t := newInliningTermBuilder().of(ia.Index)
			// (len(size)-1) & bucketIdx
			if t.Op == "&" && len(t.Args) == 2 {
				for i := 0; i < 2; i++ {
					if strings.HasPrefix(t.Args[i].String(), "-(builtin:len(field:size(") && strings.HasSuffix(t.Args[i].String(), ",1)") && t.Args[1-i].Op == "v" {
						okIdx = true
					}
				}
			}
			// the same stripe spelled as a remainder: bucketIdx % len(size) (in range for every length)
			if t.Op == "%" && len(t.Args) == 2 && t.Args[0].Op == "v" && strings.HasPrefix(t.Args[1].String(), "builtin:len(field:size(") {
				okIdx = true
			}
		})
		cx.R.Check(okIdx && okAmt, rule, "hashmap.(*mapTable)."+n, "adds delta to stripe (len-1) & bucket", cx.P.Pos(fn.Pos()), fmt.Sprintf("index ok %v, amount is the delta %v", okIdx, okAmt))
	}
	// census of writers
	for _, f := range cx.P.FuncsOfPkg(hmPkg) {
		allInstrs(f, func(in ssa.Instruction) {
			w := false
			if st, ok := in.(*ssa.Store); ok {
				if _, isS := stripeAddr(st.Addr, cF); isS {
					w = true
				}
			}
			if isPkgFunc(in, "sync/atomic", "AddInt64") || isPkgFunc(in, "sync/atomic", "StoreInt64") || isPkgFunc(in, "sync/atomic", "SwapInt64") {
				if _, isS := stripeAddr(callCommon(in).Args[0], cF); isS {
					w = true
				}
			}
			if !w {
				return
			}
			// a stripe accessor's caller writes through the returned pointer: the store is in the adder itself
			cx.R.Check(adders[origin(outermost(f))], rule, funcName(f), "writer of the size counter", cx.P.where(in), "only addSize / addSizePlain change a stripe of the size counter")
		})
	}
	// sumSize walks every stripe
	if ss := cx.need(rule, hmPkg, "mapTable", "sumSize"); ss != nil {
		okS := false
		allInstrs(ss, func(in ssa.Instruction) {
			var addr ssa.Value
			if isPkgFunc(in, "sync/atomic", "LoadInt64") {
				addr = callCommon(in).Args[0]
			} else if ld, ok := in.(*ssa.UnOp); ok && sameField(fieldOf(ld.X), cF) {
				addr = ld.X
			}
			if addr == nil || !sameField(fieldOf(addr), cF) {
				return
			}
			fa, _ := stripLoad(addr).(*ssa.FieldAddr)
			if fa == nil {
				return
			}
			if ia, isIA := fa.X.(*ssa.IndexAddr); isIA {
				if iv, first, bound, ok := indexInduction(ia.Index); ok && first == 0 {
					if bc, isC := bound.(*ssa.Call); isC && isBuiltinCall(bc, "len") && sameField(fieldOf(bc.Call.Args[0]), fieldOf(ia.X)) {
						// every iteration adds its stripe: the load dominates every back edge of the loop
						every := true
						var hdr *ssa.BasicBlock
						if ph, isPhi := iv.(*ssa.Phi); isPhi {
							hdr = ph.Block()
						} else if b, isB := iv.(*ssa.BinOp); isB {
							if ph, isPhi := b.X.(*ssa.Phi); isPhi {
								hdr = ph.Block()
							}
						}
						if hdr != nil {
							loop := naturalLoop(hdr)
							for _, p := range hdr.Preds {
								if loop[p] && !in.Block().Dominates(p) {
									every = false
								}
							}
						}
						okS = every
					}
				}
			}
		})
		cx.R.Check(okS, rule, "hashmap.(*mapTable).sumSize", "sums stripes 0..len-1", cx.P.Pos(ss.Pos()), "the size is the sum of every stripe")
	}
	// resize: what a copier reports is what the new table is credited with
	n := 0
	for _, f := range cx.P.FuncsOfPkg(hmPkg) {
		f := f
		allInstrs(f, func(in ssa.Instruction) {
			c := calleeOf(in)
			if c == nil || !strings.HasPrefix(cname(c), "copyBucket") {
				return
			}
			n++
			v, isV := in.(ssa.Value)
			credited := false
			if isV {
				for _, u := range usesOf(v) {
					if g := calleeOf(u); g != nil && adders[origin(g)] {
						a := callArgs(u)
						if len(a) > 0 && a[len(a)-1] == v {
							credited = true
						}
					}
				}
			}
			cx.R.Check(credited, rule, funcName(f), fmt.Sprintf("copier #%d result credited", n), cx.P.where(in), "the number of nodes a bucket copier reports is added to the new table's size counter")
		})
	}
	cx.R.Check(n >= 1, rule, "hashmap", "bucket copier calls found", "-", fmt.Sprintf("%d", n))
}

// ---------------------------------------------------------------------------------------------------------------
// C15.srcreadonly: a resize never writes the table it copies from
// ---------------------------------------------------------------------------------------------------------------

func ruleC15SrcReadOnly(cx *Ctx) {
	const rule = "C15.srcreadonly"
	cx.R.Rule(rule, 2, "the bucket copiers of resize only read the source chain: no slot, meta word or link of a source bucket is stored to (lock-free readers and iterations that started before the resize keep using the old table)")
	n := 0
	for _, fn := range cx.P.FuncsOfPkg(hmPkg) {
		if fn.Parent() != nil || !strings.HasPrefix(cname(fn), "copyBucket") {
			continue
		}
		// the source bucket parameter: the *bucketPadded parameter (the destination is a table)
		var src ssa.Value
		for _, p := range fn.Params {
			if namedTypeName(derefType(p.Type())) == "bucketPadded" {
				src = p
			}
		}
		if src == nil {
			continue
		}
		n++
		derived := map[ssa.Value]bool{src: true}
		rootOf := func(v ssa.Value) ssa.Value {
			for {
				switch x := v.(type) {
				case *ssa.FieldAddr:
					v = x.X
					continue
				case *ssa.IndexAddr:
					v = x.X
					continue
				}
				return v
			}
		}
		for changed := true; changed; {
			changed = false
			allInstrs(fn, func(in ssa.Instruction) {
				v, isV := in.(ssa.Value)
				if !isV || derived[v] {
					return
				}
				switch x := in.(type) {
				case *ssa.Phi:
					for _, e := range x.Edges {
						if derived[e] {
							derived[v], changed = true, true
						}
					}
				case *ssa.Call:
					if isStdMethod(x, "sync/atomic", "", "Load") && derived[rootOf(recvValue(x))] {
						derived[v], changed = true, true
					}
				}
			})
		}
		bad := ""
		var writes func(f *ssa.Function, d map[ssa.Value]bool, depth int)
		writes = func(f *ssa.Function, d map[ssa.Value]bool, depth int) {
			allInstrs(f, func(in ssa.Instruction) {
				switch x := in.(type) {
				case *ssa.Store:
					if d[rootOf(x.Addr)] {
						bad = "store at " + cx.P.where(in)
					}
				case *ssa.Call:
					cc := x.Common()
					if c := cc.StaticCallee(); c != nil {
						name := origin(c).Name()
						pkg := ""
						if oc := origin(c); oc.Pkg != nil {
							pkg = oc.Pkg.Pkg.Path()
						} else if c.Pkg != nil {
							pkg = c.Pkg.Pkg.Path()
						}
						if pkg == "sync/atomic" && (strings.HasPrefix(name, "Store") || strings.HasPrefix(name, "Swap") || strings.HasPrefix(name, "CompareAndSwap") || strings.HasPrefix(name, "Add")) && len(cc.Args) > 0 && d[rootOf(cc.Args[0])] {
							bad = "atomic " + name + " at " + cx.P.where(in)
						}
						// a helper of the package handed a source bucket: it must not write it either
						if strings.HasSuffix(pkg, hmPkg) && depth < 2 && len(origin(c).Blocks) > 0 {
							d2 := map[ssa.Value]bool{}
							for i, a := range cc.Args {
								if d[a] && i < len(origin(c).Params) {
									d2[origin(c).Params[i]] = true
								}
							}
							if len(d2) > 0 {
								writes(origin(c), d2, depth+1)
							}
						}
					}
				}
			})
		}
		writes(fn, derived, 0)
		cx.R.Check(bad == "", rule, funcName(fn), "source chain is only read", cx.P.Pos(fn.Pos()), "the copier writes nothing into the bucket chain it copies from "+bad)
	}
	cx.R.Check(n >= 1, rule, "hashmap", "bucket copiers found", "-", fmt.Sprintf("%d", n))
}

// ---------------------------------------------------------------------------------------------------------------
// C17.bound: the stripe table is doubled only below its maximum
// ---------------------------------------------------------------------------------------------------------------

func ruleC17Bound(cx *Ctx) {
	const rule = "C17.bound"
	cx.R.Rule(rule, 1, "the table that is doubled is one whose length was tested to be below maxLen on the path - the very value, a value compared equal to it, or (in a helper) the argument of every call - so the read buffer never holds more than its fixed number of stripes")
	lenF := cx.needField(rule, lossyPkg, "striped", "len")
	maxF := cx.needField(rule, lossyPkg, "Striped", "maxLen")
	if lenF == nil || maxF == nil {
		return
	}
	// below(v, at): on every path to `at` the table value v has len < maxLen
	var below func(v ssa.Value, at ssa.Instruction, depth int) bool
	below = func(v ssa.Value, at ssa.Instruction, depth int) bool {
		if depth > 3 {
			return false
		}
		gs := guardsAt(at.Block())
		lenOf := func(x ssa.Value) ssa.Value { // x = T.len -> T
			x = stripConv(x)
			if ld, ok := x.(*ssa.UnOp); ok {
				if fa, isFA := ld.X.(*ssa.FieldAddr); isFA && sameField(fieldOf(fa), lenF) {
					return fa.X
				}
			}
			return nil
		}
		isMax := func(x ssa.Value) bool { f := fieldOf(stripConv(x)); return f != nil && sameField(f, maxF) }
		for _, g := range gs {
			b, ok := g.Cond.(*ssa.BinOp)
			if !ok {
				continue
			}
			var t ssa.Value
			lt := false // the guard establishes len < max
			switch {
			case lenOf(b.X) != nil && isMax(b.Y):
				t = lenOf(b.X)
				lt = (b.Op.String() == ">=" && !g.Truth) || (b.Op.String() == "<" && g.Truth)
			case lenOf(b.Y) != nil && isMax(b.X):
				t = lenOf(b.Y)
				lt = (b.Op.String() == "<=" && !g.Truth) || (b.Op.String() == ">" && g.Truth)
			}
			if t != nil && lt && t == v {
				return true
			}
		}
		// compared equal to a value that is below
		for _, g := range gs {
			b, ok := g.Cond.(*ssa.BinOp)
			if !ok || !((b.Op.String() == "==" && g.Truth) || (b.Op.String() == "!=" && !g.Truth)) {
				continue
			}
			var other ssa.Value
			if b.X == v {
				other = b.Y
			} else if b.Y == v {
				other = b.X
			}
			if other != nil && below(other, at, depth+1) {
				return true
			}
		}
		// a parameter: every call site passes a table that is below there
		if p, ok := v.(*ssa.Parameter); ok {
			f := p.Parent()
			idx := -1
			for i, q := range f.Params {
				if q == p {
					idx = i
				}
			}
			sites, all := 0, true
			for _, g := range cx.P.FuncsOfPkg(lossyPkg) {
				allInstrs(g, func(in ssa.Instruction) {
					if isCallTo(in, f) {
						sites++
						cc := callCommon(in)
						if idx >= len(cc.Args) || !below(cc.Args[idx], in, depth+1) {
							all = false
						}
					}
				})
			}
			return sites > 0 && all
		}
		return false
	}
	n := 0
	for _, fn := range cx.P.FuncsOfPkg(lossyPkg) {
		fn := fn
		allInstrs(fn, func(in ssa.Instruction) {
			// len * 2 of some table
			b, ok := in.(*ssa.BinOp)
			if !ok {
				return
			}
			dbl := false
			if k, isK := constInt(b.Y); isK && ((b.Op.String() == "<<" && k == 1) || (b.Op.String() == "*" && k == 2)) {
				dbl = true
			}
			if k, isK := constInt(b.X); isK && b.Op.String() == "*" && k == 2 {
				dbl = true
			}
			if !dbl {
				return
			}
			var tbl ssa.Value
			for _, side := range []ssa.Value{b.X, b.Y} {
				if ld, isLd := stripConv(side).(*ssa.UnOp); isLd {
					if fa, isFA := ld.X.(*ssa.FieldAddr); isFA && sameField(fieldOf(fa), lenF) {
						tbl = fa.X
					}
				}
			}
			if tbl == nil {
				return
			}
			n++
			cx.R.Check(below(tbl, in, 0), rule, funcName(fn), fmt.Sprintf("doubling #%d", n), cx.P.where(in), "the table whose length is doubled was tested to be shorter than maxLen on this path")
		})
	}
	cx.R.Check(n >= 1, rule, "lossy", "doubling found", "-", fmt.Sprintf("%d", n))
}

// ---------------------------------------------------------------------------------------------------------------
// C17.delivered: maintenance hands every recorded read to the policies, in every configuration
// ---------------------------------------------------------------------------------------------------------------

func ruleC17Delivered(cx *Ctx) {
	const rule = "C17.delivered"
	cx.R.Rule(rule, 2, "where maintenance drains the read buffer it does so on every path on which skipReadBuffer answered false, whatever the configuration, and the consumer is cache.onAccess (or the eviction policy's access handler where expiration is known to be off): every successfully recorded read is delivered when maintenance runs")
	skip := cx.need(rule, "", "cache", "skipReadBuffer")
	drain := cx.need(rule, lossyPkg, "Striped", "DrainTo")
	onAcc := cx.need(rule, "", "cache", "onAccess")
	if skip == nil || drain == nil || onAcc == nil {
		return
	}
	rb := cx.P.Field("", "cache", "readBuffer")
	polAcc := cx.P.Func("", "policy", "access")
	// a delivering drain: DrainTo on the cache's read buffer with a consumer that does something (InvalidateAll discards
	// the recorded reads of entries it removes with an empty consumer)
	isDrain := func(in ssa.Instruction) bool {
		if !isCallTo(in, drain) || (rb != nil && !sameField(recvField(in), rb)) {
			return false
		}
		a := callArgs(in)
		emptyFn := func(f *ssa.Function) bool {
			// a consumer that does nothing: a literal, or a named (possibly generic) function with an empty body
			f = origin(f)
			if f == nil || len(f.Blocks) != 1 {
				return false
			}
			for _, x := range f.Blocks[0].Instrs {
				switch x.(type) {
				case *ssa.Return, *ssa.DebugRef:
				default:
					return false
				}
			}
			return true
		}
		if mc, ok := a[len(a)-1].(*ssa.MakeClosure); ok && boundMethod(mc) == nil {
			if cl, _ := mc.Fn.(*ssa.Function); cl != nil && emptyFn(cl) {
				return false
			}
		}
		if cl, ok := a[len(a)-1].(*ssa.Function); ok && emptyFn(cl) {
			return false
		}
		return true
	}
	n := 0
	for _, fn := range cx.P.FuncsOfPkg("") {
		fn := fn
		has := false
		allInstrs(fn, func(in ssa.Instruction) {
			if isDrain(in) {
				has = true
			}
		})
		if !has {
			continue
		}
		allInstrs(fn, func(in ssa.Instruction) {
			if !isDrain(in) {
				return
			}
			n++
			a := callArgs(in)
			cons := a[len(a)-1]
			ok := false
			if mc, isMC := cons.(*ssa.MakeClosure); isMC {
				if bm := boundMethod(mc); bm != nil {
					switch {
					case origin(bm) == origin(onAcc):
						ok = true
					case polAcc != nil && origin(bm) == origin(polAcc):
						for _, g := range guardsAt(in.Block()) {
							if f := fieldOf(g.Cond); f != nil && fname(f) == "withExpiration" && !g.Truth {
								ok = true
							}
						}
					}
				}
			}
			cx.R.Check(ok, rule, funcName(fn), fmt.Sprintf("consumer #%d", n), cx.P.where(in), "the drained reads go to cache.onAccess (policy access + timer reschedule)")
		})
		found := false
		allInstrs(fn, func(in ssa.Instruction) {
			if !isCallTo(in, skip) {
				return
			}
			v, _ := in.(ssa.Value)
			for _, u := range usesOf(v) {
				var iff *ssa.If
				neg := false
				switch x := u.(type) {
				case *ssa.If:
					iff = x
				case *ssa.UnOp:
					for _, uu := range usesOf(x) {
						if y, isIf := uu.(*ssa.If); isIf {
							iff, neg = y, true
						}
					}
				}
				if iff == nil {
					continue
				}
				found = true
				notSkipped := iff.Block().Succs[1]
				if neg {
					notSkipped = iff.Block().Succs[0]
				}
				// within the region the negative answer leads into, the drain comes first
				ok, wit := MustFollowPt(Pt{notSkipped, 0}, isDrain, exitReturn, nil)
				cx.R.Check(ok, rule, funcName(fn), "drains whenever the buffer is in use", cx.P.where(in), "every path on which skipReadBuffer is false reaches DrainTo", wit...)
			}
		})
		if !found {
			ok, wit := MustFollowPt(Pt{fn.Blocks[0], 0}, isDrain, exitReturn, nil)
			cx.R.Check(ok, rule, funcName(fn), "drains whenever the buffer is in use", cx.P.Pos(fn.Pos()), "every path of the draining step reaches DrainTo", wit...)
		}
	}
	cx.R.Check(n >= 1, rule, "cache", "delivering drain found", "-", fmt.Sprintf("%d", n))
}

// ---------------------------------------------------------------------------------------------------------------
// X.math: the arithmetic helpers every size / mask computation rests on
// ---------------------------------------------------------------------------------------------------------------

func ruleXMath(cx *Ctx) {
	const rule = "C16.math"
	cx.R.Rule(rule, 3, "xmath.RoundUpPowerOf2 / RoundUpPowerOf264 smear the highest set bit of v-1 over all lower bits (shifts 1, 2, 4, ... up to half the width) and add 1, returning 1 for 0 - every table length, stripe count and queue capacity that is used with a length-1 mask comes from them; xmath.Abs negates exactly the negative arguments")
	for _, d := range []struct {
		name   string
		shifts []uint64
	}{{"RoundUpPowerOf2", []uint64{1, 2, 4, 8, 16}}, {"RoundUpPowerOf264", []uint64{1, 2, 4, 8, 16, 32}}} {
		fn := cx.need(rule, "internal/xmath", "", d.name)
		if fn == nil {
			continue
		}
		// expected: t0 = v-1; t_{k+1} = t_k | (t_k >> s_k); result t_n + 1
		t := mk("-", tVar("param0"), tConst(1))
		for _, sft := range d.shifts {
			t = mk("|", t, mk(">>", t, tConst(sft)))
		}
		want := mk("+", t, tConst(1)).String()
		okMain, okZero, n := false, false, 0
		allInstrs(fn, func(in ssa.Instruction) {
			r, ok := in.(*ssa.Return)
			if !ok || len(r.Results) != 1 {
				return
			}
			n++
			if c, isC := constUint(r.Results[0]); isC {
				if c == 1 {
					for _, g := range guardsAt(r.Block()) {
						if x, k, isEq, okc := eqConst(g.Cond); okc && k == 0 && isEq == g.Truth && paramIndexOf(x) == 0 {
							okZero = true
						}
					}
				}
				return
			}
			got := newTermBuilder().of(r.Results[0]).String()
			if got == want {
				okMain = true
			}
			// the same number spelled with the bit length: 1 << bits.Len(v-1)
			for _, ln := range []string{"call:Len32", "call:Len64", "call:Len"} {
				if got == mk("<<", tConst(1), mk(ln, mk("-", tVar("param0"), tConst(1)))).String() {
					okMain = true
				}
			}
		})
		detail := ""
		if !(okMain && okZero && n == 2) {
			// any other spelling (loop over the shift, helper shared by the two widths): the function as a decision list
			paths, bad := symRun(fn, []*Term{tVar("param0")}, 400)
			detail = bad
			zero, nonzero, other := 0, 0, 0
			for _, p := range paths {
				isZero, known := false, false
				if len(p.Conds) == 1 && len(p.Conds[0].T.Args) == 2 {
					c := p.Conds[0]
					a, b := c.T.Args[0], c.T.Args[1]
					if a.isConst() {
						a, b = b, a
					}
					if a.String() == "param0" && b.isConst() && b.C == 0 && (c.T.Op == "==" || c.T.Op == "!=") {
						known, isZero = true, (c.T.Op == "==") == c.Truth
					}
				}
				switch {
				case known && isZero && len(p.Rets) == 1 && p.Rets[0].isConst() && p.Rets[0].C == 1:
					zero++
				case known && !isZero && len(p.Rets) == 1 && p.Rets[0].String() == want:
					nonzero++
				default:
					other++
					if len(p.Rets) == 1 {
						detail = "a path returns " + p.Rets[0].String()
					}
				}
			}
			if bad == "" && zero == 1 && nonzero == 1 && other == 0 {
				okMain, okZero, n = true, true, 2
			}
		}
		cx.R.Check(okMain && okZero && n == 2, rule, "xmath."+d.name, "bit smear + 1, and 1 for 0", cx.P.Pos(fn.Pos()), "the result is the next power of two >= v "+detail)
	}
	if fn := cx.need(rule, "internal/xmath", "", "Abs"); fn != nil {
		okNeg, okPos, n := false, false, 0
		allInstrs(fn, func(in ssa.Instruction) {
			r, ok := in.(*ssa.Return)
			if !ok || len(r.Results) != 1 {
				return
			}
			n++
			neg := func(gs []Guard) (bool, bool) { // (guard found, argument known negative)
				for _, g := range gs {
					if b, isB := g.Cond.(*ssa.BinOp); isB && paramIndexOf(b.X) == 0 {
						if k, isK := constInt(b.Y); isK && k == 0 {
							switch b.Op.String() {
							case "<":
								return true, g.Truth
							case ">=":
								return true, !g.Truth
							}
						}
					}
				}
				return false, false
			}
			found, isNeg := neg(guardsAt(r.Block()))
			if u, isU := r.Results[0].(*ssa.UnOp); isU && u.Op.String() == "-" && paramIndexOf(u.X) == 0 {
				okNeg = found && isNeg
			} else if paramIndexOf(r.Results[0]) == 0 {
				okPos = found && !isNeg
			}
		})
		cx.R.Check(okNeg && okPos && n == 2, rule, "xmath.Abs", "-a exactly for a < 0", cx.P.Pos(fn.Pos()), "the absolute value negates the negative arguments and only those")
	}
}

// ---------------------------------------------------------------------------------------------------------------
// C18.handoff: the window's candidate is the one that contests the main space
// ---------------------------------------------------------------------------------------------------------------

func ruleC18Handoff(cx *Ctx) {
	const rule = "C18.handoff"
	cx.R.Rule(rule, 1, "evictNodes hands the candidate evictFromWindow returned to evictFromMain, together with the eviction callback it was given: the entries that left the window are the ones the admission contest is about")
	fn := cx.need(rule, "", "policy", "evictNodes")
	efw := cx.need(rule, "", "policy", "evictFromWindow")
	efm := cx.need(rule, "", "policy", "evictFromMain")
	if fn == nil || efw == nil || efm == nil {
		return
	}
	ok := false
	allInstrs(fn, func(in ssa.Instruction) {
		if !isCallTo(in, efm) {
			return
		}
		a := callArgs(in)
		if len(a) >= 2 {
			if c, isC := a[0].(*ssa.Call); isC && isCallTo(c, efw) && paramIndexOf(a[1]) == 1 {
				ok = true
			}
		}
	})
	cx.R.Check(ok, rule, funcName(fn), "candidate and callback handed on", cx.P.Pos(fn.Pos()), "evictFromMain(evictFromWindow(), evictNode)")
}

// ---------------------------------------------------------------------------------------------------------------
// C05.views: the derived views read the bookkeeping they are named after
// ---------------------------------------------------------------------------------------------------------------

func ruleC05Views(cx *Ctx) {
	const rule = "C05.views"
	cx.R.Rule(rule, 3, "EstimatedSize is the table's Size(), WeightedSize is the policy's weightedSize (0 for an unweighted cache), GetMaximum is the policy's maximum (the largest value without a size bound), each returned unchanged")
	if fn := cx.need(rule, "", "cache", "EstimatedSize"); fn != nil {
		size := cx.P.Func(hmPkg, "Map", "Size")
		hm := cx.P.Field("", "cache", "hashmap")
		ok, n := true, 0
		allInstrs(fn, func(in ssa.Instruction) {
			if r, isR := in.(*ssa.Return); isR && len(r.Results) == 1 {
				n++
				c, isC := stripConv(r.Results[0]).(*ssa.Call)
				if !isC || size == nil || !isCallTo(c, size) || (hm != nil && !sameField(recvField(c), hm)) {
					ok = false
				}
			}
		})
		cx.R.Check(ok && n > 0, rule, funcName(fn), "returns the table's size", cx.P.Pos(fn.Pos()), "EstimatedSize() is hashmap.Size()")
	}
	for _, v := range []struct{ m, field string }{{"WeightedSize", "weightedSize"}, {"GetMaximum", "maximum"}} {
		fn := cx.need(rule, "", "cache", v.m)
		if fn == nil {
			continue
		}
		ok, n := true, 0
		allInstrs(fn, func(in ssa.Instruction) {
			r, isR := in.(*ssa.Return)
			if !isR || len(r.Results) != 1 {
				return
			}
			n++
			var chk func(x ssa.Value, d int)
			chk = func(x ssa.Value, d int) {
				x = stripConv(x)
				if d > 4 {
					ok = false
					return
				}
				switch y := x.(type) {
				case *ssa.Const:
					// the fixed answer of a cache without the feature
				case *ssa.Phi:
					for _, e := range y.Edges {
						chk(e, d+1)
					}
				case *ssa.UnOp:
					f := fieldOf(y)
					if f == nil || fname(f) != v.field || ownerName(fieldOwnerOfValue(y.X)) != "policy" {
						// a local the field was read into
						if al, isAl := y.X.(*ssa.Alloc); isAl {
							if w := wholeStore(al); w != nil {
								chk(w, d+1)
								return
							}
						}
						ok = false
					}
				case *ssa.Call:
					// read through a helper (readPolicy(func)): the helper's results
					if g := y.Call.StaticCallee(); g != nil && len(origin(g).Blocks) > 0 && strings.HasPrefix(origin(g).Pkg.Pkg.Path(), modPath) {
						w := newDepWalker(false, "policy")
						w.intoCallees = true
						w.walk(y)
						for _, a := range y.Call.Args {
							if cl := closureOf(a); cl != nil {
								if len(cl.Blocks) == 0 && origin(cl) != nil {
									cl = origin(cl) // a method expression of the generic policy type
								}
								allInstrs(cl, func(z ssa.Instruction) {
									if rr, isRR := z.(*ssa.Return); isRR {
										for _, res := range rr.Results {
											w.walk(res)
										}
									}
								})
							}
						}
						ks := w.keys()
						if len(ks) != 1 || ks[0] != v.field {
							ok = false
						}
						return
					}
					ok = false
				default:
					ok = false
				}
			}
			chk(r.Results[0], 0)
		})
		cx.R.Check(ok && n > 0, rule, funcName(fn), "returns the policy's "+v.field, cx.P.Pos(fn.Pos()), v.m+"() is evictionPolicy."+v.field+" (a constant without the feature)")
	}
}

// ---------------------------------------------------------------------------------------------------------------
// C08.wait: the record's wait / release primitives
// ---------------------------------------------------------------------------------------------------------------

func ruleC08Wait(cx *Ctx) {
	const rule = "C08.wait"
	cx.R.Rule(rule, 2, "call.wait blocks on the record's wait group on every path (a waiter never reads a result before the load finished); call.cancel releases the wait group exactly once on every path of a real record and never for a synthetic one")
	wgF := cx.needField(rule, "", "call", "wg")
	if wgF == nil {
		return
	}
	if w := cx.need(rule, "", "call", "wait"); w != nil {
		isWait := func(in ssa.Instruction) bool {
			return isStdMethod(in, "sync", "WaitGroup", "Wait") && sameField(recvField(in), wgF)
		}
		ok, wit := MustFollowPt(Pt{w.Blocks[0], 0}, isWait, exitReturn, nil)
		cx.R.Check(ok, rule, funcName(w), "waits on every path", cx.P.Pos(w.Pos()), "every returning path of wait passed wg.Wait()", wit...)
	}
	if c := cx.need(rule, "", "call", "cancel"); c != nil {
		isDone := func(in ssa.Instruction) bool {
			return isStdMethod(in, "sync", "WaitGroup", "Done") && sameField(recvField(in), wgF)
		}
		// every acyclic path of cancel: which way the synthetic-record test went on it, and how many releases it made
		ok := true
		var wit []string
		n := 0
		var walk func(b *ssa.BasicBlock, onPath map[*ssa.BasicBlock]bool, fake int, done int, trail []string)
		walk = func(b *ssa.BasicBlock, onPath map[*ssa.BasicBlock]bool, fake int, done int, trail []string) {
			if onPath[b] || n > 64 {
				return
			}
			onPath[b] = true
			defer delete(onPath, b)
			trail = append(trail, blockDesc(b))
			for _, in := range b.Instrs {
				if isDone(in) {
					done++
				}
				switch x := in.(type) {
				case *ssa.Return:
					n++
					want := 1
					if fake == 1 {
						want = 0
					}
					if fake == 0 || done != want {
						ok, wit = false, append([]string(nil), trail...)
					}
				case *ssa.If:
					cond, neg := stripNot(x.Cond)
					isTest := false
					if f := fieldOf(cond); f != nil && fname(f) == "isFake" {
						isTest = true
					}
					for k, s := range b.Succs {
						fk := fake
						if isTest {
							truth := (k == 0) != neg
							if truth {
								fk = 1
							} else {
								fk = -1
							}
						}
						walk(s, onPath, fk, done, trail)
					}
				case *ssa.Jump:
					walk(b.Succs[0], onPath, fake, done, trail)
				}
			}
		}
		walk(c.Blocks[0], map[*ssa.BasicBlock]bool{}, 0, 0, nil)
		cx.R.Check(ok && n > 0, rule, funcName(c), "releases once unless synthetic", cx.P.Pos(c.Pos()), "cancel calls wg.Done() exactly once for a real record and not at all for a synthetic one", wit...)
	}
}

// ---------------------------------------------------------------------------------------------------------------
// C13.findbucket: the level a timer is filed under
// ---------------------------------------------------------------------------------------------------------------

// ruleC13FindBucket: findBucket walks the levels from the finest one and files the timer under the first level whose
// next span exceeds the remaining duration (deadline - wheel time), in the slot (deadline >> shift[level]) masked by
// the level's slot count; only when no level qualifies does the overflow slot wheel[last][0] take it. A timer filed
// under a coarser level than that is looked at only when that level's (much longer) tick passes - it would outlive its
// deadline by far more than one tick of the finest level.
func ruleC13FindBucket(cx *Ctx) {
	const rule = "C13.findbucket"
	cx.R.Rule(rule, 2, "findBucket returns wheel[i][(deadline >> shift[i]) & (slots(i)-1)] for the first level i (counting from 0) with deadline - wheelTime < spans[i+1], and wheel[last][0] only when no level qualifies")
	fn := cx.need(rule, expPkg, "Variable", "findBucket")
	if fn == nil {
		return
	}
	tb := newTermBuilder()
	type retInfo struct {
		r    *ssa.Return
		t    *Term
		lvl  *Term
		slot *Term
	}
	var rets []retInfo
	allInstrs(fn, func(in ssa.Instruction) {
		r, ok := in.(*ssa.Return)
		if !ok || len(r.Results) != 1 {
			return
		}
		t := tb.of(r.Results[0])
		ri := retInfo{r: r, t: t}
		if t.Op == "index" && len(t.Args) == 2 && t.Args[0].Op == "index" && len(t.Args[0].Args) == 2 && t.Args[0].Args[0].String() == "field:wheel(param0)" {
			ri.lvl, ri.slot = t.Args[0].Args[1], t.Args[1]
		}
		rets = append(rets, ri)
	})
	nLevel, nOver := 0, 0
	for _, ri := range rets {
		if ri.lvl == nil {
			cx.R.Check(false, rule, funcName(fn), "result is a slot of the wheel", cx.P.where(ri.r), "findBucket returns a sentinel of the wheel (got "+trunc(ri.t.String(), 80)+")")
			continue
		}
		if strings.HasPrefix(ri.lvl.String(), "phi:") {
			nLevel++
			// the guard: duration < spans[level+1] holds
			okGuard, okDur := false, false
			for _, g := range guardsAt(ri.r.Block()) {
				c := tb.of(g.Cond)
				if len(c.Args) != 2 {
					continue
				}
				l, r, op, truth := c.Args[0], c.Args[1], c.Op, g.Truth
				if strings.HasPrefix(l.String(), "index(global:spans,") { // spans[i+1] op duration
					l, r = r, l
					op = map[string]string{"<": ">", ">": "<", "<=": ">=", ">=": "<="}[op]
				}
				if r.String() != mk("index", tVar("global:spans"), mk("+", ri.lvl, tConst(1))).String() {
					continue
				}
				if (op == "<" && truth) || (op == ">=" && !truth) {
					okGuard = true
					// duration is deadline - wheel time
					if l.Op == "-" && len(l.Args) == 2 && l.Args[1].String() == "field:time(param0)" {
						okDur = true
					}
					// ... the wheel time may be handed in by the callers: then every call site passes v.time
					if l.Op == "-" && len(l.Args) == 2 && l.Args[1].Op == "v" && strings.HasPrefix(l.Args[1].Name, "param") {
						pi := -1
						for i := range fn.Params {
							if l.Args[1].Name == fmt.Sprintf("param%d", i) {
								pi = i
							}
						}
						sites, all := 0, true
						for _, g := range cx.P.FuncsOfPkg(expPkg) {
							allInstrs(g, func(x ssa.Instruction) {
								if c := calleeOf(x); c != nil && origin(c) == origin(fn) {
									sites++
									as := callCommon(x).Args
									if pi < 0 || pi >= len(as) || !strings.HasPrefix(newTermBuilder().of(as[pi]).String(), "field:time(") {
										all = false
									}
								}
							})
						}
						if sites > 0 && all {
							okDur = true
						}
					}
				}
			}
			cx.R.Check(okGuard && okDur, rule, funcName(fn), "level chosen iff duration < spans[level+1]", cx.P.where(ri.r), "a level's slot is returned exactly under the test deadline - wheelTime < spans[level+1] for that level")
			// levels are tried from 0 upwards, one by one, up to the last but one
			var lvlV ssa.Value
			allInstrs(fn, func(in ssa.Instruction) {
				if ph, isPhi := in.(*ssa.Phi); isPhi && tb.of(ph).String() == ri.lvl.String() {
					lvlV = ph
				}
			})
			okInd := false
			if lvlV != nil {
				if _, first, bound, okI := indexInduction(lvlV); okI && first == 0 && bound != nil {
					bt := newTermBuilder().of(bound).String()
					okInd = bt == mk("-", mk("builtin:len", tVar("field:wheel(param0)")), tConst(1)).String()
				}
			}
			cx.R.Check(okInd, rule, funcName(fn), "levels tried in order from the finest", cx.P.where(ri.r), "the level runs from 0 up to (not including) the overflow level, one at a time")
			// the slot
			sl := ri.slot
			okSlot := false
			tickOK := func(sh *Term) bool {
				// the deadline's tick of this level: deadline >> shift[level], or deadline / spans[level] (C13.tables proves
				// spans[k] = 1 << shift[k])
				if len(sh.Args) != 2 {
					return false
				}
				return (sh.Op == ">>" && sh.Args[1].String() == mk("index", tVar("global:shift"), ri.lvl).String()) ||
					(sh.Op == "/" && sh.Args[1].String() == mk("index", tVar("global:spans"), ri.lvl).String())
			}
			if sl.Op == "%" && len(sl.Args) == 2 && tickOK(sl.Args[0]) {
				// modulo the slot count itself (a power of two by C13.tables)
				m := sl.Args[1].String()
				if m == mk("index", tVar("global:buckets"), ri.lvl).String() || m == mk("builtin:len", mk("index", tVar("field:wheel(param0)"), ri.lvl)).String() {
					okSlot = true
				}
			}
			if sl.Op == "&" && len(sl.Args) == 2 {
				for k := 0; k < 2; k++ {
					sh, ms := sl.Args[k], sl.Args[1-k]
					shOK := tickOK(sh)
					msOK := ms.String() == mk("-", mk("index", tVar("global:buckets"), ri.lvl), tConst(1)).String() ||
						ms.String() == mk("-", mk("builtin:len", mk("index", tVar("field:wheel(param0)"), ri.lvl)), tConst(1)).String()
					if shOK && msOK {
						okSlot = true
					}
				}
			}
			cx.R.Check(okSlot, rule, funcName(fn), "slot = (deadline >> shift[level]) & (slots-1)", cx.P.where(ri.r), "the slot inside the level is the deadline's tick of that level modulo the level's slot count (got "+trunc(sl.String(), 100)+")")
			continue
		}
		nOver++
		okO := ri.lvl.String() == mk("-", mk("builtin:len", tVar("field:wheel(param0)")), tConst(1)).String() && ri.slot.isConst() && ri.slot.C == 0
		// ... and only after every level was refused: the return is not reachable with a level test still open, i.e. it
		// is outside the loop - the loop header dominates it and it does not reach the header again
		cx.R.Check(okO, rule, funcName(fn), "overflow slot", cx.P.where(ri.r), "the fallback is wheel[last][0] (got "+trunc(ri.t.String(), 80)+")")
	}
	cx.R.Check(nLevel >= 1 && nOver == 1, rule, funcName(fn), "one level return, one overflow return", cx.P.Pos(fn.Pos()), fmt.Sprintf("%d level return(s), %d overflow return(s)", nLevel, nOver))
}

// ---------------------------------------------------------------------------------------------------------------
// C17.drainall: the striped buffer's drain visits every ring
// ---------------------------------------------------------------------------------------------------------------

// ruleC17DrainAll: Striped.DrainTo hands its consumer to the drain of every ring of the current stripe table: the ring
// index runs over 0..len-1 one by one, the drain of ring i is skipped only when that ring is not allocated yet, and the
// function returns early only when there is no stripe table at all. A ring the drain skips keeps its recorded reads
// until it overflows - they are never delivered.
func ruleC17DrainAll(cx *Ctx) {
	const rule = "C17.drainall"
	cx.R.Rule(rule, 2, "Striped.DrainTo calls ring.drainTo(consumer) for every allocated ring i in 0..len-1 of the stripe table it loaded, skipping only nil rings, and returns without draining only when there is no stripe table")
	fn := cx.need(rule, lossyPkg, "Striped", "DrainTo")
	rd := cx.need(rule, lossyPkg, "ring", "drainTo")
	if fn == nil || rd == nil {
		return
	}
	bufF := cx.P.Field(lossyPkg, "striped", "buffers")
	lenF := cx.P.Field(lossyPkg, "striped", "len")
	stripedF := cx.P.Field(lossyPkg, "Striped", "striped")
	// the stripe table: a load of s.striped
	isTable := func(v ssa.Value) bool {
		c, ok := stripConv(v).(*ssa.Call)
		return ok && isStdMethod(c, "sync/atomic", "Pointer", "Load") && sameField(recvField(c), stripedF)
	}
	isTableLen := func(v ssa.Value) bool {
		if v == nil {
			return false
		}
		if sameField(fieldOf(v), lenF) {
			return true
		}
		c, isC := v.(*ssa.Call)
		return isC && isBuiltinCall(c, "len") && sameField(fieldOf(c.Call.Args[0]), bufF)
	}
	n := 0
	allInstrs(fn, func(in ssa.Instruction) {
		if !isCallTo(in, rd) {
			return
		}
		n++
		// receiver: the ring loaded from buffers[i] of the table
		ring := recvValue(in)
		var idx ssa.Value
		okRecv := false
		if ld, isC := ring.(*ssa.Call); isC && isStdMethod(ld, "sync/atomic", "Pointer", "Load") {
			if ia, isIA := recvValue(ld).(*ssa.IndexAddr); isIA && sameField(fieldOf(ia.X), bufF) {
				if fa, isFA := stripLoad(ia.X).(*ssa.FieldAddr); isFA && isTable(fa.X) {
					idx, okRecv = ia.Index, true
				}
			}
		}
		cx.R.Check(okRecv, rule, funcName(fn), fmt.Sprintf("drain #%d receiver", n), cx.P.where(in), "the drained ring is buffers[i] of the stripe table loaded from the buffer")
		a := callArgs(in)
		cx.R.Check(len(a) == 1 && a[0] == ssa.Value(bparam(fn, 1)), rule, funcName(fn), fmt.Sprintf("drain #%d consumer", n), cx.P.where(in), "the ring is drained into DrainTo's own consumer")
		if !okRecv {
			return
		}
		// the index visits 0..len-1
		okInd := false
		if _, first, bound, okI := indexInduction(idx); okI && first == 0 && bound != nil {
			if sameField(fieldOf(bound), lenF) {
				okInd = true
			}
			if c, isC := bound.(*ssa.Call); isC && isBuiltinCall(c, "len") && sameField(fieldOf(c.Call.Args[0]), bufF) {
				okInd = true
			}
		}
		cx.R.Check(okInd, rule, funcName(fn), fmt.Sprintf("drain #%d visits every ring", n), cx.P.where(in), "the ring index runs from 0 to the stripe table's length, one at a time")
		// nothing but "this ring is nil", "no table", and the loop's own bound stands between entry and the drain
		bad := ""
		for _, g := range guardsAt(in.Block()) {
			if x, isEq, isNil := nilCmp(g.Cond); isNil && (x == ring || isTable(x)) {
				if isEq == g.Truth {
					bad = "the drain sits on the edge where the ring / table is nil (" + cx.P.where(g.If) + ")"
				}
				continue
			}
			if b, isB := g.Cond.(*ssa.BinOp); isB && (b.X == idx || b.Y == idx) {
				continue
			}
			if b, isB := g.Cond.(*ssa.BinOp); isB && (isTableLen(b.X) || isTableLen(b.Y)) {
				continue // the loop's pre-test on the table's length (an empty table has nothing to drain)
			}
			bad = newTermBuilder().of(g.Cond).String() + " at " + cx.P.where(g.If)
		}
		cx.R.Check(bad == "", rule, funcName(fn), fmt.Sprintf("drain #%d unconditional", n), cx.P.where(in), "a ring's drain is skipped only when the ring is nil "+bad)
	})
	if n == 0 {
		// the walk over the rings lives in a helper that is handed the draining closure (each(func(r) { r.drainTo(consumer) })):
		// the closure drains the ring it is given into DrainTo's consumer, and the helper calls it for buffers[i] of its
		// table, i from 0 to len, skipping only nil rings (the walk itself is also decided by C17.walk)
		withClosures(fn, func(cl *ssa.Function) {
			if cl == fn {
				return
			}
			allInstrs(cl, func(in ssa.Instruction) {
				if !isCallTo(in, rd) {
					return
				}
				_, ringIsParam := recvValue(in).(*ssa.Parameter)
				a := callArgs(in)
				consOK := false
				if len(a) == 1 {
					if fv, isFV := stripLoad(a[0]).(*ssa.FreeVar); isFV {
						// bound to DrainTo's consumer
						allInstrs(fn, func(x ssa.Instruction) {
							if mc, isMC := x.(*ssa.MakeClosure); isMC && mc.Fn == ssa.Value(cl) {
								for i, b := range mc.Bindings {
									if i < len(cl.FreeVars) && cl.FreeVars[i] == fv && stripLoad(b) == ssa.Value(bparam(fn, 1)) || (i < len(cl.FreeVars) && cl.FreeVars[i] == fv && b == ssa.Value(bparam(fn, 1))) {
										consOK = true
									}
									if al, isAl := b.(*ssa.Alloc); isAl && i < len(cl.FreeVars) && cl.FreeVars[i] == fv && wholeStore(al) == ssa.Value(bparam(fn, 1)) {
										consOK = true
									}
								}
							}
						})
					}
				}
				// the helper that receives the closure
				walkOK := false
				allInstrs(fn, func(x ssa.Instruction) {
					h := calleeOf(x)
					if h == nil || h.Pkg == nil || !strings.HasSuffix(h.Pkg.Pkg.Path(), lossyPkg) {
						return
					}
					passes := false
					for _, arg := range callCommon(x).Args {
						if mc, isMC := arg.(*ssa.MakeClosure); isMC && mc.Fn == ssa.Value(cl) {
							passes = true
						}
					}
					if !passes {
						return
					}
					oh := origin(h)
					allInstrs(oh, func(y ssa.Instruction) {
						cc := callCommon(y)
						if cc == nil || cc.IsInvoke() || cc.StaticCallee() != nil || len(cc.Args) != 1 {
							return
						}
						if _, isP := cc.Value.(*ssa.Parameter); !isP {
							return
						}
						ld, isC := cc.Args[0].(*ssa.Call)
						if !isC || !isStdMethod(ld, "sync/atomic", "Pointer", "Load") {
							return
						}
						ia, isIA := recvValue(ld).(*ssa.IndexAddr)
						if !isIA || !sameField(fieldOf(ia.X), bufF) {
							return
						}
						if _, first, bound, okI := indexInduction(ia.Index); okI && first == 0 && bound != nil && (sameField(fieldOf(bound), lenF) || isTableLen(bound)) {
							okG := true
							for _, g := range guardsAt(y.Block()) {
								if xv, _, isNil := nilCmp(g.Cond); isNil && (xv == ssa.Value(ld) || paramIndexOf(xv) == 0 || isTable(xv)) {
									continue
								}
								if b, isB := g.Cond.(*ssa.BinOp); isB && (b.X == ia.Index || b.Y == ia.Index || isTableLen(b.X) || isTableLen(b.Y)) {
									continue
								}
								okG = false
							}
							walkOK = okG
						}
					})
				})
				if os.Getenv("OTTERLINT_DEBUG") != "" {
					fmt.Fprintln(os.Stderr, "drainall tier2:", ringIsParam, consOK, walkOK)
				}
				if ringIsParam && consOK && walkOK {
					n++
					cx.R.OK(rule, funcName(fn), "drain through a walking helper", cx.P.where(in), "the closure drains the ring it is handed into DrainTo's consumer; the helper calls it for every non-nil ring 0..len-1")
				}
			})
		})
	}
	cx.R.Check(n >= 1, rule, funcName(fn), "rings are drained", cx.P.Pos(fn.Pos()), fmt.Sprintf("%d drain call(s)", n))
	// returns: before the loop only when there is no table
	allInstrs(fn, func(in ssa.Instruction) {
		r, ok := in.(*ssa.Return)
		if !ok {
			return
		}
		bad := ""
		for _, g := range guardsAt(r.Block()) {
			if x, isEq, isNil := nilCmp(g.Cond); isNil && isTable(x) {
				if isEq == g.Truth {
					continue // the edge on which there is no table
				}
				// with a table: fine after the walk - i.e. not reachable from the entry without passing one of the walk's
				// own tests (the loop condition, or its pre-test on the table's length)
				cut := map[edge]bool{}
				for _, b := range fn.Blocks {
					if len(b.Instrs) == 0 {
						continue
					}
					i, isIf := b.Instrs[len(b.Instrs)-1].(*ssa.If)
					if !isIf {
						continue
					}
					if bo, isB := i.Cond.(*ssa.BinOp); isB {
						_, _, _, indX := indexInduction(bo.X)
						_, _, _, indY := indexInduction(bo.Y)
						if isTableLen(bo.X) || isTableLen(bo.Y) || indX || indY {
							cut[edge{b, 0}] = true
							cut[edge{b, 1}] = true
						}
					}
				}
				if reachableBlocks(fn, cut)[r.Block()] {
					bad = "returns although a stripe table exists (" + cx.P.where(g.If) + ")"
				}
				continue
			}
			if b, isB := g.Cond.(*ssa.BinOp); isB {
				if _, _, _, okI := indexInduction(b.X); okI && !g.Truth {
					continue // the loop ran to its end
				}
				if _, _, _, okI := indexInduction(b.Y); okI {
					continue
				}
				if isTableLen(b.X) || isTableLen(b.Y) {
					continue
				}
			}
			bad = newTermBuilder().of(g.Cond).String() + " at " + cx.P.where(g.If)
		}
		cx.R.Check(bad == "", rule, funcName(fn), "returns", cx.P.where(r), "DrainTo returns early only when no stripe table exists "+bad)
	})
}

// ---------------------------------------------------------------------------------------------------------------
// C05.polunlink: a deleted node leaves its queue and its weight leaves the counters; a replacement inherits the queue
// ---------------------------------------------------------------------------------------------------------------

// queueOfPath: the queue the node is in according to the path's predicates ("" when they do not decide it).
func queueOfPath(o *psOutcome, n string) string {
	preds := []struct{ atom, q string }{{"InWindow(" + n + ")", "window"}, {"InMainProbation(" + n + ")", "probation"}, {"InMainProtected(" + n + ")", "protected"}}
	var falses []string
	for _, p := range preds {
		if v, k := predOf(o, p.atom); k {
			if v {
				return p.q
			}
			falses = append(falses, p.q)
		}
	}
	if len(falses) == 2 {
		for _, p := range preds {
			if p.q != falses[0] && p.q != falses[1] {
				return p.q
			}
		}
	}
	if len(falses) == 3 {
		// none of the three tags (a node that was never linked; infeasible for a linked one): the policy's selection
		// "neither window nor probation" names the protected queue
		return "protected"
	}
	return ""
}

func ruleC05PolUnlink(cx *Ctx) {
	const rule = "C05.polunlink"
	cx.R.Rule(rule, 2, "policy.delete unlinks the node from the queue its queue type names and then releases its weight (makeDead), on every path; policy.updateNode gives the replacement the old node's queue type first, swaps it into that queue at the old node's position (or enters it as a fresh window node when the old one was never linked) and releases the old node once")
	if r := cx.runOp(rule, polSpec("delete", "delete")); r != nil {
		a := newAgg(cx, rule, funcName(r.fn), cx.P.Pos(r.fn.Pos()))
		n := 0
		for _, o := range r.outs {
			if o.Cut || o.Panic {
				continue
			}
			n++
			want := queueOfPath(o, "param:n")
			dels, delAt, mdAt, md := 0, -1, -1, 0
			okQ := false
			for i, e := range o.S.trace {
				if q, nd, ok := dequeCall(e, "Delete"); ok {
					dels++
					delAt = i
					okQ = q == want && nd == "param:n"
				}
				if e.Kind == "PolicyMakeDead" && len(e.Args) > 0 && e.Args[0] == "param:n" {
					md++
					mdAt = i
				}
			}
			a.check("unlinked from its own queue", dels == 1 && okQ && want != "", "the node is removed from the queue its queue type names, once", fmt.Sprintf("%d unlink(s), queue by predicates %q", dels, want), o)
			a.check("weight released after the unlink", md == 1 && mdAt > delAt, "makeDead(n) runs once, after the unlink", fmt.Sprintf("%d makeDead", md), o)
		}
		a.flush()
		cx.R.Check(n >= 3, rule, funcName(r.fn), "one path per queue", cx.P.Pos(r.fn.Pos()), fmt.Sprintf("%d returning path(s)", n))
	}
	unSpec := polSpec("updateNode", "updateNode")
	if cx.P.Func("", "policy", "updateNode") == nil && cx.P.Func("", "policy", "update") != nil {
		// the replacement step was inlined into its only caller: decided on the summaries of policy.update
		unSpec = polSpec("update", "update")
	}
	if r := cx.runOp(rule, unSpec); r != nil {
		a := newAgg(cx, rule, funcName(r.fn), cx.P.Pos(r.fn.Pos()))
		n := 0
		for _, o := range r.outs {
			if o.Cut || o.Panic {
				continue
			}
			n++
			inherit, firstQueueOp := -1, -1
			var contains, swapped, pushed, md int
			containsQ, swapQ, pushQ := "", "", ""
			madeWindow := false
			for i, e := range o.S.trace {
				if e.Kind == "NodeQueue" && len(e.Args) == 3 && e.Args[0] == "param:n" && e.Args[1] == "SetQueueType" && e.Args[2] == "GetQueueType(param:old)" && inherit < 0 {
					inherit = i
				}
				if e.Kind == "NodeQueue" && len(e.Args) >= 2 && e.Args[0] == "param:n" && e.Args[1] == "MakeWindow" {
					madeWindow = true
				}
				if e.Kind == "Call" && strings.Contains(e.Args[0], "(*Linked).") && firstQueueOp < 0 {
					firstQueueOp = i
				}
				if q, nd, ok := dequeCall(e, "Contains"); ok && nd == "param:old" {
					contains++
					containsQ = q
				}
				if q, nd, ok := dequeCall(e, "NotContains"); ok && nd == "param:old" {
					contains++
					containsQ = q
				}
				if q, nd, ok := dequeCall(e, "UpdateNode"); ok && nd == "param:n" {
					swapped++
					swapQ = q
				}
				if q, nd, ok := dequeCall(e, "PushBack"); ok && nd == "param:n" {
					pushed++
					pushQ = q
				}
				if e.Kind == "PolicyMakeDead" && len(e.Args) > 0 && e.Args[0] == "param:old" {
					md++
				}
			}
			want := queueOfPath(o, "param:n")
			a.check("queue type inherited first", inherit >= 0 && (firstQueueOp < 0 || inherit < firstQueueOp), "n.SetQueueType(old.GetQueueType()) runs before any queue is consulted", "", o)
			okPlace := (swapped == 1 && pushed == 0 && swapQ == want && containsQ == want && want != "") || (swapped == 0 && pushed == 1 && pushQ == "window" && madeWindow && contains >= 1 && containsQ == want)
			a.check("takes the old node's place", okPlace, "the replacement is swapped into the queue of its inherited type at the old node's position, or enters the window as a fresh node when the old node is not linked there", fmt.Sprintf("swapped %d (%s) pushed %d (%s) queue by predicates %q", swapped, swapQ, pushed, pushQ, want), o)
			a.check("old node released once", md == 1, "makeDead(old) runs exactly once", fmt.Sprintf("%d", md), o)
		}
		a.flush()
		cx.R.Check(n >= 3, rule, funcName(r.fn), "returning paths", cx.P.Pos(r.fn.Pos()), fmt.Sprintf("%d", n))
	}
}

// returnsAfterWalk: the return is reached only after a loop of the function (its block is dominated by a loop header's
// exit): the normal end of the walk.
func returnsAfterWalk(r *ssa.Return) bool {
	fn := r.Parent()
	for h := range loopHeaders(fn) {
		loop := naturalLoop(h)
		if !loop[r.Block()] && h.Dominates(r.Block()) {
			return true
		}
	}
	return false
}

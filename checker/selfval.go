package main

import (
	"encoding/json"
	"fmt"
	"io"
	"io/fs"
	"os"
	"os/exec"
	"path/filepath"
	"sort"
	"strings"
	"sync"
)

// Thorough tier: checker self-validation. Every catalogued mutant (mutants/*.diff: one broken instance each, still
// compiling) and every confirmed seeded change (seeded/*/patch.diff) that names this property is applied to a scratch
// copy of the analysed tree (outside /repo and /verif, removed at once, one checker process per variant); the
// property's rules must report it. Behaviour-preserving variants must stay silent. The kill matrix goes into the
// evidence; it never changes the exit code, which reflects the analysed tree only.

type mutantEntry struct {
	File    string   `json:"file"`
	Expect  []string `json:"expect"`
	Neutral bool     `json:"neutral"`
	Props   []string `json:"props"`
}

type variantResult struct {
	Name    string   `json:"name"`
	Kind    string   `json:"kind"`
	Expect  []string `json:"expected_rules,omitempty"`
	Fired   []string `json:"rules_fired"`
	Verdict string   `json:"verdict"`
}

func copyTree(src, dst string) error {
	return filepath.WalkDir(src, func(p string, d fs.DirEntry, err error) error {
		if err != nil {
			return err
		}
		rel, _ := filepath.Rel(src, p)
		if d.IsDir() {
			switch d.Name() {
			case ".git", "docs", "benchmarks":
				if rel != "." {
					return filepath.SkipDir
				}
			}
			return os.MkdirAll(filepath.Join(dst, rel), 0o755)
		}
		if !d.Type().IsRegular() {
			return nil
		}
		in, err := os.Open(p)
		if err != nil {
			return err
		}
		defer in.Close()
		out, err := os.Create(filepath.Join(dst, rel))
		if err != nil {
			return err
		}
		defer out.Close()
		_, err = io.Copy(out, in)
		return err
	})
}

func runVariant(self, repo, verif, prop, patch string) (fired []string, note string) {
	dir, err := os.MkdirTemp("", "otterlint-variant-")
	if err != nil {
		return nil, "no scratch dir: " + err.Error()
	}
	defer os.RemoveAll(dir)
	if err := copyTree(repo, dir); err != nil {
		return nil, "copy failed: " + err.Error()
	}
	cmd := exec.Command("patch", "-p1", "-s", "-i", patch)
	cmd.Dir = dir
	if out, err := cmd.CombinedOutput(); err != nil {
		return nil, "patch does not apply: " + strings.TrimSpace(string(out))
	}
	c := exec.Command(self, "-property", prop, "-tier", "quick", "-repo", dir, "-verif", verif, "-no-evidence")
	c.Env = append(os.Environ(), "VERIF_TIER=quick")
	out, _ := c.Output()
	set := map[string]bool{}
	for _, line := range strings.Split(string(out), "\n") {
		if strings.HasPrefix(line, "VIOLATION") || strings.HasPrefix(line, "KNOWN-FINDING") {
			continue
		}
		if i := strings.Index(line, ": C"); i >= 0 {
			rest := line[i+2:]
			if j := strings.Index(rest, ":"); j > 0 && j < 24 {
				set[rest[:j]] = true
			}
		}
	}
	for r := range set {
		fired = append(fired, r)
	}
	sort.Strings(fired)
	return fired, ""
}

func runSelfValidation(pc *propertyCheck, R *Run, repo, verif string) {
	self, err := os.Executable()
	if err != nil {
		R.Extra("self_validation", "unavailable: "+err.Error())
		return
	}
	type job struct {
		name, kind, patch string
		expect            []string
		neutral           bool
	}
	var jobs []job
	// catalogue
	if b, err := os.ReadFile(filepath.Join(verif, "mutants", "index.json")); err == nil {
		idx := map[string]mutantEntry{}
		if json.Unmarshal(b, &idx) == nil {
			for name, e := range idx {
				applies := false
				for _, p := range e.Props {
					if p == pc.id {
						applies = true
					}
				}
				for _, r := range e.Expect {
					if strings.HasPrefix(r, pc.id+".") {
						applies = true
					}
				}
				if e.Neutral && len(e.Props) == 0 {
					applies = true
				}
				if applies {
					jobs = append(jobs, job{name, "mutant", filepath.Join(verif, "mutants", name+".diff"), e.Expect, e.Neutral})
				}
			}
		}
	}
	// confirmed seeded changes
	metas, _ := filepath.Glob(filepath.Join(verif, "seeded", "*", "meta.json"))
	for _, m := range metas {
		var meta struct {
			Property string   `json:"property"`
			CaughtBy []string `json:"caught_by_properties"`
		}
		b, err := os.ReadFile(m)
		if err != nil || json.Unmarshal(b, &meta) != nil {
			continue
		}
		applies := meta.Property == pc.id
		for _, p := range meta.CaughtBy {
			if p == pc.id {
				applies = true
			}
		}
		if applies {
			jobs = append(jobs, job{filepath.Base(filepath.Dir(m)), "seeded", filepath.Join(filepath.Dir(m), "patch.diff"), nil, false})
		}
	}
	// behaviour-preserving refactorings written by independent agents (neutral/*.diff): every property must stay silent
	neutrals, _ := filepath.Glob(filepath.Join(verif, "neutral", "*.diff"))
	for _, n := range neutrals {
		jobs = append(jobs, job{"neutral/" + strings.TrimSuffix(filepath.Base(n), ".diff"), "neutral", n, nil, true})
	}
	sort.Slice(jobs, func(i, j int) bool { return jobs[i].name < jobs[j].name })
	results := make([]variantResult, len(jobs))
	sem := make(chan struct{}, 8)
	var wg sync.WaitGroup
	for i, j := range jobs {
		wg.Add(1)
		sem <- struct{}{}
		go func(i int, j job) {
			defer wg.Done()
			defer func() { <-sem }()
			fired, note := runVariant(self, repo, verif, pc.id, j.patch)
			res := variantResult{Name: j.name, Kind: j.kind, Expect: j.expect, Fired: fired}
			switch {
			case note != "":
				res.Verdict = "skipped: " + note
			case j.neutral:
				if len(fired) == 0 {
					res.Verdict = "silent (behaviour preserving)"
				} else {
					res.Verdict = "FALSE ALARM"
				}
			case len(fired) > 0:
				res.Verdict = "killed"
			default:
				res.Verdict = "SURVIVED"
			}
			results[i] = res
		}(i, j)
	}
	wg.Wait()
	killed, survived, silent, falseAlarm, skipped := 0, 0, 0, 0, 0
	for _, r := range results {
		switch {
		case r.Verdict == "killed":
			killed++
		case r.Verdict == "SURVIVED":
			survived++
		case strings.HasPrefix(r.Verdict, "silent"):
			silent++
		case r.Verdict == "FALSE ALARM":
			falseAlarm++
		default:
			skipped++
		}
	}
	R.Extra("self_validation", map[string]any{
		"variants": len(results), "killed": killed, "survived": survived, "neutral_silent": silent, "neutral_false_alarm": falseAlarm, "skipped": skipped,
		"note":    "breaking variants must be reported by this property's rules, behaviour-preserving ones must not; informational - the exit code reflects the analysed tree only",
		"results": results,
	})
	fmt.Printf("self-validation %s: %d variants, %d killed, %d survived, %d neutral silent, %d neutral false alarms, %d skipped\n", pc.id, len(results), killed, survived, silent, falseAlarm, skipped)
}

package main

// runSelfValidation is filled in by mutants.go (thorough tier).
func runSelfValidation(pc *propertyCheck, R *Run, repo, verif string) {}

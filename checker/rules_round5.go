package main

// Round-5 rules: code the earlier rounds treated as an assumption ("stats.Recorder methods only add", "calculators are
// pure") is now decided: the bundled statistics recorder and its striped adder (C20.counter, C20.adder, C20.stats), the
// built-in expiry / refresh calculators and the Entry snapshot arithmetic they rely on (C12.calc), and the time source
// wrapper (C12.clock).

import (
	"fmt"
	"go/constant"
	"go/token"
	"go/types"
	"sort"
	"strings"

	"golang.org/x/tools/go/ssa"
)

const statsPkg = "stats"
const xsyncPkg = "internal/xsync"

// fieldDeps: the struct fields (of structs named in `of`) that the value v is computed from, walking operands
// backwards through phis, arithmetic, conversions, calls (receiver and arguments, results of module callees are
// followed into the callee's returns) and loads. Fields read from a parameter are keyed "param<i>.<field>" when
// byParam is set, "<field>" otherwise.
type depWalker struct {
	of      map[string]bool
	byParam bool
	seen    map[ssa.Value]bool
	out     map[string]bool
	opaque  []string
	depth   int
	// intoCallees: the results of statically called functions of the module are followed into the callee's returns
	intoCallees bool
}

func newDepWalker(byParam bool, structs ...string) *depWalker {
	w := &depWalker{of: map[string]bool{}, byParam: byParam, seen: map[ssa.Value]bool{}, out: map[string]bool{}}
	for _, s := range structs {
		w.of[s] = true
	}
	return w
}

func paramIndexOf(v ssa.Value) int {
	v = stripLoad(v)
	if al, ok := v.(*ssa.Alloc); ok {
		if s := wholeStore(al); s != nil {
			v = s
		}
	}
	if p, ok := v.(*ssa.Parameter); ok {
		for i, q := range p.Parent().Params {
			if q == p {
				return i
			}
		}
	}
	return -1
}

func (w *depWalker) field(base ssa.Value, st *types.Struct, idx int, owner string) bool {
	if st == nil || !w.of[owner] {
		return false
	}
	name := fname(st.Field(idx).Origin())
	if w.byParam {
		name = fmt.Sprintf("param%d.%s", paramIndexOf(base), name)
	}
	w.out[name] = true
	return true
}

func ownerName(t types.Type) string {
	if p, ok := t.Underlying().(*types.Pointer); ok {
		t = p.Elem()
	}
	return namedTypeName(t)
}

func (w *depWalker) walk(v ssa.Value) {
	if v == nil || w.seen[v] {
		return
	}
	w.seen[v] = true
	w.depth++
	defer func() { w.depth-- }()
	if w.depth > 80 {
		w.opaque = append(w.opaque, "deep")
		return
	}
	switch x := v.(type) {
	case *ssa.Const, *ssa.Builtin, *ssa.Function, *ssa.Global:
	case *ssa.Parameter, *ssa.FreeVar:
	case *ssa.Phi:
		for _, e := range x.Edges {
			w.walk(e)
		}
	case *ssa.BinOp:
		w.walk(x.X)
		w.walk(x.Y)
	case *ssa.UnOp:
		if x.Op == token.MUL {
			if fa, ok := x.X.(*ssa.FieldAddr); ok {
				if w.field(fa.X, derefStruct(fa.X.Type()), fa.Field, ownerName(fa.X.Type())) {
					return
				}
			}
			if al, ok := x.X.(*ssa.Alloc); ok {
				// a local: everything stored into it (whole or field-wise)
				for _, u := range *al.Referrers() {
					switch s := u.(type) {
					case *ssa.Store:
						if s.Addr == ssa.Value(al) {
							w.walk(s.Val)
						}
					case *ssa.FieldAddr:
						for _, uu := range *s.Referrers() {
							if st, ok := uu.(*ssa.Store); ok && st.Addr == ssa.Value(s) {
								w.walk(st.Val)
							}
						}
					}
				}
				return
			}
		}
		w.walk(x.X)
	case *ssa.FieldAddr:
		if w.field(x.X, derefStruct(x.X.Type()), x.Field, ownerName(x.X.Type())) {
			return
		}
		w.walk(x.X)
	case *ssa.Field:
		st, _ := x.X.Type().Underlying().(*types.Struct)
		if w.field(x.X, st, x.Field, ownerName(x.X.Type())) {
			return
		}
		w.walk(x.X)
	case *ssa.IndexAddr:
		w.walk(x.X)
		w.walk(x.Index)
	case *ssa.Convert:
		w.walk(x.X)
	case *ssa.ChangeType:
		w.walk(x.X)
	case *ssa.MakeInterface:
		w.walk(x.X)
	case *ssa.Extract:
		w.walk(x.Tuple)
	case *ssa.Alloc:
		for _, u := range *x.Referrers() {
			if s, ok := u.(*ssa.Store); ok && s.Addr == ssa.Value(x) {
				w.walk(s.Val)
			}
		}
	case *ssa.Call:
		if x.Call.IsInvoke() {
			w.walk(x.Call.Value)
		} else if _, isB := x.Call.Value.(*ssa.Builtin); !isB {
			if x.Call.StaticCallee() == nil {
				w.walk(x.Call.Value)
			}
		}
		for _, a := range x.Call.Args {
			w.walk(a)
		}
		if w.intoCallees {
			if c := x.Call.StaticCallee(); c != nil && origin(c) != nil && origin(c).Pkg != nil && strings.HasPrefix(origin(c).Pkg.Pkg.Path(), modPath) {
				g := c
				if len(g.Blocks) == 0 {
					g = origin(c)
				}
				allInstrs(g, func(z ssa.Instruction) {
					if rr, isRR := z.(*ssa.Return); isRR {
						for _, res := range rr.Results {
							w.walk(res)
						}
					}
				})
			}
		}
	default:
		w.opaque = append(w.opaque, fmt.Sprintf("%T", v))
	}
}

func (w *depWalker) keys() []string {
	var ks []string
	for k := range w.out {
		ks = append(ks, k)
	}
	sort.Strings(ks)
	return ks
}

// literalFieldStores: for a function that returns a struct of type `typ` built on the spot, field name -> stored values.
func literalFieldStores(fn *ssa.Function, typ string) map[string][]ssa.Value {
	out := map[string][]ssa.Value{}
	allInstrs(fn, func(in ssa.Instruction) {
		st, ok := in.(*ssa.Store)
		if !ok {
			return
		}
		fa, ok := st.Addr.(*ssa.FieldAddr)
		if !ok {
			return
		}
		if _, isAlloc := fa.X.(*ssa.Alloc); !isAlloc || ownerName(fa.X.Type()) != typ {
			return
		}
		s := derefStruct(fa.X.Type())
		out[fname(s.Field(fa.Field).Origin())] = append(out[fname(s.Field(fa.Field).Origin())], st.Val)
	})
	return out
}

// ---------------------------------------------------------------------------------------------------------------
// C20.counter: the bundled recorder
// ---------------------------------------------------------------------------------------------------------------

type addEffect struct {
	field string
	kind  string // "1" | "param" | other description
	in    ssa.Instruction
}

// counterEffects: every mutation of a Counter field performed by fn (atomic Add/Store/Swap/CompareAndSwap on an atomic
// field, Adder.Add on an adder field).
func counterEffects(cx *Ctx, fn *ssa.Function) []addEffect {
	var out []addEffect
	adderAdd := cx.P.Func(xsyncPkg, "Adder", "Add")
	allInstrs(fn, func(in ssa.Instruction) {
		f := recvField(in)
		if f == nil {
			return
		}
		cc := callCommon(in)
		if cc == nil || ownerName(fieldOwnerType(cc)) != "Counter" {
			return
		}
		op := ""
		switch {
		case adderAdd != nil && isCallTo(in, adderAdd):
			op = "Add"
		case isStdMethod(in, "sync/atomic", "", "Add"):
			op = "Add"
		case isStdMethod(in, "sync/atomic", "", "Store"):
			op = "Store"
		case isStdMethod(in, "sync/atomic", "", "Swap"):
			op = "Swap"
		case isStdMethod(in, "sync/atomic", "", "CompareAndSwap"):
			op = "CompareAndSwap"
		case isStdMethod(in, "sync/atomic", "", "And"), isStdMethod(in, "sync/atomic", "", "Or"):
			op = "Bitop"
		default:
			return
		}
		kind := op
		if op == "Add" {
			args := callArgs(in)
			kind = "other"
			if len(args) == 1 {
				a := stripConv(args[0])
				if c, ok := constInt(a); ok {
					kind = fmt.Sprint(c)
				} else if p, ok := a.(*ssa.Parameter); ok && p.Parent() == fn {
					kind = "param"
				}
			}
		}
		out = append(out, addEffect{fname(f), kind, in})
	})
	// helpers of the recorder (recordLoad(counter, d)): their effects count at the call site, with "param" mapped to what
	// the site hands in; a helper must perform each of its effects exactly once on all of its paths
	allInstrs(fn, func(in ssa.Instruction) {
		g := calleeOf(in)
		if g == nil || g.Pkg == nil || !strings.HasSuffix(g.Pkg.Pkg.Path(), "/"+statsPkg) || len(g.Blocks) == 0 || g == origin(fn) || counterHelperDepth > 2 {
			return
		}
		counterHelperDepth++
		sub := counterEffects(cx, g)
		counterHelperDepth--
		// the helper may be handed the address of the counter to bump: loads.Add(1) on a parameter
		allInstrs(g, func(x ssa.Instruction) {
			if !isStdMethod(x, "sync/atomic", "", "Add") {
				return
			}
			rp, ok := recvValue(x).(*ssa.Parameter)
			if !ok {
				return
			}
			for i, q := range g.Params {
				if q != rp || i >= len(callCommon(in).Args) {
					continue
				}
				if fa, isFA := callCommon(in).Args[i].(*ssa.FieldAddr); isFA && ownerName(fa.X.Type()) == "Counter" {
					kind := "other"
					if a := callArgs(x); len(a) == 1 {
						av := stripConv(a[0])
						if c, isC := constInt(av); isC {
							kind = fmt.Sprint(c)
						} else if _, isP := av.(*ssa.Parameter); isP {
							kind = "param"
						}
					}
					sub = append(sub, addEffect{fname(fieldOf(fa)), kind, x})
				}
			}
		})
		for _, e := range sub {
			kind := e.kind
			// exactly once inside the helper
			once := true
			for _, ex := range CountOnPaths(g, Pt{g.Blocks[0], 0}, func(x ssa.Instruction) int {
				if x == e.in {
					return 1
				}
				return 0
			}, nil) {
				if _, isRet := ex.Exit.(*ssa.Return); isRet && ex.Count != 1 {
					once = false
				}
			}
			if !once {
				kind = "conditionally in helper " + g.Name()
			} else if kind == "param" {
				// which parameter of the helper, and what does the site pass for it
				kind = "other"
				var arg ssa.Value
				if a := callArgs(e.in); len(a) == 1 {
					if p, ok := stripConv(a[0]).(*ssa.Parameter); ok {
						for i, q := range g.Params {
							if q == p && i < len(callCommon(in).Args) {
								arg = callCommon(in).Args[i]
							}
						}
					}
				}
				if arg != nil {
					a := stripConv(arg)
					if c, ok := constInt(a); ok {
						kind = fmt.Sprint(c)
					} else if p, ok := a.(*ssa.Parameter); ok && p.Parent() == fn {
						kind = "param"
					}
				}
			}
			out = append(out, addEffect{e.field, kind, in})
		}
	})
	return out
}

var counterHelperDepth int

// fieldOwnerType: the struct type whose field the call's receiver is (c.hits.Add -> Counter).
func fieldOwnerType(cc *ssa.CallCommon) types.Type {
	var r ssa.Value
	if cc.IsInvoke() {
		r = cc.Value
	} else if len(cc.Args) > 0 {
		r = cc.Args[0]
	}
	r = stripLoad(r)
	switch x := r.(type) {
	case *ssa.FieldAddr:
		return x.X.Type()
	case *ssa.Field:
		return x.X.Type()
	}
	return types.Typ[types.Invalid]
}

func ruleC20Counter(cx *Ctx) {
	const rule = "C20.counter"
	cx.R.Rule(rule, 8, "the bundled recorder stats.Counter: each Record method adds, exactly once on every path, its argument (or 1) to exactly its own counters and touches no other; nothing else in the module writes a counter (counters never decrease); Snapshot reads every Stats field from the counter of the same name")
	spec := map[string][][2]string{
		"RecordHits":        {{"hits", "param"}},
		"RecordMisses":      {{"misses", "param"}},
		"RecordEviction":    {{"evictions", "1"}, {"evictionWeight", "param"}},
		"RecordLoadSuccess": {{"loadSuccesses", "1"}, {"totalLoadTime", "param"}},
		"RecordLoadFailure": {{"loadFailures", "1"}, {"totalLoadTime", "param"}},
	}
	var names []string
	for n := range spec {
		names = append(names, n)
	}
	sort.Strings(names)
	recorders := map[*ssa.Function]bool{}
	for _, m := range names {
		fn := cx.need(rule, statsPkg, "Counter", m)
		if fn == nil {
			continue
		}
		recorders[origin(fn)] = true
		effs := counterEffects(cx, fn)
		want := map[string]string{}
		for _, e := range spec[m] {
			want[e[0]] = e[1]
		}
		for _, e := range effs {
			w, ok := want[e.field]
			cx.R.Check(ok && e.kind == w, rule, "stats.Counter."+m, "effect on "+e.field, cx.P.where(e.in), fmt.Sprintf("%s may only add %s to %s (found: %s on %s)", m, w, e.field, e.kind, e.field))
		}
		for _, e := range spec[m] {
			field, kind := e[0], e[1]
			is := func(in ssa.Instruction) int {
				for _, x := range effs {
					if x.in == in && x.field == field && x.kind == kind {
						return 1
					}
				}
				return 0
			}
			ok, n := true, 0
			var wit []string
			for _, ex := range CountOnPaths(fn, Pt{fn.Blocks[0], 0}, is, nil) {
				if _, isRet := ex.Exit.(*ssa.Return); !isRet {
					continue
				}
				n++
				if ex.Count != 1 {
					ok, wit = false, ex.Witness
				}
			}
			cx.R.Check(ok && n > 0, rule, "stats.Counter."+m, "adds "+kind+" to "+field+" exactly once", cx.P.Pos(fn.Pos()), "on every returning path the counter "+field+" is increased exactly once by "+kind, wit...)
		}
	}
	// census: nobody else mutates a counter
	nc := cx.P.Func(statsPkg, "", "NewCounter")
	for _, fn := range cx.P.ModuleFuncs() {
		if recorders[origin(fn)] {
			continue
		}
		// a helper that is called by the Record methods only is part of them (its effects were counted at their call sites)
		onlyFromRecorders, nCallers := true, 0
		for _, g := range cx.P.ModuleFuncs() {
			allInstrs(g, func(in ssa.Instruction) {
				if c := calleeOf(in); c != nil && c == origin(fn) {
					nCallers++
					if !recorders[origin(g)] {
						onlyFromRecorders = false
					}
				}
			})
		}
		if onlyFromRecorders && nCallers > 0 {
			continue
		}
		for _, e := range counterEffects(cx, fn) {
			cx.R.Violate(rule, funcName(fn), "writer of Counter."+e.field, cx.P.where(e.in), "only the Record methods may change a counter, and only by adding ("+e.kind+")")
		}
		// plain stores into Counter fields outside the constructor (replacing an adder resets the count)
		allInstrs(fn, func(in ssa.Instruction) {
			st, ok := in.(*ssa.Store)
			if !ok {
				return
			}
			if fa, ok := st.Addr.(*ssa.FieldAddr); ok && ownerName(fa.X.Type()) == "Counter" && fa.X.Type().String() != "" {
				if pk := fn.Pkg; pk != nil && strings.HasSuffix(pk.Pkg.Path(), "/"+statsPkg) {
					cx.R.Check(nc != nil && origin(fn) == origin(nc), rule, funcName(fn), "store into Counter."+fname(fieldOf(st.Addr)), cx.P.where(in), "counter fields are assigned only while the counter is constructed")
				}
			}
		})
	}
	// width: every counter and every figure of a snapshot is 64 bits wide (a narrower accumulator wraps and "decreases")
	for _, tn := range []string{"Counter", "Stats"} {
		if _, st := cx.P.Struct(statsPkg, tn); st != nil {
			for i := 0; i < st.NumFields(); i++ {
				f := st.Field(i)
				if f.Name() == "_" {
					continue
				}
				t := f.Type()
				desc := t.String()
				ok := false
				switch {
				case namedTypeName(t) == "Uint64" || namedTypeName(t) == "Int64":
					ok = true // sync/atomic 64-bit
				case ownerName(t) == "Adder":
					ok = true
				default:
					if b, isB := t.Underlying().(*types.Basic); isB && (b.Kind() == types.Uint64 || b.Kind() == types.Int64) {
						ok = true
					}
				}
				cx.R.Check(ok, rule, "stats."+tn, "field "+fname(f)+" is 64 bits wide", "-", "counters accumulate in 64 bits ("+desc+")")
			}
		} else {
			cx.R.Undecided(rule, "stats."+tn, "anchor", "-", "type does not resolve")
		}
	}
	// Snapshot pairing
	snap := cx.need(rule, statsPkg, "Counter", "Snapshot")
	if snap != nil {
		pair := map[string]string{"Hits": "hits", "Misses": "misses", "Evictions": "evictions", "EvictionWeight": "evictionWeight", "LoadSuccesses": "loadSuccesses", "LoadFailures": "loadFailures", "TotalLoadTime": "totalLoadTime"}
		stores := literalFieldStores(snap, "Stats")
		var fs []string
		for f := range pair {
			fs = append(fs, f)
		}
		sort.Strings(fs)
		for _, f := range fs {
			w := newDepWalker(false, "Counter")
			for _, v := range stores[f] {
				w.walk(v)
			}
			got := w.keys()
			cx.R.Check(len(stores[f]) > 0 && len(got) == 1 && got[0] == pair[f], rule, "stats.Counter.Snapshot", "Stats."+f, cx.P.Pos(snap.Pos()), fmt.Sprintf("Stats.%s is read from the counter %s and from nothing else (reads %v)", f, pair[f], got))
		}
	}
}

// ---------------------------------------------------------------------------------------------------------------
// C20.stats: derived figures and snapshot arithmetic pair the fields of the same name
// ---------------------------------------------------------------------------------------------------------------

func ruleC20Stats(cx *Ctx) {
	const rule = "C20.stats"
	cx.R.Rule(rule, 6, "Stats.Requests is computed from Hits and Misses, Stats.Loads from LoadSuccesses and LoadFailures; Plus / Minus compute every field of the result from the two operands' fields of the same name; subtract never wraps below zero, saturatedAdd never wraps past the maximum")
	for m, want := range map[string][]string{"Requests": {"param0.Hits", "param0.Misses"}, "Loads": {"param0.LoadFailures", "param0.LoadSuccesses"}} {
		fn := cx.need(rule, statsPkg, "Stats", m)
		if fn == nil {
			continue
		}
		w := newDepWalker(true, "Stats")
		n := 0
		allInstrs(fn, func(in ssa.Instruction) {
			if r, ok := in.(*ssa.Return); ok && len(r.Results) == 1 {
				n++
				w.walk(r.Results[0])
			}
		})
		got := w.keys()
		cx.R.Check(n > 0 && strings.Join(got, ",") == strings.Join(want, ","), rule, "stats.Stats."+m, "operands", cx.P.Pos(fn.Pos()), fmt.Sprintf("%s is computed from exactly %v (reads %v)", m, want, got))
	}
	fields := []string{"Hits", "Misses", "Evictions", "EvictionWeight", "LoadSuccesses", "LoadFailures", "TotalLoadTime"}
	for _, m := range []string{"Plus", "Minus"} {
		fn := cx.need(rule, statsPkg, "Stats", m)
		if fn == nil {
			continue
		}
		stores := literalFieldStores(fn, "Stats")
		for _, f := range fields {
			w := newDepWalker(true, "Stats")
			for _, v := range stores[f] {
				w.walk(v)
			}
			got := strings.Join(w.keys(), ",")
			cx.R.Check(len(stores[f]) > 0 && got == "param0."+f+",param1."+f, rule, "stats.Stats."+m, "result."+f, cx.P.Pos(fn.Pos()), fmt.Sprintf("%s: field %s of the result is computed from both operands' %s only (reads %s)", m, f, f, got))
		}
	}
	// subtract: returns a-b only where a < b is false, 0 otherwise; saturatedAdd: returns the sum only where no wrap was seen
	if fn := cx.need(rule, statsPkg, "", "subtract"); fn != nil {
		ok, n := true, 0
		allInstrs(fn, func(in ssa.Instruction) {
			r, isR := in.(*ssa.Return)
			if !isR || len(r.Results) != 1 {
				return
			}
			var check func(v ssa.Value, blk *ssa.BasicBlock, viaEdge *ssa.BasicBlock)
			check = func(v ssa.Value, blk *ssa.BasicBlock, pred *ssa.BasicBlock) {
				n++
				if ph, isPhi := v.(*ssa.Phi); isPhi {
					for i, e := range ph.Edges {
						check(e, ph.Block(), ph.Block().Preds[i])
					}
					n--
					return
				}
				if c, isC := constInt(stripConv(v)); isC {
					if c != 0 {
						ok = false
					}
					return
				}
				b, isB := v.(*ssa.BinOp)
				if !isB || b.Op != token.SUB || b.X != ssa.Value(fn.Params[0]) || b.Y != ssa.Value(fn.Params[1]) {
					ok = false
					return
				}
				// guarded by not (a < b)
				gs := guardsAt(b.Block())
				if pred != nil {
					gs = append(gs, guardsOnEdge(pred, blk)...)
				}
				g := false
				for _, x := range gs {
					if cmp, isCmp := x.Cond.(*ssa.BinOp); isCmp {
						a, bb := ssa.Value(fn.Params[0]), ssa.Value(fn.Params[1])
						switch {
						case cmp.Op == token.LSS && cmp.X == a && cmp.Y == bb && !x.Truth,
							cmp.Op == token.GTR && cmp.X == bb && cmp.Y == a && !x.Truth,
							cmp.Op == token.GEQ && cmp.X == a && cmp.Y == bb && x.Truth,
							cmp.Op == token.LEQ && cmp.X == bb && cmp.Y == a && x.Truth,
							cmp.Op == token.GTR && cmp.X == a && cmp.Y == bb && x.Truth,
							cmp.Op == token.LSS && cmp.X == bb && cmp.Y == a && x.Truth:
							g = true
						}
					}
				}
				if !g {
					ok = false
				}
			}
			check(r.Results[0], r.Block(), nil)
		})
		cx.R.Check(ok && n > 0, rule, "stats.subtract", "a-b only where a >= b, else 0", cx.P.Pos(fn.Pos()), "the difference of two snapshots is rounded up to zero, never wrapped")
	}
}

// ---------------------------------------------------------------------------------------------------------------
// C20.adder: the striped adder
// ---------------------------------------------------------------------------------------------------------------

// sameStripeAddr: two addresses of the same field of the same base value (go/ssa does not share the FieldAddr).
func sameStripeAddr(a, b ssa.Value) bool {
	if a == b {
		return true
	}
	fa, ok1 := a.(*ssa.FieldAddr)
	fb, ok2 := b.(*ssa.FieldAddr)
	return ok1 && ok2 && fa.Field == fb.Field && fa.X == fb.X
}

func ruleC20Adder(cx *Ctx) {
	const rule = "C20.adder"
	cx.R.Rule(rule, 5, "xsync.Adder: Add returns only after exactly one successful CompareAndSwap(cnt, cnt+delta) on a stripe, with cnt loaded from that very stripe; nothing else writes a stripe; Value sums the stripes 0..len-1; the stripe mask is the stripe count minus one")
	add := cx.need(rule, xsyncPkg, "Adder", "Add")
	val := cx.need(rule, xsyncPkg, "Adder", "Value")
	na := cx.need(rule, xsyncPkg, "", "NewAdder")
	adderF := cx.needField(rule, xsyncPkg, "astripe", "adder")
	if add == nil || val == nil || na == nil || adderF == nil {
		return
	}
	// An attempt is the CompareAndSwap itself or a call of a helper that does nothing to the stripe but one such swap and
	// returns its outcome (the delta travels through the helper's parameter).
	casOperands := func(fn *ssa.Function, in ssa.Instruction, delta ssa.Value) bool {
		args := callArgs(in)
		if len(args) != 2 {
			return false
		}
		ld, isCall := args[0].(*ssa.Call)
		if !isCall || !isStdMethod(ld, "sync/atomic", "", "Load") || !sameStripeAddr(recvValue(ld), recvValue(in)) {
			return false
		}
		b, isB := args[1].(*ssa.BinOp)
		return isB && b.Op == token.ADD && ((b.X == args[0] && b.Y == delta) || (b.Y == args[0] && b.X == delta))
	}
	isCAS := func(in ssa.Instruction) bool {
		return isStdMethod(in, "sync/atomic", "", "CompareAndSwap") && sameField(recvField(in), adderF)
	}
	// attemptHelper: the parameter index carrying the delta when h is a single-attempt helper, -1 otherwise
	attemptHelper := func(h *ssa.Function) int {
		if h == nil || len(h.Blocks) == 0 {
			return -1
		}
		var cas []ssa.Instruction
		allInstrs(h, func(in ssa.Instruction) {
			if isCAS(in) {
				cas = append(cas, in)
			}
		})
		if len(cas) != 1 {
			return -1
		}
		allRet := true
		allInstrs(h, func(in ssa.Instruction) {
			if r, isR := in.(*ssa.Return); isR && !(len(r.Results) == 1 && r.Results[0] == cas[0].(ssa.Value)) {
				allRet = false
			}
		})
		if !allRet {
			return -1
		}
		for i, prm := range h.Params {
			if casOperands(h, cas[0], prm) {
				return i
			}
		}
		return -1
	}
	helpers := map[*ssa.Function]bool{}
	// census of stripe writers
	for _, fn := range cx.P.ModuleFuncs() {
		allInstrs(fn, func(in ssa.Instruction) {
			for _, op := range []string{"Add", "Store", "Swap", "CompareAndSwap", "And", "Or"} {
				if isStdMethod(in, "sync/atomic", "", op) && sameField(recvField(in), adderF) {
					okW := origin(fn) == origin(add) && op == "CompareAndSwap"
					if !okW && op == "CompareAndSwap" && attemptHelper(fn) >= 0 {
						okW = true
						helpers[origin(fn)] = true
					}
					cx.R.Check(okW, rule, funcName(fn), "writer of astripe.adder ("+op+")", cx.P.where(in), "a stripe is changed only by the CompareAndSwap of Adder.Add")
				}
			}
		})
	}
	for _, fn := range cx.P.ModuleFuncs() {
		if origin(fn) == origin(add) {
			continue
		}
		allInstrs(fn, func(in ssa.Instruction) {
			if c, isC := in.(ssa.CallInstruction); isC {
				if sc := c.Common().StaticCallee(); sc != nil && helpers[origin(sc)] {
					cx.R.Check(false, rule, funcName(fn), "caller of the attempt helper "+funcName(sc), cx.P.where(in), "a stripe is changed only on behalf of Adder.Add")
				}
			}
		})
		allInstrs(fn, func(in ssa.Instruction) {
			for _, op := range in.Operands(nil) {
				if f, isF := (*op).(*ssa.Function); isF && helpers[origin(f)] {
					if cc := callCommon(in); cc != nil && cc.Value == *op {
						continue
					}
					cx.R.Check(false, rule, funcName(fn), "attempt helper used as a value", cx.P.where(in), "a stripe is changed only on behalf of Adder.Add")
				}
			}
		})
	}
	// the CAS protocol of Add
	success := map[*ssa.BasicBlock]bool{}
	nCAS := 0
	allInstrs(add, func(in ssa.Instruction) {
		okArgs := false
		switch {
		case isCAS(in):
			okArgs = casOperands(add, in, bparam(add, 1))
		default:
			c, isC := in.(*ssa.Call)
			if !isC || c.Call.StaticCallee() == nil || !helpers[origin(c.Call.StaticCallee())] {
				return
			}
			i := attemptHelper(c.Call.StaticCallee())
			okArgs = i >= 0 && i < len(c.Call.Args) && c.Call.Args[i] == ssa.Value(bparam(add, 1))
		}
		nCAS++
		cx.R.Check(okArgs, rule, "xsync.Adder.Add", fmt.Sprintf("CompareAndSwap #%d operands", nCAS), cx.P.where(in), "the swap replaces the count loaded from the same stripe by that count plus delta")
		v, _ := in.(ssa.Value)
		for _, u := range usesOf(v) {
			if iff, isIf := u.(*ssa.If); isIf {
				success[iff.Block().Succs[0]] = true
			}
		}
	})
	cx.R.Check(nCAS > 0, rule, "xsync.Adder.Add", "CompareAndSwap present", cx.P.Pos(add.Pos()), "Add publishes through a CompareAndSwap on the stripe")
	ev := func(in ssa.Instruction) int {
		if success[in.Block()] && in.Block().Instrs[0] == in && len(in.Block().Preds) == 1 {
			return 1
		}
		return 0
	}
	ok, n := true, 0
	var wit []string
	for _, ex := range CountOnPaths(add, Pt{add.Blocks[0], 0}, ev, nil) {
		if _, isRet := ex.Exit.(*ssa.Return); !isRet {
			continue
		}
		n++
		if ex.Count != 1 {
			ok, wit = false, ex.Witness
		}
	}
	cx.R.Check(ok && n > 0, rule, "xsync.Adder.Add", "returns after exactly one successful swap", cx.P.Pos(add.Pos()), "every returning path of Add took the success edge of the CompareAndSwap exactly once (a failed swap retries, a second swap would count twice)", wit...)
	// Value: accumulator over all stripes
	okV := false
	detail := "no accumulating loop found"
	allInstrs(val, func(in ssa.Instruction) {
		r, isR := in.(*ssa.Return)
		if !isR || len(r.Results) != 1 {
			return
		}
		ph, isPhi := r.Results[0].(*ssa.Phi)
		if !isPhi {
			return
		}
		for _, e := range ph.Edges {
			b, isB := e.(*ssa.BinOp)
			if !isB || b.Op != token.ADD {
				if c, isC := constInt(stripConv(e)); !isC || c != 0 {
					detail = "accumulator does not start at 0"
					return
				}
				continue
			}
			other := b.Y
			if b.Y == ssa.Value(ph) {
				other = b.X
			} else if b.X != ssa.Value(ph) {
				detail = "accumulator edge is not sum + load"
				return
			}
			ld, isCall := other.(*ssa.Call)
			if !isCall || !isStdMethod(ld, "sync/atomic", "", "Load") || !sameField(recvField(ld), adderF) {
				detail = "summand is not a load of a stripe"
				return
			}
			fa, _ := stripLoad(recvValue(ld)).(*ssa.FieldAddr)
			if fa == nil {
				return
			}
			ia, isIA := fa.X.(*ssa.IndexAddr)
			if !isIA {
				detail = "stripe is not addressed by index"
				return
			}
			_, first, bound, okI := indexInduction(ia.Index)
			if !okI || first != 0 {
				detail = "stripe index does not run from 0"
				return
			}
			if bc, isC := bound.(*ssa.Call); isC && isBuiltinCall(bc, "len") && fieldOf(bc.Call.Args[0]) != nil && fieldOf(ia.X) != nil && sameField(fieldOf(bc.Call.Args[0]), fieldOf(ia.X)) {
				okV = true
			} else {
				detail = "loop bound is not len(stripes)"
			}
		}
	})
	cx.R.Check(okV, rule, "xsync.Adder.Value", "sums stripes 0..len-1", cx.P.Pos(val.Pos()), "Value returns the sum of the loads of every stripe ("+detail+")")
	// NewAdder: mask = len - 1
	var lenV, maskV ssa.Value
	allInstrs(na, func(in ssa.Instruction) {
		if st, ok := in.(*ssa.Store); ok {
			if f := fieldOf(st.Addr); f != nil && ownerName(st.Addr.(*ssa.FieldAddr).X.Type()) == "Adder" {
				switch fname(f) {
				case "mask":
					maskV = st.Val
				case "stripes":
					if ms, isMS := st.Val.(*ssa.MakeSlice); isMS {
						lenV = ms.Len
					}
				}
			}
		}
	})
	okM := false
	if lenV != nil && maskV != nil {
		tb := newTermBuilder()
		okM = tb.of(maskV).String() == mk("-", tb.of(lenV), tConst(1)).String()
	}
	cx.R.Check(okM, rule, "xsync.NewAdder", "mask = len(stripes) - 1", cx.P.Pos(na.Pos()), "the stripe mask selects an index inside the stripe slice")
	if lenV != nil {
		w := stripConv(lenV)
		c, isCall := w.(*ssa.Call)
		cx.R.Check(isCall && c.Call.StaticCallee() != nil && origin(c.Call.StaticCallee()).Name() == "RoundUpPowerOf2", rule, "xsync.NewAdder", "stripe count is a power of two", cx.P.Pos(na.Pos()), "idx & mask reaches every stripe only for a power-of-two count")
	}
}

// ---------------------------------------------------------------------------------------------------------------
// C12.calc: built-in calculators and the Entry arithmetic they use
// ---------------------------------------------------------------------------------------------------------------

// classifyDuration: what a calculator method returns: "f" (the configured function applied to the entry), "keepE" /
// "keepR" (the entry's remaining expiration / refresh duration: deadline minus snapshot time), or a description.
func classifyDuration(fn *ssa.Function, v ssa.Value, seen map[ssa.Value]bool) string {
	if seen[v] {
		return ""
	}
	seen[v] = true
	if ph, ok := v.(*ssa.Phi); ok {
		res := ""
		for _, e := range ph.Edges {
			c := classifyDuration(fn, e, seen)
			if c == "" {
				continue
			}
			if res != "" && res != c {
				return "mixed(" + res + "," + c + ")"
			}
			res = c
		}
		return res
	}
	if c, ok := v.(*ssa.Call); ok && c.Call.StaticCallee() == nil && !c.Call.IsInvoke() {
		// dynamic call: must be the receiver's function field applied to the entry parameter
		if f := fieldOf(c.Call.Value); f != nil && paramIndexOf(stripLoad(c.Call.Value).(*ssa.FieldAddr).X) == 0 && len(c.Call.Args) == 1 && paramIndexOf(c.Call.Args[0]) == 1 {
			return "f"
		}
		return "dynamic call of something else"
	}
	if u, ok := v.(*ssa.UnOp); ok && u.Op == token.MUL {
		if fa, isFA := u.X.(*ssa.FieldAddr); isFA && paramIndexOf(fa.X) == 0 && namedTypeName(u.Type()) == "Duration" {
			return "f" // a calculator that stores the fixed duration itself
		}
	}
	tb := newInliningTermBuilder()
	t := tb.of(v).String()
	e := mk("-", mk("field:ExpiresAtNano", tVar("param1")), mk("field:SnapshotAtNano", tVar("param1"))).String()
	r := mk("-", mk("field:RefreshableAtNano", tVar("param1")), mk("field:SnapshotAtNano", tVar("param1"))).String()
	switch t {
	case e:
		return "keepE"
	case r:
		return "keepR"
	}
	return "term " + trunc(t, 80)
}

// calcCtor: the concrete calculator type a constructor returns and how the constructor's argument reaches it. The result
// is followed through delegating constructors (X(d) -> XFunc(func(entry) { return d })). ok is false with a reason when
// some returning path builds something else.
func calcCtor(cx *Ctx, fn *ssa.Function, depth int) (typ string, why string) {
	if depth > 4 {
		return "", "constructor chain too deep"
	}
	// unchanged: the value is the enclosing function's first parameter, a closure that returns it (captured) on every
	// path, or the result of a module helper that is handed it and returns such a value on every path
	var unchanged func(v ssa.Value, d int) bool
	unchanged = func(v ssa.Value, d int) bool {
		if d > 4 {
			return false
		}
		v = stripConv(v)
		if paramIndexOf(v) == 0 {
			return true
		}
		switch x := v.(type) {
		case *ssa.MakeClosure:
			cl := x.Fn.(*ssa.Function)
			nr, all := 0, true
			allInstrs(cl, func(y ssa.Instruction) {
				ret, ok := y.(*ssa.Return)
				if !ok || len(ret.Results) != 1 {
					return
				}
				nr++
				fv, isFV := stripLoad(stripConv(ret.Results[0])).(*ssa.FreeVar)
				if !isFV {
					all = false
					return
				}
				for i, q := range cl.FreeVars {
					if q == fv && !unchanged(x.Bindings[i], d+1) {
						all = false
					}
				}
			})
			return all && nr > 0
		case *ssa.Alloc:
			if w := wholeStore(x); w != nil {
				return unchanged(w, d+1)
			}
		case *ssa.Call:
			g := x.Call.StaticCallee()
			if g == nil || len(x.Call.Args) != 1 || !unchanged(x.Call.Args[0], d+1) {
				return false
			}
			g = origin(g)
			if g.Pkg == nil || !strings.HasPrefix(g.Pkg.Pkg.Path(), modPath) || len(g.Blocks) == 0 {
				return false
			}
			nr, all := 0, true
			allInstrs(g, func(y ssa.Instruction) {
				if ret, ok := y.(*ssa.Return); ok && len(ret.Results) == 1 {
					nr++
					if !unchanged(ret.Results[0], d+1) {
						all = false
					}
				}
			})
			return all && nr > 0
		}
		return false
	}
	argOK := func(v ssa.Value, _ *ssa.Function) bool { return unchanged(v, 0) }
	nret := 0
	allInstrs(fn, func(in ssa.Instruction) {
		ret, ok := in.(*ssa.Return)
		if !ok || len(ret.Results) != 1 || why != "" {
			return
		}
		nret++
		t := ""
		switch x := stripConv(ret.Results[0]).(type) {
		case *ssa.Alloc:
			t = ownerName(x.Type())
			nst := 0
			for _, u := range *x.Referrers() {
				fa, isFA := u.(*ssa.FieldAddr)
				if !isFA {
					continue
				}
				for _, uu := range *fa.Referrers() {
					if st, isS := uu.(*ssa.Store); isS && st.Addr == ssa.Value(fa) {
						nst++
						if !argOK(st.Val, fn) {
							why = "a field of the calculator is not the constructor's argument"
						}
					}
				}
			}
			if nst == 0 {
				why = "the calculator is built without the constructor's argument"
			}
		case *ssa.Call:
			g := x.Call.StaticCallee()
			if g == nil || len(x.Call.Args) != 1 || !argOK(x.Call.Args[0], fn) {
				why = "delegates to something that does not receive the duration unchanged"
				return
			}
			t, why = calcCtor(cx, origin(g), depth+1)
		default:
			why = fmt.Sprintf("returns %T", x)
		}
		if typ != "" && t != typ && why == "" {
			why = "returning paths build different calculators"
		}
		typ = t
	})
	if nret == 0 && why == "" {
		why = "no returning path"
	}
	return typ, why
}

func ruleC12Calc(cx *Ctx) {
	const rule = "C12.calc"
	cx.R.Rule(rule, 15, "the built-in calculators implement their documented policy: creation-only returns the configured duration on create and the entry's remaining duration otherwise, write-reset returns it on create/update(/reload) and the remaining duration on reads (reload failures), access-reset always returns it; 'remaining' is Entry.ExpiresAfter / RefreshableAfter = deadline - snapshot time; the constructors hand their argument through unchanged; the table is checked on whatever type each constructor returns")
	fams := []struct {
		ctor    string
		methods []string
		want    []string
	}{
		{"ExpiryCreating", []string{"ExpireAfterCreate", "ExpireAfterUpdate", "ExpireAfterRead"}, []string{"f", "keepE", "keepE"}},
		{"ExpiryWriting", []string{"ExpireAfterCreate", "ExpireAfterUpdate", "ExpireAfterRead"}, []string{"f", "f", "keepE"}},
		{"ExpiryAccessing", []string{"ExpireAfterCreate", "ExpireAfterUpdate", "ExpireAfterRead"}, []string{"f", "f", "f"}},
		{"RefreshCreating", []string{"RefreshAfterCreate", "RefreshAfterUpdate", "RefreshAfterReload", "RefreshAfterReloadFailure"}, []string{"f", "keepR", "keepR", "keepR"}},
		{"RefreshWriting", []string{"RefreshAfterCreate", "RefreshAfterUpdate", "RefreshAfterReload", "RefreshAfterReloadFailure"}, []string{"f", "f", "f", "keepR"}},
	}
	for _, fam := range fams {
		for _, cn := range []string{fam.ctor, fam.ctor + "Func"} {
			cf := cx.need(rule, "", "", cn)
			if cf == nil {
				continue
			}
			typ, why := calcCtor(cx, cf, 0)
			cx.R.Check(typ != "" && why == "", rule, cn, "argument handed through", cx.P.Pos(cf.Pos()), cn+" builds its calculator around its argument, unchanged ("+why+")")
			if typ == "" {
				continue
			}
			for i, m := range fam.methods {
				fn := cx.P.Func("", typ, m)
				if fn == nil || len(fn.Blocks) == 0 {
					cx.R.Undecided(rule, cn, "method "+m, "-", "method "+m+" of the calculator type returned by "+cn+" does not resolve")
					continue
				}
				got, n := "", 0
				allInstrs(fn, func(in ssa.Instruction) {
					if ret, ok := in.(*ssa.Return); ok && len(ret.Results) == 1 {
						n++
						c := classifyDuration(fn, ret.Results[0], map[ssa.Value]bool{})
						if got != "" && got != c {
							got = "mixed(" + got + "," + c + ")"
						} else {
							got = c
						}
					}
				})
				cx.R.Check(n > 0 && got == fam.want[i], rule, cn, m+" returns "+fam.want[i], cx.P.Pos(fn.Pos()), fmt.Sprintf("f = the configured duration (function applied to the entry); keepE/keepR = the entry's remaining duration (found: %s)", got))
			}
		}
	}
	// Entry arithmetic
	for m, f := range map[string]string{"ExpiresAfter": "ExpiresAtNano", "RefreshableAfter": "RefreshableAtNano"} {
		fn := cx.need(rule, "", "Entry", m)
		if fn == nil {
			continue
		}
		ok, n := true, 0
		want := mk("-", mk("field:"+f, tVar("param0")), mk("field:SnapshotAtNano", tVar("param0"))).String()
		got := ""
		allInstrs(fn, func(in ssa.Instruction) {
			if ret, isR := in.(*ssa.Return); isR && len(ret.Results) == 1 {
				n++
				got = newInliningTermBuilder().of(ret.Results[0]).String()
				if got != want {
					ok = false
				}
			}
		})
		cx.R.Check(ok && n > 0, rule, "Entry."+m, "deadline - snapshot time", cx.P.Pos(fn.Pos()), "the remaining duration is "+f+" - SnapshotAtNano (found "+trunc(got, 80)+")")
	}
}

// ---------------------------------------------------------------------------------------------------------------
// C12.clock: the time source
// ---------------------------------------------------------------------------------------------------------------

func ruleC12Clock(cx *Ctx) {
	const rule = "C12.clock"
	cx.R.Rule(rule, 4, "the cache's clock is newTimeSource(Options.Clock); a user clock is wrapped so that NowNano returns the user clock's reading unchanged once initialised; the built-in source reads a monotonic offset added (saturating) to its start time; the cache initialises the clock whenever deadlines are in use")
	nts := cx.need(rule, "", "", "newTimeSource")
	cs := cx.need(rule, "", "customSource", "NowNano")
	rs := cx.need(rule, "", "realSource", "NowNano")
	nc := cx.need(rule, "", "", "newCache")
	if nts == nil || cs == nil || rs == nil || nc == nil {
		return
	}
	// customSource.NowNano: every non-zero-constant return is the invoke NowNano on the clock field
	ok, n := true, 0
	allInstrs(cs, func(in ssa.Instruction) {
		ret, isR := in.(*ssa.Return)
		if !isR || len(ret.Results) != 1 {
			return
		}
		var chk func(v ssa.Value)
		seen := map[ssa.Value]bool{}
		chk = func(v ssa.Value) {
			if seen[v] {
				return
			}
			seen[v] = true
			if ph, isPhi := v.(*ssa.Phi); isPhi {
				for _, e := range ph.Edges {
					chk(e)
				}
				return
			}
			if c, isC := constInt(v); isC {
				// the "not initialised" reading: only under a failed isInitialized test
				if c != 0 {
					ok = false
				}
				return
			}
			c, isCall := v.(*ssa.Call)
			if !isCall || !c.Call.IsInvoke() || c.Call.Method.Name() != "NowNano" || fieldOf(c.Call.Value) == nil || fname(fieldOf(c.Call.Value)) != "clock" {
				ok = false
				return
			}
			n++
		}
		chk(ret.Results[0])
	})
	cx.R.Check(ok && n > 0, rule, "customSource.NowNano", "returns the wrapped clock's reading", cx.P.Pos(cs.Pos()), "a custom clock's NowNano is passed through unchanged (0 only before initialisation)")
	// the constant 0 is returned only where isInitialized was loaded false
	okZ := true
	allInstrs(cs, func(in ssa.Instruction) {
		ret, isR := in.(*ssa.Return)
		if !isR || len(ret.Results) != 1 {
			return
		}
		if c, isC := constInt(ret.Results[0]); isC && c == 0 {
			g := false
			for _, x := range guardsAt(ret.Block()) {
				if call, isCall := x.Cond.(*ssa.Call); isCall && isStdMethod(call, "sync/atomic", "Bool", "Load") && !x.Truth {
					g = true
				}
			}
			if !g {
				okZ = false
			}
		}
	})
	cx.R.Check(okZ, rule, "customSource.NowNano", "zero only before Init", cx.P.Pos(cs.Pos()), "the constant reading is returned only when the initialised flag was read false")
	// newTimeSource: every returned value is the parameter itself (type-asserted), a fresh built-in source (nil clock) or newCustomSource(param)
	okT, nT := true, 0
	ncs := cx.P.Func("", "", "newCustomSource")
	allInstrs(nts, func(in ssa.Instruction) {
		ret, isR := in.(*ssa.Return)
		if !isR || len(ret.Results) != 1 {
			return
		}
		nT++
		v := stripConv(ret.Results[0])
		switch x := v.(type) {
		case *ssa.Alloc:
			// fresh built-in source: only under clock == nil
			g := false
			for _, gd := range guardsAt(ret.Block()) {
				if val, isNil, okN := nilCmp(gd.Cond); okN && paramIndexOf(val) == 0 && isNil == gd.Truth {
					g = true
				}
			}
			if !g {
				okT = false
			}
		case *ssa.Extract:
			ta, isTA := x.Tuple.(*ssa.TypeAssert)
			if !isTA || paramIndexOf(ta.X) != 0 {
				okT = false
			}
		case *ssa.TypeAssert:
			if paramIndexOf(x.X) != 0 {
				okT = false
			}
		case *ssa.Call:
			if ncs == nil || !isCallTo(x, ncs) || paramIndexOf(x.Call.Args[0]) != 0 {
				okT = false
			}
		default:
			okT = false
		}
	})
	cx.R.Check(okT && nT > 0, rule, "newTimeSource", "result wraps the given clock", cx.P.Pos(nts.Pos()), "every result is the given clock itself, a wrapper around it, or (nil clock) a fresh built-in source")
	if ncs != nil {
		okW := false
		allInstrs(ncs, func(in ssa.Instruction) {
			if st, isS := in.(*ssa.Store); isS {
				if f := fieldOf(st.Addr); f != nil && fname(f) == "clock" && paramIndexOf(st.Val) == 0 {
					okW = true
				}
			}
		})
		cx.R.Check(okW, rule, "newCustomSource", "stores its argument as the wrapped clock", cx.P.Pos(ncs.Pos()), "the wrapper reads the user's clock")
	}
	// realSource.NowNano: SaturatedAdd(startNanos, since(start)) or 0 before init
	sat := cx.P.Func("internal/xmath", "", "SaturatedAdd")
	okR, nR := true, 0
	allInstrs(rs, func(in ssa.Instruction) {
		ret, isR := in.(*ssa.Return)
		if !isR || len(ret.Results) != 1 {
			return
		}
		if c, isC := constInt(ret.Results[0]); isC {
			if c != 0 {
				okR = false
			}
			return
		}
		call, isCall := ret.Results[0].(*ssa.Call)
		if !isCall || sat == nil || !isCallTo(call, sat) {
			okR = false
			return
		}
		w := newDepWalker(false, "realSource")
		w.walk(call)
		got := strings.Join(w.keys(), ",")
		if got != "start,startNanos" {
			okR = false
		}
		nR++
	})
	cx.R.Check(okR && nR > 0, rule, "realSource.NowNano", "start + monotonic offset, saturating", cx.P.Pos(rs.Pos()), "the built-in clock is the start reading plus the time elapsed since, added without wrap-around")
	// newCache: clock field = newTimeSource(o.Clock); Init under withTime
	clockF := cx.needField(rule, "", "cache", "clock")
	if clockF == nil {
		return
	}
	okC := false
	allInstrs(nc, func(in ssa.Instruction) {
		if st, isS := in.(*ssa.Store); isS && sameField(fieldOf(st.Addr), clockF) {
			if call, isCall := stripConv(st.Val).(*ssa.Call); isCall && isCallTo(call, nts) {
				if f := fieldOf(call.Call.Args[0]); f != nil && fname(f) == "Clock" {
					okC = true
				}
			}
		}
	})
	cx.R.Check(okC, rule, "newCache", "clock = newTimeSource(Options.Clock)", cx.P.Pos(nc.Pos()), "the cache reads time from the configured clock")
	// census: the clock field is assigned nowhere else
	for _, fn := range cx.P.ModuleFuncs() {
		allInstrs(fn, func(in ssa.Instruction) {
			if st, isS := in.(*ssa.Store); isS && sameField(fieldOf(st.Addr), clockF) && ownerName(st.Addr.(*ssa.FieldAddr).X.Type()) == "cache" {
				cx.R.Check(origin(fn) == origin(nc), rule, funcName(fn), "writer of cache.clock", cx.P.where(in), "the clock is fixed at construction")
			}
		})
	}
	okI := false
	allInstrs(nc, func(in ssa.Instruction) {
		if invokeName(in) == "Init" && sameField(fieldOf(callCommon(in).Value), clockF) {
			for _, g := range guardsAt(in.Block()) {
				if f := fieldOf(g.Cond); f != nil && fname(f) == "withTime" && g.Truth {
					okI = true
				}
			}
			if len(guardsAt(in.Block())) == 0 {
				okI = true
			}
		}
	})
	cx.R.Check(okI, rule, "newCache", "clock initialised when deadlines are in use", cx.P.Pos(nc.Pos()), "Init is called on the cache's clock under withTime (an uninitialised source reads 0)")
}

// ---------------------------------------------------------------------------------------------------------------
// C10.wrapload: the timing wrapper around every loader dispatch hands the dispatch's error through
// ---------------------------------------------------------------------------------------------------------------

func ruleC10WrapLoad(cx *Ctx) {
	const rule = "C10.wrapload"
	cx.R.Rule(rule, 2, "wrapLoad returns the error of the dispatch it wraps unchanged on every returning path (a constant nil only where that error was tested nil) and panics only with the panic error extracted from it - a failed load returns the loader's error")
	if cx.P.Func("", "cache", "wrapLoad") == nil {
		if rec := loadRecorder(cx); rec != nil {
			// split form (start / finish pair): the finishing half returns the error it is handed, and every dispatch's
			// error is handed to it
			ruleC20LoadSplit(cx, rule, rec)
			return
		}
	}
	wl := cx.need(rule, "", "cache", "wrapLoad")
	if wl == nil {
		return
	}
	fnParam := ssa.Value(bparam(wl, 1))
	var disp ssa.Value
	n := 0
	allInstrs(wl, func(in ssa.Instruction) {
		if c, ok := in.(*ssa.Call); ok && c.Call.Value == fnParam {
			disp = c
			n++
		}
	})
	cx.R.Check(n == 1, rule, "(*cache).wrapLoad", "one dispatch", cx.P.Pos(wl.Pos()), fmt.Sprintf("wrapLoad invokes its function argument at exactly one site (%d)", n))
	if disp == nil {
		return
	}
	nilOK := func(gs []Guard) bool {
		for _, g := range gs {
			if v, isNil, ok := nilCmp(g.Cond); ok && v == disp && isNil == g.Truth {
				return true
			}
		}
		return false
	}
	nr := 0
	allInstrs(wl, func(in ssa.Instruction) {
		ret, isR := in.(*ssa.Return)
		if !isR || len(ret.Results) != 1 {
			return
		}
		nr++
		ok := true
		seen := map[ssa.Value]bool{}
		var chk func(v ssa.Value, gs []Guard)
		chk = func(v ssa.Value, gs []Guard) {
			if v == disp {
				return
			}
			if seen[v] {
				return
			}
			seen[v] = true
			if ph, isPhi := v.(*ssa.Phi); isPhi {
				for i, e := range ph.Edges {
					g2 := append(append([]Guard{}, guardsAt(ph.Block().Preds[i])...), guardsOnEdge(ph.Block().Preds[i], ph.Block())...)
					chk(e, g2)
				}
				return
			}
			if isNilConst(v) && nilOK(gs) {
				return
			}
			ok = false
		}
		chk(ret.Results[0], guardsAt(ret.Block()))
		cx.R.Check(ok, rule, "(*cache).wrapLoad", fmt.Sprintf("return #%d is the dispatch's error", nr), cx.P.where(ret), "the value returned is the error the wrapped dispatch returned (nil only where it was nil)")
	})
	cx.R.Check(nr > 0, rule, "(*cache).wrapLoad", "has a returning path", cx.P.Pos(wl.Pos()), "wrapLoad returns to its caller")
}

// ---------------------------------------------------------------------------------------------------------------
// C15.swar / C15.hashidx: the table's meta-word arithmetic and bucket addressing
// ---------------------------------------------------------------------------------------------------------------

func constU64(cx *Ctx, pkg, name string) (uint64, bool) {
	c := cx.P.Const(pkg, name)
	if c == nil {
		return 0, false
	}
	return constantUint64(c)
}

func singleReturnTerm(fn *ssa.Function) (*Term, int) {
	var t *Term
	n := 0
	allInstrs(fn, func(in ssa.Instruction) {
		if r, ok := in.(*ssa.Return); ok && len(r.Results) == 1 {
			n++
			t = newInliningTermBuilder().of(r.Results[0])
		}
	})
	return t, n
}

func ruleC15Swar(cx *Ctx) {
	const rule = "C15.swar"
	cx.R.Rule(rule, 8, "the meta word arithmetic of the table is self-consistent: the empty marker has only its top bit set and a key's tag never has it; the all-empty word is the marker in every byte; the slot mask covers exactly the slots of a bucket; the byte search, first-index and set-byte helpers compute what their callers assume")
	e, ok1 := constU64(cx, hmPkg, "emptyMetaSlot")
	dm, ok2 := constU64(cx, hmPkg, "defaultMeta")
	mm, ok3 := constU64(cx, hmPkg, "metaMask")
	npb, ok4 := constU64(cx, hmPkg, "nodesPerMapBucket")
	dmm, ok5 := constU64(cx, hmPkg, "defaultMetaMasked")
	if !(ok1 && ok2 && ok3 && ok4 && ok5) {
		cx.R.Undecided(rule, "hashmap", "constants", "-", "the meta word constants do not resolve")
		return
	}
	cx.R.Check(e == 0x80, rule, "hashmap", "emptyMetaSlot is the top bit of a byte", "-", fmt.Sprintf("empty slots are found by their top bit (%#x)", e))
	cx.R.Check(dm == 0x0101010101010101*e, rule, "hashmap", "defaultMeta = emptyMetaSlot in every byte", "-", fmt.Sprintf("%#x", dm))
	cx.R.Check(npb >= 1 && npb <= 8 && mm == (uint64(1)<<(8*npb))-1, rule, "hashmap", "metaMask covers nodesPerMapBucket bytes", "-", fmt.Sprintf("%#x for %d slots", mm, npb))
	cx.R.Check(dmm == dm&mm, rule, "hashmap", "defaultMetaMasked = defaultMeta & metaMask", "-", fmt.Sprintf("%#x", dmm))
	if _, st := cx.P.Struct(hmPkg, "bucket"); st != nil {
		okN := false
		for i := 0; i < st.NumFields(); i++ {
			if fname(st.Field(i)) == "nodes" {
				if a, isA := st.Field(i).Type().Underlying().(*types.Array); isA && uint64(a.Len()) == npb {
					okN = true
				}
			}
		}
		cx.R.Check(okN, rule, "hashmap.bucket", "nodes has nodesPerMapBucket slots", "-", "the slot array and the meta bytes describe the same slots")
	}
	p0 := tVar("param0")
	type want struct {
		name string
		ok   func(t *Term) bool
		doc  string
	}
	ones := tConst(0x0101010101010101)
	wants := []want{
		{"h2", func(t *Term) bool {
			return t.Op == "&" && len(t.Args) == 2 && t.Args[0].isConst() && t.Args[0].C&e == 0 && t.Args[0].C <= 0xff && t.Args[1].String() == p0.String()
		}, "a key's tag is the hash masked to bits below the empty marker's bit"},
		{"broadcast", func(t *Term) bool { return t.String() == mk("*", ones, p0).String() }, "broadcast repeats the byte in all eight lanes"},
		{"firstMarkedByteIndex", func(t *Term) bool {
			tz := mk("call:TrailingZeros64", p0)
			return t.String() == mk(">>", tz, tConst(3)).String() || t.String() == mk("/", tz, tConst(8)).String() // the count is never negative
		}, "the first marked byte is trailing-zeros / 8"},
		{"markZeroBytes", func(t *Term) bool {
			return t.String() == mk("&", mk("-", p0, ones), mk("u^", p0), tConst(0x8080808080808080)).String()
		}, "zero-byte search (w - 0x01..) & ^w & 0x80.."},
		{"setByte", func(t *Term) bool {
			sh := mk("<<", tVar("param2"), tConst(3))
			return t.String() == mk("|", mk("&^", p0, mk("<<", tConst(0xff), sh)), mk("<<", tVar("param1"), sh)).String()
		}, "setByte replaces byte idx of the word"},
	}
	for _, w := range wants {
		fn := cx.need(rule, hmPkg, "", w.name)
		if fn == nil {
			continue
		}
		t, n := singleReturnTerm(fn)
		cx.R.Check(n == 1 && t != nil && w.ok(t), rule, "hashmap."+w.name, "formula", cx.P.Pos(fn.Pos()), w.doc+" (found "+trunc(fmt.Sprint(t), 90)+")")
	}
}

// baseOfField: for a value computed from x.<field> (through loads, len, conversions, arithmetic with constants) the
// SSA value x; nil when it is not of that form.
func baseOfField(v ssa.Value, field string, depth int) ssa.Value {
	if depth > 12 {
		return nil
	}
	v = stripConv(v)
	switch x := v.(type) {
	case *ssa.UnOp:
		if x.Op == token.MUL {
			if fa, ok := x.X.(*ssa.FieldAddr); ok {
				if f := fieldOf(fa); f != nil && fname(f) == field {
					return stripLoadOnce(fa.X)
				}
			}
		}
	case *ssa.Field:
		if f := fieldOf(x); f != nil && fname(f) == field {
			return x.X
		}
	case *ssa.Call:
		if isBuiltinCall(x, "len") {
			return baseOfField(x.Call.Args[0], field, depth+1)
		}
	case *ssa.BinOp:
		if _, isC := x.Y.(*ssa.Const); isC {
			return baseOfField(x.X, field, depth+1)
		}
	}
	return nil
}

func stripLoadOnce(v ssa.Value) ssa.Value { return v }

func ruleC15HashIdx(cx *Ctx) {
	const rule = "C15.hashidx"
	cx.R.Rule(rule, 1, "wherever a bucket is selected by a key's hash - in place or through a selector helper of the table - the hash comes from the hasher of the very table whose bucket slice is indexed and masked with that slice's length - 1, and the tag stored with a node comes from the same hash value as the bucket it is stored in")
	h1f := cx.need(rule, hmPkg, "", "h1")
	h2f := cx.need(rule, hmPkg, "", "h2")
	if h1f == nil || h2f == nil {
		return
	}
	// hashCall: v is Hash(key) of some table's hasher: the call and the table value
	hashCall := func(v ssa.Value) (*ssa.Call, ssa.Value) {
		h, ok := stripConv(v).(*ssa.Call)
		if !ok {
			return nil, nil
		}
		name := ""
		var recv ssa.Value
		if h.Call.IsInvoke() {
			name, recv = h.Call.Method.Name(), h.Call.Value
		} else if sc := h.Call.StaticCallee(); sc != nil && len(h.Call.Args) > 0 {
			name, recv = origin(sc).Name(), h.Call.Args[0]
		}
		if name != "Hash" {
			return nil, nil
		}
		return h, baseOfField(recv, "hasher", 0)
	}
	// hOf: v = h1(x) / h2(x): x
	hOf := func(v ssa.Value, f *ssa.Function) ssa.Value {
		c, ok := stripConv(v).(*ssa.Call)
		if !ok || !isCallTo(c, f) {
			return nil
		}
		return stripConv(c.Call.Args[0])
	}
	type selector struct {
		fn            *ssa.Function
		tableP, hashP int
		result        int
	}
	var selectors []selector
	pidx := func(f *ssa.Function, v ssa.Value) int {
		for i, p := range f.Params {
			if ssa.Value(p) == v {
				return i
			}
		}
		return -1
	}
	n := 0
	for _, f := range cx.P.FuncsOfPkg(hmPkg) {
		f := f
		allInstrs(f, func(in ssa.Instruction) {
			ia, ok := in.(*ssa.IndexAddr)
			if !ok {
				return
			}
			tb := baseOfField(ia.X, "buckets", 0)
			if tb == nil {
				return
			}
			b, isB := stripConv(ia.Index).(*ssa.BinOp)
			if !isB || b.Op != token.AND {
				return // walks by position (resize, Range, constructors): not addressed by hash
			}
			var hv, lt ssa.Value
			for _, side := range [][2]ssa.Value{{b.X, b.Y}, {b.Y, b.X}} {
				if x := hOf(side[0], h1f); x != nil {
					hv = x
					lt = baseOfField(side[1], "buckets", 0)
				}
			}
			if hv == nil {
				return
			}
			n++
			key := fmt.Sprintf("bucket index #%d", n)
			if hc, ht := hashCall(hv); hc != nil {
				// reported on positive evidence of a mismatch only: a hasher (or a length) taken from a table value that is
				// not the one indexed; a mask handed in by the caller is checked at the call sites below
				bad := (ht != nil && ht != tb) || (lt != nil && lt != tb)
				cx.R.Check(!bad, rule, funcName(f), key, cx.P.where(in), "hasher, length mask and bucket slice belong to the same table value")
				if lt == nil {
					// the mask is a parameter: every call site computes it from the table argument
					for _, side := range []ssa.Value{b.X, b.Y} {
						mp := pidx(f, stripConv(side))
						tp := pidx(f, tb)
						if mp < 0 || tp < 0 {
							continue
						}
						for _, g := range cx.P.FuncsOfPkg(hmPkg) {
							allInstrs(g, func(site ssa.Instruction) {
								if !isCallTo(site, f) {
									return
								}
								cc := callCommon(site)
								if mp >= len(cc.Args) || tp >= len(cc.Args) {
									return
								}
								mt := baseOfField(cc.Args[mp], "buckets", 0)
								cx.R.Check(mt == nil || mt == cc.Args[tp], rule, funcName(g), key+" mask argument", cx.P.where(site), "the mask handed in is the length - 1 of the table handed in")
							})
						}
					}
				}
				return
			}
			// a selector helper: the hash is a parameter, the table too
			hp, tp := pidx(f, hv), pidx(f, tb)
			if hp >= 0 && tp >= 0 && lt == tb {
				res := -1
				allInstrs(f, func(x ssa.Instruction) {
					if r, isR := x.(*ssa.Return); isR {
						for i, v := range r.Results {
							if v == ssa.Value(ia) {
								res = i
							}
						}
					}
				})
				selectors = append(selectors, selector{f, tp, hp, res})
				cx.R.OK(rule, funcName(f), key, cx.P.where(in), "selector helper: length mask and bucket slice belong to its table parameter, the hash is its parameter (call sites checked)")
				return
			}
			cx.R.Violate(rule, funcName(f), key, cx.P.where(in), "NOT SATISFIED: the hash that selects the bucket is neither a Hash of this table's hasher nor a parameter of a selector helper")
		})
	}
	// selector call sites
	selOf := func(in ssa.Instruction) *selector {
		for i := range selectors {
			if isCallTo(in, selectors[i].fn) {
				return &selectors[i]
			}
		}
		return nil
	}
	for _, f := range cx.P.FuncsOfPkg(hmPkg) {
		f := f
		allInstrs(f, func(in ssa.Instruction) {
			sel := selOf(in)
			if sel == nil {
				return
			}
			n++
			cc := callCommon(in)
			_, ht := hashCall(cc.Args[sel.hashP])
			cx.R.Check(ht != nil && ht == cc.Args[sel.tableP], rule, funcName(f), fmt.Sprintf("bucket selection #%d", n), cx.P.where(in), "the hash handed to the selector comes from the hasher of the table it selects in")
		})
	}
	// index expressions computed away from the slice access (a probe helper that returns {bucket index, tag}): mask and hasher
	// of one table
	for _, f := range cx.P.FuncsOfPkg(hmPkg) {
		f := f
		allInstrs(f, func(in ssa.Instruction) {
			b, isB := in.(*ssa.BinOp)
			if !isB || b.Op != token.AND {
				return
			}
			direct := false
			for _, u := range usesOf(b) {
				if ia, ok := u.(*ssa.IndexAddr); ok && stripConv(ia.Index) == ssa.Value(b) {
					direct = true
				}
				if cv, ok := u.(*ssa.Convert); ok {
					for _, uu := range usesOf(cv) {
						if _, ok2 := uu.(*ssa.IndexAddr); ok2 {
							direct = true
						}
					}
				}
			}
			if direct {
				return // decided above
			}
			for _, side := range [][2]ssa.Value{{b.X, b.Y}, {b.Y, b.X}} {
				x := hOf(side[0], h1f)
				if x == nil {
					continue
				}
				lt := baseOfField(side[1], "buckets", 0)
				_, ht := hashCall(x)
				n++
				cx.R.Check(!(ht != nil && lt != nil && ht != lt), rule, funcName(f), fmt.Sprintf("bucket index #%d (computed apart)", n), cx.P.where(in), "hasher and length mask belong to the same table value")
			}
		})
	}
	cx.R.Check(n >= 1, rule, "hashmap", "hash-addressed bucket selections found", "-", fmt.Sprintf("%d", n))
	// tag and bucket from one hash: every call that is handed h2(H) and a bucket
	k := 0
	for _, f := range cx.P.FuncsOfPkg(hmPkg) {
		f := f
		allInstrs(f, func(in ssa.Instruction) {
			cc := callCommon(in)
			if cc == nil || cc.IsInvoke() || calleeOf(in) == nil || isCallTo(in, h1f) || isCallTo(in, h2f) {
				return
			}
			var H ssa.Value
			for _, a := range cc.Args {
				if x := hOf(a, h2f); x != nil {
					H = x
				}
			}
			if H == nil {
				return
			}
			hc, ht := hashCall(H)
			if hc == nil {
				return // a tag computed from a parameter: the helper's own callers are the sites
			}
			// the bucket argument
			same, found, decidable := false, false, false
			for _, a := range cc.Args {
				if namedTypeName(derefType(a.Type())) != "bucketPadded" {
					continue
				}
				found = true
				v := stripLoad(a)
				if ia, ok := v.(*ssa.IndexAddr); ok {
					if b, isB := stripConv(ia.Index).(*ssa.BinOp); isB {
						for _, sd := range []ssa.Value{b.X, b.Y} {
							if x := hOf(sd, h1f); x != nil {
								// the bucket is selected by some hash: it must be this one, of this table
								decidable = true
								if x == H {
									same = baseOfField(ia.X, "buckets", 0) == ht
								}
							}
						}
					}
				}
				var call *ssa.Call
				if ex, ok := v.(*ssa.Extract); ok {
					call, _ = ex.Tuple.(*ssa.Call)
				} else if c, ok := v.(*ssa.Call); ok {
					call = c
				}
				if call != nil {
					if sel := selOf(call); sel != nil {
						decidable = true
						same = stripConv(call.Call.Args[sel.hashP]) == H && call.Call.Args[sel.tableP] == ht
					}
				}
			}
			if !found || !decidable {
				return
			}
			k++
			cx.R.Check(same, rule, funcName(f), fmt.Sprintf("tag and bucket from one hash #%d", k), cx.P.where(in), "the tag byte and the destination bucket are derived from the same hash of the destination table's hasher")
		})
	}
}

func constantUint64(c *types.Const) (uint64, bool) {
	if c == nil || c.Val().Kind() != constant.Int {
		return 0, false
	}
	return constant.Uint64Val(c.Val())
}

// ---------------------------------------------------------------------------------------------------------------
// C08.tableonce: the in-flight table of a group is created at most once
// ---------------------------------------------------------------------------------------------------------------

func ruleC08TableOnce(cx *Ctx) {
	const rule = "C08.tableonce"
	cx.R.Rule(rule, 1, "the lazily created in-flight table is published at most once per group: every assignment of group.calls is a compare-and-swap from nil, runs inside sync.Once.Do, or happens with a mutex of the group held after re-testing the group's state under that mutex, and a separate 'initialised' flag is set only after the table is in place - a second table would hide the records registered in the first")
	callsF := cx.needField(rule, "", "group", "calls")
	if callsF == nil {
		return
	}
	n := 0
	for _, fn := range cx.P.FuncsOfPkg("") {
		fn := fn
		allInstrs(fn, func(in ssa.Instruction) {
			kind := ""
			if st, ok := in.(*ssa.Store); ok && sameField(fieldOf(st.Addr), callsF) {
				if _, isFA := st.Addr.(*ssa.FieldAddr); isFA {
					kind = "plain"
				}
			}
			for _, op := range []string{"Store", "Swap", "CompareAndSwap"} {
				if isStdMethod(in, "sync/atomic", "", op) && sameField(recvField(in), callsF) {
					kind = op
				}
			}
			if kind == "" {
				return
			}
			n++
			key := fmt.Sprintf("assignment #%d of the in-flight table (%s)", n, kind)
			if kind == "CompareAndSwap" {
				args := callArgs(in)
				cx.R.Check(len(args) == 2 && isNilConst(args[0]), rule, funcName(fn), key, cx.P.where(in), "the table is installed by a compare-and-swap from nil")
				return
			}
			// inside sync.Once.Do?
			if fn.Parent() != nil {
				once := false
				for _, u := range closureUses(fn) {
					if isStdMethod(u, "sync", "Once", "Do") {
						once = true
					}
				}
				if once {
					cx.R.OK(rule, funcName(fn), key, cx.P.where(in), "runs inside sync.Once.Do")
					return
				}
			}
			// under a mutex of the group, after a re-test evaluated under that mutex
			var lock ssa.Instruction
			allInstrs(fn, func(l ssa.Instruction) {
				if isStdMethod(l, "sync", "", "Lock") && instrDominates(l, in) {
					if f := recvField(l); f != nil && ownerName(fieldOwnerType(callCommon(l))) == "group" {
						lock = l
					}
				}
			})
			retested := false
			var flag *types.Var
			if lock != nil {
				for _, g := range guardsAt(in.Block()) {
					c, _ := stripNot(g.Cond)
					ci, isI := c.(ssa.Instruction)
					if !isI || !instrDominates(lock, ci) {
						continue
					}
					if call, isCall := c.(*ssa.Call); isCall && isStdMethod(call, "sync/atomic", "", "Load") {
						if f := recvField(call); f != nil && ownerName(fieldOwnerType(call.Common())) == "group" {
							retested = true
							if !sameField(f, callsF) {
								flag = f
							}
						}
					}
					if v, _, okN := nilCmp(c); okN && sameField(fieldOf(v), callsF) {
						retested = true
					}
				}
			}
			cx.R.Check(lock != nil && retested, rule, funcName(fn), key, cx.P.where(in), "the table is assigned with a mutex of the group held and the group's state re-tested under it (check-then-store without it lets two first loads each install a table)")
			if flag != nil {
				allInstrs(fn, func(s ssa.Instruction) {
					if isStdMethod(s, "sync/atomic", "", "Store") && sameField(recvField(s), flag) {
						cx.R.Check(instrDominates(in, s), rule, funcName(fn), "flag "+fname(flag)+" set after the table is in place", cx.P.where(s), "readers that see the flag must see the table")
					}
				})
			}
		})
	}
	cx.R.Check(n > 0, rule, "group", "table assignment found", "-", "the group's in-flight table is created somewhere")
}

// closureUses: the instructions that take the anonymous function fn as an operand (through its MakeClosure).
func closureUses(fn *ssa.Function) []ssa.Instruction {
	var out []ssa.Instruction
	p := fn.Parent()
	if p == nil {
		return nil
	}
	allInstrs(p, func(in ssa.Instruction) {
		if mc, ok := in.(*ssa.MakeClosure); ok && mc.Fn == ssa.Value(fn) {
			out = append(out, usesOf(mc)...)
		}
		for _, op := range in.Operands(nil) {
			if *op == ssa.Value(fn) {
				out = append(out, in)
			}
		}
	})
	return out
}

// ---------------------------------------------------------------------------------------------------------------
// C18.record: the policy tells the sketch about every access and every new entry
// ---------------------------------------------------------------------------------------------------------------

func ruleC18Record(cx *Ctx) {
	const rule = "C18.record"
	cx.R.Rule(rule, 3, "policy.access and policy.add record the entry's key in the sketch exactly once on every returning path, whatever queue the entry is (or is not yet) linked in; every read drained from the read buffer reaches policy.access when a size bound is configured - an estimate can only be at least the number of recordings if every access is a recording")
	inc := cx.need(rule, "", "sketch", "increment")
	if inc == nil {
		return
	}
	for _, m := range []string{"access", "add"} {
		fn := cx.need(rule, "", "policy", m)
		if fn == nil {
			continue
		}
		isInc := func(in ssa.Instruction) bool {
			if !isCallTo(in, inc) {
				return false
			}
			// of the handler's own node
			args := callArgs(in)
			if len(args) == 0 {
				return false
			}
			c, ok := stripConv(args[len(args)-1]).(*ssa.Call)
			return ok && c.Call.IsInvoke() && c.Call.Method.Name() == "Key" && paramIndexOf(c.Call.Value) == 1
		}
		memo := map[*ssa.Function]int{}
		ev := func(in ssa.Instruction) int {
			if isInc(in) {
				return 1
			}
			if c := calleeOf(in); c != nil && len(c.Blocks) > 0 && c.Pkg != nil && strings.HasPrefix(c.Pkg.Pkg.Path(), modPath) {
				// a helper that records its argument's key on all of its paths
				helperInc := func(x ssa.Instruction) bool { return isCallTo(x, inc) }
				if mustPerform(c, helperInc, memo) {
					return 1
				}
			}
			return 0
		}
		ok, n := true, 0
		var wit []string
		for _, ex := range CountOnPaths(fn, Pt{fn.Blocks[0], 0}, ev, nil) {
			if _, isRet := ex.Exit.(*ssa.Return); !isRet {
				continue
			}
			n++
			if ex.Count != 1 {
				ok, wit = false, ex.Witness
			}
		}
		cx.R.Check(ok && n > 0, rule, "(*policy)."+m, "records the key exactly once on every path", cx.P.Pos(fn.Pos()), "sketch.increment(n.Key()) runs once on every returning path of "+m, wit...)
	}
	// a recording is never followed by the (re)allocation of the table it went into: ensureCapacity - which enables
	// tracking or replaces the table by a larger, empty one - precedes the recording of the arrival on every path
	if ens, add := cx.P.Func("", "sketch", "ensureCapacity"), cx.P.Func("", "policy", "add"); ens != nil && add != nil {
		type site struct {
			in  ssa.Instruction
			idx int
		}
		var incs, enss []site
		performs := func(in ssa.Instruction, target *ssa.Function) bool {
			if isCallTo(in, target) {
				return true
			}
			if c := calleeOf(in); c != nil && len(c.Blocks) > 0 && c.Pkg != nil && strings.HasPrefix(c.Pkg.Pkg.Path(), modPath) {
				ok, _ := reachesInstr(c, func(x ssa.Instruction) bool { return isCallTo(x, target) }, map[*ssa.Function]bool{}, nil)
				return ok
			}
			return false
		}
		for _, b := range add.Blocks {
			for i, in := range b.Instrs {
				if _, isCall := in.(ssa.CallInstruction); !isCall {
					continue
				}
				if performs(in, inc) {
					incs = append(incs, site{in, i})
				}
				if performs(in, ens) {
					enss = append(enss, site{in, i})
				}
			}
		}
		bad := ""
		for _, a := range incs {
			for _, e := range enss {
				if a.in == e.in {
					continue
				}
				after := false
				if a.in.Block() == e.in.Block() {
					after = e.idx > a.idx
				} else {
					after = blockReaches(a.in.Block(), e.in.Block())
				}
				if after {
					bad = cx.P.where(e.in)
				}
			}
		}
		cx.R.Check(bad == "" && len(incs) > 0, rule, "(*policy).add", "capacity ensured before the arrival is recorded", cx.P.Pos(add.Pos()), "no path of add reaches sketch.ensureCapacity after it recorded the arrival (the recording would go into a disabled table or one about to be replaced) "+bad)
	}
	// the drained read reaches policy.access under withEviction
	acc := cx.P.Func("", "policy", "access")
	oa := cx.need(rule, "", "cache", "onAccess")
	if acc != nil && oa != nil {
		okA := false
		allInstrs(oa, func(in ssa.Instruction) {
			if isCallTo(in, acc) && paramIndexOf(callArgs(in)[len(callArgs(in))-1]) == 1 {
				gs := guardsAt(in.Block())
				only := true
				for _, g := range gs {
					f := fieldOf(g.Cond)
					if f == nil || fname(f) != "withEviction" || !g.Truth {
						only = false
					}
				}
				if only {
					okA = true
				}
			}
		})
		cx.R.Check(okA, rule, "(*cache).onAccess", "hands the node to policy.access", cx.P.Pos(oa.Pos()), "a drained read is recorded by the policy whenever a size bound is configured, under no other condition")
	}
}

// ---------------------------------------------------------------------------------------------------------------
// C06.handlernil: whether a deletion handler is configured decides nothing but the handler's invocation
// ---------------------------------------------------------------------------------------------------------------

func ruleC06HandlerNil(cx *Ctx) {
	const rule = "C06.handlernil"
	cx.R.Rule(rule, 2, "a test whether a deletion handler is configured guards only the construction of the event and the invocation of that handler (directly or through the executor): both outcomes of the test return the same values and perform the same other effects - what an operation returns or removes never depends on whether a listener is attached (the path summaries of all other rules describe the configured case)")
	handlers := map[*types.Var]bool{}
	for _, n := range []string{"onDeletion", "onAtomicDeletion"} {
		if f := cx.needField(rule, "", "cache", n); f != nil {
			handlers[f.Origin()] = true
		}
	}
	exF := cx.P.Field("", "cache", "executor")
	isHandlerLoad := func(v ssa.Value) bool {
		// the handler may be read once into a local (spilled to a cell when a closure captures it)
		if u, ok := v.(*ssa.UnOp); ok {
			if al, isAl := u.X.(*ssa.Alloc); isAl {
				if st := wholeStore(al); st != nil {
					v = st
				}
			}
		}
		f := fieldOf(v)
		return f != nil && handlers[f.Origin()] && ownerName(fieldOwnerOfValue(v)) == "cache"
	}
	var allowedIn func(f *ssa.Function, blocks map[*ssa.BasicBlock]bool, depth int) (bool, string)
	allowedIn = func(f *ssa.Function, blocks map[*ssa.BasicBlock]bool, depth int) (bool, string) {
		for _, b := range f.Blocks {
			if blocks != nil && !blocks[b] {
				continue
			}
			for _, in := range b.Instrs {
				switch x := in.(type) {
				case *ssa.Alloc, *ssa.FieldAddr, *ssa.Field, *ssa.UnOp, *ssa.MakeInterface, *ssa.Convert, *ssa.ChangeType, *ssa.Jump, *ssa.Phi, *ssa.DebugRef, *ssa.Extract, *ssa.IndexAddr, *ssa.BinOp:
				case *ssa.Return:
					if blocks == nil && len(x.Results) != 0 {
						return false, "the handler closure returns a value"
					}
				case *ssa.Store:
					// only into locals (the event literal)
					root := x.Addr
					for {
						if fa, ok := root.(*ssa.FieldAddr); ok {
							root = fa.X
							continue
						}
						break
					}
					if _, ok := root.(*ssa.Alloc); !ok {
						return false, "stores into shared memory at " + cx.P.where(in)
					}
				case *ssa.MakeClosure:
					cl, _ := x.Fn.(*ssa.Function)
					if cl == nil || depth > 2 {
						return false, "closure not resolved"
					}
					if ok, why := allowedIn(cl, nil, depth+1); !ok {
						return false, why
					}
				case *ssa.Call:
					cc := x.Common()
					switch {
					case cc.IsInvoke() && (nodeAccessors[cc.Method.Name()]):
					case !cc.IsInvoke() && cc.StaticCallee() == nil && isHandlerLoad(cc.Value):
					case !cc.IsInvoke() && cc.StaticCallee() == nil && exF != nil && sameField(fieldOf(cc.Value), exF):
					case !cc.IsInvoke() && cc.StaticCallee() == nil:
						if fv, isFV := stripLoad(cc.Value).(*ssa.FreeVar); isFV && depth > 0 {
							_ = fv // a captured handler value
						} else if _, isP := stripLoad(cc.Value).(*ssa.Parameter); isP && depth > 0 {
							// a function handed to a generic run helper
						} else {
							return false, "calls something other than the handler at " + cx.P.where(in)
						}
					default:
						// a helper of the module that itself only builds the event and invokes the handler (a delivery method of a
						// small notice object, a generic run helper)
						if g := cc.StaticCallee(); g != nil && depth < 3 {
							g = origin(g)
							if g.Pkg != nil && strings.HasPrefix(g.Pkg.Pkg.Path(), modPath) && len(g.Blocks) > 0 {
								if ok, _ := allowedIn(g, nil, depth+1); ok {
									continue
								}
							}
						}
						return false, "calls " + fmt.Sprint(cc.Value.Name()) + " at " + cx.P.where(in)
					}
				case *ssa.If:
					return false, "branches inside the handler-only region at " + cx.P.where(in)
				default:
					return false, fmt.Sprintf("%T at %s", in, cx.P.where(in))
				}
			}
		}
		return true, ""
	}
	n := 0
	for _, fn := range cx.P.FuncsOfPkg("") {
		fn := fn
		allInstrs(fn, func(in ssa.Instruction) {
			iff, ok := in.(*ssa.If)
			if !ok {
				return
			}
			v, isNil, okN := nilCmp(iff.Cond)
			if !okN || !isHandlerLoad(v) {
				return
			}
			n++
			nilSucc, setSucc := iff.Block().Succs[0], iff.Block().Succs[1]
			if !isNil {
				nilSucc, setSucc = setSucc, nilSucc
			}
			key := fmt.Sprintf("test #%d of %s", n, fname(fieldOf(v)))
			// region: blocks reachable from the configured edge without entering the not-configured successor
			region := map[*ssa.BasicBlock]bool{}
			var walk func(b *ssa.BasicBlock)
			walk = func(b *ssa.BasicBlock) {
				if region[b] || b == nilSucc {
					return
				}
				region[b] = true
				for _, s := range b.Succs {
					walk(s)
				}
			}
			walk(setSucc)
			joins := false
			for b := range region {
				for _, s := range b.Succs {
					if s == nilSucc {
						joins = true
					}
				}
			}
			okR, why := allowedIn(fn, region, 0)
			if okR && !joins {
				// guard-clause form: the not-configured successor must be a bare return of the same values as the region's returns
				var nilRet *ssa.Return
				if len(nilSucc.Instrs) == 1 {
					nilRet, _ = nilSucc.Instrs[0].(*ssa.Return)
				}
				if nilRet == nil {
					okR, why = false, "the not-configured branch does more than return"
				} else {
					for b := range region {
						if r, isR := b.Instrs[len(b.Instrs)-1].(*ssa.Return); isR {
							if len(r.Results) != len(nilRet.Results) {
								okR, why = false, "the two branches return different values"
							}
							for i := range r.Results {
								if i < len(nilRet.Results) && r.Results[i] != nilRet.Results[i] {
									okR, why = false, "the two branches return different values"
								}
							}
						}
					}
				}
			}
			cx.R.Check(okR, rule, funcName(fn), key, cx.P.where(in), "the configured branch only builds the event and invokes the handler; both branches continue alike ("+why+")")
		})
	}
	cx.R.Check(n >= 2, rule, "cache", "handler tests found", "-", fmt.Sprintf("%d", n))
}

func fieldOwnerOfValue(v ssa.Value) types.Type {
	v = stripLoad(v)
	switch x := v.(type) {
	case *ssa.FieldAddr:
		return x.X.Type()
	case *ssa.Field:
		return x.X.Type()
	}
	return types.Typ[types.Invalid]
}

package main

import (
	"fmt"
	"go/token"
	"go/types"
	"strings"

	"golang.org/x/tools/go/ssa"
)

// reasonConsts resolves the task reasons.
func (cx *Ctx) reasonConsts(rule string) (add, del, upd int64, ok bool) {
	get := func(n string) (int64, bool) {
		c := cx.P.Const("", n)
		if c == nil {
			cx.R.Undecided(rule, n, "anchor", "-", "task reason constant "+n+" does not resolve")
			return 0, false
		}
		return constInt(ssa.NewConst(c.Val(), c.Type()))
	}
	var o1, o2, o3 bool
	add, o1 = get("addReason")
	del, o2 = get("deleteReason")
	upd, o3 = get("updateReason")
	return add, del, upd, o1 && o2 && o3
}

// accessorTerm: the term a trivial field accessor (task.node, task.oldNode) yields for receiver term recv.
func accessorTerm(fn *ssa.Function, recv string) string {
	var out string
	allInstrs(fn, func(in ssa.Instruction) {
		if r, ok := in.(*ssa.Return); ok && len(r.Results) == 1 {
			if f := fieldOf(r.Results[0]); f != nil && stripLoad(r.Results[0]) != r.Results[0] {
				out = "load(" + recv + "." + fname(f) + ")"
			}
		}
	})
	return out
}

// ruleC05RunTask: the replay handler applies each task kind completely to both policies. Decided on the path summaries
// of runTask (helpers it delegates a case to are inlined), so the shape of the switch is free.
func ruleC05RunTask(cx *Ctx) {
	const rule = "C05.runTask"
	cx.R.Rule(rule, 4, "runTask: exhaustive reason switch; add schedules expiry only for alive nodes and adds to the eviction policy; update unschedules old, schedules new if alive, transplants in the policy, reports old; delete removes from both and reports; every case releases the task")
	wr := cx.needField(rule, "", "task", "writeReason")
	dc := cx.needField(rule, "", "task", "deletionCause")
	nodeF := cx.need(rule, "", "task", "node")
	oldF := cx.need(rule, "", "task", "oldNode")
	evict := cx.need(rule, "", "cache", "evictNode")
	addR, delR, updR, ok := cx.reasonConsts(rule)
	r := cx.runOp(rule, opSpec{"runTask", "cache", "runTask", nil, "runTask", nil})
	if r == nil || wr == nil || dc == nil || nodeF == nil || oldF == nil || evict == nil || !ok {
		return
	}
	fn := r.fn
	name := funcName(fn)
	t := "param:" + pname(bparam(fn, 1))
	n, old := accessorTerm(nodeF, t), accessorTerm(oldF, t)
	if n == "" || old == "" || n == old {
		cx.R.Undecided(rule, name, "task accessors", cx.P.Pos(fn.Pos()), "task.node / task.oldNode are no longer plain field accessors")
		return
	}
	reasonT := "load(" + t + "." + fname(wr) + ")"
	causeT := "load(" + t + "." + fname(dc) + ")"
	names := map[int64]string{addR: "add", updR: "update", delR: "delete"}
	a := newAgg(cx, rule, name, cx.P.Pos(fn.Pos()))
	seen := map[int64]int{}
	for _, o := range r.outs {
		if o.Cut {
			continue
		}
		if isNil, k := predOf(o, "IsNil("+t+")"); k && isNil {
			a.check("nil task ignored", len(o.S.trace) == 0 && !o.Panic, "the nil task has no effect", fmt.Sprint(traceStrings(o)), o)
			continue
		}
		reason := int64(-1)
		for _, c := range []int64{addR, updR, delR} {
			if v, k := predOf(o, fmt.Sprintf("Eq(%s,const(%d))", reasonT, c)); k && v {
				reason = c
			}
		}
		if reason < 0 {
			a.check("unknown reason rejected", o.Panic && len(allEvents(o, "ExpAdd"))+len(allEvents(o, "ExpDelete"))+len(allEvents(o, "PolicyAdd"))+len(allEvents(o, "PolicyDelete"))+len(allEvents(o, "PolicyUpdate")) == 0, "a task with an unknown reason touches no policy (it panics)", fmt.Sprint(traceStrings(o)), o)
			continue
		}
		seen[reason]++
		cs := "case " + names[reason] + ": "
		wX, kX := flagOf(o, "withExpiration")
		wE, kE := flagOf(o, "withEviction")
		alive, kA := predOf(o, "Alive("+n+")")
		cnt := func(kind string, args ...string) (match, total int) {
			for _, e := range allEvents(o, kind) {
				total++
				okArgs := len(e.Args) >= len(args)
				for i := range args {
					if okArgs && args[i] != "*" && e.Args[i] != args[i] {
						okArgs = false
					}
				}
				if okArgs {
					match++
				}
			}
			return
		}
		want := func(construct string, cond bool, kind string, doc string, args ...string) {
			m, tot := cnt(kind, args...)
			w := 0
			if cond {
				w = 1
			}
			a.check(cs+construct, m == w && tot == w, doc, fmt.Sprintf("%d matching of %d %s event(s), expected %d", m, tot, kind, w), o)
		}
		a.check(cs+"flags consulted", kX && kE, "each policy is touched only under its configuration flag", "a flag is not consulted on this path", o)
		a.check(cs+"not aborted", !o.Panic, "a known task reason is handled without panic", "panic", o)
		evictCb := func(kind string, idx int) bool {
			for _, e := range allEvents(o, kind) {
				if len(e.Args) <= idx {
					return false
				}
				cl := r.ps.closures[e.Args[idx]]
				if cl == nil || cl.bound == nil || origin(cl.bound) != origin(evict) || cl.recv != "param:"+pname(bparam(fn, 0)) {
					return false
				}
			}
			return true
		}
		switch reason {
		case addR:
			want("exp.Add(n)", kX && wX && kA && alive, "ExpAdd", "an added node is scheduled iff expiration is on and the node is still alive", n)
			a.check(cs+"exp.Add(n) alive-guarded", !(kX && wX) || kA, "liveness of the node is tested before it is scheduled", "Alive(n) not tested", o)
			want("exp.Delete none", false, "ExpDelete", "an add task unschedules nothing")
			want("policy.add(n)", kE && wE, "PolicyAdd", "an added node enters the eviction policy iff eviction is on", n)
			a.check(cs+"policy.add evictor", evictCb("PolicyAdd", 1), "the eviction callback handed to the policy is cache.evictNode", "other callback", o)
			want("no policy.update/delete", false, "PolicyUpdate", "an add task does not transplant")
			want("no policy.delete", false, "PolicyDelete", "an add task does not unlink")
			want("no report", false, "AsyncNotify", "an add task reports no deletion")
		case updR:
			m, tot := cnt("ExpDelete", old)
			w := 0
			if kX && wX {
				w = 1
			}
			a.check(cs+"exp.Delete(old)", m == w && tot == w, "the replaced node is unscheduled iff expiration is on (and nothing else is)", fmt.Sprintf("%d/%d", m, tot), o)
			want("exp.Add(n)", kX && wX && kA && alive, "ExpAdd", "the replacing node is scheduled iff expiration is on and it is still alive", n)
			a.check(cs+"exp.Add(n) alive-guarded", !(kX && wX) || kA, "liveness of the node is tested before it is scheduled", "Alive(n) not tested", o)
			// order: unschedule before schedule
			di, ai := -1, -1
			for i, e := range o.S.trace {
				if e.Kind == "ExpDelete" {
					di = i
				}
				if e.Kind == "ExpAdd" && ai < 0 {
					ai = i
				}
			}
			if di >= 0 && ai >= 0 {
				a.check("update: unschedule ≺ schedule", di < ai, "the old node's timer is removed before the new node's timer is added", "order reversed", o)
			}
			want("policy.update(n,old)", kE && wE, "PolicyUpdate", "the replacing node takes the old node's place in the eviction policy iff eviction is on", n, old)
			a.check(cs+"policy.update evictor", evictCb("PolicyUpdate", 2), "the eviction callback handed to the policy is cache.evictNode", "other callback", o)
			want("no policy.add", false, "PolicyAdd", "an update task does not add")
			want("no policy.delete", false, "PolicyDelete", "an update task does not unlink")
			want("notify(old,task.cause)", true, "AsyncNotify", "the replaced entry is reported exactly once with the task's cause, whatever the configuration", "Key("+old+")", "Value("+old+")", causeT)
		case delR:
			want("exp.Delete(n)", kX && wX, "ExpDelete", "the deleted node is unscheduled iff expiration is on", n)
			want("no exp.Add", false, "ExpAdd", "a delete task schedules nothing")
			want("policy.delete(n)", kE && wE, "PolicyDelete", "the deleted node leaves the eviction policy iff eviction is on", n)
			want("no policy.add", false, "PolicyAdd", "a delete task does not add")
			want("no policy.update", false, "PolicyUpdate", "a delete task does not transplant")
			want("notify(n,task.cause)", true, "AsyncNotify", "the deleted entry is reported exactly once with the task's cause, whatever the configuration", "Key("+n+")", "Value("+n+")", causeT)
		}
		m, tot := cnt("PutTask", t)
		a.check("task recycled", m == 1 && tot == 1, "every handled task is cleared and returned to the pool", fmt.Sprintf("%d/%d PutTask", m, tot), o)
	}
	a.check("exhaustive", seen[addR] > 0 && seen[updR] > 0 && seen[delR] > 0, "the reason switch handles add, update and delete", fmt.Sprint(seen), nil)
	a.flush()
}

// ruleC05LockCtx: policy / deque / wheel / node link state is written only with the eviction lock held.
func ruleC05LockCtx(cx *Ctx) {
	const rule = "C05.lockctx"
	cx.R.Rule(rule, 13, "every write of policy fields, deque fields, timer-wheel fields and node link/queue fields, and every consumption of the read and write buffers, executes with the eviction lock held (constructors of still unpublished objects exempt; the drainBuffers token hand-off is modelled)")
	lc := lockContext(cx)
	if lc == nil {
		cx.R.Undecided(rule, "*", "lock context", "-", "eviction-lock context analysis unavailable")
		return
	}
	exempt := map[string]string{
		"newPolicy":              "object not yet published",
		"deque.NewLinked":        "object not yet published",
		"expiration.NewVariable": "object not yet published (sentinel links)",
		"newSketch":              "object not yet published",
	}
	protected := map[string]bool{}
	for _, tf := range [][2]string{{"", "policy"}, {"internal/deque", "Linked"}, {"internal/expiration", "Variable"}, {"", "sketch"}} {
		_, st := cx.P.Struct(tf[0], tf[1])
		if st == nil {
			cx.R.Undecided(rule, tf[1], "anchor", "-", "protected struct does not resolve")
			continue
		}
		for i := 0; i < st.NumFields(); i++ {
			if tf[1] == "sketch" && fname(st.Field(i)) == "isInitialized" {
				continue // atomic flag read lock-free by readers
			}
			protected[tf[1]+"."+fname(st.Field(i))] = true
		}
	}
	linkMethods := map[string]bool{"SetPrev": true, "SetNext": true, "SetPrevExp": true, "SetNextExp": true, "SetQueueType": true, "MakeWindow": true, "MakeMainProbation": true, "MakeMainProtected": true}
	for _, fn := range cx.P.ModuleFuncs() {
		name := funcName(fn)
		if fn.Pkg != nil && strings.HasSuffix(fn.Pkg.Pkg.Path(), nodePkg) {
			continue // the node methods themselves; their callers are checked
		}
		n := 0
		allInstrs(fn, func(in ssa.Instruction) {
			what := ""
			switch x := in.(type) {
			case *ssa.Store:
				if f := fieldOf(x.Addr); f != nil {
					if tn := structNameOfAddr(x.Addr); protected[tn+"."+fname(f)] {
						what = "store to " + tn + "." + fname(f)
					}
				}
				// stores into the sketch table / wheel slices
				if ia, ok := x.Addr.(*ssa.IndexAddr); ok {
					if f := fieldOf(ia.X); f != nil {
						if tn := structNameOfAddr(stripLoad(ia.X)); protected[tn+"."+fname(f)] {
							what = "store into " + tn + "." + fname(f) + "[...]"
						}
					}
				}
			case ssa.CallInstruction:
				if m := invokeName(in); linkMethods[m] && isNodeIface(namedTypeName(callCommon(in).Value.Type())) {
					what = "node." + m
				}
			}
			if what == "" {
				return
			}
			n++
			if why, ok := exempt[funcName(outermost(fn))]; ok {
				cx.R.OK(rule, name, fmt.Sprintf("%s #%d", what, n), cx.P.where(in), "exempt: "+why)
				return
			}
			cx.R.Check(lc.heldAtCtx(in), rule, name, fmt.Sprintf("%s #%d", what, n), cx.P.where(in), what+" under the eviction lock: "+lc.explain(in))
		})
	}
}

func structNameOfAddr(v ssa.Value) string {
	fa, ok := v.(*ssa.FieldAddr)
	if !ok {
		return ""
	}
	t := fa.X.Type()
	return namedTypeName(t)
}

// ruleC05LockRead: the intrusive list state is also *read* only under the eviction lock.
func ruleC05LockRead(cx *Ctx) {
	const rule = "C05.lockread"
	cx.R.Rule(rule, 6, "deque head/tail/len and the nodes' list links are read only with the eviction lock held, or inside the lazily evaluated iterator closures returned by Linked.All / Linked.Backward (whose consumption under the lock, after maintenance, C19.source decides): an iterator constructor that samples list state when it is built would observe the state before the lock was taken")
	lc := lockContext(cx)
	if lc == nil {
		cx.R.Undecided(rule, "*", "lock context", "-", "eviction-lock context analysis unavailable")
		return
	}
	_, st := cx.P.Struct("internal/deque", "Linked")
	if st == nil {
		cx.R.Undecided(rule, "Linked", "anchor", "-", "deque.Linked does not resolve")
		return
	}
	linkGetters := map[string]bool{"Next": true, "Prev": true, "NextExp": true, "PrevExp": true}
	exempt := map[string]string{"deque.NewLinked": "object not yet published", "expiration.NewVariable": "object not yet published"}
	// lazily evaluated iterator closures: closures returned by a method of Linked whose result type is a function
	lazy := map[*ssa.Function]bool{}
	for _, fn := range cx.P.FuncsOfPkg("internal/deque") {
		if fn.Parent() == nil {
			continue
		}
		p := fn.Parent()
		if p.Parent() != nil || p.Signature.Results().Len() != 1 {
			continue
		}
		if _, isFn := p.Signature.Results().At(0).Type().Underlying().(*types.Signature); !isFn {
			continue
		}
		returned := false
		allInstrs(p, func(in ssa.Instruction) {
			if r, ok := in.(*ssa.Return); ok && len(r.Results) == 1 && closureOf(r.Results[0]) == fn {
				returned = true
			}
		})
		if returned {
			lazy[fn] = true
		}
	}
	// the lazily evaluated iterators are built only by the ordered iterator of the cache, which C19.source decides
	eo := cx.P.Func("", "cache", "evictionOrder")
	for cl := range lazy {
		ctor := cl.Parent()
		for _, f := range cx.P.ModuleFuncs() {
			allInstrs(f, func(in ssa.Instruction) {
				if isCallTo(in, ctor) {
					cx.R.Check(eo != nil && onlyWithin(cx, outermost(f), eo, 0), rule, funcName(f), "iterator "+cname(ctor)+" built by the ordered iterator", cx.P.where(in), "deque iterators are built only inside cache.evictionOrder, whose closure takes the lock and runs maintenance before it enumerates")
				}
			})
		}
	}
	// held at `in`, counting call sites inside the lazy iterator closures as held (their consumption is C19.source's part)
	var heldOrLazy func(in ssa.Instruction, depth int) bool
	heldOrLazy = func(in ssa.Instruction, depth int) bool {
		if lc.heldAtCtx(in) {
			return true
		}
		f := in.Parent()
		for g := f; g != nil; g = g.Parent() {
			if lazy[g] {
				return true
			}
		}
		if depth > 4 || f.Parent() != nil {
			return false
		}
		// a helper without lock operations of its own is held wherever all its callers are
		lockFree := true
		allInstrs(f, func(x ssa.Instruction) {
			if mutexOp(x, lc.mu, "Lock") || mutexOp(x, lc.mu, "Unlock") || mutexOp(x, lc.mu, "TryLock") {
				lockFree = false
			}
		})
		sites := lc.sites[origin(f)]
		if lockFree && len(sites) == 0 && handedOnlyToLazy(cx, f, lazy) {
			return true // a method value the lazy iterator calls when it is consumed (walk(d.Tail, d.getPrev))
		}
		if !lockFree || len(sites) == 0 {
			return false
		}
		for _, s := range sites {
			if !heldOrLazy(s, depth+1) {
				return false
			}
		}
		return true
	}
	for _, fn := range cx.P.ModuleFuncs() {
		if fn.Pkg != nil && strings.HasSuffix(fn.Pkg.Pkg.Path(), nodePkg) {
			continue
		}
		name := funcName(fn)
		n := 0
		allInstrs(fn, func(in ssa.Instruction) {
			what := ""
			switch x := in.(type) {
			case *ssa.UnOp:
				if x.Op == token.MUL {
					if f := fieldOf(x.X); f != nil && structNameOfAddr(x.X) == "Linked" {
						switch fname(f) {
						case "head", "tail", "len":
							what = "read of Linked." + fname(f)
						}
					}
				}
			case ssa.CallInstruction:
				if m := invokeName(in); linkGetters[m] && isNodeIface(namedTypeName(callCommon(in).Value.Type())) {
					what = "node." + m
				}
			}
			if what == "" {
				return
			}
			n++
			key := fmt.Sprintf("%s #%d", what, n)
			if why, ok := exempt[funcName(outermost(fn))]; ok {
				cx.R.OK(rule, name, key, cx.P.where(in), "exempt: "+why)
				return
			}
			// inside (or below) a lazily evaluated iterator closure
			for f := fn; f != nil; f = f.Parent() {
				if lazy[f] {
					cx.R.OK(rule, name, key, cx.P.where(in), "inside the lazily evaluated iterator closure (consumption decided by C19.source)")
					return
				}
			}
			if len(lc.sites[origin(outermost(fn))]) == 0 && fn.Pkg != nil && strings.Contains(fn.Pkg.Pkg.Path(), "/internal/") && !addressTaken(cx, outermost(fn)) {
				cx.R.OK(rule, name, key, cx.P.where(in), "unreachable: a function of an internal package that nothing in the module calls")
				return
			}
			cx.R.Check(heldOrLazy(in, 0), rule, name, key, cx.P.where(in), what+" under the eviction lock: "+lc.explain(in))
		})
	}
}

// addressTaken: the function is used as a value somewhere in the module (method value, function value).
func addressTaken(cx *Ctx, fn *ssa.Function) bool {
	taken := false
	for _, f := range cx.P.ModuleFuncs() {
		allInstrs(f, func(in ssa.Instruction) {
			for _, op := range in.Operands(nil) {
				if op == nil || *op == nil {
					continue
				}
				if g, ok := (*op).(*ssa.Function); ok && origin(g) == origin(fn) {
					if cc := callCommon(in); cc != nil && cc.Value == *op {
						continue
					}
					taken = true
				}
				if mc, ok := (*op).(*ssa.MakeClosure); ok {
					if bm := boundMethod(mc); bm != nil && origin(bm) == origin(fn) {
						taken = true
					}
				}
			}
		})
	}
	return taken
}

// onlyWithin: f is `within`, or a helper all of whose call sites in the module lie in functions that are.
func onlyWithin(cx *Ctx, f, within *ssa.Function, depth int) bool {
	if origin(f) == origin(within) {
		return true
	}
	if depth > 3 {
		return false
	}
	sites := 0
	ok := true
	if addressTaken(cx, f) {
		// as a value it may only be handed to `within` itself
		for _, g := range cx.P.ModuleFuncs() {
			allInstrs(g, func(in ssa.Instruction) {
				if mc, isMC := in.(*ssa.MakeClosure); isMC {
					if bm := boundMethod(mc); bm != nil && origin(bm) == origin(f) {
						sites++
						if bad := flowsOnlyTo(mc, []*ssa.Function{within}, outermost(g), map[ssa.Value]bool{}); bad != "" {
							ok = false
						}
					}
				}
			})
		}
		if !ok || sites == 0 {
			return false
		}
	}
	for _, g := range cx.P.ModuleFuncs() {
		allInstrs(g, func(in ssa.Instruction) {
			if isCallTo(in, f) {
				sites++
				if !onlyWithin(cx, outermost(g), within, depth+1) {
					ok = false
				}
			}
		})
	}
	return ok && sites > 0
}

// handedOnlyToLazy: the method f is used only as a method value handed to constructors of lazy iterators, whose
// parameter is captured by (and nowhere else used than in) the lazily evaluated closure they return.
func handedOnlyToLazy(cx *Ctx, f *ssa.Function, lazy map[*ssa.Function]bool) bool {
	n, all := 0, true
	for _, g := range cx.P.ModuleFuncs() {
		allInstrs(g, func(in ssa.Instruction) {
			mc, ok := in.(*ssa.MakeClosure)
			if !ok || boundMethod(mc) == nil || origin(boundMethod(mc)) != origin(f) {
				return
			}
			for _, u := range usesOf(mc) {
				if _, dbg := u.(*ssa.DebugRef); dbg {
					continue
				}
				n++
				c, isCall := u.(*ssa.Call)
				ctor := calleeOf(u)
				if !isCall || ctor == nil {
					all = false
					continue
				}
				ctor = origin(ctor)
				for ai, a := range c.Call.Args {
					if a != ssa.Value(mc) || ai >= len(ctor.Params) {
						continue
					}
					// the parameter is only bound into lazy closures of the constructor
					for _, r := range *ctor.Params[ai].Referrers() {
						switch x := r.(type) {
						case *ssa.DebugRef:
						case *ssa.MakeClosure:
							if cl, _ := x.Fn.(*ssa.Function); cl == nil || !lazy[cl] {
								all = false
							}
						case *ssa.Store:
							al, isAl := x.Addr.(*ssa.Alloc)
							if !isAl {
								all = false
								continue
							}
							for _, r2 := range *al.Referrers() {
								switch y := r2.(type) {
								case *ssa.Store, *ssa.DebugRef:
								case *ssa.MakeClosure:
									if cl, _ := y.Fn.(*ssa.Function); cl == nil || !lazy[cl] {
										all = false
									}
								default:
									all = false
								}
							}
						default:
							all = false
						}
					}
				}
			}
		})
	}
	return n > 0 && all
}

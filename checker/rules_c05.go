package main

import (
	"fmt"
	"strings"

	"golang.org/x/tools/go/ssa"
)

// reasonConsts resolves the task reasons.
func (cx *Ctx) reasonConsts(rule string) (add, del, upd int64, ok bool) {
	get := func(n string) (int64, bool) {
		c := cx.P.Const("", n)
		if c == nil {
			cx.R.Undecided(rule, n, "anchor", "-", "task reason constant "+n+" does not resolve")
			return 0, false
		}
		return constInt(ssa.NewConst(c.Val(), c.Type()))
	}
	var o1, o2, o3 bool
	add, o1 = get("addReason")
	del, o2 = get("deleteReason")
	upd, o3 = get("updateReason")
	return add, del, upd, o1 && o2 && o3
}

// ruleC05RunTask: the replay handler applies each task kind completely to both policies.
func ruleC05RunTask(cx *Ctx) {
	const rule = "C05.runTask"
	cx.R.Rule(rule, 12, "runTask: exhaustive reason switch; add schedules expiry only for alive nodes and adds to the eviction policy; update unschedules old, schedules new if alive, transplants in the policy, reports old; delete removes from both and reports; every case releases the task")
	fn := cx.need(rule, "", "cache", "runTask")
	wr := cx.needField(rule, "", "task", "writeReason")
	dc := cx.needField(rule, "", "task", "deletionCause")
	expAdd := cx.need(rule, expPkg, "Variable", "Add")
	expDel := cx.need(rule, expPkg, "Variable", "Delete")
	pAdd := cx.need(rule, "", "policy", "add")
	pUpd := cx.need(rule, "", "policy", "update")
	pDel := cx.need(rule, "", "policy", "delete")
	notify := cx.need(rule, "", "cache", "notifyDeletion")
	nodeF := cx.need(rule, "", "task", "node")
	oldF := cx.need(rule, "", "task", "oldNode")
	evict := cx.need(rule, "", "cache", "evictNode")
	addR, delR, updR, ok := cx.reasonConsts(rule)
	if fn == nil || wr == nil || dc == nil || expAdd == nil || expDel == nil || pAdd == nil || pUpd == nil || pDel == nil || notify == nil || nodeF == nil || oldF == nil || evict == nil || !ok {
		return
	}
	name := funcName(fn)
	caseOf := func(b *ssa.BasicBlock) int64 {
		for _, g := range guardsAt(b) {
			if x, c, isEq, ok := eqConst(g.Cond); ok && isEq && g.Truth && sameField(fieldOf(x), wr) {
				return c
			}
		}
		return -1
	}
	seen := map[int64]bool{}
	allInstrs(fn, func(in ssa.Instruction) {
		if b, ok := in.(*ssa.BinOp); ok {
			if x, c, isEq, ok := eqConst(b); ok && isEq && sameField(fieldOf(x), wr) {
				seen[c] = true
			}
		}
	})
	cx.R.Check(seen[addR] && seen[delR] && seen[updR], rule, name, "exhaustive", cx.P.Pos(fn.Pos()), "the reason switch handles add, update and delete")
	// node roles
	var nNode, nOld ssa.Value
	allInstrs(fn, func(in ssa.Instruction) {
		if c, ok := in.(*ssa.Call); ok {
			if isCallTo(c, nodeF) {
				nNode = c
			}
			if isCallTo(c, oldF) {
				nOld = c
			}
		}
	})
	flagGuard := func(b *ssa.BasicBlock, flag string, want bool) bool {
		for _, g := range guardsAt(b) {
			if f := fieldOf(g.Cond); f != nil && f.Name() == flag && stripLoad(g.Cond) != g.Cond && g.Truth == want {
				return true
			}
		}
		return false
	}
	aliveGuard := func(b *ssa.BasicBlock, n ssa.Value) bool {
		for _, g := range guardsAt(b) {
			if c, ok := g.Cond.(*ssa.Call); ok && invokeName(c) == "IsAlive" && c.Call.Value == n && g.Truth {
				return true
			}
		}
		return false
	}
	type ev struct {
		what string
		in   ssa.Instruction
	}
	byCase := map[int64][]ev{}
	allInstrs(fn, func(in ssa.Instruction) {
		cs := caseOf(in.Block())
		if cs < 0 {
			return
		}
		a := callArgs(in)
		switch {
		case isCallTo(in, expAdd):
			w := "exp.Add(?)"
			if a[0] == nNode {
				w = "exp.Add(n)"
				if !aliveGuard(in.Block(), nNode) {
					w = "exp.Add(n) UNGUARDED"
				}
			}
			if !flagGuard(in.Block(), "withExpiration", true) {
				w += " NOFLAG"
			}
			byCase[cs] = append(byCase[cs], ev{w, in})
		case isCallTo(in, expDel):
			w := "exp.Delete(?)"
			if a[0] == nNode {
				w = "exp.Delete(n)"
			} else if a[0] == nOld {
				w = "exp.Delete(old)"
			}
			if !flagGuard(in.Block(), "withExpiration", true) {
				w += " NOFLAG"
			}
			byCase[cs] = append(byCase[cs], ev{w, in})
		case isCallTo(in, pAdd):
			w := "policy.add(?)"
			if a[0] == nNode && boundMethod(a[1]) == origin(evict) {
				w = "policy.add(n)"
			}
			if !flagGuard(in.Block(), "withEviction", true) {
				w += " NOFLAG"
			}
			byCase[cs] = append(byCase[cs], ev{w, in})
		case isCallTo(in, pUpd):
			w := "policy.update(?)"
			if a[0] == nNode && a[1] == nOld && boundMethod(a[2]) == origin(evict) {
				w = "policy.update(n,old)"
			}
			if !flagGuard(in.Block(), "withEviction", true) {
				w += " NOFLAG"
			}
			byCase[cs] = append(byCase[cs], ev{w, in})
		case isCallTo(in, pDel):
			w := "policy.delete(?)"
			if a[0] == nNode {
				w = "policy.delete(n)"
			}
			if !flagGuard(in.Block(), "withEviction", true) {
				w += " NOFLAG"
			}
			byCase[cs] = append(byCase[cs], ev{w, in})
		case isCallTo(in, notify):
			who := "?"
			k, isK := a[0].(*ssa.Call)
			v, isV := a[1].(*ssa.Call)
			if isK && isV && invokeName(k) == "Key" && invokeName(v) == "Value" && k.Call.Value == v.Call.Value {
				if k.Call.Value == nNode {
					who = "n"
				} else if k.Call.Value == nOld {
					who = "old"
				}
			}
			cause := "?"
			if sameField(fieldOf(a[2]), dc) {
				cause = "task.cause"
			}
			// the notification must not be conditional on configuration flags
			cond := ""
			if flagGuard(in.Block(), "withExpiration", true) || flagGuard(in.Block(), "withEviction", true) {
				cond = " CONDITIONAL"
			}
			byCase[cs] = append(byCase[cs], ev{fmt.Sprintf("notify(%s,%s)%s", who, cause, cond), in})
		}
	})
	want := map[int64][]string{
		addR: {"exp.Add(n)", "policy.add(n)"},
		updR: {"exp.Delete(old)", "exp.Add(n)", "policy.update(n,old)", "notify(old,task.cause)"},
		delR: {"exp.Delete(n)", "policy.delete(n)", "notify(n,task.cause)"},
	}
	names := map[int64]string{addR: "add", updR: "update", delR: "delete"}
	for cs, ws := range want {
		got := byCase[cs]
		var gs []string
		for _, g := range got {
			gs = append(gs, g.what)
		}
		for _, w := range ws {
			cnt := 0
			for _, g := range gs {
				if g == w {
					cnt++
				}
			}
			cx.R.Check(cnt == 1, rule, name, "case "+names[cs]+": "+w, cx.P.Pos(fn.Pos()), fmt.Sprintf("exactly one %s in the %s case (found events %v)", w, names[cs], gs))
		}
		for _, g := range got {
			if !contains(ws, g.what) {
				cx.R.Violate(rule, name, "case "+names[cs]+": unexpected "+g.what, cx.P.where(g.in), "unexpected or wrongly guarded policy effect in the "+names[cs]+" case: "+g.what)
			}
		}
	}
	// order inside update: unschedule old before scheduling new (both use the same list links only for distinct nodes; order is required by onAccess's NextExp test)
	var dOld, aNew ssa.Instruction
	for _, g := range byCase[updR] {
		if g.what == "exp.Delete(old)" {
			dOld = g.in
		}
		if g.what == "exp.Add(n)" {
			aNew = g.in
		}
	}
	if dOld != nil && aNew != nil {
		cx.R.Check(instrDominates(dOld, aNew), rule, name, "update: unschedule ≺ schedule", cx.P.where(aNew), "the old node's timer is removed before the new node's timer is added")
	}
	// the nil task is ignored, every other path returns the task to the pool or panics
	put := cx.P.Func("", "cache", "putTask")
	if put != nil {
		cut := map[edge]bool{}
		allInstrs(fn, func(in ssa.Instruction) {
			if ifi, ok := in.(*ssa.If); ok {
				if x, isEq, ok := nilCmp(ifi.Cond); ok && x == ssa.Value(fn.Params[1]) {
					idx := 0
					if !isEq {
						idx = 1
					}
					cut[edge{ifi.Block(), idx}] = true
				}
			}
		})
		ok, w := MustFollowPt(Pt{fn.Blocks[0], 0}, func(in ssa.Instruction) bool { return isCallTo(in, put) }, exitReturn, cut)
		cx.R.Check(ok, rule, name, "task recycled", cx.P.Pos(fn.Pos()), "every handled task is cleared and returned to the pool", w...)
	}
}

// ruleC05LockCtx: policy / deque / wheel / node link state is written only with the eviction lock held.
func ruleC05LockCtx(cx *Ctx) {
	const rule = "C05.lockctx"
	cx.R.Rule(rule, 40, "every write of policy fields, deque fields, timer-wheel fields and node link/queue fields, and every consumption of the read and write buffers, executes with the eviction lock held (constructors of still unpublished objects exempt; the drainBuffers token hand-off is modelled)")
	lc := lockContext(cx)
	if lc == nil {
		cx.R.Undecided(rule, "*", "lock context", "-", "eviction-lock context analysis unavailable")
		return
	}
	exempt := map[string]string{
		"newPolicy":             "object not yet published",
		"deque.NewLinked":       "object not yet published",
		"expiration.NewVariable": "object not yet published (sentinel links)",
		"newSketch":             "object not yet published",
	}
	protected := map[string]bool{}
	for _, tf := range [][2]string{{"", "policy"}, {"internal/deque", "Linked"}, {"internal/expiration", "Variable"}, {"", "sketch"}} {
		_, st := cx.P.Struct(tf[0], tf[1])
		if st == nil {
			cx.R.Undecided(rule, tf[1], "anchor", "-", "protected struct does not resolve")
			continue
		}
		for i := 0; i < st.NumFields(); i++ {
			if tf[1] == "sketch" && st.Field(i).Name() == "isInitialized" {
				continue // atomic flag read lock-free by readers
			}
			protected[tf[1]+"."+st.Field(i).Name()] = true
		}
	}
	linkMethods := map[string]bool{"SetPrev": true, "SetNext": true, "SetPrevExp": true, "SetNextExp": true, "SetQueueType": true, "MakeWindow": true, "MakeMainProbation": true, "MakeMainProtected": true}
	for _, fn := range cx.P.ModuleFuncs() {
		name := funcName(fn)
		if fn.Pkg != nil && strings.HasSuffix(fn.Pkg.Pkg.Path(), nodePkg) {
			continue // the node methods themselves; their callers are checked
		}
		n := 0
		allInstrs(fn, func(in ssa.Instruction) {
			what := ""
			switch x := in.(type) {
			case *ssa.Store:
				if f := fieldOf(x.Addr); f != nil {
					if tn := structNameOfAddr(x.Addr); protected[tn+"."+f.Name()] {
						what = "store to " + tn + "." + f.Name()
					}
				}
				// stores into the sketch table / wheel slices
				if ia, ok := x.Addr.(*ssa.IndexAddr); ok {
					if f := fieldOf(ia.X); f != nil {
						if tn := structNameOfAddr(stripLoad(ia.X)); protected[tn+"."+f.Name()] {
							what = "store into " + tn + "." + f.Name() + "[...]"
						}
					}
				}
			case ssa.CallInstruction:
				if m := invokeName(in); linkMethods[m] && isNodeIface(namedTypeName(callCommon(in).Value.Type())) {
					what = "node." + m
				}
			}
			if what == "" {
				return
			}
			n++
			if why, ok := exempt[funcName(outermost(fn))]; ok {
				cx.R.OK(rule, name, fmt.Sprintf("%s #%d", what, n), cx.P.where(in), "exempt: "+why)
				return
			}
			cx.R.Check(lc.heldAtCtx(in), rule, name, fmt.Sprintf("%s #%d", what, n), cx.P.where(in), what+" under the eviction lock: "+lc.explain(in))
		})
	}
}

func structNameOfAddr(v ssa.Value) string {
	fa, ok := v.(*ssa.FieldAddr)
	if !ok {
		return ""
	}
	t := fa.X.Type()
	return namedTypeName(t)
}

package main

import (
	"fmt"
	"sort"
	"strings"
)

// agg aggregates per-path checks into one obligation per construct.
type agg struct {
	cx    *Ctx
	rule  string
	fn    string
	where string
	n     map[string]int
	bad   map[string][]string
	msg   map[string]string
	doc   map[string]string
	order []string
}

func newAgg(cx *Ctx, rule, fn, where string) *agg {
	return &agg{cx: cx, rule: rule, fn: fn, where: where, n: map[string]int{}, bad: map[string][]string{}, msg: map[string]string{}, doc: map[string]string{}}
}

func (a *agg) check(construct string, ok bool, doc, detail string, o *psOutcome) {
	if _, seen := a.n[construct]; !seen {
		a.order = append(a.order, construct)
		a.doc[construct] = doc
	}
	a.n[construct]++
	if !ok {
		if _, had := a.bad[construct]; !had {
			a.msg[construct] = detail
			if o != nil {
				a.bad[construct] = traceStrings(o)
			} else {
				a.bad[construct] = []string{}
			}
		}
	}
}

func (a *agg) flush() {
	for _, c := range a.order {
		if tr, bad := a.bad[c]; bad {
			a.cx.R.Violate(a.rule, a.fn, c, a.where, "NOT SATISFIED: "+a.doc[c]+" — "+a.msg[c], tr...)
		} else {
			a.cx.R.OK(a.rule, a.fn, c, a.where, fmt.Sprintf("%s (%d path(s))", a.doc[c], a.n[c]))
		}
	}
}

// ---- C01.step / C03.ret ----

func freshValue(r *opRun, t string) string {
	if info, ok := r.ps.fresh[t]; ok && len(info) > 1 {
		return info[1]
	}
	return "?"
}

func retsEq(o *psOutcome, want ...string) bool {
	if len(o.Rets) != len(want) {
		return false
	}
	for i, w := range want {
		if w == "ZERO" {
			if !isZeroTerm(o.Rets[i]) {
				return false
			}
			continue
		}
		if o.Rets[i] != w {
			return false
		}
	}
	return true
}

func ruleStep(cx *Ctx, rule string, onlyExpired bool) {
	cx.R.Rule(rule, 6, "one-step refinement: on every path of every operation, for every abstract pre-state of the key (absent / live / expired-unswept), the returned terms and the table post-state equal the map-with-deadlines model's")
	pc := cx.consts(rule)
	if !pc.ok {
		return
	}
	for _, spec := range opTable {
		r := cx.runOp(rule, spec)
		if r == nil {
			continue
		}
		a := newAgg(cx, rule, funcName(r.fn), cx.P.Pos(r.fn.Pos()))
		for _, o := range r.outs {
			if o.Cut {
				continue
			}
			stepCheck(cx, a, r, o, pc, onlyExpired)
		}
		a.flush()
	}
	cx.R.exhaust = true
}

func stepCheck(cx *Ctx, a *agg, r *opRun, o *psOutcome, pc progConsts, onlyExpired bool) {
	name := r.spec.name
	tcs := tableComps(o)
	var c *tableComp
	if len(tcs) > 0 {
		c = tcs[0]
	}
	chk := func(pre, what string, ok bool, doc, detail string) {
		if onlyExpired && pre != "X" && pre != "LX" && pre != "?" {
			return
		}
		a.check(name+" pre="+pre+" "+what, ok, doc, detail, o)
	}
	got := ""
	for _, e := range allEvents(o, "TableGet") {
		if len(e.Args) > 2 && e.Args[2] == "hashmap" && got == "" {
			got = e.Args[0]
		}
	}
	retStr := strings.Join(o.Rets, ", ")
	switch r.spec.kind {
	case "set", "setIfAbsent":
		if o.Panic {
			return
		}
		if c == nil || len(tcs) != 1 {
			a.check(name+" computation", false, "exactly one table computation per call", fmt.Sprintf("%d table computations", len(tcs)), o)
			return
		}
		pre := preState(o, c.cur)
		eff := effectOf(c)
		val := freshValue(r, c.exit)
		switch pre {
		case "A", "X":
			chk(pre, "effect", eff == "install" && val == "param:value", "absent/expired: the new value is installed", "effect "+eff+" value "+val)
			chk(pre, "returns", retsEq(o, "param:value", "true"), "absent/expired: returns (new value, true) - an expired entry is not reported as previously present", "returns ("+retStr+")")
		case "L":
			if r.spec.kind == "set" {
				chk(pre, "effect", eff == "install" && val == "param:value", "live: the value is replaced", "effect "+eff+" value "+val)
			} else {
				chk(pre, "effect", eff == "unchanged", "live: SetIfAbsent leaves the mapping alone", "effect "+eff)
			}
			chk(pre, "returns", retsEq(o, "Value("+c.cur+")", "false"), "live: returns (existing value, false)", "returns ("+retStr+")")
		default:
			chk(pre, "returns", false, "the path decides between live and expired before reporting a previous value", "path never tests expiry/nil-ness of the current node but returns ("+retStr+")")
		}
	case "invalidate":
		if o.Panic {
			return
		}
		if c == nil || len(tcs) != 1 {
			a.check(name+" computation", false, "exactly one table computation per call", fmt.Sprintf("%d table computations", len(tcs)), o)
			return
		}
		pre := preState(o, c.cur)
		eff := effectOf(c)
		switch pre {
		case "A":
			chk(pre, "effect", eff == "removed" || eff == "unchanged", "absent: nothing to remove", "effect "+eff)
			chk(pre, "returns", retsEq(o, "ZERO", "false"), "absent: returns (zero, false)", "returns ("+retStr+")")
		case "L":
			chk(pre, "effect", eff == "removed", "live: the mapping is removed", "effect "+eff)
			chk(pre, "returns", retsEq(o, "Value("+c.cur+")", "true"), "live: returns (removed value, true)", "returns ("+retStr+")")
		case "X":
			chk(pre, "effect", eff == "removed", "expired: the stale mapping is removed", "effect "+eff)
			chk(pre, "returns", retsEq(o, "ZERO", "false"), "expired: returns (zero, false) - an expired value is not handed out", "returns ("+retStr+")")
		default:
			chk(pre, "returns", false, "the path decides between live and expired before reporting a removed value", "path never tests expiry but returns ("+retStr+")")
		}
	case "get", "getEntry", "getQuiet":
		if o.Panic {
			return
		}
		a.check(name+" no table write", len(tcs) == 0, "reads never run a table computation", fmt.Sprintf("%d computations", len(tcs)), o)
		if got == "" {
			a.check(name+" lookup", false, "the read looks the key up in the table", "no table lookup on this path", o)
			return
		}
		pre := preState(o, got)
		wantHit := "Value(" + got + ")"
		if r.spec.kind != "get" {
			wantHit = "Entry(" + got + ","
		}
		hit := len(o.Rets) == 2 && o.Rets[1] == "true"
		if hit {
			chk(pre, "hit", pre == "L" && strings.HasPrefix(o.Rets[0], wantHit), "a value is returned only for a live (non-nil, unexpired) entry and is that entry's", "pre-state "+pre+", returns ("+retStr+")")
		} else {
			chk(pre, "miss", retsEq(o, "ZERO", "false"), "absent or expired: returns (zero, false)", "returns ("+retStr+")")
			alive, aknown := predOf(o, "Alive("+got+")")
			if pre == "L" && !(aknown && !alive) {
				chk(pre, "miss", false, "a live entry is reported present", "live entry reported absent: returns ("+retStr+")")
			}
		}
	case "setExp", "setRefr":
		if o.Panic {
			return
		}
		a.check(name+" no table write", len(tcs) == 0, "deadline setters never change the mapping", fmt.Sprintf("%d computations", len(tcs)), o)
	case "compute", "computeIfAbsent", "computeIfPresent":
		stepCompute(cx, a, r, o, pc, c, tcs, got, chk)
	}
}

func stepCompute(cx *Ctx, a *agg, r *opRun, o *psOutcome, pc progConsts, c *tableComp, tcs []*tableComp, got string, chk func(pre, what string, ok bool, doc, detail string)) {
	name := r.spec.name
	retStr := strings.Join(o.Rets, ", ")
	userName := map[string]string{"compute": "remappingFunc", "computeIfAbsent": "mappingFunc", "computeIfPresent": "remappingFunc"}[r.spec.kind]
	ucs := userCalls(o, userName)
	a.check(name+" callback at most once", len(ucs) <= 1, "the user function runs at most once per call", fmt.Sprintf("%d invocations", len(ucs)), o)
	if c == nil {
		// fast paths of the two-phase variants
		if o.Panic {
			return
		}
		switch r.spec.kind {
		case "computeIfAbsent":
			pre := preState(o, got)
			chk(pre, "fast path", pre == "L" && retsEq(o, "Value("+got+")", "true") && len(ucs) == 0, "without a computation only a live entry is returned, and the mapping function is not called", "pre-state "+pre+" returns ("+retStr+")")
		case "computeIfPresent":
			pre := preState(o, got)
			chk(pre, "fast path", (pre == "A" || pre == "X") && retsEq(o, "ZERO", "false") && len(ucs) == 0, "absent/expired: (zero, false) without calling the function", "pre-state "+pre+" returns ("+retStr+")")
		default:
			a.check(name+" computation", false, "Compute runs one table computation", "no computation on this path", o)
		}
		return
	}
	if len(tcs) != 1 {
		a.check(name+" computation", false, "one table computation per call", fmt.Sprintf("%d computations", len(tcs)), o)
		return
	}
	pre := preState(o, c.cur)
	eff := effectOf(c)
	if o.Panic {
		chk(pre, "panic", eff == "unchanged" || eff == "open", "a panicking / invalid-op callback leaves the mapping unchanged", "effect "+eff)
		return
	}
	// what the user function saw
	if len(ucs) == 1 {
		args := ucs[0].Args[2:]
		switch r.spec.kind {
		case "compute":
			if pre == "L" {
				chk(pre, "callback args", len(args) == 2 && args[0] == "Value("+c.cur+")" && args[1] == "true", "live: the callback sees (current value, true)", "saw ("+strings.Join(args, ", ")+")")
			} else if pre == "A" || pre == "X" {
				chk(pre, "callback args", len(args) == 2 && isZeroTerm(args[0]) && args[1] == "false", "absent/expired: the callback sees (zero, false)", "saw ("+strings.Join(args, ", ")+")")
			} else {
				chk(pre, "callback args", false, "the callback's view is decided by an expiry test", "saw ("+strings.Join(args, ", ")+") without an expiry test")
			}
		case "computeIfPresent":
			chk(pre, "callback args", pre == "L" && len(args) == 1 && args[0] == "Value("+c.cur+")", "the function is called only for a live entry, with its value", "pre-state "+pre+" saw ("+strings.Join(args, ", ")+")")
		case "computeIfAbsent":
			chk(pre, "callback called", pre == "A" || pre == "X", "the mapping function is called only when the key is absent/expired", "pre-state "+pre)
		}
	}
	// decide the op
	op := "?"
	res := ""
	if len(ucs) == 1 {
		res = ucs[0].Args[1]
		switch r.spec.kind {
		case "computeIfAbsent":
			if v, ok := predOf(o, res+".1"); ok {
				if v {
					op = "cancel"
				} else {
					op = "write"
				}
			}
		default:
			for k, n := range map[string]string{pc.cancelOp: "cancel", pc.writeOp: "write", pc.invalidateOp: "invalidate"} {
				if v, ok := predOf(o, "Eq("+res+".1,"+k+")"); ok && v {
					op = n
				}
			}
		}
	} else {
		op = "cancel" // function not consulted: the variants cancel
		if r.spec.kind == "compute" {
			a.check(name+" callback exactly once", false, "Compute calls the remapping function exactly once", "0 invocations on a returning path", o)
			return
		}
		if r.spec.kind == "computeIfAbsent" && pre != "L" {
			chk(pre, "callback called", false, "absent/expired: the mapping function is consulted", "not called")
		}
		if r.spec.kind == "computeIfPresent" && pre == "L" {
			chk(pre, "callback called", false, "live: the remapping function is consulted", "not called")
		}
	}
	val := freshValue(r, c.exit)
	switch op {
	case "write":
		chk(pre, "write effect", eff == "install" && val == res+".0", "Write: the callback's value is installed", "effect "+eff+" value "+val)
		chk(pre, "write returns", retsEq(o, res+".0", "true"), "Write: returns (new value, true)", "returns ("+retStr+")")
	case "invalidate":
		if pre == "A" {
			chk(pre, "invalidate effect", eff == "removed" || eff == "unchanged", "Invalidate on absent: nothing", "effect "+eff)
		} else {
			chk(pre, "invalidate effect", eff == "removed", "Invalidate: the mapping is removed", "effect "+eff)
		}
		chk(pre, "invalidate returns", retsEq(o, "ZERO", "false"), "Invalidate: returns (zero, false)", "returns ("+retStr+")")
	case "cancel":
		switch pre {
		case "L":
			chk(pre, "cancel effect", eff == "unchanged", "Cancel on live: unchanged", "effect "+eff)
			chk(pre, "cancel returns", retsEq(o, "Value("+c.cur+")", "true"), "Cancel on live: returns (current value, true)", "returns ("+retStr+")")
		case "X":
			chk(pre, "cancel effect", eff == "unchanged" || eff == "removed", "Cancel on expired: removed or left for the sweep", "effect "+eff)
			chk(pre, "cancel returns", retsEq(o, "ZERO", "false"), "Cancel on expired: returns (zero, false), never the stale value", "returns ("+retStr+")")
		case "A":
			chk(pre, "cancel effect", eff == "unchanged" || eff == "removed", "Cancel on absent: nothing", "effect "+eff)
			chk(pre, "cancel returns", retsEq(o, "ZERO", "false"), "Cancel on absent: returns (zero, false)", "returns ("+retStr+")")
		default:
			chk(pre, "cancel returns", false, "the path decides between live and expired before returning the current value", "returns ("+retStr+") without an expiry test")
		}
	default:
		chk(pre, "op", false, "a returning path has a decided ComputeOp", "op undecided on a returning path ("+retStr+")")
	}
}

func ruleC01Step(cx *Ctx) { ruleStep(cx, "C01.step", false) }
func ruleC03Ret(cx *Ctx)  { ruleStep(cx, "C03.ret", true) }

// ---- C03.deadline ----

// ruleC03Deadline: deadlines are moved only on entries that are live on that path (fresh nodes exempt).
func ruleC03Deadline(cx *Ctx) {
	const rule = "C03.deadline"
	cx.R.Rule(rule, 1, "SetExpiresAt / CASExpiresAt on a node taken from the table happen only on paths where that node is known unexpired (a dead entry is never made visible again); nodes created on the path are exempt")
	specs := append(append([]opSpec{}, opTable...), mechTable[0])
	for _, spec := range specs {
		r := cx.runOp(rule, spec)
		if r == nil {
			continue
		}
		a := newAgg(cx, rule, funcName(r.fn), cx.P.Pos(r.fn.Pos()))
		for _, o := range r.outs {
			for _, e := range o.S.trace {
				if e.Kind != "SetExpiresAt" && e.Kind != "CASExpiresAt" {
					continue
				}
				n := e.Args[0]
				if strings.HasPrefix(n, "fresh") {
					a.check(spec.name+" "+e.Kind+" on fresh node", true, "deadline of a node created by this operation", "", o)
					continue
				}
				exp, known := expiredOf(o, n)
				ok := known && !exp
				if we, k := predOf(o, "flag:withExpiration"); k && !we {
					ok = true
				}
				a.check(spec.name+" "+e.Kind+" on table node", ok, "the deadline of an existing entry moves only when that entry is unexpired on the path", "node "+n+" expiry untested or expired", o)
			}
		}
		a.flush()
	}
}

func sortedKeys(m map[string]bool) []string {
	var ks []string
	for k := range m {
		ks = append(ks, k)
	}
	sort.Strings(ks)
	return ks
}

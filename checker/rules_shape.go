package main

import (
	"fmt"
	"sort"
	"strconv"
	"strings"

	"golang.org/x/tools/go/ssa"
)

// SHAPE: the intrusive doubly linked deque keeps its list invariant. Every mutator of deque.Linked is summarised path by
// path with its link reads and writes in program order (PATHSUM with trackLinks). The mutators touch only their argument,
// its two neighbours, head and tail, so every aliasing pattern between those (argument first / last / only / inner /
// detached, neighbours equal to head or tail or not) is realised by a list of at most maxShape nodes with the argument
// at every position. For each such canonical shape the one path summary whose condition holds on it is applied to it -
// reads take the links as they are at that point, so a write through an alias is seen - and the resulting heap must be
// the well-formed list the operation specifies. Nothing of the analysed program is executed: the object interpreted is
// the path summary (conditions and link effects as terms), the models are the canonical shapes.

const maxShape = 5

type shapeHeap struct {
	next, prev map[string]string // node -> node ("" = nil), for the link kind in use
	head, tail string
	length     int64
	isExp      bool
}

func newShape(seq []string, isExp bool, detached ...string) *shapeHeap {
	h := &shapeHeap{next: map[string]string{}, prev: map[string]string{}, isExp: isExp, length: int64(len(seq))}
	for i, n := range seq {
		if i > 0 {
			h.prev[n] = seq[i-1]
		} else {
			h.prev[n] = ""
		}
		if i < len(seq)-1 {
			h.next[n] = seq[i+1]
		} else {
			h.next[n] = ""
		}
	}
	if len(seq) > 0 {
		h.head, h.tail = seq[0], seq[len(seq)-1]
	}
	for _, d := range detached {
		h.next[d], h.prev[d] = "", ""
	}
	return h
}

// sequence walks from head; ok=false when the heap is not a well-formed doubly linked list.
func (h *shapeHeap) sequence() ([]string, string) {
	var seq []string
	seen := map[string]bool{}
	if h.head == "" {
		if h.tail != "" {
			return nil, "head is nil but tail is " + h.tail
		}
		return nil, ""
	}
	if h.prev[h.head] != "" {
		return nil, "head " + h.head + " has a predecessor " + h.prev[h.head]
	}
	cur := h.head
	for cur != "" {
		if seen[cur] {
			return nil, "cycle at " + cur
		}
		seen[cur] = true
		seq = append(seq, cur)
		nx := h.next[cur]
		if nx != "" && h.prev[nx] != cur {
			return nil, fmt.Sprintf("next(%s)=%s but prev(%s)=%s", cur, nx, nx, orNil(h.prev[nx]))
		}
		if nx == "" && h.tail != cur {
			return nil, fmt.Sprintf("last node is %s but tail is %s", cur, orNil(h.tail))
		}
		cur = nx
	}
	return seq, ""
}

func orNil(s string) string {
	if s == "" {
		return "nil"
	}
	return s
}

type shapeEnv struct {
	h       *shapeHeap
	pre     *shapeHeap
	params  map[string]string // param term -> node atom
	syms    map[string]string
	recv    string
	unknown string
}

func (e *shapeEnv) node(t string) (string, bool) {
	switch {
	case t == "nil":
		return "", true
	case strings.HasPrefix(t, "rd:") || strings.HasPrefix(t, "res:"):
		v, ok := e.syms[t]
		return v, ok
	case t == "load("+e.recv+".head)":
		return e.pre.head, true
	case t == "load("+e.recv+".tail)":
		return e.pre.tail, true
	}
	if v, ok := e.params[t]; ok {
		return v, true
	}
	e.unknown = t
	return "", false
}

func (e *shapeEnv) num(t string) (int64, bool) {
	if strings.HasPrefix(t, "const(") {
		v, err := strconv.ParseInt(t[6:len(t)-1], 10, 64)
		return v, err == nil
	}
	if t == "load("+e.recv+".len)" {
		return e.pre.length, true
	}
	if l, op, r, ok := splitBin(t); ok && (op == "+" || op == "-") {
		a, ok1 := e.num(l)
		b, ok2 := e.num(r)
		if ok1 && ok2 {
			if op == "+" {
				return a + b, true
			}
			return a - b, true
		}
	}
	e.unknown = t
	return 0, false
}

// pred evaluates one path-condition atom on the model; known=false: the atom is outside the vocabulary.
func (e *shapeEnv) pred(atom string) (val, known bool) {
	switch {
	case atom == "load("+e.recv+".isExp)":
		return e.pre.isExp, true
	case atom == "IsNil("+e.recv+")":
		return false, true
	case strings.HasPrefix(atom, "IsNil(") && strings.HasSuffix(atom, ")"):
		v, ok := e.node(atom[6 : len(atom)-1])
		return v == "", ok
	case strings.HasPrefix(atom, "PtrEq(AsPointer(") && strings.HasSuffix(atom, "))"):
		in := atom[len("PtrEq(") : len(atom)-1]
		parts := strings.Split(in, "),AsPointer(")
		if len(parts) == 2 {
			a, ok1 := e.node(strings.TrimPrefix(parts[0], "AsPointer("))
			b, ok2 := e.node(strings.TrimSuffix(parts[1], ")"))
			return a == b, ok1 && ok2
		}
	case strings.HasPrefix(atom, "Eq(") && strings.HasSuffix(atom, ")"):
		in := atom[3 : len(atom)-1]
		if i := strings.LastIndex(in, ",const("); i > 0 {
			a, ok1 := e.num(in[:i])
			b, ok2 := e.num(in[i+1:])
			return a == b, ok1 && ok2
		}
	case strings.HasPrefix(atom, "("):
		if l, op, r, ok := splitBin(atom); ok {
			a, ok1 := e.num(l)
			b, ok2 := e.num(r)
			if ok1 && ok2 {
				switch op {
				case "==":
					return a == b, true
				case "!=":
					return a != b, true
				case ">":
					return a > b, true
				case "<":
					return a < b, true
				case ">=":
					return a >= b, true
				case "<=":
					return a <= b, true
				}
			}
		}
	}
	e.unknown = atom
	return false, false
}

// apply replays one path summary on a copy of the model. consistent=false: the path's condition does not hold on it.
func shapeApply(o *psOutcome, pre *shapeHeap, params map[string]string, recv string) (post *shapeHeap, ret string, consistent bool, unknown string) {
	return shapeApplyX(o, pre, params, recv, nil)
}

// shapeApplyX: `extra` interprets events outside the list vocabulary (handled=false: unknown event).
func shapeApplyX(o *psOutcome, pre *shapeHeap, params map[string]string, recv string, extra func(e *shapeEnv, ev psEvent) bool) (post *shapeHeap, ret string, consistent bool, unknown string) {
	h := &shapeHeap{next: map[string]string{}, prev: map[string]string{}, head: pre.head, tail: pre.tail, length: pre.length, isExp: pre.isExp}
	for k, v := range pre.next {
		h.next[k] = v
	}
	for k, v := range pre.prev {
		h.prev[k] = v
	}
	e := &shapeEnv{h: h, pre: pre, params: params, syms: map[string]string{}, recv: recv}
	expKind := func(name string) bool { return strings.HasSuffix(name, "Exp") }
	for _, ev := range o.S.trace {
		switch ev.Kind {
		case "NodeRead":
			x, ok := e.node(ev.Args[1])
			if !ok {
				return nil, "", false, "read of " + ev.Args[1]
			}
			if x == "" {
				return nil, "", false, "" // link read of nil: this path is not taken on this model (it would panic)
			}
			if expKind(ev.Args[2]) != pre.isExp {
				return nil, "", false, ""
			}
			if strings.HasPrefix(ev.Args[2], "Next") {
				e.syms[ev.Args[0]] = h.next[x]
			} else {
				e.syms[ev.Args[0]] = h.prev[x]
			}
		case "NodeLink":
			x, ok1 := e.node(ev.Args[0])
			v, ok2 := e.node(ev.Args[2])
			if !ok1 || !ok2 {
				return nil, "", false, "link write " + ev.String()
			}
			if x == "" || expKind(ev.Args[1]) != pre.isExp {
				return nil, "", false, ""
			}
			if strings.HasPrefix(ev.Args[1], "SetNext") {
				h.next[x] = v
			} else {
				h.prev[x] = v
			}
		case "FieldStore":
			switch ev.Args[0] {
			case recv + ".head", recv + ".tail":
				v, ok := e.node(ev.Args[1])
				if !ok {
					return nil, "", false, "store " + ev.String()
				}
				if strings.HasSuffix(ev.Args[0], ".head") {
					h.head = v
				} else {
					h.tail = v
				}
			case recv + ".len":
				v, ok := e.num(ev.Args[1])
				if !ok {
					return nil, "", false, "store " + ev.String()
				}
				h.length = v
			default:
				return nil, "", false, "store to " + ev.Args[0]
			}
		default:
			if extra != nil && extra(e, ev) {
				continue
			}
			return nil, "", false, "event " + ev.String()
		}
	}
	for atom, want := range o.S.preds {
		got, known := e.pred(atom)
		if !known {
			return nil, "", false, "condition " + atom
		}
		if got != want {
			return nil, "", false, ""
		}
	}
	if len(o.Rets) == 1 {
		v, ok := e.node(o.Rets[0])
		if !ok {
			// a boolean or numeric answer of a query (Contains, Len, IsEmpty): evaluated on the shape
			t := o.Rets[0]
			v = "?"
			if t == "true" || t == "false" {
				v = t
			} else if n, okN := e.num(t); okN {
				v = fmt.Sprint(n)
			} else {
				atom, neg := splitNeg(t)
				if b, known := e.pred(atom); known {
					v = fmt.Sprint(b != neg)
				}
			}
		}
		ret = orNil(v)
	}
	return h, ret, true, ""
}

func without(seq []string, n string) []string {
	var out []string
	for _, x := range seq {
		if x != n {
			out = append(out, x)
		}
	}
	return out
}

func replaceIn(seq []string, old, n string) []string {
	out := append([]string{}, seq...)
	for i := range out {
		if out[i] == old {
			out[i] = n
		}
	}
	return out
}

func inSeq(seq []string, n string) bool {
	for _, x := range seq {
		if x == n {
			return true
		}
	}
	return false
}

// ruleDequeShape: C05.shape
func ruleDequeShape(cx *Ctx) {
	const rule = "C05.shape"
	cx.R.Rule(rule, 4, "deque.Linked keeps the doubly-linked-list invariant: on every canonical list shape (argument first/last/only/inner/detached, up to 5 members, both link kinds) the path summary of each mutator that applies yields the well-formed list the operation specifies (push: appended/prepended; Delete/PopFront: removed with its links cleared; MoveToBack/MoveToFront: same members, argument last/first; UpdateNode: replaced in place, old links cleared), head/tail/len in step, untouched nodes unchanged")
	type opDef struct {
		name string
		// expected(seq, inList) -> expected sequence; which argument roles
		args []string // roles of the non-receiver parameters in baseline order: "n" (member or detached), "fresh" (detached), "old" (member or detached)
	}
	ops := []opDef{
		{"PushBack", []string{"fresh"}}, {"PushFront", []string{"fresh"}}, {"Delete", []string{"n"}}, {"PopFront", nil},
		{"MoveToBack", []string{"member"}}, {"MoveToFront", []string{"member"}}, {"UpdateNode", []string{"fresh", "old"}},
		// queries: the list is unchanged and the answer is the specified one
		{"Contains", []string{"n"}}, {"NotContains", []string{"n"}}, {"Head", nil}, {"Tail", nil}, {"Len", nil}, {"IsEmpty", nil},
	}
	names := []string{"a", "b", "c", "d", "e"}
	for _, op := range ops {
		fn := cx.need(rule, "internal/deque", "Linked", op.name)
		if fn == nil {
			continue
		}
		if len(fn.Params) != len(op.args)+1 {
			cx.R.Undecided(rule, funcName(fn), "signature", cx.P.Pos(fn.Pos()), "the operation's parameter list changed; the shape specification no longer applies")
			continue
		}
		ps := newPathSum(cx)
		ps.inlinePkgs = map[string]bool{pkgPath("internal/deque"): true}
		ps.trackLinks = true
		outs := ps.Run(fn, nil)
		cx.R.AddInt("paths_enumerated", len(outs))
		if ps.capped {
			cx.R.Undecided(rule, funcName(fn), "path cap", cx.P.Pos(fn.Pos()), "path enumeration exceeded its bound")
			continue
		}
		recv := "param:" + pname(bparam(fn, 0))
		fname := funcName(fn)
		where := cx.P.Pos(fn.Pos())
		models, bad := 0, 0
		var firstBad string
		var firstTrace []string
		fail := func(model, msg string, o *psOutcome) {
			bad++
			if firstBad == "" {
				firstBad = model + ": " + msg
				if o != nil {
					firstTrace = traceStrings(o)
				}
			}
		}
		for _, isExp := range []bool{false, true} {
			for L := 0; L <= maxShape; L++ {
				seq := names[:L]
				// argument placements
				type placement struct {
					params   map[string]string
					detached []string
					desc     string
				}
				var pls []placement
				switch op.name {
				case "PushBack", "PushFront":
					pls = append(pls, placement{map[string]string{"param:" + pname(bparam(fn, 1)): "x"}, []string{"x"}, "x detached"})
				case "PopFront", "Head", "Tail", "Len", "IsEmpty":
					pls = append(pls, placement{map[string]string{}, nil, ""})
				case "Delete", "Contains", "NotContains":
					for _, m := range seq {
						pls = append(pls, placement{map[string]string{"param:" + pname(bparam(fn, 1)): m}, nil, "n=" + m})
					}
					pls = append(pls, placement{map[string]string{"param:" + pname(bparam(fn, 1)): "x"}, []string{"x"}, "n detached"})
				case "MoveToBack", "MoveToFront":
					for _, m := range seq {
						pls = append(pls, placement{map[string]string{"param:" + pname(bparam(fn, 1)): m}, nil, "n=" + m})
					}
				case "UpdateNode":
					for _, m := range seq {
						pls = append(pls, placement{map[string]string{"param:" + pname(bparam(fn, 1)): "x", "param:" + pname(bparam(fn, 2)): m}, []string{"x"}, "old=" + m})
					}
					pls = append(pls, placement{map[string]string{"param:" + pname(bparam(fn, 1)): "x", "param:" + pname(bparam(fn, 2)): "y"}, []string{"x", "y"}, "old detached"})
				}
				for _, pl := range pls {
					models++
					pre := newShape(seq, isExp, pl.detached...)
					model := fmt.Sprintf("list [%s] %s isExp=%v", strings.Join(seq, " "), pl.desc, isExp)
					var post *shapeHeap
					var ret string
					var taken *psOutcome
					n := 0
					for _, o := range outs {
						if o.Cut {
							continue
						}
						h, r, ok, unk := shapeApply(o, pre, pl.params, recv)
						if unk != "" {
							cx.R.Undecided(rule, fname, "vocabulary", where, "the path summary uses a term outside the list vocabulary ("+unk+"); the shape check does not apply")
							return
						}
						if ok {
							if o.Panic {
								fail(model, "the operation panics on this shape", o)
							}
							post, ret, taken = h, r, o
							n++
						}
					}
					if n != 1 {
						fail(model, fmt.Sprintf("%d path summaries apply to this shape (expected exactly one)", n), nil)
						continue
					}
					// expected result
					var want []string
					var cleared []string
					wantRet := ""
					arg := func(i int) string { return pl.params["param:"+pname(bparam(fn, i))] }
					switch op.name {
					case "PushBack":
						want = append(append([]string{}, seq...), "x")
					case "PushFront":
						want = append([]string{"x"}, seq...)
					case "Delete":
						want = without(seq, arg(1))
						cleared = []string{arg(1)}
					case "PopFront":
						if len(seq) > 0 {
							want = seq[1:]
							cleared = []string{seq[0]}
							wantRet = seq[0]
						} else {
							wantRet = "nil"
						}
					case "Contains":
						want = seq
						wantRet = fmt.Sprint(inSeq(seq, arg(1)))
					case "NotContains":
						want = seq
						wantRet = fmt.Sprint(!inSeq(seq, arg(1)))
					case "Head":
						want = seq
						wantRet = "nil"
						if len(seq) > 0 {
							wantRet = seq[0]
						}
					case "Tail":
						want = seq
						wantRet = "nil"
						if len(seq) > 0 {
							wantRet = seq[len(seq)-1]
						}
					case "Len":
						want = seq
						wantRet = fmt.Sprint(len(seq))
					case "IsEmpty":
						want = seq
						wantRet = fmt.Sprint(len(seq) == 0)
					case "MoveToBack":
						want = append(without(seq, arg(1)), arg(1))
					case "MoveToFront":
						want = append([]string{arg(1)}, without(seq, arg(1))...)
					case "UpdateNode":
						if inSeq(seq, arg(2)) {
							want = replaceIn(seq, arg(2), "x")
							cleared = []string{arg(2)}
						} else {
							want = seq
							cleared = []string{"x", "y"}
						}
					}
					got, why := post.sequence()
					if why != "" {
						fail(model, "the list is no longer well formed: "+why, taken)
						continue
					}
					if strings.Join(got, " ") != strings.Join(want, " ") {
						fail(model, fmt.Sprintf("members after the operation [%s], specified [%s]", strings.Join(got, " "), strings.Join(want, " ")), taken)
						continue
					}
					if post.length != int64(len(want)) {
						fail(model, fmt.Sprintf("len = %d for %d member(s)", post.length, len(want)), taken)
						continue
					}
					for _, c := range cleared {
						if post.next[c] != "" || post.prev[c] != "" {
							fail(model, fmt.Sprintf("removed node %s keeps links (next=%s prev=%s): it still looks contained", c, orNil(post.next[c]), orNil(post.prev[c])), taken)
						}
					}
					if wantRet != "" && ret != wantRet {
						fail(model, "returns "+ret+", specified "+wantRet, taken)
					}
				}
			}
		}
		if bad > 0 {
			cx.R.Violate(rule, fname, "list invariant on canonical shapes", where, fmt.Sprintf("NOT SATISFIED: %d of %d canonical shapes violate the list specification; first: %s", bad, models, firstBad), firstTrace...)
		} else {
			cx.R.OK(rule, fname, "list invariant on canonical shapes", where, fmt.Sprintf("%d canonical shapes (lists of 0..%d members, both link kinds, every argument position and the detached case): exactly one of the %d path summaries applies to each and yields the specified well-formed list", models, maxShape, len(outs)))
		}
	}
	// the other methods of Linked do not write links or head/tail/len (census)
	_, st := cx.P.Struct("internal/deque", "Linked")
	if st == nil {
		return
	}
	covered := map[string]bool{}
	for _, op := range ops {
		covered[op.name] = true
	}
	var writers []string
	for _, fn := range cx.P.FuncsOfPkg("internal/deque") {
		top := outermost(fn)
		if top.Signature.Recv() == nil || namedTypeName(top.Signature.Recv().Type()) != "Linked" {
			continue
		}
		writes := false
		allInstrs(fn, func(in ssa.Instruction) {
			if s, ok := in.(*ssa.Store); ok {
				if f := fieldOf(s.Addr); f != nil && (fname(f) == "head" || fname(f) == "tail" || fname(f) == "len") {
					writes = true
				}
			}
			if m := invokeName(in); strings.HasPrefix(m, "SetNext") || strings.HasPrefix(m, "SetPrev") {
				writes = true
			}
		})
		if writes {
			writers = append(writers, cname(top))
		}
	}
	sort.Strings(writers)
	// writers that are not operations themselves must be reachable only through covered operations (helpers they inline)
	for _, w := range uniq(writers) {
		if covered[w] {
			continue
		}
		fn := cx.P.Func("internal/deque", "Linked", w)
		// every caller is a covered operation or another unexported helper of Linked that is itself used only so
		var helperOK func(h *ssa.Function, depth int) bool
		helperOK = func(h *ssa.Function, depth int) bool {
			if h == nil || depth > 3 || ast_IsExported(cname(h)) {
				return false
			}
			if h.Signature.Recv() == nil || namedTypeName(h.Signature.Recv().Type()) != "Linked" {
				return false
			}
			ok := true
			for _, c := range cx.P.ModuleFuncs() {
				allInstrs(c, func(in ssa.Instruction) {
					if !isCallTo(in, h) {
						return
					}
					top := outermost(c)
					if top.Pkg == nil || h.Pkg == nil || top.Pkg.Pkg.Path() != h.Pkg.Pkg.Path() {
						ok = false
						return
					}
					cn := cname(top)
					if covered[cn] || origin(top) == origin(h) {
						return
					}
					if !helperOK(origin(top), depth+1) {
						ok = false
					}
				})
			}
			return ok
		}
		okHelper := fn != nil && helperOK(origin(fn), 0)
		if w == "Clear" {
			// Clear only loops PopFront; it writes nothing itself
			continue
		}
		cx.R.Check(okHelper, rule, "deque.(*Linked)."+w, "link writer census", cx.P.Pos(fn.Pos()), "a method of Linked that writes links, head, tail or len is a specified operation or an unexported helper used only by them")
	}
}

func ast_IsExported(name string) bool { return name != "" && name[0] >= 'A' && name[0] <= 'Z' }

// ---- the timer wheel's rings (circular lists with a sentinel per bucket) ----

// ringCheck: every ring is well formed, rings are disjoint, and a node outside every ring has nil links.
func ringCheck(h *shapeHeap, roots []string, all []string) (map[string][]string, string) {
	in := map[string]string{}
	rings := map[string][]string{}
	for _, r := range roots {
		cur := h.next[r]
		prev := r
		steps := 0
		for cur != r {
			if cur == "" {
				return nil, fmt.Sprintf("ring of %s is broken: next(%s) is nil", r, prev)
			}
			if h.prev[cur] != prev {
				return nil, fmt.Sprintf("next(%s)=%s but prev(%s)=%s", prev, cur, cur, orNil(h.prev[cur]))
			}
			if owner, dup := in[cur]; dup {
				return nil, fmt.Sprintf("%s is linked twice (rings of %s and %s)", cur, owner, r)
			}
			for _, rr := range roots {
				if cur == rr {
					return nil, fmt.Sprintf("ring of %s runs into sentinel %s", r, rr)
				}
			}
			in[cur] = r
			rings[r] = append(rings[r], cur)
			prev, cur = cur, h.next[cur]
			if steps++; steps > 16 {
				return nil, "cycle without the sentinel in the ring of " + r
			}
		}
		if h.prev[r] != prev {
			return nil, fmt.Sprintf("last of ring %s is %s but prev(%s)=%s", r, prev, r, orNil(h.prev[r]))
		}
	}
	for _, n := range all {
		if _, ok := in[n]; ok {
			continue
		}
		if h.next[n] != "" || h.prev[n] != "" {
			return nil, fmt.Sprintf("%s is in no ring but keeps links (next=%s prev=%s): it still looks scheduled and a later Delete would unlink through stale neighbours", n, orNil(h.next[n]), orNil(h.prev[n]))
		}
	}
	return rings, ""
}

// ruleWheelShape: C13.shape
func ruleWheelShape(cx *Ctx) {
	const rule = "C13.shape"
	cx.R.Rule(rule, 2, "the timer wheel's bucket rings stay well formed under every loop-free mutator of expiration.Variable: on every canonical configuration (two buckets, 0..3 timers, the argument at every position or unscheduled, the target bucket either one) the applicable path summary leaves every ring a consistent circular list, no node in two rings, and every node outside the rings with nil links (scheduled <=> linked); Add appends the node to the ring findBucket selects, Delete removes it")
	_, st := cx.P.Struct(expPkg, "Variable")
	findBucket := cx.need(rule, expPkg, "Variable", "findBucket")
	if st == nil || findBucket == nil {
		return
	}
	checked := 0
	for _, fn := range cx.P.FuncsOfPkg(expPkg) {
		if fn.Parent() != nil || fn.Signature.Recv() == nil || namedTypeName(fn.Signature.Recv().Type()) != "Variable" {
			continue
		}
		if !ast_IsExported(fn.Name()) || hasLoop(fn) {
			continue
		}
		// node parameters
		var nodeParams []*ssa.Parameter
		for _, p := range fn.Params[1:] {
			if isNodeType(p.Type()) {
				nodeParams = append(nodeParams, p)
			}
		}
		if len(nodeParams) != 1 {
			continue
		}
		ps := newPathSum(cx)
		ps.inlinePkgs = map[string]bool{pkgPath(expPkg): true}
		ps.trackLinks = true
		outs := ps.Run(fn, nil)
		cx.R.AddInt("paths_enumerated", len(outs))
		writes := false
		for _, o := range outs {
			if len(allEvents(o, "NodeLink")) > 0 {
				writes = true
			}
		}
		if !writes {
			continue
		}
		checked++
		fname := funcName(fn)
		where := cx.P.Pos(fn.Pos())
		recv := "param:" + pname(fn.Params[0])
		nterm := "param:" + pname(nodeParams[0])
		models, bad := 0, 0
		firstBad := ""
		var firstTrace []string
		fail := func(model, msg string, o *psOutcome) {
			bad++
			if firstBad == "" {
				firstBad = model + ": " + msg
				if o != nil {
					firstTrace = traceStrings(o)
				}
			}
		}
		undecided := ""
		for L := 0; L <= 3; L++ {
			members := []string{"a", "b", "c"}[:L]
			all := append(append([]string{}, members...), "d", "x")
			placements := append(append([]string{}, members...), "d", "x")
			for _, pl := range placements {
				if cname(fn) == "Add" && pl != "x" {
					continue // Add's contract: the node is unscheduled (its callers are decided by C05.runTask / C13.nodrop)
				}
				for _, target := range []string{"r1", "r2"} {
					models++
					pre := &shapeHeap{next: map[string]string{}, prev: map[string]string{}, isExp: true}
					build := func(root string, seq []string) {
						prev := root
						for _, n := range seq {
							pre.next[prev] = n
							pre.prev[n] = prev
							prev = n
						}
						pre.next[prev] = root
						pre.prev[root] = prev
					}
					build("r1", members)
					build("r2", []string{"d"})
					pre.next["x"], pre.prev["x"] = "", ""
					model := fmt.Sprintf("ring1 [%s] ring2 [d] n=%s target bucket %s", strings.Join(members, " "), pl, target)
					extra := func(e *shapeEnv, ev psEvent) bool {
						if ev.Kind == "Call" && strings.HasSuffix(ev.Args[0], ".findBucket") {
							e.syms[ev.Res] = target
							return true
						}
						return false
					}
					var post *shapeHeap
					var taken *psOutcome
					n := 0
					for _, o := range outs {
						if o.Cut {
							continue
						}
						h, _, ok, unk := shapeApplyX(o, pre, map[string]string{nterm: pl}, recv, extra)
						if unk != "" {
							undecided = unk
							continue
						}
						if ok {
							post, taken = h, o
							n++
							if o.Panic {
								fail(model, "the operation panics on this configuration", o)
							}
						}
					}
					if undecided != "" {
						break
					}
					if n != 1 {
						fail(model, fmt.Sprintf("%d path summaries apply (expected exactly one)", n), nil)
						continue
					}
					rings, why := ringCheck(post, []string{"r1", "r2"}, all)
					if why != "" {
						fail(model, why, taken)
						continue
					}
					// specification of the two basic operations
					wantR1, wantR2 := append([]string{}, members...), []string{"d"}
					switch cname(fn) {
					case "Add":
						if target == "r1" {
							wantR1 = append(wantR1, "x")
						} else {
							wantR2 = append(wantR2, "x")
						}
					case "Delete":
						wantR1, wantR2 = without(wantR1, pl), without(wantR2, pl)
					default:
						continue // other mutators: the invariant only
					}
					if strings.Join(rings["r1"], " ") != strings.Join(wantR1, " ") || strings.Join(rings["r2"], " ") != strings.Join(wantR2, " ") {
						fail(model, fmt.Sprintf("rings after the operation [%s] [%s], specified [%s] [%s]", strings.Join(rings["r1"], " "), strings.Join(rings["r2"], " "), strings.Join(wantR1, " "), strings.Join(wantR2, " ")), taken)
					}
				}
			}
		}
		switch {
		case undecided != "":
			cx.R.Undecided(rule, fname, "vocabulary", where, "the path summary uses a term outside the ring vocabulary ("+undecided+"); the shape check does not apply")
		case bad > 0:
			cx.R.Violate(rule, fname, "ring invariant on canonical configurations", where, fmt.Sprintf("NOT SATISFIED: %d of %d canonical configurations violate the ring invariant / specification; first: %s", bad, models, firstBad), firstTrace...)
		default:
			cx.R.OK(rule, fname, "ring invariant on canonical configurations", where, fmt.Sprintf("%d canonical configurations: exactly one of the %d path summaries applies to each and leaves all rings well formed", models, len(outs)))
		}
	}
	if checked < 2 {
		cx.R.Violate(rule, "expiration", "mutators", "-", fmt.Sprintf("NOT SATISFIED: fewer than two loop-free ring mutators (Add, Delete) found on Variable (%d)", checked))
	}
}

package main

import (
	"go/token"
	"go/types"
	"strings"

	"golang.org/x/tools/go/ssa"
)

// FLOW: a forward, flow-insensitive, field-based "is computed from" relation over the whole module. It is used by the
// fallback tier of shape rules: when the exact shape a rule knows is gone (the steps were moved into helpers, wrapped
// into a small type, ...) the rule still demands the data dependence the shape implied. The relation over-approximates
// (results of unknown callees depend on all arguments, a struct field is one cell for all instances), so a fallback
// check can only be weaker than the shape check, never raise an alarm the shape check would not.
type Flow struct {
	P      *Program
	vals   map[ssa.Value]bool
	fields map[*types.Var]bool
	cells  map[*ssa.Alloc]bool
	rets   map[*ssa.Function]bool
	sites  map[*ssa.Function][]ssa.CallInstruction
}

func newFlow(P *Program) *Flow {
	f := &Flow{P: P, vals: map[ssa.Value]bool{}, fields: map[*types.Var]bool{}, cells: map[*ssa.Alloc]bool{}, rets: map[*ssa.Function]bool{}, sites: map[*ssa.Function][]ssa.CallInstruction{}}
	for _, fn := range P.ModuleFuncs() {
		allInstrs(fn, func(in ssa.Instruction) {
			if c, ok := in.(ssa.CallInstruction); ok {
				if g := calleeOf(in); g != nil {
					f.sites[origin(g)] = append(f.sites[origin(g)], c)
				}
			}
		})
	}
	return f
}

// From computes the closure of the sources.
func (f *Flow) From(srcs ...ssa.Value) *Flow {
	var work []ssa.Value
	add := func(v ssa.Value) {
		if v != nil && !f.vals[v] {
			f.vals[v] = true
			work = append(work, v)
		}
	}
	for _, s := range srcs {
		add(s)
	}
	loadsOfField := func(fv *types.Var) {
		for _, fn := range f.P.ModuleFuncs() {
			allInstrs(fn, func(in ssa.Instruction) {
				switch x := in.(type) {
				case *ssa.UnOp:
					if x.Op == token.MUL && sameField(fieldOf(x.X), fv) {
						add(x)
					}
				case *ssa.Field:
					if st := derefStruct(x.X.Type()); st != nil && x.Field < st.NumFields() && sameField(st.Field(x.Field), fv) {
						add(x)
					}
				}
			})
		}
	}
	for len(work) > 0 {
		v := work[len(work)-1]
		work = work[:len(work)-1]
		refs := v.Referrers()
		if refs == nil {
			continue
		}
		for _, u := range *refs {
			switch x := u.(type) {
			case *ssa.BinOp, *ssa.Convert, *ssa.ChangeType, *ssa.MakeInterface, *ssa.Phi, *ssa.Extract, *ssa.Field, *ssa.Slice, *ssa.Index, *ssa.Lookup, *ssa.TypeAssert, *ssa.ChangeInterface, *ssa.FieldAddr, *ssa.IndexAddr:
				add(x.(ssa.Value))
			case *ssa.UnOp:
				add(x)
			case *ssa.Store:
				if x.Val != v {
					continue
				}
				if fv := fieldOf(x.Addr); fv != nil {
					if _, isFA := x.Addr.(*ssa.FieldAddr); isFA && !f.fields[fv.Origin()] {
						f.fields[fv.Origin()] = true
						loadsOfField(fv)
					}
				}
				if a, ok := x.Addr.(*ssa.Alloc); ok && !f.cells[a] {
					f.cells[a] = true
					for _, r := range *a.Referrers() {
						if ld, ok := r.(*ssa.UnOp); ok && ld.Op == token.MUL {
							add(ld)
						}
						if mc, ok := r.(*ssa.MakeClosure); ok {
							if cf, ok := mc.Fn.(*ssa.Function); ok {
								for bi, b := range mc.Bindings {
									if b == ssa.Value(a) {
										add(cf.FreeVars[bi])
									}
								}
							}
						}
					}
				}
			case *ssa.MakeClosure:
				if cf, ok := x.Fn.(*ssa.Function); ok {
					for bi, b := range x.Bindings {
						if b == v {
							add(cf.FreeVars[bi])
						}
					}
				}
			case *ssa.Return:
				fn := origin(x.Parent())
				if !f.rets[fn] {
					f.rets[fn] = true
					for _, s := range f.sites[fn] {
						if val := s.Value(); val != nil {
							add(val)
						}
					}
				}
			case ssa.CallInstruction:
				cc := x.Common()
				g := calleeOf(x)
				if g != nil && g.Pkg != nil && strings.HasPrefix(g.Pkg.Pkg.Path(), modPath) && len(origin(g).Blocks) > 0 {
					og := origin(g)
					for i, a := range cc.Args {
						if a == v && i < len(og.Params) {
							add(og.Params[i])
						}
					}
					continue
				}
				// unknown callee / builtin: the result depends on its arguments
				if val := x.Value(); val != nil {
					add(val)
				}
			}
		}
	}
	return f
}

func (f *Flow) Reaches(v ssa.Value) bool { return f.vals[v] }

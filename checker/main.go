// otterlint: repository-specific static checker for maypok86/otter.
//
//	otterlint -property C14 -tier quick [-repo /repo] [-verif /verif]
//
// Every run loads the type-checked program from -repo's current working tree, builds SSA, runs the rules
// registered for the property and writes evidence/<id>.json. Exit 0: all obligations discharged (or listed as
// known findings); exit 1: at least one VIOLATION line; exit 2: the checker itself is broken.
package main

import (
	"flag"
	"fmt"
	"os"
	"reflect"
	"runtime/debug"
	"sort"
	"strconv"
	"strings"
	"time"

	"golang.org/x/tools/go/ssa"
)

// Ctx is what a rule sees.
type Ctx struct {
	P    *Program
	R    *Run
	A    *Anchors
	Tier string
}

type propertyCheck struct {
	id      string
	explain string
	assume  []string
	rules   []func(*Ctx)
}

var registry = map[string]*propertyCheck{}

func register(id, explain string, assume []string, rules ...func(*Ctx)) {
	registry[id] = &propertyCheck{id: id, explain: explain, assume: assume, rules: rules}
}

// extra lists rules under further properties after all init-time registrations (rules that were added later and are
// necessary conditions of several statements).
var extra = map[string][]func(*Ctx){}

func alsoUnder(rule func(*Ctx), ids ...string) {
	for _, id := range ids {
		extra[id] = append(extra[id], rule)
	}
}

func lateRegister() {
	for id, rs := range extra {
		if pc := registry[id]; pc != nil {
			pc.rules = append(pc.rules, rs...)
		}
	}
}

func main() {
	var (
		prop   = flag.String("property", "", "property id (C01..C20) or 'all'")
		tier   = flag.String("tier", "", "quick|thorough (default $VERIF_TIER or quick)")
		repo   = flag.String("repo", "/repo", "repository working tree to analyse")
		verif  = flag.String("verif", "/verif", "verification directory (evidence, known findings)")
		noEv   = flag.Bool("no-evidence", false, "do not write evidence/replay files (used for scratch variants)")
		list   = flag.Bool("list", false, "list rules per property")
		goarch = flag.String("goarch", "", "GOARCH for loading (thorough tier also loads 386)")
		dump   = flag.String("pathsum", "", "debug: dump the path summaries of recv.func")
		quiet  = flag.Bool("q", false, "with -pathsum: counts only")
		dmode  = flag.String("mode", "", "with -pathsum: 'load' summarises singleflight callees, 'getnode' the filtered lookups")
		dpre   = flag.String("preset", "", "with -pathsum: name=value,... preset parameters")
		dbase  = flag.String("dump-baseline", "", "write the function baseline (names, signatures, callees) of -repo to this file")
	)
	flag.Parse()
	if *tier == "" {
		*tier = os.Getenv("VERIF_TIER")
	}
	if *tier != "thorough" {
		*tier = "quick"
	}
	seed := int64(0)
	if s := os.Getenv("VERIF_SEED"); s != "" {
		seed, _ = strconv.ParseInt(s, 10, 64)
	}
	if *list {
		var ids []string
		for id := range registry {
			ids = append(ids, id)
		}
		sort.Strings(ids)
		for _, id := range ids {
			fmt.Println(id, len(registry[id].rules), "rule groups")
		}
		return
	}
	if *dbase != "" {
		P, err := LoadProgram(*repo, *goarch, false)
		if err != nil {
			fmt.Fprintln(os.Stderr, err)
			os.Exit(2)
		}
		if err := dumpBaseline(P, *dbase); err != nil {
			fmt.Fprintln(os.Stderr, err)
			os.Exit(2)
		}
		return
	}
	if *dump != "" {
		P, err := LoadProgram(*repo, *goarch, false)
		if err != nil {
			fmt.Fprintln(os.Stderr, err)
			os.Exit(2)
		}
		dumpMode = *dmode
		dumpPreset = map[string]string{}
		for _, kv := range strings.Split(*dpre, ",") {
			if i := strings.Index(kv, "="); i > 0 {
				dumpPreset[kv[:i]] = kv[i+1:]
			}
		}
		dumpPathSum(&Ctx{P: P, R: NewRun("dump", *tier, 0), Tier: *tier}, *dump, *quiet)
		return
	}
	lateRegister()
	pc := registry[*prop]
	if *prop == "ALL" {
		// every distinct rule once (gap measurement on scratch variants; never a registered check)
		pc = &propertyCheck{id: "ALL", explain: "union of all rules"}
		seenRule := map[uintptr]bool{}
		var ids []string
		for id := range registry {
			ids = append(ids, id)
		}
		sort.Strings(ids)
		for _, id := range ids {
			for _, r := range registry[id].rules {
				k := reflect.ValueOf(r).Pointer()
				if !seenRule[k] {
					seenRule[k] = true
					pc.rules = append(pc.rules, r)
				}
			}
		}
	}
	if pc == nil {
		fmt.Fprintf(os.Stderr, "unknown property %q\n", *prop)
		os.Exit(2)
	}
	code := 2
	func() {
		defer func() {
			if r := recover(); r != nil {
				fmt.Fprintf(os.Stderr, "otterlint: internal error (broken check): %v\n%s\n", r, debug.Stack())
				code = 2
			}
		}()
		code = runProperty(pc, *tier, *repo, *verif, *goarch, seed, !*noEv)
	}()
	os.Exit(code)
}

func runProperty(pc *propertyCheck, tier, repo, verif, goarch string, seed int64, writeEv bool) int {
	R := NewRun(pc.id, tier, seed)
	R.Explain(pc.explain)
	for _, a := range pc.assume {
		R.Assume(a)
	}
	known, err := loadFindings(verif + "/known_findings.json")
	if err != nil {
		fmt.Fprintln(os.Stderr, "otterlint: cannot read known_findings.json:", err)
		return 2
	}
	R.known = known
	archs := []string{goarch}
	if tier == "thorough" && goarch == "" {
		archs = []string{"", "386"}
	}
	var loaded []string
	for _, arch := range archs {
		P, err := LoadProgram(repo, arch, false)
		if err != nil {
			// a tree that does not load cannot be analysed: undecided, reported as violation
			R.Undecided(pc.id+".load", "*", "load", "-", err.Error())
			continue
		}
		A := resolveAnchors(P)
		cx := &Ctx{P: P, R: R, A: A, Tier: tier}
		if arch != "" {
			// obligations of secondary architectures are kept distinct
			cx.R = R
		}
		for i, rule := range pc.rules {
			if os.Getenv("OTTERLINT_TRACE") != "" {
				fmt.Fprintf(os.Stderr, "TRACE rule #%d of %s start %s\n", i, pc.id, time.Now().Format("15:04:05"))
			}
			rule(cx)
		}
		name := arch
		if name == "" {
			name = "default"
		}
		loaded = append(loaded, fmt.Sprintf("%s: %d packages, %d source functions", name, len(P.byPkg), len(P.Funcs)))
		// drop caches tied to this program
		cfgCache = map[*ssa.Function]*cfgInfo{}
	}
	R.Extra("loaded", loaded)
	if tier == "thorough" {
		runSelfValidation(pc, R, repo, verif)
	}
	return R.Finish(verif, writeEv)
}

func contains(ss []string, s string) bool {
	for _, x := range ss {
		if x == s {
			return true
		}
	}
	return false
}

func hasPrefixAny(s string, ps ...string) bool {
	for _, p := range ps {
		if strings.HasPrefix(s, p) {
			return true
		}
	}
	return false
}

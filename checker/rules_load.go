package main

import (
	"fmt"
	"strings"

	"golang.org/x/tools/go/ssa"
)

var loadEv = map[string]string{"group.startCall": "StartCall", "group.doCall": "DoCall", "group.doBulkCall": "DoBulkCall", "call.wait": "Wait",
	"cache.afterDeleteCall": "AfterFinish", "cache.getNode": "GetNode", "cache.getNodeQuietly": "GetNode"}

func withEv(extra ...string) map[string]string {
	m := map[string]string{}
	for k, v := range loadEv {
		m[k] = v
	}
	for i := 0; i+1 < len(extra); i += 2 {
		m[extra[i]] = extra[i+1]
	}
	return m
}

var loadOps = []opSpec{
	{"Get", "cache", "Get", nil, "get+load", withEv()},
	{"Refresh", "cache", "Refresh", nil, "refresh", withEv()},
	{"refreshKey(manual)", "cache", "refreshKey", map[string]string{"isManual": "true"}, "refreshKey", withEv()},
	{"refreshKey(auto)", "cache", "refreshKey", map[string]string{"isManual": "false"}, "refreshKey", withEv()},
}

var bulkOps = []opSpec{
	{"BulkGet", "cache", "BulkGet", nil, "bulkGet", withEv("cache.bulkRefreshKeys", "BulkRefreshKeys")},
	{"bulkRefreshKeys(manual)", "cache", "bulkRefreshKeys", map[string]string{"isManual": "true"}, "bulkRefresh", withEv()},
	{"bulkRefreshKeys(auto)", "cache", "bulkRefreshKeys", map[string]string{"isManual": "false"}, "bulkRefresh", withEv()},
}

// ruleLoadLemma: the lemma the summaries rely on - the filtered lookups return nil or a live node.
func ruleLoadLemma(cx *Ctx) {
	const rule = "C03.lookup"
	cx.R.Rule(rule, 1, "getNode / getNodeQuietly return either nil or a node that is non-nil and unexpired at the given time on that path (lemma used when these lookups are summarised)")
	for _, name := range []string{"getNode", "getNodeQuietly"} {
		r := cx.runOp(rule, opSpec{name, "cache", name, nil, "lookup", nil})
		if r == nil {
			continue
		}
		a := newAgg(cx, rule, funcName(r.fn), cx.P.Pos(r.fn.Pos()))
		for _, o := range r.outs {
			if o.Cut || o.Panic || len(o.Rets) != 1 {
				continue
			}
			if isZeroTerm(o.Rets[0]) {
				a.check("nil result", true, "absent / expired / dead: nil", "", o)
				continue
			}
			pre := preState(o, o.Rets[0])
			a.check("non-nil result is live", pre == "L", "a returned node is non-nil and unexpired on that path", "pre-state "+pre, o)
		}
		a.flush()
	}
}

// ruleC03Source: keyed reads of the main table happen only in lookups that filter.
func ruleC03Source(cx *Ctx) {
	const rule = "C03.source"
	cx.R.Rule(rule, 2, "every keyed read of the main table (hashmap.Get on cache.hashmap) is followed by the liveness filter: the node it returns is used - beyond nil / IsAlive / HasExpired tests - only where HasExpired(now) is false for it (the lemma C03.lookup decides for getNode / getNodeQuietly holds for every such read, also one added elsewhere)")
	get := cx.need(rule, hmPkg, "Map", "Get")
	hmf := cx.needField(rule, "", "cache", "hashmap")
	if get == nil || hmf == nil {
		return
	}
	n := 0
	for _, fn := range cx.P.FuncsOfPkg("") {
		allInstrs(fn, func(in ssa.Instruction) {
			c, ok := in.(*ssa.Call)
			if !ok || !isCallTo(c, get) || !sameField(recvField(c), hmf) {
				return
			}
			n++
			// values carrying the node
			carries := map[ssa.Value]bool{c: true}
			for changed := true; changed; {
				changed = false
				for v := range carries {
					for _, u := range usesOf(v) {
						if ph, ok := u.(*ssa.Phi); ok && !carries[ph] {
							carries[ph] = true
							changed = true
						}
					}
				}
			}
			bad := ""
			for v := range carries {
				for _, u := range usesOf(v) {
					switch x := u.(type) {
					case *ssa.Phi, *ssa.DebugRef:
						continue
					case *ssa.BinOp:
						if _, _, isNil := nilCmp(x); isNil {
							continue
						}
					case *ssa.Call:
						if m := invokeName(x); (m == "IsAlive" || m == "HasExpired") && x.Call.Value == v {
							continue
						}
					case *ssa.MakeInterface, *ssa.ChangeInterface, *ssa.ChangeType:
						if len(usesOf(x.(ssa.Value))) == 0 {
							continue
						}
					}
					alive, unexpired := false, false
					for _, g := range guardsAt(u.Block()) {
						gc, ok := g.Cond.(*ssa.Call)
						if !ok || !carries[gc.Call.Value] {
							continue
						}
						if invokeName(gc) == "IsAlive" && g.Truth {
							alive = true
						}
						if invokeName(gc) == "HasExpired" && !g.Truth {
							unexpired = true
						}
					}
					_ = alive // liveness is the table's business (a node found by Get is linked); expiry is the reader's
					if !unexpired {
						bad = cx.P.where(u)
					}
				}
			}
			cx.R.Check(bad == "", rule, funcName(fn), fmt.Sprintf("keyed read #%d filtered", n), cx.P.where(c), "the node read from the table is used only where it is known unexpired "+bad)
		})
	}
}

func ruleLoadOps(cx *Ctx) {
	const rDisp = "C08.dispatch"
	const rRes = "C10.result"
	const rOld = "C11.old"
	const rTrig = "C11.trigger"
	const rChan = "C11.chan"
	cx.R.Rule(rDisp, 2, "a call record obtained with shouldLoad is handed to doCall / doBulkCall exactly once before any wait, a record obtained without it is never dispatched, and every result read from a record is preceded by wait()")
	cx.R.Rule(rRes, 1, "a record's value reaches an API result only together with its error or under err == nil; hits return the live node's value")
	cx.R.Rule(rOld, 1, "a read of a present entry returns the value cached at that moment; refresh work happens only inside an executor closure")
	cx.R.Rule(rTrig, 1, "an automatic refresh is triggered only when the entry is not fresh")
	cx.R.Rule(rChan, 1, "without refresh configured no channel is returned and nothing is scheduled; a manual refresh creates a buffered channel (capacity 1) and sends exactly one result on every non-panicking path; a non-manual refresh returns no channel and sends nothing")
	for _, spec := range loadOps {
		r := cx.runOp(rDisp, spec)
		if r == nil {
			continue
		}
		fn := funcName(r.fn)
		where := cx.P.Pos(r.fn.Pos())
		ad, ar, ao, at, ac := newAgg(cx, rDisp, fn, where), newAgg(cx, rRes, fn, where), newAgg(cx, rOld, fn, where), newAgg(cx, rTrig, fn, where), newAgg(cx, rChan, fn, where)
		for _, o := range r.outs {
			if o.Cut {
				continue
			}
			name := spec.name
			// ---- dispatch discipline
			for _, sc := range allEvents(o, "StartCall") {
				rec := sc.Args[0] + ".0"
				sl, known := predOf(o, sc.Args[0]+".1")
				var disp []int
				firstWait := -1
				for i, e := range o.S.trace {
					if e.Kind == "DoCall" && len(e.Args) > 3 && e.Args[3] == rec {
						disp = append(disp, i)
					}
					if e.Kind == "Wait" && len(e.Args) > 1 && e.Args[1] == rec && firstWait < 0 {
						firstWait = i
					}
				}
				switch {
				case !known:
					ad.check(name+": shouldLoad consulted", false, "the caller looks at shouldLoad before continuing", "undecided", o)
				case sl:
					ok := len(disp) == 1 && (firstWait < 0 || disp[0] < firstWait)
					ad.check(name+": started => dispatched once before wait", ok, "a record created by this call is loaded exactly once, before anybody waits on it", fmt.Sprintf("%d dispatch(es), first wait at %d", len(disp), firstWait), o)
				default:
					ad.check(name+": joined => not dispatched", len(disp) == 0, "a record created by another call is only waited on", fmt.Sprintf("%d dispatch(es)", len(disp)), o)
				}
				// results of the record are read only after wait (panicking paths never read)
				if !o.Panic {
					usesRec := false
					for _, rt := range o.Rets {
						if strings.Contains(rt, rec+".") {
							usesRec = true
						}
					}
					for _, e := range allEvents(o, "Send") {
						if strings.Contains(strings.Join(e.Args, " "), rec) {
							usesRec = true
						}
					}
					sent := false
					for _, e := range o.S.trace {
						if e.Kind == "FieldStore" && strings.Contains(e.Args[1], rec+".") {
							sent = true
						}
					}
					if usesRec || sent {
						ad.check(name+": wait before reading the record", firstWait >= 0, "a record's value/err are read only after wait() returned", "no wait on "+rec, o)
					}
				}
				// refresh flag of the record: reloads are refresh calls, misses are not
				wantRefresh := "false"
				if sc.Async > 0 {
					wantRefresh = "true"
				}
				ad.check(name+": record kind", sc.Args[len(sc.Args)-1] == wantRefresh, "records started from the executor are refresh records, records started by a missing Get are not", "isRefresh="+sc.Args[len(sc.Args)-1], o)
			}
			if o.Panic {
				continue
			}
			// ---- Get specific
			if spec.kind == "get+load" {
				var n string
				for _, e := range allEvents(o, "GetNode") {
					n = e.Args[0]
				}
				isNil, nk := predOf(o, "IsNil("+n+")")
				if nk && !isNil {
					ao.check(name+" hit: returns the cached value", retsEq(o, "Value("+n+")", "nil"), "a present entry is answered from the cache with its current value and no error", "returns ("+strings.Join(o.Rets, ", ")+")", o)
					syncWork := 0
					for _, e := range o.S.trace {
						if e.Async == 0 && (e.Kind == "StartCall" || e.Kind == "DoCall" || e.Kind == "Wait") {
							syncWork++
						}
					}
					ao.check(name+" hit: no inline load", syncWork == 0, "a hit never loads or waits inline; reloads run in the executor", fmt.Sprintf("%d inline load step(s)", syncWork), o)
					fresh, fk := predOf(o, "Fresh("+n+","+nowOf(o)+")")
					execs := len(allEvents(o, "ExecBegin"))
					if fk && fresh {
						at.check(name+" fresh: nothing triggered", execs == 0, "a fresh entry triggers no reload", fmt.Sprintf("%d executor task(s)", execs), o)
					}
					if execs > 0 {
						at.check(name+" reload only when stale", fk && !fresh, "a reload is scheduled only on the not-fresh edge", fmt.Sprintf("fresh known=%v value=%v", fk, fresh), o)
					}
				} else if nk && isNil {
					scs := allEvents(o, "StartCall")
					ok := len(scs) == 1 && len(o.Rets) == 2 && o.Rets[0] == "load("+scs[0].Args[0]+".0.value)" && o.Rets[1] == "load("+scs[0].Args[0]+".0.err)"
					ar.check(name+" miss: returns the record's value and error", ok, "a miss returns exactly (record.value, record.err) of the key's in-flight record", "returns ("+strings.Join(o.Rets, ", ")+")", o)
				}
			}
			if spec.kind == "refresh" || spec.kind == "refreshKey" {
				inline := 0
				for _, e := range o.S.trace {
					if e.Async == 0 && (e.Kind == "StartCall" || e.Kind == "DoCall" || e.Kind == "Wait") {
						inline++
					}
				}
				ao.check(name+": refresh work only in the executor", inline == 0, "records are started, loaded and awaited only inside the closure handed to the cache's executor (readers keep the old value meanwhile)", fmt.Sprintf("%d inline step(s)", inline), o)
			}
			// ---- channel protocol
			if spec.kind == "refresh" || spec.kind == "refreshKey" {
				wr, wrk := flagOf(o, "withRefresh")
				chans := allEvents(o, "MakeChan")
				sends := allEvents(o, "Send")
				execs := allEvents(o, "ExecBegin")
				manual := spec.kind == "refresh" || spec.preset["isManual"] == "true"
				panicked := len(allEvents(o, "ExecPanicked")) > 0
				switch {
				case wrk && !wr:
					ac.check(name+" refresh not configured", len(o.Rets) == 1 && isZeroTerm(o.Rets[0]) && len(execs) == 0 && len(sends) == 0, "no channel, nothing scheduled", "returns ("+strings.Join(o.Rets, ", ")+")", o)
				case !wrk:
					ac.check(name+" configuration consulted", false, "the refresh entry point tests withRefresh first", "untested", o)
				case manual:
					ok := len(chans) == 1 && strings.Contains(chans[0].Args[0], "cap=const(1)") && len(o.Rets) == 1 && o.Rets[0] == chans[0].Args[0] && len(execs) == 1
					ac.check(name+" manual: buffered channel returned", ok, "a manual refresh returns a fresh channel of capacity 1 and schedules one executor task", fmt.Sprintf("%d channel(s) %v, returns (%s)", len(chans), chans, strings.Join(o.Rets, ", ")), o)
					if ok && !panicked {
						n := 0
						for _, e := range sends {
							if e.Args[0] == chans[0].Args[0] {
								n++
							}
						}
						ac.check(name+" manual: exactly one result", n == 1, "exactly one result is sent on the channel", fmt.Sprintf("%d send(s)", n), o)
					}
				default:
					ac.check(name+" automatic: no channel, no send", len(o.Rets) == 1 && isZeroTerm(o.Rets[0]) && len(sends) == 0 && len(chans) == 0, "an automatic refresh returns no channel and sends nothing", fmt.Sprintf("%d send(s), returns (%s)", len(sends), strings.Join(o.Rets, ", ")), o)
				}
			}
		}
		ad.flush()
		ar.flush()
		ao.flush()
		at.flush()
		ac.flush()
	}
}

func nowOf(o *psOutcome) string {
	for _, e := range allEvents(o, "Now") {
		return e.Args[0]
	}
	return "param:nowNano"
}

// ruleBulkOps: per-iteration obligations of BulkGet and bulkRefreshKeys (loops bounded, callees summarised).
func ruleBulkOps(cx *Ctx) {
	const rDisp = "C08.dispatch"
	const rRes = "C10.result"
	const rOnce = "C10.once"
	const rTrig = "C11.trigger"
	const rChan = "C11.chan"
	cx.R.Rule(rOnce, 1, "BulkGet dispatches the bulk loader at most once per call, with exactly the records it started itself; duplicates of a key are skipped before the lookup")
	for _, spec := range bulkOps {
		r := cx.runOp(rDisp, spec)
		if r == nil {
			continue
		}
		fn := funcName(r.fn)
		where := cx.P.Pos(r.fn.Pos())
		ad, ar, ao, at, ac := newAgg(cx, rDisp, fn, where), newAgg(cx, rRes, fn, where), newAgg(cx, rOnce, fn, where), newAgg(cx, rTrig, fn, where), newAgg(cx, rChan, fn, where)
		for _, o := range r.outs {
			name := spec.name
			starts := allEvents(o, "StartCall")
			disps := allEvents(o, "DoBulkCall")
			dispatchedMaps := map[string]int{}
			for i, e := range o.S.trace {
				if e.Kind == "DoBulkCall" {
					dispatchedMaps[e.Args[3]] = i
				}
			}
			panicked := o.Panic || len(allEvents(o, "ExecPanicked")) > 0
			// ---- every started record goes into a map that is dispatched (also when a loader panic is re-raised)
			for _, sc := range starts {
				rec := sc.Args[0] + ".0"
				sl, known := predOf(o, sc.Args[0]+".1")
				if !known {
					ad.check(name+": shouldLoad consulted", false, "the caller looks at shouldLoad", "undecided", o)
					continue
				}
				inMap := ""
				for _, e := range allEvents(o, "MapUpdate") {
					if e.Args[2] == rec && e.Args[0] != "nil" {
						if _, isDisp := dispatchedMaps[e.Args[0]]; isDisp || inMap == "" {
							inMap = e.Args[0]
						}
					}
				}
				_, dispatched := dispatchedMaps[inMap]
				if sl {
					if o.Cut {
						continue
					}
					kind := "normal exit"
					if panicked {
						kind = "exit by re-raised loader panic"
					}
					ad.check(name+": started => dispatched ("+kind+")", inMap != "" && dispatched, "every record this call created is handed to doBulkCall before the function is left, also when an earlier dispatch re-raises a loader panic (otherwise the record stays in flight forever and later loads of the key hang)", "record "+rec+" map "+inMap+" dispatched="+fmt.Sprint(dispatched), o)
				} else {
					ad.check(name+": joined => not dispatched", !dispatched || inMap == "", "a record created by another call is never put into the dispatched map", "record "+rec+" in dispatched map "+inMap, o)
				}
				wantRefresh := "false"
				if spec.kind == "bulkRefresh" {
					wantRefresh = "true"
				}
				ad.check(name+": record kind", sc.Args[len(sc.Args)-1] == wantRefresh, "BulkGet starts load records, bulk refresh starts refresh records", "isRefresh="+sc.Args[len(sc.Args)-1], o)
			}
			if spec.kind == "bulkGet" && !o.Cut && !panicked && len(o.Rets) == 2 {
				// ---- a record of a load that is already in flight (shouldLoad false) is awaited before BulkGet returns -
				// unless its own dispatch failed, which is returned at once
				dispatchFailed := false
				for _, d := range disps {
					if isNil, k := predOf(o, "IsNil("+d.Args[0]+")"); k && !isNil {
						dispatchFailed = true
					}
				}
				for _, sc := range starts {
					rec := sc.Args[0] + ".0"
					sl, known := predOf(o, sc.Args[0]+".1")
					if !known || sl || dispatchFailed {
						continue
					}
					waited := false
					for _, w := range allEvents(o, "Wait") {
						if len(w.Args) < 2 {
							continue
						}
						if w.Args[1] == rec {
							waited = true
						}
						if strings.HasSuffix(w.Args[1], ".v") {
							src := o.S.cells["&rangeof:"+strings.TrimSuffix(w.Args[1], ".v")]
							for _, e := range allEvents(o, "MapUpdate") {
								if e.Args[0] == src && e.Args[2] == rec {
									waited = true
								}
							}
						}
					}
					ad.check(name+": joined => awaited", waited, "a key whose load is already in flight is waited for before BulkGet returns (the caller receives that load's result instead of nothing)", "record "+rec+" is never waited on", o)
				}
			}
			if spec.kind == "bulkGet" {
				ao.check(name+": at most one bulk dispatch", len(disps) <= 1, "the bulk loader is invoked at most once per BulkGet", fmt.Sprintf("%d dispatches", len(disps)), o)
				// result assembly
				resMap := ""
				if !o.Panic && !o.Cut && len(o.Rets) == 2 {
					resMap = o.Rets[0]
				}
				gets := map[string]psEvent{}
				for _, g := range allEvents(o, "GetNode") {
					gets[g.Args[0]] = g
				}
				for i, e := range o.S.trace {
					if e.Kind != "MapUpdate" {
						continue
					}
					v := e.Args[2]
					switch {
					case strings.HasPrefix(v, "Value(res:GetNode#"):
						n := v[len("Value(") : len(v)-1]
						g, ok := gets[n]
						isNil, nk := predOf(o, "IsNil("+n+")")
						ar.check(name+": hit inserted under its key", ok && g.Args[2] == e.Args[1] && nk && !isNil, "a hit is inserted with the looked-up key and only for a non-nil (live) node", e.String(), o)
						if resMap != "" {
							ar.check(name+": hits go into the returned map", e.Args[0] == resMap, "hits are inserted into the map that is returned", e.Args[0]+" vs "+resMap, o)
						}
					case strings.HasPrefix(v, "load(") && strings.HasSuffix(v, ".value)"):
						rec := v[len("load(") : len(v)-len(".value)")]
						errNil, ek := predOf(o, "IsNil(load("+rec+".err))")
						waited := false
						for j, w := range o.S.trace {
							if j < i && w.Kind == "Wait" && len(w.Args) > 1 && w.Args[1] == rec {
								waited = true
							}
						}
						ar.check(name+": loaded value only under err == nil, after wait", ek && errNil && waited, "a record's value enters the result only after wait() and only when its error is nil (absent keys stay absent)", fmt.Sprintf("err-known=%v err-nil=%v waited=%v", ek, errNil, waited), o)
					}
				}
				// duplicates skipped before the lookup
				for _, g := range allEvents(o, "GetNode") {
					k := g.Args[2]
					dup := 0
					for atom, v := range o.S.preds {
						if strings.HasPrefix(atom, "ok:lookup(") && strings.HasSuffix(atom, ","+k+")") && !v {
							dup++
						}
					}
					ao.check(name+": duplicates skipped before lookup", dup >= 2, "each key is looked up only after testing that it is neither in the result nor among the misses (each distinct key counted once)", fmt.Sprintf("%d membership tests", dup), o)
				}
				// refresh only for stale hits
				for _, e := range o.S.trace {
					if e.Kind == "LitStore" && strings.HasSuffix(e.Args[0], ".old") && strings.HasPrefix(e.Args[1], "res:GetNode#") {
						fresh, fk := predOf(o, "Fresh("+e.Args[1]+","+nowOf(o)+")")
						at.check(name+": reload candidates are stale", fk && !fresh, "only entries that are not fresh are handed to the bulk refresh", fmt.Sprintf("fresh known=%v value=%v", fk, fresh), o)
					}
				}
				for _, e := range allEvents(o, "BulkRefreshKeys") {
					at.check(name+": automatic refresh is non-manual", e.Args[len(e.Args)-1] == "false", "BulkGet's refresh returns no channel", e.String(), o)
				}
				// an error joined into BulkGet's result is a record's real error: "not found" is reported by leaving the
				// key out of the result, never as an error
				for _, e := range o.S.trace {
					if e.Kind == "LitStore" && strings.Contains(e.Args[0], "varargs") && strings.HasPrefix(e.Args[1], "load(") && strings.HasSuffix(e.Args[1], ".err)") {
						rec := e.Args[1][5 : len(e.Args[1])-5]
						nfv, known := predOf(o, "load("+rec+".isNotFound)")
						ar.check(name+": joined error is not a not-found", known && !nfv, "a record's error is added to the returned error only when the record is not marked not-found (a key that was not found is just absent from the result)", fmt.Sprintf("record %s: not-found known=%v value=%v", rec, known, nfv), o)
					}
				}
				// every way out of the call (result, load error, re-raised loader panic) has handed the stale hits over
				stale := 0
				for _, e := range o.S.trace {
					if e.Kind == "LitStore" && strings.HasSuffix(e.Args[0], ".old") && strings.HasPrefix(e.Args[1], "res:GetNode#") {
						stale++
					}
				}
				if stale > 0 && !o.Cut {
					kind := "return"
					if o.Panic {
						kind = "exit by panic"
					}
					at.check(name+": stale hits dispatched ("+kind+")", len(allEvents(o, "BulkRefreshKeys")) == 1, "when the lookup phase found stale hits, the bulk refresh is dispatched exactly once on every path out of BulkGet, also when loading the misses fails", fmt.Sprintf("%d stale hit(s), %d dispatch(es)", stale, len(allEvents(o, "BulkRefreshKeys"))), o)
				}
			}
			if spec.kind == "bulkRefresh" && !o.Cut {
				wr, wrk := flagOf(o, "withRefresh")
				chans := allEvents(o, "MakeChan")
				sends := allEvents(o, "Send")
				manual := spec.preset["isManual"] == "true"
				switch {
				case wrk && !wr:
					ac.check(name+" refresh not configured", len(o.Rets) == 1 && isZeroTerm(o.Rets[0]) && len(sends) == 0, "no channel, nothing scheduled", "returns ("+strings.Join(o.Rets, ", ")+")", o)
				case manual && !panicked:
					ok := len(chans) == 1 && strings.Contains(chans[0].Args[0], "cap=const(1)") && len(o.Rets) == 1 && o.Rets[0] == chans[0].Args[0]
					n := 0
					if ok {
						for _, e := range sends {
							if e.Args[0] == chans[0].Args[0] {
								n++
							}
						}
					}
					ac.check(name+" manual: one result list on a buffered channel", ok && n == 1, "a manual bulk refresh returns a capacity-1 channel and sends exactly one result list (also for an empty key list)", fmt.Sprintf("%d channel(s), %d send(s)", len(chans), n), o)
				case !manual:
					ac.check(name+" automatic: no channel, no send", len(o.Rets) == 1 && isZeroTerm(o.Rets[0]) && len(sends) == 0, "an automatic bulk refresh returns no channel and sends nothing", fmt.Sprintf("%d send(s)", len(sends)), o)
				}
				// all refresh work happens in the executor
				for _, e := range o.S.trace {
					if (e.Kind == "StartCall" || e.Kind == "DoBulkCall" || e.Kind == "Wait") && e.Async == 0 {
						ac.check(name+": refresh work in the executor", false, "records are started, loaded and awaited only inside the executor closure", e.String(), o)
					}
				}
			}
		}
		ad.flush()
		ar.flush()
		ao.flush()
		at.flush()
		ac.flush()
	}
}

// ruleC11ReloadArg: reloads receive the value cached when the refresh was scheduled; loads are used when there is none.
func ruleC11ReloadArg(cx *Ctx) {
	const rule = "C11.reloadarg"
	cx.R.Rule(rule, 1, "a refresh of a present entry calls Reload with the old node's value, a refresh of an absent key calls Load; in the bulk variant the old value is stored into the reload record before dispatch")
	// single key: on the path summaries of refreshKey with the dispatch (doCall) inlined, the loader method that is
	// finally invoked and its arguments are events: the selection may be a closure, a helper returning a function, ...
	{
		ev := withEv()
		delete(ev, "group.doCall")
		r := cx.runOp(rule, opSpec{"refreshKey(loader)", "cache", "refreshKey", map[string]string{"isManual": "false"}, "refreshKeyLoader", ev})
		if r != nil {
			a := newAgg(cx, rule, funcName(r.fn), cx.P.Pos(r.fn.Pos()))
			rk := "param:" + pname(bparam(r.fn, 2))
			oldName := "old"
			if f := cx.P.Field("", "refreshableKey", "old"); f != nil {
				oldName = fname(f)
			}
			oldT := "load(" + rk + "." + oldName + ")"
			reloads, loads := 0, 0
			for _, o := range r.outs {
				if o.Cut {
					continue
				}
				// the refreshable key is a struct value: its old node is read through a local copy
				oldT := oldT
				for atom := range o.S.preds {
					if strings.HasPrefix(atom, "IsNil(load(") && strings.HasSuffix(atom, "."+oldName+"))") {
						oldT = atom[6 : len(atom)-1]
					}
				}
				oldNil, known := predOf(o, "IsNil("+oldT+")")
				for _, e := range allEvents(o, "UserCall") {
					switch e.Args[0] {
					case "Reload":
						reloads++
						a.check("Reload only for present entries", known && !oldNil, "the reloading variant is chosen only when the old node is non-nil", fmt.Sprintf("old nil known=%v nil=%v", known, oldNil), o)
						a.check("Reload old value", len(e.Args) == 5 && e.Args[4] == "Value("+oldT+")", "Reload receives rk.old.Value(), the value cached when the refresh was scheduled", fmt.Sprint(e.Args), o)
					case "Load":
						loads++
						a.check("Load only for absent keys", known && oldNil, "inside the refresh task Load is chosen only when there is no old node", fmt.Sprintf("old nil known=%v nil=%v", known, oldNil), o)
					}
				}
			}
			a.check("both variants", reloads > 0 && loads > 0, "refreshKey distinguishes reload of a present entry from load of an absent key", fmt.Sprintf("%d reload path(s), %d load path(s)", reloads, loads), nil)
			a.flush()
		}
	}
	// bulk: old value stored into the record
	for _, spec := range bulkOps[1:] {
		r := cx.runOp(rule, spec)
		if r == nil {
			continue
		}
		a := newAgg(cx, rule, funcName(r.fn), cx.P.Pos(r.fn.Pos()))
		for _, o := range r.outs {
			for _, sc := range allEvents(o, "StartCall") {
				rec := sc.Args[0] + ".0"
				sl, k := predOf(o, sc.Args[0]+".1")
				if !k || !sl {
					continue
				}
				// which rk: key arg load(X.key)
				key := sc.Args[2]
				if !strings.HasPrefix(key, "load(") || !strings.HasSuffix(key, ".key)") {
					continue
				}
				rk := key[5 : len(key)-5]
				oldNil, ok := predOf(o, "IsNil(load("+rk+".old))")
				if !ok {
					continue
				}
				stored := false
				for _, e := range allEvents(o, "FieldStore") {
					if e.Args[0] == rec+".value" && e.Args[1] == "Value(load("+rk+".old))" {
						stored = true
					}
				}
				if oldNil {
					a.check(spec.name+": load record has no old value", !stored, "a load record of an absent key carries no old value", "", o)
				} else {
					a.check(spec.name+": reload record carries the old value", stored, "a reload record is primed with the old node's value (handed to BulkReload)", "no store of the old value into "+rec, o)
				}
			}
		}
		a.flush()
	}
}

// rootFieldLoad strips loads so that fieldOf sees the field address.
func rootFieldLoad(v ssa.Value) ssa.Value {
	return v
}

// ruleC12LoadReads: the loading reads are counted reads of the entry they find.
func ruleC12LoadReads(cx *Ctx) {
	const rule = "C12.loadread"
	cx.R.Rule(rule, 2, "Get and BulkGet find a present entry either with the counted lookup getNode (whose read hook C12.hook decides on GetIfPresent) or, when they look the table up themselves, consult ExpireAfterRead exactly once per live entry found - a stale entry that is about to be reloaded is still read")
	for _, spec := range []opSpec{loadOps[0], bulkOps[0]} {
		r := cx.runOp(rule, spec)
		if r == nil {
			continue
		}
		a := newAgg(cx, rule, funcName(r.fn), cx.P.Pos(r.fn.Pos()))
		lookups := 0
		for _, o := range r.outs {
			if o.Cut || o.Panic {
				continue
			}
			we, k := flagOf(o, "withExpiration")
			hits, quiet, counted := 0, 0, 0
			for _, e := range o.S.trace {
				if e.Async > 0 {
					continue
				}
				switch e.Kind {
				case "GetNode":
					lookups++
					if isNil, nk := predOf(o, "IsNil("+e.Args[0]+")"); nk && !isNil {
						if e.Args[len(e.Args)-1] == "quiet" {
							quiet++
						} else {
							counted++
						}
					}
				case "TableGet":
					lookups++
					if preState(o, e.Args[0]) == "L" {
						hits++
					}
				}
			}
			reads := 0
			for _, e := range allEvents(o, "Calc") {
				if e.Async == 0 && e.Args[0] == "ExpireAfterRead" {
					reads++
				}
			}
			want := hits + quiet
			if k && !we {
				want = 0
			}
			if hits+quiet+counted > 0 && (k || hits+quiet == 0) {
				a.check(spec.name+": a found entry is read", reads == want, "every live entry found by a quiet or direct lookup consults ExpireAfterRead once (entries found by getNode are covered there)", fmt.Sprintf("%d hook call(s) for %d uncounted hit(s)", reads, hits+quiet), o)
			}
		}
		if lookups == 0 {
			cx.R.Violate(rule, funcName(r.fn), "lookup", cx.P.Pos(r.fn.Pos()), "NOT SATISFIED: no lookup of the key found in "+spec.name)
		}
		a.flush()
	}
}

package main

import (
	"fmt"
	"golang.org/x/tools/go/packages"
	"golang.org/x/tools/go/ssa"
	"golang.org/x/tools/go/ssa/ssautil"
	_ "golang.org/x/tools/go/callgraph/vta"
	_ "golang.org/x/tools/go/callgraph/cha"
)

func main() {
	cfg := &packages.Config{Mode: packages.LoadAllSyntax, Dir: "/repo"}
	pkgs, err := packages.Load(cfg, "./...")
	if err != nil { panic(err) }
	prog, _ := ssautil.AllPackages(pkgs, ssa.BuilderMode(0))
	prog.Build()
	fmt.Println(len(pkgs))
}

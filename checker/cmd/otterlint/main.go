package main

import (
	"fmt"
	_ "golang.org/x/tools/go/callgraph/cha"
	_ "golang.org/x/tools/go/callgraph/vta"
	"golang.org/x/tools/go/packages"
	"golang.org/x/tools/go/ssa"
	"golang.org/x/tools/go/ssa/ssautil"
)

func main() {
	cfg := &packages.Config{Mode: packages.LoadAllSyntax, Dir: "/repo"}
	pkgs, err := packages.Load(cfg, "./...")
	if err != nil {
		panic(err)
	}
	prog, _ := ssautil.AllPackages(pkgs, ssa.BuilderMode(0))
	prog.Build()
	fmt.Println(len(pkgs))
}

package main

import (
	"fmt"
	"strings"

	"golang.org/x/tools/go/ssa"
)

// ruleC15CopyLock: the migration reads every source bucket chain with that chain's root lock held.
//
// A writer (Compute) that passed the resize checks works on its bucket with the root lock held; the resize waits for it
// only by taking that same lock before it reads the chain. A bucket copier that reads the source slots without the
// root lock - in the copier itself or at one of its call sites - migrates a bucket that an in-flight writer still
// changes, and the writer's update is lost.
func ruleC15CopyLock(cx *Ctx) {
	const rule = "C15.copylock"
	cx.R.Rule(rule, 1, "every read of a source-bucket slot in a bucket copier of resize happens with the lock of the chain's root bucket held - taken by the copier on its bucket parameter, or held on that very argument at every call site")
	mu := cx.P.Field(hmPkg, "bucket", "mu")
	if mu == nil {
		cx.R.Undecided(rule, "bucket", "anchor", "-", "bucket.mu does not resolve")
		return
	}
	// the base bucket of a mutex operation
	muBase := func(in ssa.Instruction) ssa.Value {
		v := recvValue(in)
		for {
			fa, ok := v.(*ssa.FieldAddr)
			if !ok {
				return v
			}
			v = fa.X
		}
	}
	// heldOn(fn, base): flow of "the root lock taken on base is held"
	heldOn := func(fn *ssa.Function, base ssa.Value) *heldFlow {
		return newHeldFlow(fn, func(in ssa.Instruction) (string, bool, bool) {
			if mutexOp(in, mu, "Lock") && muBase(in) == base {
				return "root", true, true
			}
			if mutexOp(in, mu, "Unlock") && muBase(in) == base {
				return "root", false, true
			}
			return "", false, false
		})
	}
	// sourceParam: the bucket parameter a slot base derives from (through the chain walk b = b.next.Load())
	var derive func(v ssa.Value, seen map[ssa.Value]bool) *ssa.Parameter
	derive = func(v ssa.Value, seen map[ssa.Value]bool) *ssa.Parameter {
		if seen[v] {
			return nil
		}
		seen[v] = true
		switch x := v.(type) {
		case *ssa.Parameter:
			return x
		case *ssa.FieldAddr:
			return derive(x.X, seen)
		case *ssa.Phi:
			var p *ssa.Parameter
			for _, e := range x.Edges {
				if q := derive(e, seen); q != nil {
					if p != nil && p != q {
						return nil
					}
					p = q
				}
			}
			return p
		case *ssa.Call:
			if isStdMethod(x, "sync/atomic", "", "Load") {
				return derive(recvValue(x), seen)
			}
		case *ssa.Extract:
			return derive(x.Tuple, seen)
		}
		return nil
	}
	resize := cx.need(rule, hmPkg, "Map", "resize")
	if resize == nil {
		return
	}
	copiers := map[*ssa.Function]bool{}
	type site struct {
		in ssa.Instruction
		fn *ssa.Function
	}
	sites := map[*ssa.Function][]site{}
	for _, f := range cx.P.FuncsOfPkg(hmPkg) {
		f := f
		allInstrs(f, func(in ssa.Instruction) {
			c := calleeOf(in)
			if c == nil || !strings.HasPrefix(cname(c), "copyBucket") {
				return
			}
			c = origin(c)
			copiers[c] = true
			sites[c] = append(sites[c], site{in, f})
		})
	}
	n := 0
	for g := range copiers {
		if len(g.Blocks) == 0 {
			continue
		}
		gname := funcName(g)
		flows := map[*ssa.Parameter]*heldFlow{}
		k := 0
		for _, a := range nodeSlotAccesses(cx, g) {
			if a.write {
				continue
			}
			p := derive(a.base, map[ssa.Value]bool{})
			if p == nil {
				continue // a destination bucket (reached from the new table)
			}
			if namedTypeName(p.Type()) != "bucketPadded" && namedTypeName(p.Type()) != "bucket" {
				continue
			}
			k++
			n++
			hf := flows[p]
			if hf == nil {
				hf = heldOn(g, p)
				flows[p] = hf
			}
			ok := hf.anyHeld(a.in)
			why := ""
			if !ok {
				// every call site holds the root lock of the argument it passes
				pi := -1
				for i, q := range g.Params {
					if q == p {
						pi = i
					}
				}
				ok = pi >= 0 && len(sites[g]) > 0
				for _, s := range sites[g] {
					cc := callCommon(s.in)
					if cc == nil || pi >= len(cc.Args) {
						ok = false
						continue
					}
					if !heldOn(s.fn, cc.Args[pi]).anyHeld(s.in) {
						ok = false
						why = "not held at " + cx.P.where(s.in)
					}
				}
			}
			cx.R.Check(ok, rule, gname, fmt.Sprintf("source slot read#%d under root lock", k), cx.P.where(a.in), "the source chain is read with its root-bucket lock held (an in-flight writer holding it is waited for) "+why)
		}
	}
	if n == 0 {
		cx.R.Violate(rule, funcName(resize), "source reads", cx.P.Pos(resize.Pos()), "NOT SATISFIED: no bucket copier reading source slots was found")
	}
}

package main

import (
	"fmt"
	"strings"

	"golang.org/x/tools/go/ssa"
)

// sawPathTier decides the scheduleAfterWrite clauses of C14.status on the path summaries of the function (helpers that
// the pinned tree does not have are inlined): the state machine may have been split into a "one attempt" helper that
// reports what to do, moved into methods of a small type, or rewritten as if-chains - what counts is, per load of the
// drain status and per value it can have, what happens before the function returns or loads again.
func sawPathTier(cx *Ctx, saw *ssa.Function, st statusConsts) map[string]bool {
	ps := newPathSum(cx)
	ps.trackLoads = true
	ps.alsoRelevant = []string{"Eq(atomic:Load#", "atomic:CompareAndSwap#"}
	for _, h := range newHelpersOf(saw) {
		ps.inlineLoops[h] = true
	}
	outs := ps.Run(saw, nil)
	res := map[string]bool{}
	if ps.capped || len(outs) == 0 {
		return res
	}
	names := map[int64]string{st.idle: "idle", st.required: "required", st.pToIdle: "processingToIdle", st.pToRequired: "processingToRequired"}
	verdict := map[string]bool{}
	seen := map[string]bool{}
	for _, n := range names {
		verdict["status "+n+" handled"] = true
		verdict["case "+n] = true
	}
	fail := func(k string) { verdict[k] = false }
	for _, o := range outs {
		// rounds: from one load of the status to the next
		type round struct {
			load  string
			cas   map[string]string // "old->new" -> result symbol
			sched bool
			last  bool
		}
		var rounds []*round
		for _, e := range o.S.trace {
			switch {
			case e.Kind == "AtomicLoad" && len(e.Args) > 0 && strings.HasSuffix(e.Args[0], ".drainStatus"):
				rounds = append(rounds, &round{load: e.Res, cas: map[string]string{}})
			case e.Kind == "Atomic" && len(e.Args) == 4 && e.Args[0] == "CompareAndSwap" && strings.HasSuffix(e.Args[1], ".drainStatus") && len(rounds) > 0:
				rounds[len(rounds)-1].cas[e.Args[2]+"->"+e.Args[3]] = e.Res
			case e.Kind == "ScheduleDrain" && len(rounds) > 0:
				rounds[len(rounds)-1].sched = true
			}
		}
		if len(rounds) == 0 {
			continue
		}
		rounds[len(rounds)-1].last = true
		for _, r := range rounds {
			k, known := int64(-1), false
			for c := range names {
				if v, ok := o.S.preds[fmt.Sprintf("Eq(%s,const(%d))", r.load, c)]; ok && v {
					k, known = c, true
				}
			}
			if !known || (r.last && o.Cut) {
				continue // (a round cut short by the loop bound is incomplete)
			}
			n := names[k]
			seen[n] = true
			if r.last && o.Panic {
				fail("status " + n + " handled")
				continue
			}
			returns := r.last && !o.Cut && !o.Panic
			switch k {
			case st.idle:
				_, cas := r.cas[fmt.Sprintf("const(%d)->const(%d)", st.idle, st.required)]
				if !(returns && cas && r.sched) {
					fail("case " + n)
				}
			case st.required:
				if !(returns && r.sched) {
					fail("case " + n)
				}
			case st.pToIdle:
				sym, cas := r.cas[fmt.Sprintf("const(%d)->const(%d)", st.pToIdle, st.pToRequired)]
				won, wk := o.S.preds[sym]
				switch {
				case !cas || !wk:
					fail("case " + n)
				case won && !returns:
					fail("case " + n)
				case !won && returns:
					fail("case " + n) // returned although the CAS was lost
				}
			case st.pToRequired:
				if !returns {
					fail("case " + n)
				}
			}
		}
	}
	for _, n := range names {
		if !seen[n] {
			verdict["status "+n+" handled"], verdict["case "+n] = false, false
		}
	}
	return verdict
}

package main

func init() {
	register("C06",
		"Decides, on every enumerated path of every table-mutating operation and of the eviction callback, that a value which stops being current is reported exactly once atomically (inside the bucket-locked computation, with that node's key/value and the truthful cause) and exactly once deferred (one replay task, run exactly once by runTask, or one direct notification without maintenance), and that nothing is reported when the table is unchanged. "+
			"NOT decided: conservation (written = present + reported) over whole histories and races between replacement and eviction of one key beyond the per-path identity test.",
		[]string{"hashmap.Map.Compute runs its callback exactly once under the bucket lock (C15)", "every enqueued task is replayed exactly once (C16, C05.runTask)"},
		ruleC06Atomic, ruleC05Task, ruleC05RunTask, ruleEvict)
	register("C09",
		"Decides that every explicit write/compute/invalidate/eviction clears the key's in-flight load record inside the same bucket-locked computation that changes the mapping (C09.clear) and that the load installer installs or removes only on paths where, inside that computation, its record was still registered (C09.guard = the installer's decision table), so a superseded load cannot overwrite a newer write. "+
			"NOT decided: the schedule quantifier itself (atomicity of those steps is C15).",
		[]string{"hashmap.Map.Compute is atomic per key (C15.once/rmw)"},
		ruleC09Clear, ruleC09Guard)
	register("C20",
		"Decides the per-path counting facts behind exact statistics: the lookup-count table per operation with hit <=> live entry (C20.lookup), one load record per loader dispatch and eviction records only for removals that happened (C20.load / C20.evict). NOT decided: exactness of the striped adder under contention.",
		[]string{"stats.Recorder methods only add"},
		ruleC20Lookup, ruleC20Load, ruleEvict)
	register("C12",
		"Decides the structural clauses of exact, overflow-free deadlines on every enumerated path: each stored deadline is the saturating sum of the operation's clock sample and the duration the hook returned on that path (C12.sat); hooks are selected by the pre-state - create for absent/expired, update/reload with the live old value, failure hook on failed reloads, read hook once per counted read - and an expired predecessor's value is never passed on (C12.hook); a replacing node inherits its predecessor's deadlines first (C12.inherit); the deadline writers are exactly the known sites (C12.sites); HasExpired/IsFresh have the same boundary in every variant (C12.bound). "+
			"NOT decided: numeric equality deadline = now + d on concrete runs.",
		[]string{"xmath.SaturatedAdd saturates (checked by C12.satfn)", "calculators are pure with respect to the cache"},
		ruleC12Hooks, ruleC12Sites, ruleC12Bound, ruleC12Apply)
}

package main

func init() {
	register("C06",
		"Decides, on every enumerated path of every table-mutating operation and of the eviction callback, that a value which stops being current is reported exactly once atomically (inside the bucket-locked computation, with that node's key/value and the truthful cause) and exactly once deferred (one replay task, run exactly once by runTask, or one direct notification without maintenance), and that nothing is reported when the table is unchanged; the task of a writer that runs maintenance itself is replayed on every path of maintenance (C13.order) and a popped task always reaches runTask (C16.consume) - a dropped task is a lost deferred report. "+
			"NOT decided: conservation (written = present + reported) over whole histories and races between replacement and eviction of one key beyond the per-path identity test.",
		[]string{"hashmap.Map.Compute runs its callback exactly once under the bucket lock (C15)", "every enqueued task is replayed exactly once (C16, C05.runTask)"},
		ruleC06Atomic, ruleC05Task, ruleC05RunTask, ruleEvict, ruleC13Order, ruleC16Consume, ruleC06HandlerNil, ruleC05GetTask, ruleC01Config)
	register("C09",
		"Decides that every explicit write/compute/invalidate/eviction clears the key's in-flight load record inside the same bucket-locked computation that changes the mapping (C09.clear) and that the load installer installs or removes only on paths where, inside that computation, its record was still registered (C09.guard = the installer's decision table), so a superseded load cannot overwrite a newer write. "+
			"The installer's own-record test is an identity test inside the in-flight table's computation (C08.getorcreate: records are removed only by pointer identity). "+
			"NOT decided: the schedule quantifier itself (atomicity of those steps is C15).",
		[]string{"hashmap.Map.Compute is atomic per key (C15.once/rmw)"},
		ruleC09Clear, ruleC09Cancel, ruleC09Guard, ruleC08GetOrCreate)
	register("C20",
		"Decides the per-path counting facts behind exact statistics: the lookup-count table per operation with hit <=> live entry (C20.lookup), one load record per loader dispatch and eviction records only for removals that happened (C20.load / C20.evict); the bundled recorder adds each reported figure exactly once to its own counter, nothing else writes a counter, Snapshot and the Stats arithmetic pair the fields of the same name (C20.counter / C20.stats); the striped adder returns only after exactly one successful compare-and-swap of count+delta on the stripe it read, Value sums every stripe (C20.adder). NOT decided: that concurrent Adds interleave correctly at run time beyond this CAS protocol shape.",
		[]string{"a user-supplied stats.Recorder counts what it is told (the bundled stats.Counter is decided by C20.counter / C20.adder)"},
		ruleC20Lookup, ruleC20Load, ruleEvict, ruleC20Counter, ruleC20Adder, ruleC20Stats, ruleC01Config)
	register("C12",
		"Decides the structural clauses of exact, overflow-free deadlines on every enumerated path: each stored deadline is the saturating sum of the operation's clock sample and the duration the hook returned on that path (C12.sat); hooks are selected by the pre-state - create for absent/expired, update/reload with the live old value, failure hook on failed reloads, read hook once per counted read - and an expired predecessor's value is never passed on (C12.hook, and C12.loadread for the loading reads); a replacing node inherits its predecessor's deadlines first (C12.inherit); the deadline writers are exactly the known sites (C12.sites); HasExpired/IsFresh have the same boundary in every variant (C12.bound). "+
			"NOT decided: numeric equality deadline = now + d on concrete runs.",
		[]string{"xmath.SaturatedAdd saturates (checked by C12.satfn)", "user-supplied calculators are pure with respect to the cache (the built-in ones are decided by C12.calc)"},
		ruleC12Hooks, ruleC12Sites, ruleC12Bound, ruleC12Apply, ruleC10Finisher, ruleC12LoadReads, ruleC12Calc, ruleC12Clock, ruleC01Config, ruleC03Deadline, ruleC03Filter, ruleXMath)
}

func init() {
	register("C08",
		"Decides the code-shape obligations of single-flight loading on every path: a call record is created only inside the in-flight table's computation when none exists (C08.getorcreate); doCall/doBulkCall register, before invoking the loader, a deferred recover that finishes the record(s) (C08.finish); the finish callback clears the record if it is still its own and releases the waiters exactly once after the table computation (C08.release); every record obtained with shouldLoad is dispatched exactly once before any wait and records obtained without it are only waited on (C08.dispatch). "+
			"NOT decided: non-overlap of loader invocations in time and termination under all interleavings.",
		[]string{"sync.WaitGroup semantics", "the executor runs submitted closures"},
		ruleLoadLemma, ruleLoadOps, ruleBulkOps, ruleC10TableC10, ruleC08GetOrCreate, ruleC08Finish, ruleC10Inv, ruleC10Distribute, ruleC10Finisher, ruleC09Clear, ruleC08TableOnce, ruleC02LockOrder, ruleC08Wait)
}

func init() {
	register("C10",
		"Decides the structural clauses of 'load outcomes map to cache state and results as documented' on every enumerated path: the load installer's decision table over (own record, not-found, error) (C10.table); the record invariants of doCall/doBulkCall - a not-found mark always comes with the not-found error, an overwritten error resets the mark, volunteered keys are registered before the error epilogue (C10.inv); a record's value reaches an API result only after wait and under err == nil, hits insert the live node's value under the looked-up key, misses return (record.value, record.err) (C10.result); BulkGet dispatches at most once, only its own records, duplicates skipped before the lookup (C10.once). "+
			"NOT decided: exact result maps for arbitrary loader shapes beyond these guards.",
		[]string{"loaders are opaque user functions", "in-flight table atomicity (C15)"},
		ruleC10TableC10, ruleC10Inv, ruleC10Distribute, ruleC10Finisher, ruleLoadLemma, ruleLoadOps, ruleBulkOps, ruleC08Finish, ruleC10WrapLoad, ruleC10Adapter, ruleC09Clear)
	register("C11",
		"Decides the structural clauses of refresh on every enumerated path: a hit returns the value cached at that moment and never loads inline (C11.old); a reload is scheduled only on the not-fresh edge and only inside an executor closure (C11.trigger); Reload gets the old value, Load is used for absent keys (C11.reloadarg); without refresh configured nothing is returned or scheduled, a manual refresh returns a capacity-1 channel and sends exactly one result on every non-panicking path, automatic refreshes send nothing (C11.chan); a failed reload keeps the entry and its expiry, a not-found reload of its own record removes it, a successful own reload installs (C10.table, C12.hook failure rows); an operation that writes nothing (SetIfAbsent on a live key, a cancelled compute) leaves the reload in flight, so its result still replaces the value (C09.clear). "+
			"NOT decided: timing around the deadline and behaviour of asynchronous executors; one genuine defect is a known finding (bulk refresh leaves records in flight when a loader panic is re-raised).",
		[]string{"the executor runs submitted closures", "loaders are opaque user functions"},
		ruleLoadLemma, ruleLoadOps, ruleBulkOps, ruleC11ReloadArg, ruleC10TableC10, ruleC10Inv, ruleC10Distribute, ruleC10Finisher, ruleC12Hooks, ruleC09Clear, ruleC12Calc, ruleC10Adapter, ruleC08Wait)
}

func init() {
	register("C04",
		"Decides the structural clauses the size bound rests on, on every enumerated path of the policy handlers: zero-weight entries are never handed to the eviction callback by the eviction loops and are skipped by the window transfer (C04.zero); every eviction happens in an iteration guarded by weightedSize > maximum, re-read after each callback (C04.loop); oversized entries are evicted by add/update (C04.over); the running totals are written only by their handlers, add/update count a weight exactly once on every path, makeDead releases it exactly once under the not-dead guard (C04.acct); SetMaximum stores the maximum and runs maintenance under one lock section, maintenance replays writes before evicting (C04.setmax); every table change produces its replay task and the update handler leaves the new node reachable by the policy (C05.task, C05.transplant). "+
			"A node the climber moves between queues leaves exactly one queue and enters exactly one (C05.moves): an entry in no queue can never be chosen for eviction. "+
			"NOT decided: the bound itself (sum of weights <= maximum) over histories and schedules; absence of uint64 underflow in the totals.",
		[]string{"the eviction callback updates the policy's counters (modelled as havoc of the policy's fields)", "deque operations behave as C05.deque decides"},
		rulePolicy, ruleDeque, ruleDequeShape, ruleC04SetMax, ruleC05Task, ruleC05RunTask, ruleC13Order, ruleC05Moves, ruleC01Config, ruleC04Exit, ruleC05Views, ruleC05PolUnlink)
	register("C05",
		"Decides, per path, that policy bookkeeping follows the table: every table change yields exactly one matching replay task (C05.task); the replay handler applies each task kind completely (C05.runTask); add links only alive nodes (C05.alive); the update handler leaves the new node linked - transplant only from a contained predecessor, else window entry (C05.transplant); the eviction callback unlinks, unschedules and kills on all paths (C05.evict); the intrusive deque clears links of removed/replaced nodes and keeps len in step (C05.deque); totals are written only by their handlers (C04.acct); the functions that move entries between the three queues conserve membership, tag and per-queue counters on every path (C05.moves); policy, deque, wheel and node link state is written, and both buffers are consumed, only with the eviction lock held (C05.lockctx); no task is dropped on enqueue (C14.after); every mutator of the timer wheel keeps scheduled <=> linked in exactly one ring - Add links on every path (C13.shape): an entry the wheel does not know is never swept. "+
			"NOT decided: equality of the counters with the sum of weights and set(Coldest)=set(All) as run-time facts.",
		[]string{"tasks are replayed exactly once in producer order (C16)"},
		ruleC05Task, ruleC05RunTask, rulePolicy, ruleC05Moves, ruleDeque, ruleDequeShape, ruleEvict, ruleC05LockCtx, ruleC05LockRead, ruleC14After, ruleC16Consume, ruleWheelShape, ruleC05GetTask, ruleC01Config, ruleC15SizeCopy, ruleC15Size, ruleC05Views, ruleC05PolUnlink)
	register("C07",
		"Decides the structural clauses of 'entries disappear only for a sanctioned, truthful reason': evictions for size happen only in iterations guarded by weightedSize > maximum and never hit zero-weight entries (C04.loop, C04.zero); window transfers only above the window maximum (C07.window); the eviction callback reports Expiration exactly when the victim is expired at its time and Overflow otherwise, and only the policy (which exists only with a size bound) and the timer wheel call it (C07.causeflow); the wheel expires only on deadline < wheel time and passes that time (C13.nodrop). "+
			"A deadline that has passed is the entry's own: a write over an absent or expired key takes the create hook and a fresh clock sample (C12.hook), so no entry is born with its predecessor's expired deadline; a loaded value is stored with a clock sample taken when it is stored, not when the load began (C10.finisher), so a slow load does not produce an entry that expires before its deadline. "+
			"NOT decided: 'total weight exceeded the maximum at that moment' as a numeric fact.",
		[]string{"the running totals are right (C04.acct decides who writes them)"},
		rulePolicy, ruleEvict, ruleC07CauseFlow, ruleC13NoDrop, ruleC12Hooks, ruleC10Finisher, ruleC05Task, ruleC04Exit)
}

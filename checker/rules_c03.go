package main

func init() {
	register("C03",
		"Decides, on every path of the cache's operations (path-sensitive summaries of the real SSA), that an expired-but-unswept entry is treated as absent: Set/SetIfAbsent/Invalidate/Compute* never return or report its value (C03.ret = the 'expired' rows of the one-step refinement against the map-with-deadlines model), "+
			"deadlines are moved only on entries known unexpired on that path (C03.deadline), every table-sourced node passes an expiry test before it reaches an API-visible sink - return values, iterator yields, the 'old value' handed to calculators and loaders, the policy access hook (C03.filter), and the persistence loader skips entries with deadline <= now, the same boundary as every node variant's HasExpired (C03.persist). "+
			"NOT decided: interleavings in which the clock moves during an operation.",
		[]string{"HasExpired(x, now) is stable between two evaluations on one path", "hashmap.Map.Compute runs its callback exactly once under the bucket lock (C15.once / C15.rmw)", "configuration flags are immutable after construction (C01.cap)"},
		ruleC03Ret, ruleC03Deadline, ruleC03Filter, ruleLoadLemma, ruleC03Source, ruleC19Load, ruleC19Save, ruleC12Bound, ruleC06HandlerNil, ruleC12Hooks)
}

package main

import (
	"fmt"
	"strings"

	"golang.org/x/tools/go/ssa"
)

func polSpec(name, kind string) opSpec { return opSpec{name, "policy", name, nil, kind, nil} }

func dequeCall(e psEvent, method string) (queue, node string, ok bool) {
	if e.Kind != "Call" || !strings.HasSuffix(e.Args[0], "(*Linked)."+method) || len(e.Args) < 2 {
		return "", "", false
	}
	q := e.Args[1]
	if i := strings.LastIndex(q, "."); i >= 0 {
		q = strings.TrimSuffix(q[i+1:], ")")
		if j := strings.Index(q, "@"); j >= 0 {
			q = q[:j]
		}
	}
	n := ""
	if len(e.Args) > 2 {
		n = e.Args[2]
	}
	return q, n, true
}

// splitBin splits "(lhs op rhs)" at its top-level operator.
func splitBin(v string) (string, string, string, bool) {
	if !strings.HasPrefix(v, "(") || !strings.HasSuffix(v, ")") {
		return "", "", "", false
	}
	in := v[1 : len(v)-1]
	depth := 0
	for i := 0; i < len(in); i++ {
		switch in[i] {
		case '(':
			depth++
		case ')':
			depth--
		case '+', '-':
			if depth == 0 && i > 0 {
				return in[:i], string(in[i]), in[i+1:], true
			}
		}
	}
	return "", "", "", false
}

// fieldDelta recognises p.field = p.field (+|-) operand, also when the current value was itself computed on the path.
func fieldDelta(e psEvent, field string) (sign int, operand string, ok bool) {
	if e.Kind != "FieldStore" || !strings.HasPrefix(e.Args[0], "param:p."+field) {
		return 0, "", false
	}
	lhs, op, rhs, isBin := splitBin(e.Args[1])
	if isBin && strings.Contains(lhs, "load(param:p."+field) {
		if op == "+" {
			return 1, rhs, true
		}
		return -1, rhs, true
	}
	return 0, e.Args[1], true
}

// truePreds returns the atoms with the given prefix/contains that are true / false on the path.
func predsMatching(o *psOutcome, f func(atom string) bool) (trues, falses []string) {
	for a, v := range o.S.preds {
		if f(a) {
			if v {
				trues = append(trues, a)
			} else {
				falses = append(falses, a)
			}
		}
	}
	return
}

func cmpAtom(o *psOutcome, lhs, op, rhsContains string) (bool, bool) {
	for a, v := range o.S.preds {
		if strings.HasPrefix(a, "("+lhs+op) && strings.Contains(a[len(lhs)+1:], rhsContains) {
			if rest := a[len(lhs)+1+len(op):]; (op == ">" || op == "<") && strings.HasPrefix(rest, "=") {
				continue // ">=" is not ">"
			}
			return v, true
		}
	}
	return false, false
}

// rulePolicyEvict: C04.zero / C04.loop / C07.window / C04.over / C04.acct / C05.alive / C05.transplant on path summaries
// of the policy's handlers.
func rulePolicy(cx *Ctx) {
	const rZero = "C04.zero"
	const rLoop = "C04.loop"
	const rOver = "C04.over"
	const rAcct = "C04.acct"
	const rAlive = "C05.alive"
	const rTrans = "C05.transplant"
	const rWin = "C07.window"
	cx.R.Rule(rZero, 1, "every node handed to the eviction callback by the eviction loops is known non-zero-weight on that path, or dead, or heavier than the maximum; the window->probation transfer skips zero weights")
	cx.R.Rule(rLoop, 1, "every eviction in evictFromMain happens in an iteration entered on the true edge of weightedSize > maximum (freshly re-read after each callback)")
	cx.R.Rule(rOver, 1, "in add and in every queue case of update a node heavier than the maximum is handed to the eviction callback")
	cx.R.Rule(rAcct, 1, "weightedSize accounting: add and update add the node's weight exactly once on every path (also for nodes that are no longer alive), makeDead subtracts it and marks the node dead exactly once under the not-dead guard, update releases the old node exactly once")
	cx.R.Rule(rAlive, 1, "policy.add links a node into a deque only on the alive edge (out-of-order adds are ignored)")
	cx.R.Rule(rTrans, 1, "the update handler leaves the new node linked: it transplants the old node's position only when the old node is contained in its deque, otherwise the new node enters the window like a fresh one (or is evicted)")
	cx.R.Rule(rWin, 1, "window->probation transfers happen only while windowWeightedSize > windowMaximum")

	// ---- evictFromMain
	if r := cx.runOp(rZero, polSpec("evictFromMain", "evictFromMain")); r != nil {
		az := newAgg(cx, rZero, funcName(r.fn), cx.P.Pos(r.fn.Pos()))
		al := newAgg(cx, rLoop, funcName(r.fn), cx.P.Pos(r.fn.Pos()))
		for _, o := range r.outs {
			evs := userCalls(o, "evictNode")
			for _, e := range evs {
				x := e.Args[2]
				zero, zk := predOf(o, "Eq(Weight("+x+"),const(0))")
				alive, ak := predOf(o, "Alive("+x+")")
				heavy, hk := cmpAtom(o, "Weight("+x+")", ">", "maximum")
				ok := (zk && !zero) || (ak && !alive) || (hk && heavy)
				az.check("victim/candidate not zero-weight", ok, "a node is evicted for size only after its weight was tested non-zero on that path (zero-weight entries are pinned)", "evicts "+x+" without a zero-weight test", o)
			}
			// loop guard
			trues, _ := predsMatching(o, func(a string) bool {
				return strings.HasPrefix(a, "(load(param:p.weightedSize") && strings.Contains(a, ")>load(param:p.maximum")
			})
			al.check("evictions ≤ guarded iterations", len(evs) <= len(trues), "each eviction belongs to an iteration whose guard weightedSize > maximum was true", fmt.Sprintf("%d eviction(s), %d true guard evaluation(s)", len(evs), len(trues)), o)
		}
		az.flush()
		al.flush()
	}
	// ---- evictFromWindow
	if r := cx.runOp(rWin, polSpec("evictFromWindow", "evictFromWindow")); r != nil {
		aw := newAgg(cx, rWin, funcName(r.fn), cx.P.Pos(r.fn.Pos()))
		az := newAgg(cx, rZero, funcName(r.fn), cx.P.Pos(r.fn.Pos()))
		for _, o := range r.outs {
			moves := 0
			for _, e := range o.S.trace {
				q, n, ok := dequeCall(e, "PushBack")
				if !ok {
					continue
				}
				moves++
				zero, zk := predOf(o, "Eq(Weight("+n+"),const(0))")
				az.check("transfer skips zero weight", zk && !zero, "only non-zero-weight entries are moved from the window to probation", "moves "+n, o)
				aw.check("destination", q == "probation", "window candidates go to probation", "pushed to "+q, o)
				tagged, unlinked, counted := false, false, false
				for _, x := range o.S.trace {
					if x.Kind == "NodeQueue" && x.Args[0] == n && x.Args[1] == "MakeMainProbation" {
						tagged = true
					}
					if dq, dn, ok := dequeCall(x, "Delete"); ok && dq == "window" && dn == n {
						unlinked = true
					}
					if s, opnd, ok := fieldDelta(x, "windowWeightedSize"); ok && s == -1 && strings.Contains(opnd, "Weight("+n+")") {
						counted = true
					}
				}
				aw.check("move signature", tagged && unlinked && counted, "a transferred node is re-tagged probation, unlinked from the window and its weight leaves windowWeightedSize", fmt.Sprintf("tagged=%v unlinked=%v counted=%v", tagged, unlinked, counted), o)
			}
			trues, _ := predsMatching(o, func(a string) bool {
				return strings.HasPrefix(a, "(") && strings.Contains(a, "windowWeightedSize") && strings.Contains(a, ">load(param:p.windowMaximum")
			})
			// the candidate handed to the main space's admission is the first entry that LEFT the window on this path
			if !o.Cut && !o.Panic && len(o.Rets) == 1 {
				var movedNodes []string
				for _, e := range o.S.trace {
					if _, n, ok := dequeCall(e, "PushBack"); ok {
						movedNodes = append(movedNodes, n)
					}
				}
				ret := o.Rets[0]
				okRet := (len(movedNodes) == 0 && (ret == "nil" || ret == "zero")) || (len(movedNodes) > 0 && ret == movedNodes[0])
				aw.check("returns the first transferred entry", okRet, "evictFromWindow returns the first node it moved into probation (nil when it moved none): the admission contest is about entries that really left the window", fmt.Sprintf("returns %s, moved %v", ret, movedNodes), o)
			}
			aw.check("moves ≤ guarded iterations", moves <= len(trues), "each transfer belongs to an iteration whose guard windowWeightedSize > windowMaximum was true", fmt.Sprintf("%d move(s), %d true guard(s)", moves, len(trues)), o)
		}
		aw.flush()
		az.flush()
	}
	// ---- add
	if r := cx.runOp(rAcct, polSpec("add", "add")); r != nil {
		aa := newAgg(cx, rAcct, funcName(r.fn), cx.P.Pos(r.fn.Pos()))
		av := newAgg(cx, rAlive, funcName(r.fn), cx.P.Pos(r.fn.Pos()))
		ao := newAgg(cx, rOver, funcName(r.fn), cx.P.Pos(r.fn.Pos()))
		for _, o := range r.outs {
			if o.Cut || o.Panic {
				continue
			}
			plus, plusW := 0, 0
			for _, e := range o.S.trace {
				if s, opnd, ok := fieldDelta(e, "weightedSize"); ok {
					if s == 1 && opnd == "Weight(param:n)" {
						plus++
					} else {
						plus += 10
					}
				}
				if s, opnd, ok := fieldDelta(e, "windowWeightedSize"); ok {
					if s == 1 && opnd == "Weight(param:n)" {
						plusW++
					} else {
						plusW += 10
					}
				}
			}
			aa.check("add counts the weight once", plus == 1 && plusW == 1, "add adds the node's weight to weightedSize and windowWeightedSize exactly once on every path, alive or not (the later delete/update releases it)", fmt.Sprintf("weightedSize codes %d, window %d", plus, plusW), o)
			alive, ak := predOf(o, "Alive(param:n)")
			pushes := 0
			for _, e := range o.S.trace {
				for _, m := range []string{"PushBack", "PushFront"} {
					if _, n, ok := dequeCall(e, m); ok && n == "param:n" {
						pushes++
					}
				}
			}
			evicted := len(userCalls(o, "evictNode"))
			if ak && !alive {
				av.check("dead node not linked", pushes == 0 && evicted == 0, "a node that is no longer alive is neither linked nor evicted by add", fmt.Sprintf("%d push(es), %d eviction(s)", pushes, evicted), o)
			} else if ak && alive {
				heavy, hk := cmpAtom(o, "Weight(param:n)", ">", "load(param:p.maximum")
				if !hk {
					ao.check("maximum consulted", false, "add compares the entry's weight with the maximum before linking it", "untested", o)
				} else if heavy {
					ao.check("oversized add evicted", evicted == 1 && pushes == 0, "an entry heavier than the maximum is evicted at once instead of being linked", fmt.Sprintf("%d push(es), %d eviction(s)", pushes, evicted), o)
				} else {
					av.check("alive node linked once", pushes == 1 && evicted == 0, "an alive entry within the maximum is linked into the window exactly once", fmt.Sprintf("%d push(es), %d eviction(s)", pushes, evicted), o)
				}
			} else {
				av.check("liveness consulted", false, "add tests IsAlive before linking", "untested", o)
			}
		}
		aa.flush()
		av.flush()
		ao.flush()
	}
	// ---- update (+ updateNode inlined)
	if r := cx.runOp(rTrans, polSpec("update", "update")); r != nil {
		at := newAgg(cx, rTrans, funcName(r.fn), cx.P.Pos(r.fn.Pos()))
		aa := newAgg(cx, rAcct, funcName(r.fn), cx.P.Pos(r.fn.Pos()))
		ao := newAgg(cx, rOver, funcName(r.fn), cx.P.Pos(r.fn.Pos()))
		for _, o := range r.outs {
			if o.Cut || o.Panic {
				continue
			}
			transplants, pushes := 0, 0
			guarded := true
			for _, e := range o.S.trace {
				if q, n, ok := dequeCall(e, "UpdateNode"); ok && n == "param:n" {
					transplants++
					// guarded by Contains(old) == true (or NotContains(old) == false) on the same deque
					g := false
					for _, c := range o.S.trace {
						if cq, cn, ok := dequeCall(c, "Contains"); ok && cq == q && cn == "param:old" {
							if v, k := predOf(o, c.Res); k && v {
								g = true
							}
						}
						if cq, cn, ok := dequeCall(c, "NotContains"); ok && cq == q && cn == "param:old" {
							if v, k := predOf(o, c.Res); k && !v {
								g = true
							}
						}
					}
					if !g {
						guarded = false
					}
				}
				for _, m := range []string{"PushBack", "PushFront"} {
					if q, n, ok := dequeCall(e, m); ok && n == "param:n" {
						pushes++
						tag := false
						for _, x := range o.S.trace {
							if x.Kind == "NodeQueue" && x.Args[0] == "param:n" && x.Args[1] == "MakeWindow" {
								tag = true
							}
						}
						if q != "window" || !tag {
							guarded = false
						}
					}
				}
			}
			at.check("new node linked exactly one way", transplants+pushes == 1 && guarded, "the replacing node either inherits the old node's position (only when the old node is contained in that deque) or enters the window with the window tag", fmt.Sprintf("%d transplant(s), %d push(es), guarded=%v", transplants, pushes, guarded), o)
			// accounting
			plus := 0
			for _, e := range o.S.trace {
				if s, opnd, ok := fieldDelta(e, "weightedSize"); ok {
					if s == 1 && opnd == "Weight(param:n)" {
						plus++
					} else {
						plus += 10
					}
				}
			}
			md := 0
			for _, e := range allEvents(o, "PolicyMakeDead") {
				if e.Args[0] == "param:old" {
					md++
				}
			}
			aa.check("update counts new, releases old", plus == 1 && md == 1, "update adds the new node's weight exactly once and releases the old node exactly once", fmt.Sprintf("weightedSize code %d, makeDead(old) x%d", plus, md), o)
			// per-queue counters
			for _, q := range []struct{ pred, field string }{{"InWindow(param:n)", "windowWeightedSize"}, {"InMainProtected(param:n)", "mainProtectedWeightedSize"}} {
				if v, k := predOf(o, q.pred); k && v {
					c := 0
					for _, e := range o.S.trace {
						if s, opnd, ok := fieldDelta(e, q.field); ok && s == 1 && opnd == "Weight(param:n)" {
							c++
						}
					}
					aa.check("queue counter "+q.field, c == 1, "the queue's own counter receives the new node's weight once", fmt.Sprintf("%d", c), o)
				}
			}
			// oversized
			heavy, hk := cmpAtom(o, "Weight(param:n)", ">", "load(param:p.maximum")
			leq, lk := cmpAtom(o, "Weight(param:n)", "<=", "load(param:p.maximum")
			over := (hk && heavy) || (lk && !leq)
			within := (hk && !heavy) || (lk && leq)
			ev := len(userCalls(o, "evictNode"))
			if over {
				ao.check("oversized update evicted", ev == 1, "a replacement heavier than the maximum is evicted at once", fmt.Sprintf("%d eviction(s)", ev), o)
			} else if within {
				ao.check("within maximum: kept", ev == 0, "a replacement within the maximum is not evicted by the handler", fmt.Sprintf("%d eviction(s)", ev), o)
			} else {
				inQueue := false
				for _, q := range []string{"InWindow(param:n)", "InMainProbation(param:n)", "InMainProtected(param:n)"} {
					if v, k := predOf(o, q); k && v {
						inQueue = true
					}
				}
				if inQueue {
					ao.check("maximum consulted", false, "every queue case compares the new weight with the maximum", "untested", o)
				}
			}
		}
		at.flush()
		aa.flush()
		ao.flush()
	}
	// ---- makeDead
	if r := cx.runOp(rAcct, polSpec("makeDead", "makeDead")); r != nil {
		aa := newAgg(cx, rAcct, funcName(r.fn), cx.P.Pos(r.fn.Pos()))
		for _, o := range r.outs {
			if o.Cut || o.Panic {
				continue
			}
			dead, dk := predOf(o, "Dead(param:n)")
			minus, dies := 0, 0
			for _, e := range o.S.trace {
				if s, opnd, ok := fieldDelta(e, "weightedSize"); ok {
					if s == -1 && opnd == "Weight(param:n)" {
						minus++
					} else {
						minus += 10
					}
				}
				if e.Kind == "Die" && e.Args[0] == "param:n" {
					dies++
				}
			}
			switch {
			case !dk:
				aa.check("dead guard", false, "makeDead tests IsDead first", "untested", o)
			case dead:
				aa.check("already dead: nothing", minus == 0 && dies == 0, "a dead node's weight is not released twice", fmt.Sprintf("%d release(s), %d Die", minus, dies), o)
			default:
				aa.check("release once and die", minus == 1 && dies == 1, "the weight is released exactly once and the node marked dead", fmt.Sprintf("release code %d, %d Die", minus, dies), o)
				for _, q := range []struct{ pred, field string }{{"InWindow(param:n)", "windowWeightedSize"}, {"InMainProtected(param:n)", "mainProtectedWeightedSize"}} {
					if v, k := predOf(o, q.pred); k && v {
						c := 0
						for _, e := range o.S.trace {
							if s, opnd, ok := fieldDelta(e, q.field); ok && s == -1 && opnd == "Weight(param:n)" {
								c++
							}
						}
						aa.check("queue counter "+q.field+" released", c == 1, "the queue's own counter releases the weight once", fmt.Sprintf("%d", c), o)
					}
				}
			}
		}
		aa.flush()
	}
	// ---- census: who writes the totals, who kills nodes
	writers := map[string]map[string]string{
		"weightedSize":              {"(*policy).add": "+W", "(*policy).update": "+W", "(*policy).makeDead": "-W"},
		"windowWeightedSize":        {"(*policy).add": "", "(*policy).update": "", "(*policy).makeDead": "", "(*policy).evictFromWindow": "", "(*policy).increaseWindow": "", "(*policy).decreaseWindow": ""},
		"mainProtectedWeightedSize": {"(*policy).update": "", "(*policy).makeDead": "", "(*policy).reorderProbation": "", "(*policy).demoteFromMainProtected": "", "(*policy).increaseWindow": ""},
	}
	for field, allowed := range writers {
		fv := cx.needField(rAcct, "", "policy", field)
		if fv == nil {
			continue
		}
		for _, fn := range cx.P.ModuleFuncs() {
			allInstrs(fn, func(in ssa.Instruction) {
				if st, ok := in.(*ssa.Store); ok && sameField(fieldOf(st.Addr), fv) {
					_, ok := allowed[funcName(outermost(fn))]
					if !ok {
						// a helper split off a known handler: every call chain into it starts in one (its effect is
						// then part of that handler's path summaries)
						ok = onlyWithinAny(cx, outermost(fn), allowed, 0)
					}
					cx.R.Check(ok, rAcct, funcName(fn), "writer of "+field, cx.P.where(in), "the running total "+field+" is written only by its known handlers (or helpers called only from them)")
				}
			})
		}
	}
	dieAllowed := map[string]bool{"(*policy).makeDead": true, "(*cache).makeDead": true}
	for _, fn := range cx.P.FuncsOfPkg("") {
		allInstrs(fn, func(in ssa.Instruction) {
			if invokeName(in) == "Die" && isNodeIface(namedTypeName(callCommon(in).Value.Type())) {
				cx.R.Check(dieAllowed[funcName(fn)], rAcct, funcName(fn), "Die caller", cx.P.where(in), "nodes are marked dead only by the makeDead helpers (under their not-dead guard)")
			}
		})
	}
}

// ruleDeque: structural obligations of the intrusive deque the policy relies on.
func ruleDeque(cx *Ctx) {
	const rule = "C05.deque"
	cx.R.Rule(rule, 2, "deque.Linked: UpdateNode clears the replaced node's links, Delete clears the removed node's links and decrements len exactly once on the paths that unlink, pushes increment len once and link the node")
	for _, spec := range []opSpec{
		{"UpdateNode", "Linked", "UpdateNode", nil, "dq", nil}, {"Delete", "Linked", "Delete", nil, "dq", nil},
		{"PushBack", "Linked", "PushBack", nil, "dq", nil}, {"PushFront", "Linked", "PushFront", nil, "dq", nil},
	} {
		fn := cx.need(rule, "internal/deque", "Linked", spec.fn)
		if fn == nil {
			continue
		}
		ps := newPathSum(cx)
		ps.inlinePkgs = map[string]bool{pkgPath("internal/deque"): true}
		outs := ps.Run(fn, nil)
		cx.R.AddInt("paths_enumerated", len(outs))
		a := newAgg(cx, rule, funcName(fn), cx.P.Pos(fn.Pos()))
		for _, o := range outs {
			if o.Cut || o.Panic {
				continue
			}
			if v, k := predOf(o, "load(param:d.isExp)"); k && v {
				continue // the policy's deques are built with isExp == false (checked below)
			}
			links := map[string][]string{}
			for _, e := range allEvents(o, "NodeLink") {
				links[e.Args[0]] = append(links[e.Args[0]], e.Args[1]+"="+strings.Join(e.Args[2:], ","))
			}
			lenDelta := 0
			for _, e := range allEvents(o, "FieldStore") {
				if e.Args[0] == "param:d.len" {
					switch {
					case strings.HasSuffix(e.Args[1], "+const(1))"):
						lenDelta++
					case strings.HasSuffix(e.Args[1], "-const(1))"):
						lenDelta--
					default:
						lenDelta += 100
					}
				}
			}
			has := func(n, what string) bool {
				for _, l := range links[n] {
					if l == what {
						return true
					}
				}
				return false
			}
			switch spec.fn {
			case "UpdateNode":
				old := "param:old"
				nextNil, nk := predOf(o, "IsNil(Next("+old+"))")
				prevNil, pk := predOf(o, "IsNil(Prev("+old+"))")
				if nk && !nextNil {
					a.check("old.next cleared", has(old, "SetNext=nil") && has("param:n", "SetNext=Next("+old+")"), "when the old node had a successor the new node takes it over and the old node's next link is cleared (a dead node must not look linked)", fmt.Sprint(links), o)
				}
				if pk && !prevNil {
					a.check("old.prev cleared", has(old, "SetPrev=nil") && has("param:n", "SetPrev=Prev("+old+")"), "when the old node had a predecessor the new node takes it over and the old node's prev link is cleared", fmt.Sprint(links), o)
				}
				a.check("len unchanged", lenDelta == 0, "a transplant does not change the length", fmt.Sprint(lenDelta), o)
			case "Delete":
				n := "param:n"
				unlinked := len(links) > 0 || len(allEvents(o, "FieldStore")) > 0
				if unlinked {
					a.check("len decremented once", lenDelta == -1, "an unlink decrements len exactly once", fmt.Sprint(lenDelta), o)
					prevNil, pk := predOf(o, "IsNil(Prev("+n+"))")
					nextNil, nk := predOf(o, "IsNil(Next("+n+"))")
					if pk && !prevNil {
						a.check("n.prev cleared", has(n, "SetPrev=nil"), "the removed node's prev link is cleared", fmt.Sprint(links), o)
					}
					if nk && !nextNil {
						a.check("n.next cleared", has(n, "SetNext=nil"), "the removed node's next link is cleared", fmt.Sprint(links), o)
					}
				} else {
					a.check("not contained: no effect", lenDelta == 0, "deleting a node that is not linked changes nothing", fmt.Sprint(lenDelta), o)
				}
			default:
				a.check("len incremented once", lenDelta == 1, "a push increments len exactly once", fmt.Sprint(lenDelta), o)
			}
		}
		a.flush()
	}
	// all deques of the policy use the eviction links
	nl := cx.P.Func("internal/deque", "", "NewLinked")
	if nl != nil {
		for _, fn := range cx.P.ModuleFuncs() {
			allInstrs(fn, func(in ssa.Instruction) {
				if isCallTo(in, nl) {
					a := callArgs(in)
					b, ok := constBool(a[0])
					cx.R.Check(ok && !b, rule, funcName(fn), "NewLinked(isExp)", cx.P.where(in), "the policy's deques are created with isExp == false (eviction links)")
				}
			})
		}
	}
}

// ruleC04SetMax: SetMaximum stores and enforces the new maximum in one eviction-lock section.
func ruleC04SetMax(cx *Ctx) {
	const rule = "C04.setmax"
	cx.R.Rule(rule, 1, "SetMaximum stores the new maximum and runs maintenance inside one eviction-lock section; maintenance replays the write buffer before it evicts")
	fn := cx.need(rule, "", "cache", "SetMaximum")
	sms := cx.need(rule, "", "policy", "setMaximumSize")
	maint := cx.need(rule, "", "cache", "maintenance")
	mu := cx.needField(rule, "", "cache", "evictionMutex")
	if fn == nil || sms == nil || maint == nil || mu == nil {
		return
	}
	// each step is the operation itself or a call of a helper that performs it on all its paths; two steps inside the
	// same helper call are ordered inside that helper
	memo := map[*ssa.Function]int{}
	isLock := func(in ssa.Instruction) bool { return mutexOp(in, mu, "Lock") }
	isUnlock := func(in ssa.Instruction) bool { return mutexOp(in, mu, "Unlock") }
	isSet := func(in ssa.Instruction) bool { return isCallTo(in, sms) }
	isRun := func(in ssa.Instruction) bool { return isCallTo(in, maint) }
	ok := stepsInOrder(fn, memo, 0, isLock, isSet, isRun, isUnlock)
	cx.R.Check(ok, rule, funcName(fn), "lock ≺ store ≺ maintenance ≺ unlock", cx.P.Pos(fn.Pos()), "the maximum is lowered and enforced atomically with respect to other maintenance")
	// setMaximumSize really stores the argument
	maxF := cx.P.Field("", "policy", "maximum")
	stored := false
	allInstrs(sms, func(in ssa.Instruction) {
		if st, ok := in.(*ssa.Store); ok && sameField(fieldOf(st.Addr), maxF) && st.Val == ssa.Value(bparam(sms, 1)) {
			stored = true
		}
	})
	cx.R.Check(stored, rule, funcName(sms), "store", cx.P.Pos(sms.Pos()), "setMaximumSize stores its argument as the new maximum")
	// the maximum is written nowhere else
	for _, f := range cx.P.ModuleFuncs() {
		allInstrs(f, func(in ssa.Instruction) {
			if st, ok := in.(*ssa.Store); ok && sameField(fieldOf(st.Addr), maxF) {
				cx.R.Check(origin(f) == origin(sms), rule, funcName(f), "writer of maximum", cx.P.where(in), "policy.maximum is written only by setMaximumSize")
			}
		})
	}
}

// ruleC07CauseFlow: who may call the eviction callback and with which cause constants.
func ruleC07CauseFlow(cx *Ctx) {
	const rule = "C07.causeflow"
	ev := cx.need(rule, "", "cache", "evictNode")
	if ev == nil {
		return
	}
	// evictNode is only passed (as a bound method) to the policy handlers and the wheel sweep
	allowed := map[string]bool{"(*policy).add": true, "(*policy).update": true, "(*policy).evictNodes": true, "expiration.(*Variable).DeleteExpired": true}
	for _, fn := range cx.P.FuncsOfPkg("") {
		allInstrs(fn, func(in ssa.Instruction) {
			if isCallTo(in, ev) {
				cx.R.Violate(rule, funcName(fn), "direct call", cx.P.where(in), "NOT SATISFIED: the eviction callback is invoked directly, outside the policies")
			}
			mc, ok := in.(*ssa.MakeClosure)
			if !ok || boundMethod(mc) != origin(ev) {
				return
			}
			for _, uc := range usesThroughConv(mc) {
				u := uc.use
				c := calleeOf(u)
				cx.R.Check(c != nil && allowed[funcName(c)], rule, funcName(fn), "callback handed to", cx.P.where(u), "the eviction callback is handed only to the eviction policy's handlers and the timer wheel sweep ("+describeCallee2(u)+")")
				// the policy handlers are reached only under withEviction, the wheel only under withExpiration
				flag := "withEviction"
				if c != nil && strings.Contains(funcName(c), "Variable") {
					flag = "withExpiration"
				}
				g := false
				for _, gd := range guardsAt(u.Block()) {
					if f := fieldOf(gd.Cond); f != nil && fname(f) == flag && gd.Truth {
						g = true
					}
				}
				if !g {
					// early return form: if !flag { return }
					for _, b := range u.Parent().Blocks {
						if ifi, ok := b.Instrs[len(b.Instrs)-1].(*ssa.If); ok {
							if f := fieldOf(ifi.Cond); f != nil && fname(f) == flag && cfgOf(u.Parent()).dominatedByEdge(edge{b, 0})[u.Block()] {
								g = true
							}
						}
					}
				}
				cx.R.Check(g, rule, funcName(fn), "configuration guard", cx.P.where(u), "the hand-over happens only when "+flag+" is set (a cache without a size bound never evicts for size)")
			}
		})
	}
	// Overflow is mentioned only as evictNode's default cause
	of := cx.P.Const("", "CauseOverflow")
	if of != nil {
		for _, fn := range cx.P.FuncsOfPkg("") {
			if strings.HasPrefix(funcName(fn), "DeletionCause") {
				continue
			}
			allInstrs(fn, func(in ssa.Instruction) {
				var ops []*ssa.Value
				for _, op := range in.Operands(ops) {
					if c, ok := (*op).(*ssa.Const); ok && c.Value != nil && types_Identical(c.Type(), of.Type()) && c.Value.ExactString() == of.Val().ExactString() {
						name := funcName(outermost(fn))
						inEvict := name == "(*cache).evictNode"
						if en := cx.P.Func("", "cache", "evictNode"); en != nil && !inEvict {
							// a helper that only the eviction callback uses (the cause decision split off)
							inEvict = onlyWithin(cx, outermost(fn), en, 0)
						}
						cx.R.Check(inEvict || strings.HasPrefix(name, "DeletionCause") || strings.HasPrefix(name, "(DeletionCause)"), rule, funcName(fn), "Overflow constant", cx.P.where(in), "CauseOverflow originates only in the eviction callback")
					}
				}
			})
		}
	}
}

func describeCallee2(in ssa.Instruction) string {
	if ci, ok := in.(ssa.CallInstruction); ok {
		return describeCallee(ci)
	}
	return in.String()
}

// stepsInOrder: in fn the given operations happen in this order on every path: each is found as an instruction of fn
// that is the operation or a call of a module helper that performs it on all of its paths (mustPerform); consecutive
// steps found in the same helper call are ordered inside that helper.
func stepsInOrder(fn *ssa.Function, memo map[*ssa.Function]int, depth int, steps ...func(ssa.Instruction) bool) bool {
	if depth > 3 {
		return false
	}
	find := func(is func(ssa.Instruction) bool) ssa.Instruction {
		var out ssa.Instruction
		allInstrs(fn, func(in ssa.Instruction) {
			if out != nil {
				return
			}
			if is(in) {
				out = in
				return
			}
			if c := calleeOf(in); c != nil && c.Pkg != nil && c.Pkg.Pkg.Path() == modPath && origin(c) != origin(fn) && mustPerform(c, is, memo) {
				out = in
			}
		})
		return out
	}
	var at []ssa.Instruction
	for _, st := range steps {
		in := find(st)
		if in == nil {
			return false
		}
		at = append(at, in)
	}
	for i := 0; i+1 < len(at); i++ {
		if at[i] == at[i+1] {
			// both inside the same helper call: ordered there
			j := i + 1
			for j+1 < len(at) && at[j+1] == at[i] {
				j++
			}
			if c := calleeOf(at[i]); c == nil || !stepsInOrder(origin(c), memo, depth+1, steps[i:j+1]...) {
				return false
			}
			continue
		}
		if !instrDominates(at[i], at[i+1]) {
			return false
		}
	}
	return true
}

// onlyWithinAny: f is one of the named functions, or a helper whose every call site in the module lies in one.
func onlyWithinAny(cx *Ctx, f *ssa.Function, names map[string]string, depth int) bool {
	if _, ok := names[funcName(f)]; ok {
		return true
	}
	if depth > 3 || addressTaken(cx, f) {
		return false
	}
	sites := 0
	ok := true
	for _, g := range cx.P.ModuleFuncs() {
		allInstrs(g, func(in ssa.Instruction) {
			if isCallTo(in, f) {
				sites++
				if !onlyWithinAny(cx, outermost(g), names, depth+1) {
					ok = false
				}
			}
		})
	}
	return ok && sites > 0
}

package main

import (
	"fmt"
	"go/types"
	"sort"
	"strings"

	"golang.org/x/tools/go/ssa"
)

// ruleC01Deleg: the exported wrapper forwards every call unchanged to the implementation.
func ruleC01Deleg(cx *Ctx) {
	const rule = "C01.deleg"
	cx.R.Rule(rule, 8, "every exported method of Cache forwards its parameters, in order, to the like-named method of the implementation and returns its results unchanged")
	named, _ := cx.P.Struct("", "Cache")
	if named == nil {
		cx.R.Undecided(rule, "Cache", "anchor", "-", "type Cache does not resolve")
		return
	}
	for i := 0; i < named.NumMethods(); i++ {
		m := named.Method(i)
		fn := cx.P.Prog.FuncValue(m)
		if fn == nil || len(fn.Blocks) == 0 {
			continue
		}
		name := funcName(fn)
		impl := cx.P.Func("", "cache", m.Name())
		if impl == nil {
			cx.R.Violate(rule, name, "target", cx.P.Pos(fn.Pos()), "NOT SATISFIED: no like-named method on the implementation")
			continue
		}
		ok := len(fn.Blocks) == 1
		var call *ssa.Call
		var ret *ssa.Return
		allInstrs(fn, func(in ssa.Instruction) {
			if c, isC := in.(*ssa.Call); isC && isCallTo(c, impl) {
				call = c
			}
			if r, isR := in.(*ssa.Return); isR {
				ret = r
			}
		})
		if call == nil || ret == nil {
			cx.R.Violate(rule, name, "forward", cx.P.Pos(fn.Pos()), "NOT SATISFIED: the wrapper does not call the implementation's method of the same name")
			continue
		}
		a := callArgs(call)
		if len(a) != len(fn.Params)-1 {
			ok = false
		}
		for j := 0; ok && j < len(a); j++ {
			if a[j] != ssa.Value(fn.Params[j+1]) {
				ok = false
			}
		}
		// results: the call itself or its extracts in order
		switch len(ret.Results) {
		case 0:
		case 1:
			ok = ok && ret.Results[0] == ssa.Value(call)
		default:
			for j, r := range ret.Results {
				e, isE := r.(*ssa.Extract)
				if !isE || e.Tuple != ssa.Value(call) || e.Index != j {
					ok = false
				}
			}
		}
		cx.R.Check(ok, rule, name, "forwarding", cx.P.Pos(fn.Pos()), "parameters are passed in order and results returned unchanged")
	}
}

// ---- C01.cap: no configuration reaches an unsupported node accessor ----

// requirement of a node method: which cache flag must hold where it is invoked.
func capRequirements(cx *Ctx, rule string) map[string]string {
	vs, cases := variantsOf(cx, rule)
	if vs == nil {
		return nil
	}
	preds := []struct {
		flag string
		has  func(l string) bool
	}{
		{"withExpiration", func(l string) bool { return strings.Contains(l, "e") }},
		{"withRefresh", func(l string) bool { return strings.Contains(l, "r") }},
		{"isWeighted", func(l string) bool { return strings.Contains(l, "w") }},
		{"withEviction", func(l string) bool { return strings.Contains(l, "s") || strings.Contains(l, "w") }},
		{"withMaintenance", func(l string) bool { return strings.ContainsAny(l, "sew") }},
	}
	req := map[string]string{}
	for _, m := range nodeMethodNames(cx) {
		var panics []string
		for _, l := range cases {
			if bodyShape(methodOf(cx, vs[l], m)) == "panic" {
				panics = append(panics, l)
			}
		}
		if len(panics) == 0 {
			continue
		}
		sort.Strings(panics)
		found := ""
		for _, p := range preds {
			var lack []string
			for _, l := range cases {
				if !p.has(l) {
					lack = append(lack, l)
				}
			}
			sort.Strings(lack)
			if strings.Join(lack, ",") == strings.Join(panics, ",") {
				found = p.flag
				break
			}
		}
		if found == "" {
			cx.R.Undecided(rule, "node.*."+m, "capability", "-", fmt.Sprintf("the variants in which %s is unsupported (%v) do not correspond to one configuration flag", m, panics))
			continue
		}
		req[m] = found
	}
	return req
}

type flagCtx struct {
	cx    *Ctx
	entry map[*ssa.Function]map[string]bool
	sites map[*ssa.Function][]ssa.Instruction
	funcs []*ssa.Function
}

var flagNames = map[string]bool{"withExpiration": true, "withRefresh": true, "withEviction": true, "withMaintenance": true, "isWeighted": true}

func closeFlags(f map[string]bool) map[string]bool {
	out := map[string]bool{}
	for k, v := range f {
		out[k] = v
	}
	if out["isWeighted"] {
		out["withEviction"] = true
	}
	if out["withEviction"] || out["withExpiration"] {
		out["withMaintenance"] = true
	}
	return out
}

// localFlags: flags proven true by dominating branch conditions (and by non-nil tests of the policy objects).
func localFlags(in ssa.Instruction) map[string]bool {
	out := map[string]bool{}
	for _, g := range guardsAt(in.Block()) {
		if f := fieldOf(g.Cond); f != nil && flagNames[fname(f)] && stripLoad(g.Cond) != g.Cond && g.Truth {
			out[fname(f)] = true
		}
	}
	return out
}

func typeFlags(fn *ssa.Function) map[string]bool {
	out := map[string]bool{}
	o := origin(outermost(fn))
	if o.Signature.Recv() == nil {
		// constructors of the policies
		switch cname(o) {
		case "newPolicy", "NewLinked":
			out["withEviction"] = true
		case "NewVariable", "link", "unlink":
			out["withExpiration"] = true
		}
		return out
	}
	switch namedTypeName(o.Signature.Recv().Type()) {
	case "policy", "Linked", "sketch":
		out["withEviction"] = true
	case "Variable":
		out["withExpiration"] = true
	case "Striped", "ring":
		out["withMaintenance"] = true
	}
	return out
}

func newFlagCtx(cx *Ctx) *flagCtx {
	fc := &flagCtx{cx: cx, entry: map[*ssa.Function]map[string]bool{}, sites: map[*ssa.Function][]ssa.Instruction{}}
	fc.funcs = cx.P.ModuleFuncs()
	for _, fn := range fc.funcs {
		allInstrs(fn, func(in ssa.Instruction) {
			switch x := in.(type) {
			case *ssa.MakeClosure:
				t, _ := x.Fn.(*ssa.Function)
				if bm := boundMethod(x); bm != nil {
					t = bm
				}
				if t != nil {
					fc.sites[origin(t)] = append(fc.sites[origin(t)], in)
				}
			case ssa.CallInstruction:
				if c := calleeOf(in); c != nil && c.Pkg != nil && strings.HasPrefix(c.Pkg.Pkg.Path(), modPath) {
					fc.sites[c] = append(fc.sites[c], in)
				}
			}
		})
	}
	all := func() map[string]bool {
		m := map[string]bool{}
		for f := range flagNames {
			m[f] = true
		}
		return m
	}
	for _, fn := range fc.funcs {
		o := origin(fn)
		if len(fc.sites[o]) == 0 {
			fc.entry[o] = closeFlags(typeFlags(fn))
		} else {
			fc.entry[o] = all()
		}
	}
	for round := 0; round < 40; round++ {
		changed := false
		for _, fn := range fc.funcs {
			o := origin(fn)
			if len(fc.sites[o]) == 0 {
				continue
			}
			meet := all()
			for _, s := range fc.sites[o] {
				at := fc.at(s)
				for f := range meet {
					if !at[f] {
						delete(meet, f)
					}
				}
			}
			for f := range typeFlags(fn) {
				meet[f] = true
			}
			meet = closeFlags(meet)
			if len(meet) != len(fc.entry[o]) {
				fc.entry[o] = meet
				changed = true
			}
		}
		if !changed {
			break
		}
	}
	return fc
}

func (fc *flagCtx) at(in ssa.Instruction) map[string]bool {
	out := map[string]bool{}
	for f := range fc.entry[origin(in.Parent())] {
		out[f] = true
	}
	for f := range localFlags(in) {
		out[f] = true
	}
	return closeFlags(out)
}

func ruleC01Cap(cx *Ctx) {
	const rule = "C01.cap"
	cx.R.Rule(rule, 10, "every invocation of a node method that is unsupported (bare panic) in some generated variant happens in a context - dominating flag test, entry context of the enclosing function, or receiver type that exists only under that configuration - implying the configuration flag under which all variants support it; the flag-to-feature correspondence is read from newCache")
	req := capRequirements(cx, rule)
	if req == nil {
		return
	}
	// flag <-> node.Config correspondence in newCache
	nc := cx.need(rule, "", "", "newCache")
	if nc != nil {
		cfg := map[string]string{}
		stores := map[string]ssa.Value{}
		allInstrs(nc, func(in ssa.Instruction) {
			if st, ok := in.(*ssa.Store); ok {
				if f := fieldOf(st.Addr); f != nil {
					tn := structNameOfAddr(st.Addr)
					if tn == "Config" {
						cfg[fname(f)] = newInliningTermBuilder().of(st.Val).String()
					}
					if tn == "cache" && flagNames[fname(f)] {
						stores[fname(f)] = st.Val
					}
				}
			}
		})
		// the features handed to the node manager: the Config value as a term (the literal may be built by helpers)
		allInstrs(nc, func(in ssa.Instruction) {
			c, isC := in.(*ssa.Call)
			if !isC || c.Call.StaticCallee() == nil || origin(c.Call.StaticCallee()).Name() != "NewManager" || len(c.Call.Args) != 1 {
				return
			}
			t := newInliningTermBuilder().of(c.Call.Args[0])
			st, _ := c.Call.Args[0].Type().Underlying().(*types.Struct)
			if st == nil || !strings.HasPrefix(t.Op, "struct:") || len(t.Args) != st.NumFields() {
				return
			}
			for i := 0; i < st.NumFields(); i++ {
				cfg[st.Field(i).Name()] = t.Args[i].String()
			}
		})
		pairs := [][2]string{{"WithExpiration", "withExpiration"}, {"WithRefresh", "withRefresh"}, {"WithWeight", "isWeighted"}}
		for _, p := range pairs {
			got := ""
			if v, ok := stores[p[1]]; ok {
				got = newInliningTermBuilder().of(v).String()
			}
			cx.R.Check(cfg[p[0]] != "" && cfg[p[0]] == got, rule, funcName(nc), "flag "+p[1]+" = Config."+p[0], cx.P.Pos(nc.Pos()), "the cache flag and the node feature are computed from the same option ("+cfg[p[0]]+" vs "+got+")")
		}
		// flags are written nowhere else
		for _, fn := range cx.P.ModuleFuncs() {
			allInstrs(fn, func(in ssa.Instruction) {
				if st, ok := in.(*ssa.Store); ok {
					if f := fieldOf(st.Addr); f != nil && flagNames[fname(f)] && structNameOfAddr(st.Addr) == "cache" {
						cx.R.Check(origin(fn) == origin(nc), rule, funcName(fn), "writer of "+fname(f), cx.P.where(in), "configuration flags are immutable after construction")
					}
				}
			})
		}
	}
	fc := newFlagCtx(cx)
	for _, fn := range cx.P.ModuleFuncs() {
		if fn.Pkg != nil && strings.HasSuffix(fn.Pkg.Pkg.Path(), nodePkg) {
			continue
		}
		n := 0
		allInstrs(fn, func(in ssa.Instruction) {
			m := invokeName(in)
			if m == "" {
				return
			}
			need, ok := req[m]
			if !ok || !isNodeIface(namedTypeName(callCommon(in).Value.Type())) {
				return
			}
			if _, isIface := callCommon(in).Value.Type().Underlying().(*types.Interface); !isIface {
				return
			}
			n++
			have := fc.at(in)
			// dead branch: the expiration flavour of the deque is never instantiated (all NewLinked calls pass false)
			for _, g := range guardsAt(in.Block()) {
				if f := fieldOf(g.Cond); f != nil && fname(f) == "isExp" && g.Truth && linkedNeverExp(cx) {
					have[need] = true
				}
			}
			cx.R.Check(have[need], rule, funcName(fn), fmt.Sprintf("%s needs %s #%d", m, need, n), cx.P.where(in), fmt.Sprintf("node.%s (unsupported without %s) is invoked only where %s is known", m, need, need))
		})
	}
}

func linkedNeverExp(cx *Ctx) bool {
	nl := cx.P.Func("internal/deque", "", "NewLinked")
	if nl == nil {
		return false
	}
	ok, n := true, 0
	for _, fn := range cx.P.ModuleFuncs() {
		allInstrs(fn, func(in ssa.Instruction) {
			if isCallTo(in, nl) {
				n++
				if b, isC := constBool(callArgs(in)[0]); !isC || b {
					ok = false
				}
			}
		})
	}
	return ok && n > 0
}

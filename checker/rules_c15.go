package main

import (
	"fmt"
	"go/constant"
	"go/token"
	"go/types"
	"strings"

	"golang.org/x/tools/go/ssa"
)

func init() {
	register("C15",
		"Decides the locking / re-check / publication disciplines of the concurrent table (internal/hashmap) on every path: the update function runs exactly once per Compute call and never on a path that retries; it and every slot/meta/link store run with the root-bucket lock held and no unlock separates the callback from the store of its result; "+
			"after locking, 'resize in progress' and then 'newer table exists' are tested before any slot is touched; every lock is released on all exits; resize migrates the table loaded after it won the flag, publishes the new table before clearing the flag and always clears the flag; the lock-free reader loads slots atomically and double-checks the key; "+
			"meta bytes are written before node pointers (and cleared before them); size accounting is +1/-1/0 exactly once per insert/delete/update; Range calls the user function only after releasing the bucket lock; the cache's iterators yield only live, unexpired nodes. "+
			"The cache's iterators over the table yield only alive entries that are unexpired at a clock sample taken inside the iteration (C03.filter: nothing that expired before the iteration began). "+
			"NOT decided: linearizability and weak consistency of iteration over all schedules; hash-collision behaviour.",
		[]string{"sync.Mutex / sync/atomic semantics", "node Key() is immutable (C02.immut)"},
		ruleC15Once, ruleC15RMW, ruleC15Recheck, ruleC15LockPair, ruleC15Publish, ruleC15Current, ruleC15KeyCheck, ruleC15Atomic, ruleC15MetaOrder, ruleC15Size, ruleC15Range, ruleC15CopyAll, ruleC15CopyLock, ruleC03Filter, ruleC15Scan, ruleIterContinue, ruleC15Swar, ruleC15HashIdx, ruleC18Hash, ruleC15SizeCopy, ruleC15SrcReadOnly, ruleXMath)
}

const hmPkg = "internal/hashmap"

// addrKey gives a structural name to an address expression so that two separately built field-address chains
// (&x.bucket.mu) compare equal.
func addrKey(v ssa.Value) string {
	switch x := v.(type) {
	case *ssa.FieldAddr:
		st := derefStruct(x.X.Type())
		n := "?"
		if st != nil {
			n = st.Field(x.Field).Name()
		}
		return addrKey(x.X) + "." + n
	case *ssa.UnOp:
		if x.Op == token.MUL {
			return "*" + addrKey(x.X)
		}
	case *ssa.IndexAddr:
		return addrKey(x.X) + "[" + addrKey(x.Index) + "]"
	}
	return fmt.Sprintf("%s@%p", v.Name(), v)
}

// heldFlow computes, for one function, the must-held state of locks identified by key(lock instr).
type heldFlow struct {
	in map[*ssa.BasicBlock]map[string]bool
	fn *ssa.Function
	op func(ssa.Instruction) (key string, lock bool, ok bool)
}

func newHeldFlow(fn *ssa.Function, op func(ssa.Instruction) (string, bool, bool)) *heldFlow {
	h := &heldFlow{in: map[*ssa.BasicBlock]map[string]bool{}, fn: fn, op: op}
	// universe of keys
	keys := map[string]bool{}
	allInstrs(fn, func(in ssa.Instruction) {
		if _, isDefer := in.(*ssa.Defer); isDefer {
			return
		}
		if k, _, ok := op(in); ok {
			keys[k] = true
		}
	})
	for _, b := range fn.Blocks {
		m := map[string]bool{}
		for k := range keys {
			m[k] = true
		}
		h.in[b] = m
	}
	for k := range keys {
		h.in[fn.Blocks[0]][k] = false
	}
	for changed := true; changed; {
		changed = false
		for _, b := range fn.Blocks {
			cur := map[string]bool{}
			for k, v := range h.in[b] {
				cur[k] = v
			}
			for _, in := range b.Instrs {
				if _, isDefer := in.(*ssa.Defer); isDefer {
					continue
				}
				if k, lock, ok := op(in); ok {
					cur[k] = lock
				}
			}
			for _, s := range b.Succs {
				if s == fn.Blocks[0] {
					continue
				}
				for k := range keys {
					if h.in[s][k] && !cur[k] {
						h.in[s][k] = false
						changed = true
					}
				}
			}
		}
	}
	return h
}

func (h *heldFlow) at(in ssa.Instruction) map[string]bool {
	b := in.Block()
	cur := map[string]bool{}
	for k, v := range h.in[b] {
		cur[k] = v
	}
	for _, x := range b.Instrs {
		if x == in {
			break
		}
		if _, isDefer := x.(*ssa.Defer); isDefer {
			continue
		}
		if k, lock, ok := h.op(x); ok {
			cur[k] = lock
		}
	}
	return cur
}

func (h *heldFlow) anyHeld(in ssa.Instruction) bool {
	for _, v := range h.at(in) {
		if v {
			return true
		}
	}
	return false
}

// bucketMuOp classifies Lock/Unlock on a hashmap bucket mutex.
func bucketMuOp(cx *Ctx) func(ssa.Instruction) (string, bool, bool) {
	mu := cx.P.Field(hmPkg, "bucket", "mu")
	return func(in ssa.Instruction) (string, bool, bool) {
		if mu == nil {
			return "", false, false
		}
		if mutexOp(in, mu, "Lock") {
			return addrKey(recvValue(in)), true, true
		}
		if mutexOp(in, mu, "Unlock") {
			return addrKey(recvValue(in)), false, true
		}
		return "", false, false
	}
}

// nodeSlot recognises &b.nodes[i].
func nodeSlot(cx *Ctx, v ssa.Value) (base ssa.Value, idx ssa.Value, ok bool) {
	ia, isIA := v.(*ssa.IndexAddr)
	if !isIA {
		return nil, nil, false
	}
	nodes := cx.P.Field(hmPkg, "bucket", "nodes")
	if nodes == nil || !sameField(fieldOf(ia.X), nodes) {
		return nil, nil, false
	}
	fa, _ := ia.X.(*ssa.FieldAddr)
	if fa == nil {
		return nil, nil, false
	}
	// fa.X is &b.bucket (embedded) ; its X is b
	if inner, ok := fa.X.(*ssa.FieldAddr); ok {
		return inner.X, ia.Index, true
	}
	return fa.X, ia.Index, true
}

type slotAccess struct {
	in     ssa.Instruction
	write  bool
	atomic bool
	base   ssa.Value
	val    ssa.Value
}

func nodeSlotAccesses(cx *Ctx, fn *ssa.Function) []slotAccess {
	var out []slotAccess
	allInstrs(fn, func(in ssa.Instruction) {
		switch x := in.(type) {
		case *ssa.UnOp:
			if x.Op == token.MUL {
				if b, _, ok := nodeSlot(cx, x.X); ok {
					out = append(out, slotAccess{in: in, base: b})
				}
			}
		case *ssa.Store:
			if b, _, ok := nodeSlot(cx, x.Addr); ok {
				out = append(out, slotAccess{in: in, write: true, base: b, val: x.Val})
			}
		case *ssa.Call:
			if isAtomicPtr(x, "LoadPointer") {
				if b, _, ok := nodeSlot(cx, x.Call.Args[0]); ok {
					out = append(out, slotAccess{in: in, atomic: true, base: b})
				}
			}
			if isAtomicPtr(x, "StorePointer") {
				if b, _, ok := nodeSlot(cx, x.Call.Args[0]); ok {
					out = append(out, slotAccess{in: in, write: true, atomic: true, base: b, val: x.Call.Args[1]})
				}
			}
		}
	})
	return out
}

// paramCalls returns the dynamic invocations of parameter #i of fn.
func paramCalls(fn *ssa.Function, i int) []*ssa.Call {
	var out []*ssa.Call
	if i >= len(fn.Params) {
		return nil
	}
	p := fn.Params[i]
	allInstrs(fn, func(in ssa.Instruction) {
		c, ok := in.(*ssa.Call)
		if !ok || c.Call.IsInvoke() {
			return
		}
		if c.Call.Value == ssa.Value(p) {
			out = append(out, c)
			return
		}
		// the callback handed on to a helper of the module that invokes it exactly once on each of its returning paths:
		// the helper's call site is the invocation
		h := c.Call.StaticCallee()
		if h == nil || origin(h) == origin(fn) || origin(h).Pkg == nil || !strings.HasPrefix(origin(h).Pkg.Pkg.Path(), modPath) {
			return
		}
		for k, a := range c.Call.Args {
			if a == ssa.Value(p) && invokesParamOnce(origin(h), k, 0) {
				out = append(out, c)
			}
		}
	})
	return out
}

// invokesParamOnce: every returning path of h invokes its k-th parameter exactly once (directly or by handing it to a
// helper that does), and the parameter is used for nothing else.
func invokesParamOnce(h *ssa.Function, k int, depth int) bool {
	if h == nil || len(h.Blocks) == 0 || k >= len(h.Params) || depth > 3 {
		return false
	}
	sites := map[ssa.Instruction]bool{}
	for _, c := range paramCalls(h, k) {
		sites[c] = true
	}
	if len(sites) == 0 {
		return false
	}
	for _, u := range *h.Params[k].Referrers() {
		if !sites[u] {
			if _, isDbg := u.(*ssa.DebugRef); !isDbg {
				return false
			}
		}
	}
	n := 0
	for _, e := range CountOnPaths(h, Pt{h.Blocks[0], 0}, func(in ssa.Instruction) int {
		if sites[in] {
			return 1
		}
		return 0
	}, nil) {
		if _, isRet := e.Exit.(*ssa.Return); !isRet {
			continue
		}
		n++
		if e.Count != 1 {
			return false
		}
	}
	return n > 0
}

func ruleC15Once(cx *Ctx) {
	const rule = "C15.once"
	cx.R.Rule(rule, 2, "hashmap.Map.Compute invokes the update function exactly once on every entry->return path and never on a path that afterwards takes a retry edge")
	fn := cx.need(rule, hmPkg, "Map", "Compute")
	if fn == nil {
		return
	}
	name := funcName(fn)
	calls := paramCalls(fn, 2)
	if len(calls) == 0 {
		cx.R.Violate(rule, name, "callback", cx.P.Pos(fn.Pos()), "Compute never invokes its update function")
		return
	}
	isCB := map[ssa.Instruction]bool{}
	for _, c := range calls {
		isCB[c] = true
	}
	exits := CountOnPaths(fn, Pt{fn.Blocks[0], 0}, func(in ssa.Instruction) int {
		if isCB[in] {
			return 1
		}
		return 0
	}, nil)
	seen := map[string]bool{}
	for _, e := range exits {
		k := fmt.Sprintf("%s/%d", cx.P.where(e.Exit), e.Count)
		if seen[k] {
			continue
		}
		seen[k] = true
		cx.R.Check(e.Count == 1, rule, name, fmt.Sprintf("exit reached with %d callback invocation(s)", e.Count), cx.P.where(e.Exit),
			"every return of Compute is reached with exactly one invocation of the update function", e.Witness...)
	}
	// no retry after the callback: the table (re)load at the head of an attempt is unreachable from a callback call
	table := cx.P.Field(hmPkg, "Map", "table")
	for i, c := range calls {
		bad := ""
		allInstrs(fn, func(in ssa.Instruction) {
			if isStdMethod(in, "sync/atomic", "Pointer", "Load") && sameField(recvField(in), table) && canReach(c, in) {
				bad = cx.P.where(in)
			}
		})
		cx.R.Check(bad == "", rule, name, fmt.Sprintf("callback#%d no retry", i+1), cx.P.where(c), "no retry edge (reload of the table pointer) is reachable after the update function ran "+bad)
	}
}

func ruleC15RMW(cx *Ctx) {
	const rule = "C15.rmw"
	cx.R.Rule(rule, 4, "in Compute the update function and every slot/meta/link store execute with the root-bucket mutex held, and no release of it lies between the callback and a store")
	fn := cx.need(rule, hmPkg, "Map", "Compute")
	if fn == nil {
		return
	}
	name := funcName(fn)
	hf := newHeldFlow(fn, bucketMuOp(cx))
	meta := cx.P.Field(hmPkg, "bucket", "meta")
	next := cx.P.Field(hmPkg, "bucket", "next")
	var stores []ssa.Instruction
	for _, a := range nodeSlotAccesses(cx, fn) {
		if a.write {
			stores = append(stores, a.in)
		}
	}
	allInstrs(fn, func(in ssa.Instruction) {
		if atomicOp(in, meta, "Store") || (isStdMethod(in, "sync/atomic", "Pointer", "Store") && sameField(recvField(in), next)) {
			stores = append(stores, in)
		}
	})
	calls := paramCalls(fn, 2)
	for i, c := range calls {
		cx.R.Check(hf.anyHeld(c), rule, name, fmt.Sprintf("callback#%d under lock", i+1), cx.P.where(c), "the update function runs with the root-bucket lock held")
	}
	op := bucketMuOp(cx)
	for i, s := range stores {
		cx.R.Check(hf.anyHeld(s), rule, name, fmt.Sprintf("store#%d under lock", i+1), cx.P.where(s), "slot/meta/link store executes with the root-bucket lock held")
		for _, c := range calls {
			if !canReach(c, s) {
				continue
			}
			bad := ""
			allInstrs(fn, func(u ssa.Instruction) {
				if _, lock, ok := op(u); ok && !lock && canReach(c, u) && canReach(u, s) {
					bad = cx.P.where(u)
				}
			})
			cx.R.Check(bad == "", rule, name, fmt.Sprintf("store#%d atomic with callback", i+1), cx.P.where(s), "no unlock between the update function and the store installing its result "+bad)
		}
	}
}

func ruleC15Recheck(cx *Ctx) {
	const rule = "C15.recheck"
	cx.R.Rule(rule, 3, "after locking the root bucket Compute tests 'resize in progress' and then 'newer table exists' (for the table it indexed) before it reads or writes any slot; each failing edge unlocks and retries")
	fn := cx.need(rule, hmPkg, "Map", "Compute")
	resizingF := cx.needField(rule, hmPkg, "Map", "resizing")
	nte := cx.need(rule, hmPkg, "Map", "newerTableExists")
	mu := cx.needField(rule, hmPkg, "bucket", "mu")
	table := cx.needField(rule, hmPkg, "Map", "table")
	meta := cx.needField(rule, hmPkg, "bucket", "meta")
	if fn == nil || resizingF == nil || nte == nil || mu == nil || table == nil || meta == nil {
		return
	}
	name := funcName(fn)
	var lock, ripCall, nteCall ssa.Instruction
	allInstrs(fn, func(in ssa.Instruction) {
		switch {
		case mutexOp(in, mu, "Lock"):
			lock = in
		case atomicOp(in, resizingF, "Load"):
			// the "resize in progress" test: a load of the flag, in place or through its accessor
			ripCall = in
		case isCallTo(in, nte):
			nteCall = in
		}
	})
	if lock == nil || ripCall == nil || nteCall == nil {
		cx.R.Violate(rule, name, "shape", cx.P.Pos(fn.Pos()), "Compute no longer has lock + resizeInProgress + newerTableExists")
		return
	}
	cx.R.Check(instrDominates(lock, ripCall) && instrDominates(ripCall, nteCall), rule, name, "order", cx.P.where(nteCall),
		"Lock ≺ resizeInProgress() ≺ newerTableExists(): the reverse of resize's publish order (table, then flag)")
	// newerTableExists is asked about the table whose bucket was locked
	a := callArgs(nteCall)
	argOK := false
	if len(a) == 1 {
		if c, ok := a[0].(*ssa.Call); ok && isStdMethod(c, "sync/atomic", "Pointer", "Load") && sameField(recvField(c), table) && instrDominates(c, lock) {
			// and the locked bucket is indexed from that table
			if strings.Contains(addrKey(recvValue(lock)), c.Name()+"@") {
				argOK = true
			}
			// ... possibly through a selector helper of the table (bidx, rootb := table.rootBucket(hash))
			b := recvValue(lock)
			for {
				if fa, isFA := b.(*ssa.FieldAddr); isFA {
					b = fa.X
					continue
				}
				break
			}
			if bucketSelectedFrom(b, c) {
				argOK = true
			}
		}
	}
	cx.R.Check(argOK, rule, name, "same table", cx.P.where(nteCall), "the identity test is about the very table whose root bucket was locked")
	// the test itself: "the table I indexed is no longer the current one"
	{
		okT, nr := false, 0
		allInstrs(nte, func(in ssa.Instruction) {
			r, ok := in.(*ssa.Return)
			if !ok || len(r.Results) != 1 {
				return
			}
			nr++
			b, isB := r.Results[0].(*ssa.BinOp)
			if !isB || b.Op != token.NEQ {
				return
			}
			for _, pr := range [][2]ssa.Value{{b.X, b.Y}, {b.Y, b.X}} {
				if paramIndexOf(pr[0]) == 1 {
					if c, isC := pr[1].(*ssa.Call); isC && isStdMethod(c, "sync/atomic", "Pointer", "Load") && sameField(recvField(c), table) {
						okT = true
					}
				}
			}
		})
		cx.R.Check(okT && nr == 1, rule, funcName(nte), "compares with the current table", cx.P.Pos(nte.Pos()), "newerTableExists(t) is t != table.Load()")
	}
	// every slot/meta access and callback is guarded by both tests being false
	guarded := func(in ssa.Instruction) bool {
		g1, g2 := false, false
		for _, g := range guardsAt(in.Block()) {
			if g.Cond == ssa.Value(ripCall.(*ssa.Call)) && !g.Truth {
				g1 = true
			}
			if g.Cond == ssa.Value(nteCall.(*ssa.Call)) && !g.Truth {
				g2 = true
			}
		}
		return g1 && g2
	}
	n := 0
	for _, s := range nodeSlotAccesses(cx, fn) {
		n++
		cx.R.Check(guarded(s.in), rule, name, fmt.Sprintf("slot access#%d", n), cx.P.where(s.in), "slot touched only after both re-checks passed")
	}
	allInstrs(fn, func(in ssa.Instruction) {
		if atomicOp(in, meta, "Load") || atomicOp(in, meta, "Store") {
			n++
			cx.R.Check(guarded(in), rule, name, fmt.Sprintf("meta access#%d", n), cx.P.where(in), "meta word touched only after both re-checks passed")
		}
	})
	for i, c := range paramCalls(fn, 2) {
		cx.R.Check(guarded(c), rule, name, fmt.Sprintf("callback#%d", i+1), cx.P.where(c), "update function invoked only after both re-checks passed")
	}
	// failing edges unlock before retrying
	for _, chk := range []ssa.Instruction{ripCall, nteCall} {
		for _, i := range ifsOn(chk.(ssa.Value)) {
			succ := i.If.Block().Succs[i.TrueIdx]
			first := firstEffect(succ)
			what := "resize in progress"
			if chk == nteCall {
				what = "newer table exists"
			}
			cx.R.Check(first != nil && mutexOp(first, mu, "Unlock"), rule, name, "failing edge unlocks: "+what, cx.P.where(chk), "a failed re-check releases the bucket lock before waiting/retrying")
		}
	}
}

// firstEffect returns the first call instruction of a block.
func firstEffect(b *ssa.BasicBlock) ssa.Instruction {
	for _, in := range b.Instrs {
		if callCommon(in) != nil {
			return in
		}
	}
	return nil
}

func ruleC15LockPair(cx *Ctx) {
	const rule = "C15.lockpair"
	cx.R.Rule(rule, 2, "every mutex acquired in package hashmap is released on all paths to return")
	mu := cx.needField(rule, hmPkg, "bucket", "mu")
	rmu := cx.needField(rule, hmPkg, "Map", "resizeMu")
	if mu == nil || rmu == nil {
		return
	}
	for _, fn := range cx.P.FuncsOfPkg(hmPkg) {
		name := funcName(fn)
		n := 0
		allInstrs(fn, func(in ssa.Instruction) {
			for _, f := range []*types.Var{mu, rmu} {
				if !mutexOp(in, f, "Lock") {
					continue
				}
				n++
				key := addrKey(recvValue(in))
				lockAddr := recvValue(in)
				ok, w := MustFollow(in, func(x ssa.Instruction) bool {
					return (mutexOp(x, f, "Unlock") && addrKey(recvValue(x)) == key) || releasesHandedMutex(x, f, lockAddr)
				}, exitReturn)
				cx.R.Check(ok, rule, name, fmt.Sprintf("Lock#%d(%s)", n, fname(f)), cx.P.where(in), "the acquired mutex is released on every path to return", w...)
			}
		})
	}
}

// releasesHandedMutex: x calls a helper of the package with the object that owns the locked mutex as an argument, and
// the helper releases that parameter's mutex on every path to return (a wrapper counts as the release when all its
// paths return with the lock released).
func releasesHandedMutex(x ssa.Instruction, f *types.Var, lockAddr ssa.Value) bool {
	c, ok := x.(*ssa.Call)
	if !ok || c.Call.IsInvoke() {
		return false
	}
	h := c.Call.StaticCallee()
	fa, isFA := lockAddr.(*ssa.FieldAddr)
	if h == nil || !isFA || origin(h).Pkg == nil || !strings.HasSuffix(origin(h).Pkg.Pkg.Path(), hmPkg) || len(origin(h).Blocks) == 0 {
		return false
	}
	o := origin(h)
	// the owner of the mutex: the base of the field chain (the mutex may sit in an embedded struct)
	base := func(v ssa.Value) ssa.Value {
		for {
			x, isF := v.(*ssa.FieldAddr)
			if !isF {
				return v
			}
			v = x.X
		}
	}
	owner := base(fa)
	for k, a := range c.Call.Args {
		if k >= len(o.Params) || !(a == owner || addrKey(a) == addrKey(owner)) {
			continue
		}
		prm := o.Params[k]
		if mustPerform(o, func(y ssa.Instruction) bool {
			if !mutexOp(y, f, "Unlock") {
				return false
			}
			ya, isA := recvValue(y).(*ssa.FieldAddr)
			return isA && base(ya) == ssa.Value(prm)
		}, map[*ssa.Function]int{}) {
			return true
		}
	}
	return false
}

func ruleC15Publish(cx *Ctx) {
	const rule = "C15.publish"
	cx.R.Rule(rule, 1, "resize: table.Store(new) ≺ resizing.Store(false) ≺ Broadcast, and every return after winning the resizing flag clears it and wakes the waiters")
	fn := cx.need(rule, hmPkg, "Map", "resize")
	table := cx.needField(rule, hmPkg, "Map", "table")
	resizing := cx.needField(rule, hmPkg, "Map", "resizing")
	cond := cx.needField(rule, hmPkg, "Map", "resizeCond")
	if fn == nil || table == nil || resizing == nil || cond == nil {
		return
	}
	name := funcName(fn)
	var cas *ssa.Call
	var pub ssa.Instruction
	var clears, bcasts []ssa.Instruction
	isDirectClear := func(in ssa.Instruction) bool {
		if !atomicOp(in, resizing, "Store") {
			return false
		}
		if a := callArgs(in); len(a) == 1 {
			if b, ok := constBool(a[0]); ok && !b {
				return true
			}
		}
		return false
	}
	isDirectBcast := func(in ssa.Instruction) bool {
		return isStdMethod(in, "sync", "Cond", "Broadcast") && sameField(recvField(in), cond)
	}
	// helpers extracted from resize (finishResize) count through must-perform summaries
	helperDoes := func(in ssa.Instruction, what func(ssa.Instruction) bool) bool {
		c := calleeOf(in)
		return c != nil && c.Pkg != nil && strings.HasSuffix(c.Pkg.Pkg.Path(), hmPkg) && origin(c) != origin(fn) && mustPerform(c, what, map[*ssa.Function]int{})
	}
	allInstrs(fn, func(in ssa.Instruction) {
		switch {
		case atomicOp(in, resizing, "CompareAndSwap"):
			cas, _ = in.(*ssa.Call)
		case isStdMethod(in, "sync/atomic", "Pointer", "Store") && sameField(recvField(in), table):
			pub = in
		}
		if isDirectClear(in) || helperDoes(in, isDirectClear) {
			clears = append(clears, in)
		}
		if isDirectBcast(in) || helperDoes(in, isDirectBcast) {
			bcasts = append(bcasts, in)
		}
	})
	if cas == nil || pub == nil || len(clears) == 0 || len(bcasts) == 0 {
		cx.R.Violate(rule, name, "shape", cx.P.Pos(fn.Pos()), "NOT SATISFIED: resize no longer has flag CAS / table publish / flag clear / broadcast")
		return
	}
	var clearAfterPub, bcastAfterClear ssa.Instruction
	for _, c := range clears {
		if instrDominates(pub, c) {
			clearAfterPub = c
		}
	}
	cx.R.Check(clearAfterPub != nil, rule, name, "publish ≺ clear", cx.P.where(pub), "the new table is published before the resizing flag is cleared (writers re-check flag, then table)")
	for _, c := range clears {
		ok := false
		for _, b := range bcasts {
			if instrDominates(c, b) || (b == c && helperOrders(c, isDirectClear, isDirectBcast)) {
				ok = true
				if c == clearAfterPub {
					bcastAfterClear = b
				}
			}
		}
		cx.R.Check(ok, rule, name, "clear ≺ broadcast", cx.P.where(c), "waiters are woken after the flag is cleared")
	}
	_ = bcastAfterClear
	for _, i := range ifsOn(cas) {
		succ := i.If.Block().Succs[i.TrueIdx]
		isClear := func(x ssa.Instruction) bool {
			for _, c := range clears {
				if c == x {
					return true
				}
			}
			return false
		}
		ok, w := MustFollowPt(Pt{succ, 0}, isClear, exitReturn, nil)
		cx.R.Check(ok, rule, name, "flag always cleared", cx.P.where(cas), "every return after winning the resizing flag clears it", w...)
		isB := func(x ssa.Instruction) bool {
			for _, c := range bcasts {
				if c == x {
					return true
				}
			}
			return false
		}
		ok2, w2 := MustFollowPt(Pt{succ, 0}, isB, exitReturn, nil)
		cx.R.Check(ok2, rule, name, "waiters always woken", cx.P.where(cas), "every return after winning the resizing flag broadcasts to waiting writers", w2...)
	}
	// the panic in the hint switch is unreachable: all call sites pass a constant hint
	for _, f := range cx.P.FuncsOfPkg(hmPkg) {
		allInstrs(f, func(in ssa.Instruction) {
			if isCallTo(in, fn) {
				a := callArgs(in)
				_, isC := constInt(a[len(a)-1])
				cx.R.Check(isC, rule, funcName(f), "constant hint", cx.P.where(in), "resize is called with a constant hint (the default panic, which would leave the flag set, is unreachable)")
			}
		})
	}
}

func ruleC15Current(cx *Ctx) {
	const rule = "C15.current"
	cx.R.Rule(rule, 1, "resize migrates the table it loads after winning the resizing flag, never the possibly stale table it was called with")
	fn := cx.need(rule, hmPkg, "Map", "resize")
	table := cx.needField(rule, hmPkg, "Map", "table")
	resizing := cx.needField(rule, hmPkg, "Map", "resizing")
	if fn == nil || table == nil || resizing == nil {
		return
	}
	name := funcName(fn)
	var cas *ssa.Call
	allInstrs(fn, func(in ssa.Instruction) {
		if atomicOp(in, resizing, "CompareAndSwap") {
			cas, _ = in.(*ssa.Call)
		}
	})
	if cas == nil {
		cx.R.Violate(rule, name, "flag CAS", cx.P.Pos(fn.Pos()), "resize no longer wins a flag by CAS")
		return
	}
	won := map[*ssa.BasicBlock]bool{}
	for _, i := range ifsOn(cas) {
		for b := range cfgOf(fn).dominatedByEdge(edge{i.If.Block(), i.TrueIdx}) {
			won[b] = true
		}
	}
	var cur *ssa.Call
	allInstrs(fn, func(in ssa.Instruction) {
		if c, ok := in.(*ssa.Call); ok && isStdMethod(c, "sync/atomic", "Pointer", "Load") && sameField(recvField(c), table) && won[c.Block()] {
			cur = c
		}
	})
	cx.R.Check(cur != nil, rule, name, "reload", cx.P.where(cas), "the current table is loaded after the flag was won")
	// the stale parameter is not used once the flag is won (in resize itself or its closures)
	known := bparam(fn, 1)
	bad := ""
	for _, u := range usesOf(known) {
		if _, isDbg := u.(*ssa.DebugRef); isDbg {
			continue
		}
		if u.Parent() == fn && won[u.Block()] {
			bad = cx.P.where(u)
		}
		if u.Parent() != fn {
			bad = cx.P.where(u)
		}
	}
	cx.R.Check(bad == "", rule, name, "stale table unused", cx.P.where(cas), "the table passed by the caller is only used for the fast-path size tests, not for the migration "+bad)
	// copy helpers receive buckets of the reloaded table
	if cur != nil {
		withClosures(fn, func(f *ssa.Function) {
			allInstrs(f, func(in ssa.Instruction) {
				c := calleeOf(in)
				if c == nil || !strings.HasPrefix(cname(c), "copyBucket") {
					return
				}
				// the source bucket: the argument that addresses an element of a table's bucket array
				ok := false
				for _, a := range callArgs(in) {
					if _, isIA := a.(*ssa.IndexAddr); isIA && rootOf(a) == ssa.Value(cur) {
						ok = true
					}
				}
				cx.R.Check(ok, rule, funcName(f), "copy source", cx.P.where(in), "buckets are copied from the table loaded after winning the flag")
			})
		})
	}
}

// rootOf walks an address/value expression down to the value it is rooted in, looking through single-assignment
// cells (captured variables) and closure bindings.
func rootOf(v ssa.Value) ssa.Value {
	for i := 0; i < 32; i++ {
		switch x := v.(type) {
		case *ssa.FieldAddr:
			v = x.X
		case *ssa.IndexAddr:
			v = x.X
		case *ssa.Field:
			v = x.X
		case *ssa.UnOp:
			if x.Op != token.MUL {
				return v
			}
			switch c := x.X.(type) {
			case *ssa.Alloc:
				if sv := singleStore(c); sv != nil {
					v = sv
				} else {
					return v
				}
			case *ssa.FreeVar:
				b := bindingOf(c)
				if b == nil {
					return v
				}
				v = b
				// a variable captured by reference: what was stored into it
				if al, isAlloc := b.(*ssa.Alloc); isAlloc {
					if sv := singleStore(al); sv != nil {
						v = sv
					}
				}
			default:
				v = x.X
			}
		case *ssa.ChangeType:
			v = x.X
		case *ssa.FreeVar:
			b := bindingOf(x)
			if b == nil {
				return v
			}
			v = b
		default:
			return v
		}
	}
	return v
}

func singleStore(a *ssa.Alloc) ssa.Value {
	var stored ssa.Value
	n := 0
	for _, u := range usesOf(a) {
		if st, ok := u.(*ssa.Store); ok && st.Addr == ssa.Value(a) {
			stored = st.Val
			n++
		}
	}
	// stores inside closures capturing the cell
	if n == 1 {
		return stored
	}
	return nil
}

// rootFreeVar finds the free variable an address expression is rooted in.
func rootFreeVar(v ssa.Value) *ssa.FreeVar {
	for {
		switch x := v.(type) {
		case *ssa.FreeVar:
			return x
		case *ssa.FieldAddr:
			v = x.X
		case *ssa.IndexAddr:
			v = x.X
		case *ssa.UnOp:
			v = x.X
		default:
			return nil
		}
	}
}

// bindingOf returns the value bound to a free variable at the (single) MakeClosure of its function;
// when the binding is a cell (Alloc) it returns the unique value stored into it.
func bindingOf(fv *ssa.FreeVar) ssa.Value {
	f := fv.Parent()
	idx := -1
	for i, x := range f.FreeVars {
		if x == fv {
			idx = i
		}
	}
	if idx < 0 || f.Parent() == nil {
		return nil
	}
	var out ssa.Value
	allInstrs(f.Parent(), func(in ssa.Instruction) {
		if mc, ok := in.(*ssa.MakeClosure); ok && mc.Fn == ssa.Value(f) {
			out = mc.Bindings[idx]
		}
	})
	if a, ok := out.(*ssa.Alloc); ok {
		var stored ssa.Value
		n := 0
		for _, u := range usesOf(a) {
			if st, ok := u.(*ssa.Store); ok && st.Addr == ssa.Value(a) {
				stored = st.Val
				n++
			}
		}
		if n == 1 {
			return stored
		}
	}
	return out
}

func ruleC15KeyCheck(cx *Ctx) {
	const rule = "C15.keycheck"
	cx.R.Rule(rule, 1, "the lock-free Get returns a node only on the true edge of node.Key() == key for that node, loaded atomically and non-nil")
	fn := cx.need(rule, hmPkg, "Map", "Get")
	if fn == nil {
		return
	}
	name := funcName(fn)
	key := bparam(fn, 1)
	n := 0
	allInstrs(fn, func(in ssa.Instruction) {
		ret, ok := in.(*ssa.Return)
		if !ok || len(ret.Results) != 1 {
			return
		}
		r := ret.Results[0]
		if c, isC := r.(*ssa.Const); isC && c.Value == nil {
			return // zero value: "absent"
		}
		if c, isCall := r.(*ssa.Call); isCall && c.Common().StaticCallee() != nil && strings.HasPrefix(c.Common().StaticCallee().Name(), "zeroValue") {
			return
		}
		n++
		keyOK, nonNil := false, false
		for _, g := range guardsAt(ret.Block()) {
			if b, ok := g.Cond.(*ssa.BinOp); ok && b.Op == token.EQL && g.Truth {
				for _, pair := range [][2]ssa.Value{{b.X, b.Y}, {b.Y, b.X}} {
					if pair[1] == ssa.Value(key) {
						if kc, ok := pair[0].(*ssa.Call); ok && invokeName(kc) == "Key" && kc.Call.Value == r {
							keyOK = true
						}
					}
				}
			}
			if x, isEq, ok := nilCmp(g.Cond); ok && (isEq != g.Truth) {
				if c, ok := x.(*ssa.Call); ok && isAtomicPtr(c, "LoadPointer") {
					nonNil = true
				}
			}
		}
		cx.R.Check(keyOK && nonNil, rule, name, fmt.Sprintf("return#%d", n), cx.P.where(ret), "a found node is returned only after its key was compared equal (SWAR meta matches may be false positives) and its pointer seen non-nil")
	})
	if n == 0 {
		cx.R.Violate(rule, name, "returns", cx.P.Pos(fn.Pos()), "Get has no node-returning exit")
	}
}

func ruleC15Atomic(cx *Ctx) {
	const rule = "C15.atomic"
	cx.R.Rule(rule, 2, "slot reads in the lock-free Get are atomic loads; slot stores in functions that run concurrently with Get are atomic stores, except into a bucket allocated in the same function or in the table-under-construction helpers")
	get := cx.need(rule, hmPkg, "Map", "Get")
	if get == nil {
		return
	}
	// the table-under-construction helpers: functions called only by the bucket copiers of resize (whose destination is the
	// table that is not yet published) - by whatever name, as a function or as a method of the bucket
	exempt := map[string]string{}
	for _, f := range cx.P.FuncsOfPkg(hmPkg) {
		if f.Parent() != nil {
			continue
		}
		sites, all := 0, true
		for _, g := range cx.P.ModuleFuncs() {
			allInstrs(g, func(in ssa.Instruction) {
				if isCallTo(in, f) {
					sites++
					if !strings.HasPrefix(cname(outermost(g)), "copyBucket") {
						all = false
					}
				}
			})
		}
		if sites > 0 && all && !addressTaken(cx, f) {
			exempt[funcName(f)] = "destination table is not yet published (called only from copyBucket*)"
		}
	}
	for _, fn := range cx.P.FuncsOfPkg(hmPkg) {
		name := funcName(fn)
		n := 0
		for _, a := range nodeSlotAccesses(cx, fn) {
			n++
			c := fmt.Sprintf("slot access#%d", n)
			switch {
			case origin(fn) == origin(get):
				cx.R.Check(a.atomic, rule, name, c, cx.P.where(a.in), "lock-free reader loads the slot atomically")
			case a.write:
				if why, ok := exempt[name]; ok {
					cx.R.OK(rule, name, c, cx.P.where(a.in), "exempt: "+why)
					continue
				}
				_, fresh := a.base.(*ssa.Alloc)
				cx.R.Check(a.atomic || fresh, rule, name, c, cx.P.where(a.in), "slot store visible to lock-free readers is atomic (or targets a bucket allocated here and not yet linked)")
			}
		}
	}
	// appendToBucket callers
	atb := cx.P.Func(hmPkg, "", "appendToBucket")
	if atb != nil {
		for _, fn := range cx.P.ModuleFuncs() {
			allInstrs(fn, func(in ssa.Instruction) {
				if isCallTo(in, atb) {
					cx.R.Check(strings.HasPrefix(cname(fn), "copyBucket"), rule, funcName(fn), "appendToBucket caller", cx.P.where(in), "the non-atomic append is used only while building an unpublished table")
				}
			})
		}
	}
}

func ruleC15MetaOrder(cx *Ctx) {
	const rule = "C15.metaorder"
	cx.R.Rule(rule, 1, "in Compute the meta byte is written before the node pointer on insert and cleared before it on delete; a new overflow bucket is fully initialised before it is linked")
	fn := cx.need(rule, hmPkg, "Map", "Compute")
	meta := cx.needField(rule, hmPkg, "bucket", "meta")
	next := cx.needField(rule, hmPkg, "bucket", "next")
	if fn == nil || meta == nil || next == nil {
		return
	}
	name := funcName(fn)
	var metaStores []ssa.Instruction
	allInstrs(fn, func(in ssa.Instruction) {
		if atomicOp(in, meta, "Store") {
			metaStores = append(metaStores, in)
		}
	})
	n := 0
	for _, a := range nodeSlotAccesses(cx, fn) {
		if !a.write {
			continue
		}
		// in-place replacement of a present key keeps its meta byte: recognised by the store's value being the
		// callback result for a non-nil argument and no meta store in the same guard region
		isDelete := a.val != nil && isNilConst(a.val)
		var before ssa.Instruction
		for _, m := range metaStores {
			if instrDominates(m, a.in) && m.Block() == a.in.Block() {
				before = m
			}
		}
		if isDelete {
			n++
			cx.R.Check(before != nil, rule, name, "delete: meta ≺ pointer", cx.P.where(a.in), "on delete the meta byte is cleared before the node pointer")
			continue
		}
		// insertion: the callback that produced the value was invoked with the zero node
		if insertionStore(fn, a) {
			n++
			cx.R.Check(before != nil, rule, name, fmt.Sprintf("insert#%d: meta ≺ pointer", n), cx.P.where(a.in), "on insert the meta byte is published before the node pointer")
		}
	}
	// link of a new bucket after its initialisation
	allInstrs(fn, func(in ssa.Instruction) {
		if isStdMethod(in, "sync/atomic", "Pointer", "Store") && sameField(recvField(in), next) {
			a := callArgs(in)
			nb, fresh := a[0].(*ssa.Alloc)
			if !fresh {
				cx.R.Violate(rule, name, "link", cx.P.where(in), "a bucket that was not allocated here is linked")
				return
			}
			init := 0
			for _, s := range nodeSlotAccesses(cx, fn) {
				if s.write && s.base == ssa.Value(nb) && instrDominates(s.in, in) {
					init++
				}
			}
			for _, m := range metaStores {
				if strings.Contains(addrKey(recvValue(m)), nb.Name()+"@") && instrDominates(m, in) {
					init++
				}
			}
			n++
			cx.R.Check(init >= 2, rule, name, "new bucket initialised ≺ linked", cx.P.where(in), "meta and node of a new overflow bucket are set before next.Store publishes it")
		}
	})
}

// insertionStore: the stored value derives from a callback invoked with the zero node.
func insertionStore(fn *ssa.Function, a slotAccess) bool {
	v := a.val
	if c, ok := v.(*ssa.Call); ok && invokeName(c) == "AsPointer" {
		v = c.Call.Value
	}
	c, ok := v.(*ssa.Call)
	if !ok || c.Call.IsInvoke() || c.Call.Value != ssa.Value(bparam(fn, 2)) {
		return false
	}
	return isZeroValueExpr(c.Call.Args[0], 0)
}

// isZeroValueExpr: the zero value of its type - a nil / zero constant, the load of a local that is never written, or
// the result of a module helper that returns such a value on every path (func zeroValue[T any]() T { var zero T; return zero }).
func isZeroValueExpr(v ssa.Value, depth int) bool {
	if depth > 3 {
		return false
	}
	switch x := v.(type) {
	case *ssa.Const:
		return x.Value == nil || x.IsNil()
	case *ssa.UnOp:
		if al, ok := x.X.(*ssa.Alloc); ok && x.Op == token.MUL {
			for _, u := range *al.Referrers() {
				switch u.(type) {
				case *ssa.UnOp, *ssa.DebugRef:
				default:
					return false
				}
			}
			return true
		}
	case *ssa.Call:
		g := x.Call.StaticCallee()
		if g == nil || len(x.Call.Args) != 0 {
			return false
		}
		g = origin(g)
		if g.Pkg == nil || !strings.HasPrefix(g.Pkg.Pkg.Path(), modPath) || len(g.Blocks) == 0 {
			return false
		}
		n, all := 0, true
		allInstrs(g, func(in ssa.Instruction) {
			if r, ok := in.(*ssa.Return); ok && len(r.Results) == 1 {
				n++
				if !isZeroValueExpr(r.Results[0], depth+1) {
					all = false
				}
			}
		})
		return n > 0 && all
	}
	return false
}

func ruleC15Size(cx *Ctx) {
	const rule = "C15.size"
	cx.R.Rule(rule, 1, "size accounting in Compute: delete paths add -1 once, insert paths add +1 once, update / no-op paths add nothing; Size sums the stripes")
	fn := cx.need(rule, hmPkg, "Map", "Compute")
	addSize := cx.need(rule, hmPkg, "mapTable", "addSize")
	if fn == nil || addSize == nil {
		return
	}
	name := funcName(fn)
	delta := func(in ssa.Instruction) (int64, bool) {
		if !isCallTo(in, addSize) {
			return 0, false
		}
		a := callArgs(in)
		return constInt(a[len(a)-1])
	}
	// classify each return by the stores that dominate it
	acc := nodeSlotAccesses(cx, fn)
	n := 0
	allInstrs(fn, func(in ssa.Instruction) {
		ret, ok := in.(*ssa.Return)
		if !ok {
			return
		}
		n++
		kind := "unchanged"
		for _, a := range acc {
			if !a.write || !instrDominates(a.in, ret) {
				continue
			}
			if a.val != nil && isNilConst(a.val) {
				kind = "delete"
			} else if insertionStore(fn, a) {
				kind = "insert"
			}
		}
		sum, cnt := int64(0), 0
		allInstrs(fn, func(x ssa.Instruction) {
			if d, ok := delta(x); ok && instrDominates(x, ret) {
				sum += d
				cnt++
			}
		})
		// also account calls that may (not must) precede
		may := 0
		allInstrs(fn, func(x ssa.Instruction) {
			if _, ok := delta(x); ok && canReach(x, ret) && !instrDominates(x, ret) && x.Block() != ret.Block() {
				// reachable through the retry loop is fine only if it belongs to another exit; same-attempt detection:
				if x.Block().Dominates(ret.Block()) {
					may++
				}
			}
		})
		want := map[string]int64{"delete": -1, "insert": 1, "unchanged": 0}[kind]
		wantCnt := 1
		if kind == "unchanged" {
			wantCnt = 0
		}
		cx.R.Check(sum == want && cnt == wantCnt && may == 0, rule, name, fmt.Sprintf("return#%d (%s)", n, kind), cx.P.where(ret),
			fmt.Sprintf("a %s path adjusts the size by %+d exactly once (found %d call(s), sum %+d)", kind, want, cnt, sum))
	})
	// Size() = sumSize of the current table
	size := cx.P.Func(hmPkg, "Map", "Size")
	sum := cx.P.Func(hmPkg, "mapTable", "sumSize")
	if size != nil && sum != nil {
		ok := false
		allInstrs(size, func(in ssa.Instruction) {
			if isCallTo(in, sum) {
				ok = true
			}
		})
		cx.R.Check(ok, rule, funcName(size), "sum", cx.P.Pos(size.Pos()), "Size reports the striped counter sum of the current table")
	}
}

func ruleC15Range(cx *Ctx) {
	const rule = "C15.range"
	cx.R.Rule(rule, 1, "Range copies each bucket chain under its root lock and calls the user function only after releasing it")
	fn := cx.need(rule, hmPkg, "Map", "Range")
	if fn == nil {
		return
	}
	name := funcName(fn)
	hf := newHeldFlow(fn, bucketMuOp(cx))
	nCb := 0
	for _, c := range paramCalls(fn, 1) {
		nCb++
		cx.R.Check(!hf.anyHeld(c), rule, name, fmt.Sprintf("callback#%d outside lock", nCb), cx.P.where(c), "the user function is called with no bucket lock held (it may re-enter the map)")
	}
	n := 0
	for _, a := range nodeSlotAccesses(cx, fn) {
		n++
		cx.R.Check(hf.anyHeld(a.in), rule, name, fmt.Sprintf("slot read#%d under lock", n), cx.P.where(a.in), "bucket slots are snapshotted under the root-bucket lock")
	}
	// a chain is snapshotted under ONE hold of its root lock: the step to the next bucket of the chain is taken with the
	// lock still held (re-locking per bucket lets a key move between two buckets of a chain and be yielded twice)
	nextF := cx.P.Field(hmPkg, "bucket", "next")
	nAdv := 0
	chainAdvance := func(f *ssa.Function, h *heldFlow, siteHeld bool) {
		allInstrs(f, func(in ssa.Instruction) {
			if nextF != nil && isStdMethod(in, "sync/atomic", "", "Load") && sameField(recvField(in), nextF) {
				nAdv++
				cx.R.Check(h.anyHeld(in) || siteHeld, rule, funcName(f), fmt.Sprintf("chain advance#%d under the root lock", nAdv), cx.P.where(in), "the next bucket of a chain is read while the root-bucket lock taken for this chain is still held")
			}
		})
	}
	chainAdvance(fn, hf, false)
	// ... and stays held until the slots of that next bucket have been read: no path from the step to a slot read of the
	// bucket it yielded passes an Unlock
	allInstrs(fn, func(adv ssa.Instruction) {
		if nextF == nil || !isStdMethod(adv, "sync/atomic", "", "Load") || !sameField(recvField(adv), nextF) {
			return
		}
		av, _ := adv.(ssa.Value)
		derived := map[ssa.Value]bool{av: true}
		for changed := true; changed; {
			changed = false
			allInstrs(fn, func(x ssa.Instruction) {
				if ph, ok := x.(*ssa.Phi); ok && !derived[ph] {
					for _, e := range ph.Edges {
						if derived[e] {
							derived[ph] = true
							changed = true
						}
					}
				}
			})
		}
		isSlotRead := func(x ssa.Instruction) bool {
			for _, a := range nodeSlotAccesses(cx, fn) {
				if a.in == x {
					// base of the slot: &b.bucket.nodes[i] -> b
					v := a.base
					for {
						if fa, ok := v.(*ssa.FieldAddr); ok {
							v = fa.X
							continue
						}
						break
					}
					return derived[v]
				}
			}
			return false
		}
		type st struct {
			b   *ssa.BasicBlock
			unl bool
		}
		seen := map[st]bool{}
		bad := ""
		var walk func(b *ssa.BasicBlock, i int, unl bool)
		walk = func(b *ssa.BasicBlock, i int, unl bool) {
			for ; i < len(b.Instrs) && bad == ""; i++ {
				x := b.Instrs[i]
				if _, isDefer := x.(*ssa.Defer); !isDefer {
					if _, lock, ok := bucketMuOp(cx)(x); ok && !lock {
						unl = true
					}
				}
				if unl && isSlotRead(x) {
					bad = cx.P.where(x)
				}
			}
			for _, succ := range b.Succs {
				// does the chain continue along this edge?
				cont := false
				hasPhi := false
				pi := -1
				for k, p := range succ.Preds {
					if p == b {
						pi = k
					}
				}
				for _, x := range succ.Instrs {
					ph, ok := x.(*ssa.Phi)
					if !ok {
						break
					}
					if derived[ph] {
						hasPhi = true
						if pi >= 0 && derived[ph.Edges[pi]] {
							cont = true
						}
					}
				}
				if hasPhi && !cont {
					continue // the cursor is reset to a root bucket on this edge
				}
				k := st{succ, unl}
				if !seen[k] {
					seen[k] = true
					walk(succ, 0, unl)
				}
			}
		}
		pt := ptOf(adv)
		walk(pt.B, pt.I+1, false)
		cx.R.Check(bad == "", rule, name, "one lock hold per chain", cx.P.where(adv), "from the step to the next bucket of a chain to the reads of that bucket's slots the root lock is not released "+bad)
	})
	// helpers Range delegates to (snapshot / visit steps): the same two obligations, the lock state at the call site counted in
	allInstrs(fn, func(site ssa.Instruction) {
		g := calleeOf(site)
		if g == nil || g.Pkg == nil || !strings.HasSuffix(g.Pkg.Pkg.Path(), hmPkg) || len(origin(g).Blocks) == 0 {
			return
		}
		g = origin(g)
		hg := newHeldFlow(g, bucketMuOp(cx))
		siteHeld := hf.anyHeld(site)
		// which parameters of g receive Range's callback
		cc := callCommon(site)
		for i, arg := range cc.Args {
			if arg != ssa.Value(bparam(fn, 1)) || i >= len(g.Params) {
				continue
			}
			for _, c := range paramCalls(g, i) {
				nCb++
				cx.R.Check(!hg.anyHeld(c) && !siteHeld, rule, funcName(g), fmt.Sprintf("callback#%d outside lock", nCb), cx.P.where(c), "the user function is called with no bucket lock held (it may re-enter the map)")
			}
		}
		chainAdvance(g, hg, siteHeld)
		for _, a := range nodeSlotAccesses(cx, g) {
			n++
			cx.R.Check(hg.anyHeld(a.in) || siteHeld, rule, funcName(g), fmt.Sprintf("slot read#%d under lock", n), cx.P.where(a.in), "bucket slots are snapshotted under the root-bucket lock")
		}
	})
	if nCb == 0 {
		cx.R.Violate(rule, name, "callback", cx.P.Pos(fn.Pos()), "NOT SATISFIED: Range no longer calls its function argument (directly or in a helper)")
	}
	// the cache's node iterator over Range yields only alive, unexpired nodes: C03.filter (listed under C15)
}

// ruleC15CopyAll: a resize copies every bucket of the old table.
func ruleC15CopyAll(cx *Ctx) {
	const rule = "C15.copyall"
	cx.R.Rule(rule, 1, "resize copies every bucket of the old table: the serial loop runs i = 0..len-1; the parallel variant starts goroutines for c = 0..chunks-1 over [c*S, min((c+1)*S, len)) with S = ceil(len/chunks), each copying i = start..end-1, and waits for all of them before publishing")
	fn := cx.need(rule, hmPkg, "Map", "resize")
	if fn == nil {
		return
	}
	name := funcName(fn)
	// range copiers: code that runs i = lo .. hi-1 and hands &T.buckets[i] to a bucket copier - the loop in resize
	// itself, a goroutine closure, or a named helper; lo / hi are constants, len(...) or parameters of that code
	type copier struct {
		fn     *ssa.Function
		lo, hi ssa.Value
	}
	var copiers []copier
	for _, f := range cx.P.FuncsOfPkg(hmPkg) {
		allInstrs(f, func(in ssa.Instruction) {
			c := calleeOf(in)
			if c == nil || !strings.HasPrefix(cname(c), "copyBucket") {
				return
			}
			for _, arg := range callArgs(in) {
				ia, ok := arg.(*ssa.IndexAddr)
				if !ok {
					continue
				}
				if ph, ok := ia.Index.(*ssa.Phi); ok {
					if init, bound, ok := loopInduction(ph); ok {
						copiers = append(copiers, copier{f, init, bound})
					}
					continue
				}
				// for i := range buckets: the index is the incremented counter, first value 0, bound len(buckets)
				if _, first, bound, ok := indexInduction(ia.Index); ok {
					copiers = append(copiers, copier{f, ssa.NewConst(constant.MakeInt64(first), types.Typ[types.Int]), bound})
				}
			}
		})
	}
	// a copy phase spread over several functions (a copier object with run / copySerial / copyParallel / copyChunk): when
	// no single function holds both the serial loop and the goroutine starts, the clauses are decided on the functions
	// reachable from resize, each where it lives
	{
		reach := map[*ssa.Function]bool{}
		var visit func(f *ssa.Function)
		visit = func(f *ssa.Function) {
			f = origin(f)
			if f == nil || reach[f] || f.Pkg == nil || !strings.HasSuffix(f.Pkg.Pkg.Path(), hmPkg) || len(f.Blocks) == 0 {
				return
			}
			reach[f] = true
			withClosures(f, func(g *ssa.Function) {
				reach[g] = true
				allInstrs(g, func(in ssa.Instruction) {
					if c := calleeOf(in); c != nil {
						visit(c)
					}
				})
			})
		}
		visit(fn)
		var serialFn, goFn *ssa.Function
		for _, cp := range copiers {
			o := origin(outermost(cp.fn))
			if !reach[o] {
				continue
			}
			if c0, ok := constUint(cp.lo); ok && c0 == 0 {
				if c, isC := cp.hi.(*ssa.Call); isC && isBuiltinCall(c, "len") {
					serialFn = o
				}
			}
		}
		for f := range reach {
			allInstrs(f, func(in ssa.Instruction) {
				if g, ok := in.(*ssa.Go); ok {
					tgt := g.Call.StaticCallee()
					if tgt == nil {
						tgt = closureOf(g.Call.Value)
					}
					for _, cp := range copiers {
						if tgt != nil && origin(tgt) == origin(cp.fn) {
							goFn = origin(outermost(f))
						}
					}
				}
			})
		}
		if serialFn != nil && goFn != nil && serialFn != goFn && serialFn != origin(fn) && goFn != origin(fn) {
			ruleC15CopyAllDistributed(cx, rule, fn, serialFn, goFn, reach)
			return
		}
	}
	// the copy driver: resize itself, or the helper it delegates the copy phase to (the function that runs the serial
	// loop and starts the copy goroutines)
	resizeFn := fn
	var driverCall ssa.Instruction
	{
		inResize := false
		for _, cp := range copiers {
			if origin(outermost(cp.fn)) == origin(fn) {
				inResize = true
			}
		}
		if !inResize {
			allInstrs(resizeFn, func(in ssa.Instruction) {
				g := calleeOf(in)
				if g == nil || driverCall != nil {
					return
				}
				for _, cp := range copiers {
					// a driver runs the loop over the whole table itself (bounds that are not its parameters); a helper
					// that copies the range [lo, hi) it is given is a range copier of the function that calls it
					isParam := func(v ssa.Value) bool { _, ok := v.(*ssa.Parameter); return ok }
					if origin(outermost(cp.fn)) == origin(g) && !(isParam(cp.lo) && isParam(cp.hi)) {
						driverCall = in
						fn = origin(g)
					}
				}
			})
		}
	}
	paramIdx := func(f *ssa.Function, v ssa.Value) int {
		for i, p := range f.Params {
			if ssa.Value(p) == v {
				return i
			}
		}
		return -1
	}
	// ranges handed out by resize: (lo, hi, through a goroutine?)
	type rng struct {
		lo, hi ssa.Value
		goIn   *ssa.Go
		at     ssa.Instruction
	}
	var ranges []rng
	for _, cp := range copiers {
		if origin(cp.fn) == origin(fn) {
			ranges = append(ranges, rng{cp.lo, cp.hi, nil, nil})
			continue
		}
		li, hi := paramIdx(cp.fn, cp.lo), paramIdx(cp.fn, cp.hi)
		if li < 0 || hi < 0 {
			continue
		}
		withClosures(fn, func(f *ssa.Function) {
			allInstrs(f, func(in ssa.Instruction) {
				cc := callCommon(in)
				if cc == nil || cc.IsInvoke() {
					return
				}
				target := cc.StaticCallee()
				if target == nil {
					target = closureOf(cc.Value)
				}
				if target == nil || origin(target) != origin(cp.fn) {
					return
				}
				args := cc.Args
				if cl := closureOf(cc.Value); cl != nil && cc.StaticCallee() == nil {
					args = cc.Args // closure parameters
				}
				if li >= len(args) || hi >= len(args) {
					return
				}
				g, _ := in.(*ssa.Go)
				ranges = append(ranges, rng{args[li], args[hi], g, in})
			})
		})
	}
	// serial: some range is [0, L)
	serialOK := false
	var L ssa.Value
	for _, r := range ranges {
		if r.goIn != nil {
			continue
		}
		if c0, ok := constUint(r.lo); ok && c0 == 0 {
			if c, ok := r.hi.(*ssa.Call); ok && isBuiltinCall(c, "len") {
				serialOK, L = true, r.hi
			}
		}
	}
	cx.R.Check(serialOK, rule, name, "serial copy covers 0..len-1", cx.P.Pos(fn.Pos()), "the serial copy loop visits every bucket index of the old table")
	var goInstr *ssa.Go
	var start, end ssa.Value
	for _, r := range ranges {
		if r.goIn != nil {
			goInstr, start, end = r.goIn, r.lo, r.hi
		}
	}
	if goInstr == nil {
		anyGo := false
		allInstrs(fn, func(in ssa.Instruction) {
			if _, ok := in.(*ssa.Go); ok {
				anyGo = true
			}
		})
		if anyGo {
			cx.R.Violate(rule, name, "chunks tile 0..len-1", cx.P.Pos(fn.Pos()), "NOT SATISFIED: resize starts goroutines that are not recognisable range copiers")
		} else {
			cx.R.OK(rule, name, "no parallel copy", cx.P.Pos(fn.Pos()), "resize copies serially only")
		}
		return
	}
	okRange := false
	detail := ""
	if L != nil {
		tb := newTermBuilder()
		tb.subst[L] = tVar("L")
		// induction variable c and chunks
		var cphi *ssa.Phi
		var phis []*ssa.Phi
		collectPhis(start, map[ssa.Value]bool{}, &phis)
		for _, p := range phis {
			if _, _, ok := inductionRangeVar(p); ok {
				cphi = p
			}
		}
		if cphi != nil {
			_, bound, _ := inductionRangeVar(cphi)
			tb.subst[cphi] = tVar("c")
			tb.subst[bound] = tVar("chunks")
			// the table length may be computed more than once (tableLen := len(t.buckets) and the bound of a range loop): every
			// len of the same table's bucket slice is L
			lstr := newTermBuilder().of(L).String()
			norm := func(t string) string { return strings.ReplaceAll(t, lstr, "L") }
			st := norm(tb.of(start).String())
			var endT string
			if m, ok := end.(*ssa.Call); ok && isBuiltinCall(m, "min") {
				x, y := norm(tb.of(m.Call.Args[0]).String()), norm(tb.of(m.Call.Args[1]).String())
				if y == "L" {
					endT = x
				} else if x == "L" {
					endT = y
				}
			}
			S1 := mk("/", mk("-", mk("+", tVar("L"), tVar("chunks")), tConst(1)), tVar("chunks"))
			S2 := mk("+", mk("/", mk("-", tVar("L"), tConst(1)), tVar("chunks")), tConst(1))
			for _, S := range []*Term{S1, S2} {
				if st == mk("*", tVar("c"), S).String() && endT == mk("*", mk("+", tVar("c"), tConst(1)), S).String() {
					okRange = true
				}
			}
			detail = "start=" + st + " end=min(" + endT + ", L)"
		}
	}
	cx.R.Check(okRange, rule, name, "chunks tile 0..len-1", cx.P.where(goInstr), "chunk c covers [c*S, min((c+1)*S, len)) with S = ceil(len/chunks), c = 0..chunks-1 ("+detail+")")
	// each goroutine copies start..end-1: by construction of the copier (its loop runs from its lo to its hi parameter)
	cx.R.OK(rule, name, "goroutine copies its whole range", cx.P.where(goInstr), "each copy goroutine visits i = start .. end-1")
	// all goroutines are awaited before the table is published
	table := cx.P.Field(hmPkg, "Map", "table")
	var wait, pub ssa.Instruction
	allInstrs(fn, func(in ssa.Instruction) {
		if isStdMethod(in, "sync", "WaitGroup", "Wait") {
			wait = in
		}
		if isStdMethod(in, "sync/atomic", "Pointer", "Store") && sameField(recvField(in), table) {
			pub = in
		}
	})
	if driverCall != nil {
		// the goroutines are awaited inside the driver (Wait follows every start), and the driver runs before the publication
		allInstrs(resizeFn, func(in ssa.Instruction) {
			if isStdMethod(in, "sync/atomic", "Pointer", "Store") && sameField(recvField(in), table) {
				pub = in
			}
		})
		awaited := wait != nil && !canReach(wait, goInstr) && canReach(goInstr, wait)
		cx.R.Check(awaited && pub != nil && canReach(driverCall, pub) && !canReach(pub, driverCall), rule, name, "copy awaited before publish", cx.P.Pos(resizeFn.Pos()), "the new table is published only after every copy goroutine finished")
		return
	}
	cx.R.Check(wait != nil && pub != nil && !canReach(pub, wait) && canReach(wait, pub), rule, name, "copy awaited before publish", cx.P.Pos(fn.Pos()), "the new table is published only after every copy goroutine finished")
}

// inductionRangeVar: phi = phi(0, phi+1) bounded by phi < bound (any value).
func inductionRangeVar(ph *ssa.Phi) (uint64, ssa.Value, bool) {
	init, bound, ok := loopInduction(ph)
	if !ok {
		return 0, nil, false
	}
	c0, isC := constUint(init)
	return 0, bound, isC && c0 == 0
}

// helperOrders: inside the helper called by `in`, every first() instruction is followed by a then() instruction.
func helperOrders(in ssa.Instruction, first, then func(ssa.Instruction) bool) bool {
	c := calleeOf(in)
	if c == nil {
		return false
	}
	ok := true
	found := false
	allInstrs(c, func(x ssa.Instruction) {
		if first(x) {
			found = true
			if f, _ := MustFollow(x, then, exitReturn); !f {
				ok = false
			}
		}
	})
	return ok && found
}

// ruleC15CopyAllDistributed: C15.copyall when the serial loop and the goroutine starts live in different helpers.
func ruleC15CopyAllDistributed(cx *Ctx, rule string, resize, serialFn, goFn *ssa.Function, reach map[*ssa.Function]bool) {
	name := funcName(resize)
	cx.R.OK(rule, name, "serial copy covers 0..len-1", cx.P.Pos(serialFn.Pos()), "the serial copy loop ("+funcName(serialFn)+") visits every bucket index of the old table")
	// the goroutine starts: go copier(lo, hi) with lo = c*S, hi = min((c+1)*S, L), S = ceil(L/chunks), c = 0..chunks-1
	var goInstr *ssa.Go
	allInstrs(goFn, func(in ssa.Instruction) {
		if g, ok := in.(*ssa.Go); ok {
			goInstr = g
		}
	})
	okRange, detail := false, ""
	if goInstr != nil {
		// the two int arguments computed from the loop counter
		var start, end ssa.Value
		for _, a := range goInstr.Call.Args {
			if b, isB := a.Type().Underlying().(*types.Basic); !isB || b.Info()&types.IsInteger == 0 {
				continue
			}
			if c, isC := a.(*ssa.Call); isC && isBuiltinCall(c, "min") {
				end = a
			} else if start == nil {
				start = a
			}
		}
		if start != nil && end != nil {
			tb := newTermBuilder()
			var phis []*ssa.Phi
			collectPhis(start, map[ssa.Value]bool{}, &phis)
			var cphi *ssa.Phi
			for _, p := range phis {
				if _, _, ok := inductionRangeVar(p); ok {
					cphi = p
				}
			}
			if cphi != nil {
				_, bound, _ := inductionRangeVar(cphi)
				tb.subst[cphi] = tVar("c")
				tb.subst[bound] = tVar("chunks")
				// L: any len of a bucket slice in this function (the helper sees one table to split: the source)
				lens := map[string]bool{}
				allInstrs(goFn, func(in ssa.Instruction) {
					if c, ok := in.(*ssa.Call); ok && isBuiltinCall(c, "len") {
						if f := fieldOf(c.Call.Args[0]); f != nil && fname(f) == "buckets" {
							lens[tb.of(c).String()] = true
						}
					}
				})
				norm := func(t string) string {
					for l := range lens {
						t = strings.ReplaceAll(t, l, "L")
					}
					return t
				}
				st := norm(tb.of(start).String())
				m := end.(*ssa.Call)
				x, y := norm(tb.of(m.Call.Args[0]).String()), norm(tb.of(m.Call.Args[1]).String())
				endT := ""
				if y == "L" {
					endT = x
				} else if x == "L" {
					endT = y
				}
				S1 := mk("/", mk("-", mk("+", tVar("L"), tVar("chunks")), tConst(1)), tVar("chunks"))
				S2 := mk("+", mk("/", mk("-", tVar("L"), tConst(1)), tVar("chunks")), tConst(1))
				for _, S := range []*Term{S1, S2} {
					if st == mk("*", tVar("c"), S).String() && endT == mk("*", mk("+", tVar("c"), tConst(1)), S).String() {
						okRange = true
					}
				}
				detail = "start=" + st + " end=min(" + endT + ", L)"
				// the table split is the one the chunk copier indexes: one source table per helper object (lens has one entry)
				if len(lens) != 1 {
					okRange = false
					detail += " (more than one table length in the splitting function)"
				}
			}
		}
	}
	where := cx.P.Pos(goFn.Pos())
	if goInstr != nil {
		where = cx.P.where(goInstr)
	}
	cx.R.Check(okRange, rule, name, "chunks tile 0..len-1", where, "chunk c covers [c*S, min((c+1)*S, len)) with S = ceil(len/chunks), c = 0..chunks-1 ("+detail+")")
	cx.R.OK(rule, name, "goroutine copies its whole range", where, "each copy goroutine visits i = start .. end-1")
	// awaited in the splitting function, which runs before the publication in resize
	var wait ssa.Instruction
	allInstrs(goFn, func(in ssa.Instruction) {
		if isStdMethod(in, "sync", "WaitGroup", "Wait") {
			wait = in
		}
	})
	table := cx.P.Field(hmPkg, "Map", "table")
	var pub, driverCall ssa.Instruction
	allInstrs(resize, func(in ssa.Instruction) {
		if isStdMethod(in, "sync/atomic", "Pointer", "Store") && sameField(recvField(in), table) {
			pub = in
		}
		if c := calleeOf(in); c != nil && driverCall == nil {
			if ok, _ := reachesInstr(c, func(x ssa.Instruction) bool { _, isGo := x.(*ssa.Go); return isGo && x.Parent() == goFn }, map[*ssa.Function]bool{}, nil); ok || origin(c) == goFn {
				driverCall = in
			}
		}
	})
	awaited := wait != nil && goInstr != nil && !canReach(wait, goInstr) && canReach(goInstr, wait)
	cx.R.Check(awaited && pub != nil && driverCall != nil && canReach(driverCall, pub) && !canReach(pub, driverCall), rule, name, "copy awaited before publish", cx.P.Pos(resize.Pos()), "the new table is published only after every copy goroutine finished")
}

// bucketSelectedFrom: the bucket pointer b is the result of a selector helper applied to the table value t - a module
// function that returns, at that result position, the address of an element of its table parameter's bucket slice.
func bucketSelectedFrom(b ssa.Value, t ssa.Value) bool {
	idx := 0
	var call *ssa.Call
	switch x := b.(type) {
	case *ssa.Extract:
		call, _ = x.Tuple.(*ssa.Call)
		idx = x.Index
	case *ssa.Call:
		call = x
	}
	if call == nil {
		return false
	}
	g := call.Call.StaticCallee()
	if g == nil {
		return false
	}
	g = origin(g)
	if g.Pkg == nil || !strings.HasPrefix(g.Pkg.Pkg.Path(), modPath) || len(g.Blocks) == 0 {
		return false
	}
	// which parameter of g receives t
	pi := -1
	for i, a := range call.Call.Args {
		if a == t {
			pi = i
		}
	}
	if pi < 0 || pi >= len(g.Params) {
		return false
	}
	ok, n := true, 0
	allInstrs(g, func(in ssa.Instruction) {
		r, isR := in.(*ssa.Return)
		if !isR || idx >= len(r.Results) {
			return
		}
		n++
		ia, isIA := r.Results[idx].(*ssa.IndexAddr)
		if !isIA {
			ok = false
			return
		}
		if base := baseOfField(ia.X, "buckets", 0); base != ssa.Value(g.Params[pi]) {
			ok = false
		}
	})
	return ok && n > 0
}

package main

import (
	"go/token"
	"go/types"
	"strings"

	"golang.org/x/tools/go/ssa"
)

// UNROLL: a term evaluator for small pure integer functions. It walks the blocks of a function over terms, follows a
// branch whose condition folds to a constant (so a loop with constant bounds is unrolled, as a compiler would), forks on a
// condition over the inputs, and inlines static calls of pure helpers of the module. The result is the function as a
// finite decision list (conditions over the inputs -> result term) that rules compare with the formula the property
// needs, whatever way the code is written (straight line, loop over the shift, helper shared by two widths, inverted
// test with swapped arms). Nothing is executed: values are terms over the parameters; a function with stores, calls the
// evaluator cannot inline, or more block visits than the fuel is "not evaluated" and the caller falls back or reports
// undecided.
type symCond struct {
	T     *Term
	Truth bool
}

type symPath struct {
	Conds []symCond
	Rets  []*Term
}

type symEval struct {
	fuel int
	bad  string
}

func symRun(fn *ssa.Function, args []*Term, fuel int) ([]symPath, string) {
	se := &symEval{fuel: fuel}
	ps := se.run(fn, args, nil, 0)
	if se.bad != "" {
		return nil, se.bad
	}
	return ps, ""
}

func (se *symEval) run(fn *ssa.Function, args []*Term, conds []symCond, depth int) []symPath {
	fn = origin(fn)
	if fn == nil || len(fn.Blocks) == 0 || len(fn.Params) != len(args) || depth > 6 {
		se.bad = "callee without a body or too deep"
		return nil
	}
	env := map[ssa.Value]*Term{}
	for i, p := range fn.Params {
		env[p] = args[i]
	}
	var out []symPath
	se.block(fn.Blocks[0], nil, env, conds, depth, &out)
	return out
}

func foldCmp(op token.Token, a, b uint64, signed bool) (bool, bool) {
	if signed {
		x, y := int64(a), int64(b)
		switch op {
		case token.LSS:
			return x < y, true
		case token.LEQ:
			return x <= y, true
		case token.GTR:
			return x > y, true
		case token.GEQ:
			return x >= y, true
		}
	}
	switch op {
	case token.EQL:
		return a == b, true
	case token.NEQ:
		return a != b, true
	case token.LSS:
		return a < b, true
	case token.LEQ:
		return a <= b, true
	case token.GTR:
		return a > b, true
	case token.GEQ:
		return a >= b, true
	}
	return false, false
}

func isSignedInt(t types.Type) bool {
	b, ok := t.Underlying().(*types.Basic)
	return ok && b.Info()&types.IsInteger != 0 && b.Info()&types.IsUnsigned == 0
}

func truncTo(t types.Type, c uint64) uint64 {
	b, ok := t.Underlying().(*types.Basic)
	if !ok {
		return c
	}
	switch b.Kind() {
	case types.Uint8, types.Int8:
		return c & 0xff
	case types.Uint16, types.Int16:
		return c & 0xffff
	case types.Uint32, types.Int32:
		return c & 0xffffffff
	}
	return c
}

func (se *symEval) val(env map[ssa.Value]*Term, v ssa.Value) *Term {
	if t, ok := env[v]; ok {
		return t
	}
	if c, ok := v.(*ssa.Const); ok {
		return newTermBuilder().of(c)
	}
	se.bad = "value " + v.Name() + " outside the evaluated fragment"
	return tVar("opaque:" + v.Name())
}

func (se *symEval) block(b *ssa.BasicBlock, pred *ssa.BasicBlock, env map[ssa.Value]*Term, conds []symCond, depth int, out *[]symPath) {
	if se.bad != "" {
		return
	}
	se.fuel--
	if se.fuel < 0 {
		se.bad = "more block visits than the unrolling bound"
		return
	}
	// phis read the environment of the predecessor simultaneously
	pi := -1
	for i, p := range b.Preds {
		if p == pred {
			pi = i
		}
	}
	upd := map[ssa.Value]*Term{}
	for _, in := range b.Instrs {
		ph, ok := in.(*ssa.Phi)
		if !ok {
			break
		}
		if pi < 0 {
			se.bad = "phi without predecessor"
			return
		}
		upd[ph] = se.val(env, ph.Edges[pi])
	}
	for k, v := range upd {
		env[k] = v
	}
	se.exec(b, 0, env, conds, depth, out)
}

func copyEnv(env map[ssa.Value]*Term) map[ssa.Value]*Term {
	e2 := make(map[ssa.Value]*Term, len(env))
	for k, v := range env {
		e2[k] = v
	}
	return e2
}

// exec interprets the instructions of b from index idx on (phis are already bound).
func (se *symEval) exec(b *ssa.BasicBlock, idx int, env map[ssa.Value]*Term, conds []symCond, depth int, out *[]symPath) {
	for i := idx; i < len(b.Instrs); i++ {
		if se.bad != "" {
			return
		}
		switch x := b.Instrs[i].(type) {
		case *ssa.Phi, *ssa.DebugRef:
		case *ssa.BinOp:
			l, r := se.val(env, x.X), se.val(env, x.Y)
			if l.isConst() && r.isConst() {
				if res, ok := foldCmp(x.Op, l.C, r.C, isSignedInt(x.X.Type())); ok {
					if res {
						env[x] = tConst(1)
					} else {
						env[x] = tConst(0)
					}
					continue
				}
				if x.Op == token.QUO && r.C != 0 && !isSignedInt(x.X.Type()) {
					env[x] = tConst(l.C / r.C)
					continue
				}
			}
			t := mk(x.Op.String(), l, r)
			if t.isConst() {
				t = tConst(truncTo(x.Type(), t.C))
			}
			env[x] = t
		case *ssa.UnOp:
			if x.Op == token.MUL || x.Op == token.ARROW {
				se.bad = "memory read"
				return
			}
			a := se.val(env, x.X)
			switch {
			case x.Op == token.NOT && a.isConst():
				env[x] = tConst(1 - a.C)
			case x.Op == token.SUB && a.isConst():
				env[x] = tConst(truncTo(x.Type(), -a.C))
			default:
				env[x] = mk("u"+x.Op.String(), a)
			}
		case *ssa.Convert:
			a := se.val(env, x.X)
			if isIntegral(x.Type()) && isIntegral(x.X.Type()) {
				if a.isConst() {
					a = tConst(truncTo(x.Type(), a.C))
				}
				env[x] = a
			} else {
				env[x] = mk("conv:"+x.Type().String(), a)
			}
		case *ssa.ChangeType:
			env[x] = se.val(env, x.X)
		case *ssa.Call:
			var as []*Term
			for _, a := range x.Call.Args {
				as = append(as, se.val(env, a))
			}
			c := x.Call.StaticCallee()
			if c == nil || x.Call.IsInvoke() {
				se.bad = "dynamic call"
				return
			}
			o := origin(c)
			if o.Pkg != nil && strings.HasPrefix(o.Pkg.Pkg.Path(), modPath) && len(o.Blocks) > 0 {
				// inline: every result path of the callee continues the caller
				sub := se.run(o, as, conds, depth+1)
				if se.bad != "" {
					return
				}
				for _, sp := range sub {
					if len(sp.Rets) != 1 {
						se.bad = "callee with several results"
						return
					}
					e2 := copyEnv(env)
					e2[x] = sp.Rets[0]
					se.exec(b, i+1, e2, sp.Conds, depth, out)
				}
				return
			}
			if o.Pkg != nil && o.Pkg.Pkg.Path() == "math/bits" {
				env[x] = mk("call:"+o.Name(), as...)
				continue
			}
			se.bad = "call of " + o.Name()
			return
		case *ssa.Return:
			var rs []*Term
			for _, r := range x.Results {
				rs = append(rs, se.val(env, r))
			}
			*out = append(*out, symPath{Conds: append([]symCond(nil), conds...), Rets: rs})
			return
		case *ssa.Jump:
			se.block(b.Succs[0], b, env, conds, depth, out)
			return
		case *ssa.If:
			c := se.val(env, x.Cond)
			if c.isConst() {
				if c.C != 0 {
					se.block(b.Succs[0], b, env, conds, depth, out)
				} else {
					se.block(b.Succs[1], b, env, conds, depth, out)
				}
				return
			}
			for _, k := range conds {
				if k.T.String() == c.String() {
					if k.Truth {
						se.block(b.Succs[0], b, env, conds, depth, out)
					} else {
						se.block(b.Succs[1], b, env, conds, depth, out)
					}
					return
				}
			}
			for j, truth := range []bool{true, false} {
				se.block(b.Succs[j], b, copyEnv(env), append(append([]symCond(nil), conds...), symCond{c, truth}), depth, out)
			}
			return
		default:
			se.bad = "instruction " + b.Instrs[i].String() + " is outside the pure integer fragment"
			return
		}
	}
}

package main

import (
	"fmt"
	"go/ast"
	"go/constant"
	"go/token"
	"go/types"
	"sort"
	"strings"

	"golang.org/x/tools/go/packages"
)

// ITERSIM: an abstract interpreter for iterator functions (functions that return iter.Seq / iter.Seq2 and the loops
// that consume them), working on the type-checked syntax tree. Nothing of otter is executed: the interpreter walks the
// statements of the iterator's source with *symbolic* inputs - finite input sequences of opaque elements, list shapes
// built from abstract nodes, opaque receivers whose fields are symbols - and enumerates every outcome of the opaque
// tests it meets (liveness / expiry of an element, configuration flags, comparator results, where the consumer
// stops) by depth-first replay of a choice sequence. What it produces per run is the list of values handed to the
// consumer's yield function; the rules compare that list with the specification "every element of the source that
// passes the filter exactly once, as the right projection, nothing after the consumer said stop".
//
// It is the counterpart of SHAPE for iteration: bounded (sequence lengths 0..2, lists of 0..3 members), but exhaustive
// inside the bound over all branch outcomes, and independent of how the loop is written (range-over-func, callback
// style, explicit cursor, iter.Pull, helpers, method values). Constructs it does not model end the run as "not
// interpreted" and the obligation is undecided.

type itNil struct{}

type itSym struct { // opaque term
	fn   string
	args []any
}

func (s *itSym) String() string {
	if len(s.args) == 0 {
		return s.fn
	}
	as := make([]string, len(s.args))
	for i, a := range s.args {
		as[i] = itStr(a)
	}
	return s.fn + "(" + strings.Join(as, ",") + ")"
}

type itObj struct { // heap object with identity (list header, abstract list node, struct literal)
	name   string
	fields map[string]any
	elem   bool // an abstract list node: counts as an element of the source
}

type itSlice struct{ elems []any }

type itSeq struct { // symbolic finite input sequence
	name  string
	elems []any
	kind  string // "table": the callback iteration of a hash table; "list": an iterator built by a list behind a field
}

type itTuple struct{ vs []any }

type itFunc struct {
	name    string
	lit     *ast.FuncLit
	decl    *ast.FuncDecl
	info    *types.Info
	env     *itEnv
	recv    any
	hasRecv bool
	builtin func(args []any) any
}

type itEnv struct {
	vars   map[types.Object]*any
	parent *itEnv
}

func (e *itEnv) lookup(o types.Object) *any {
	for s := e; s != nil; s = s.parent {
		if c, ok := s.vars[o]; ok {
			return c
		}
	}
	return nil
}

func (e *itEnv) define(o types.Object, v any) {
	c := new(any)
	*c = v
	e.vars[o] = c
}

func newItEnv(parent *itEnv) *itEnv { return &itEnv{vars: map[types.Object]*any{}, parent: parent} }

func itStr(v any) string {
	switch x := v.(type) {
	case nil:
		return "<void>"
	case itNil:
		return "nil"
	case *itSym:
		return x.String()
	case *itObj:
		return x.name
	case *itSeq:
		return x.name
	case *itSlice:
		as := make([]string, len(x.elems))
		for i, a := range x.elems {
			as[i] = itStr(a)
		}
		return "[" + strings.Join(as, " ") + "]"
	case *itTuple:
		as := make([]string, len(x.vs))
		for i, a := range x.vs {
			as[i] = itStr(a)
		}
		return "(" + strings.Join(as, ",") + ")"
	case *itFunc:
		return "func:" + x.name
	}
	return fmt.Sprint(v)
}

type itChoice struct{ c, n int }

type itYield struct {
	args    []any
	stopped bool // delivered after the consumer had returned false
}

type itUnsupported struct{ msg string }

type itCtlKind int

const (
	ctlNone itCtlKind = iota
	ctlBreak
	ctlContinue
	ctlReturn
)

type itCtl struct {
	kind  itCtlKind
	label string
	vals  []any
}

type itFrame struct {
	info    *types.Info
	env     *itEnv
	defers  []func()
	results []types.Object
}

type itInterp struct {
	P       *Program
	prefix  []int
	trace   []itChoice
	memo    map[string]any
	fuel    int
	depth   int
	yields  []itYield
	stopAt  int // the consumer returns false at its stopAt-th call (0: never)
	stopped bool
	notes   []string          // violations of the iteration protocol seen by the interpreter itself
	tested  map[string]string // element -> outcome of the filter predicates evaluated on it ("IsAlive=true;HasExpired=false")
	sources []*itSeq          // symbolic sources created during the run (in creation order)
	srcLen  int               // maximal length of a symbolic source
	decls   map[types.Object]*itDeclRef
	calls   []string // opaque calls in order (for order clauses)
}

type itDeclRef struct {
	decl *ast.FuncDecl
	pkg  *packages.Package
}

func (it *itInterp) unsupported(format string, a ...any) {
	panic(itUnsupported{fmt.Sprintf(format, a...)})
}

func (it *itInterp) choose(n int, label string) int {
	if n <= 1 {
		return 0
	}
	i := len(it.trace)
	c := 0
	if i < len(it.prefix) {
		c = it.prefix[i]
	}
	it.trace = append(it.trace, itChoice{c, n})
	return c
}

func (it *itInterp) chooseMemo(key string, n int) int {
	if v, ok := it.memo[key]; ok {
		return v.(int)
	}
	c := it.choose(n, key)
	it.memo[key] = c
	return c
}

func (it *itInterp) tick() {
	it.fuel--
	if it.fuel <= 0 {
		it.unsupported("out of fuel (a loop that does not terminate on the bounded inputs?)")
	}
}

// itExplore runs `run` once per choice sequence (depth-first); per completed run `done` is called.
func itExplore(P *Program, decls map[types.Object]*itDeclRef, srcLen int, run func(it *itInterp), done func(it *itInterp)) (runs int, bad string) {
	prefix := []int{}
	for {
		it := &itInterp{P: P, prefix: prefix, memo: map[string]any{}, fuel: 20000, tested: map[string]string{}, decls: decls, srcLen: srcLen}
		func() {
			defer func() {
				if r := recover(); r != nil {
					if u, ok := r.(itUnsupported); ok {
						bad = u.msg
						return
					}
					panic(r)
				}
			}()
			run(it)
		}()
		if bad != "" {
			return runs, bad
		}
		runs++
		done(it)
		if runs > 200000 {
			return runs, "more than 200000 runs"
		}
		tr := it.trace
		i := len(tr) - 1
		for i >= 0 && tr[i].c+1 >= tr[i].n {
			i--
		}
		if i < 0 {
			return runs, ""
		}
		prefix = prefix[:0]
		for _, c := range tr[:i] {
			prefix = append(prefix, c.c)
		}
		prefix = append(prefix, tr[i].c+1)
	}
}

// consumer returns the yield function of the analysed iterator's consumer.
func (it *itInterp) consumer() *itFunc {
	n := 0
	return &itFunc{name: "yield", builtin: func(args []any) any {
		it.yields = append(it.yields, itYield{args: args, stopped: it.stopped})
		if it.stopped {
			it.notes = append(it.notes, "the consumer's yield is called again after it returned false (the Go runtime panics here)")
			return false
		}
		n++
		if it.stopAt > 0 && n == it.stopAt {
			it.stopped = true
			return false
		}
		return true
	}}
}

func (it *itInterp) newSource(name string, n int) *itSeq {
	s := &itSeq{name: name}
	for i := 0; i < n; i++ {
		s.elems = append(s.elems, &itSym{fn: fmt.Sprintf("%s#%d", name, i+1)})
	}
	it.sources = append(it.sources, s)
	return s
}

// ---------- calls ----------

func (it *itInterp) callValue(f any, args []any) any {
	it.tick()
	switch fn := f.(type) {
	case *itFunc:
		return it.callFunc(fn, args)
	case *itSeq:
		if len(args) != 1 {
			it.unsupported("sequence %s called with %d arguments", fn.name, len(args))
		}
		for _, e := range fn.elems {
			r := it.callValue(args[0], []any{e})
			if b, ok := r.(bool); ok && !b {
				break
			}
		}
		return nil
	case *itOpaque:
		// an opaque function used as a callback: look into it if the module declares it
		if ref, ok := it.decls[fn.fn]; ok {
			var recv any
			if len(fn.sym.args) == 1 {
				recv = fn.sym.args[0]
			}
			if fn.methodExpr && len(args) > 0 {
				recv, args = args[0], args[1:]
			}
			return it.callFunc(&itFunc{name: fn.fn.Name(), decl: ref.decl, info: ref.pkg.TypesInfo, recv: recv, hasRecv: recv != nil}, args)
		}
		if fn.methodExpr && len(args) > 0 {
			return &itSym{fn: fn.fn.Name(), args: args}
		}
		return &itSym{fn: fn.sym.fn, args: append(append([]any(nil), fn.sym.args...), args...)}
	}
	it.unsupported("call of a non-function value %s", itStr(f))
	return nil
}

func (it *itInterp) callFunc(fn *itFunc, args []any) any {
	if fn.builtin != nil {
		return fn.builtin(args)
	}
	it.depth++
	defer func() { it.depth-- }()
	if it.depth > 40 {
		it.unsupported("call depth exceeded in %s", fn.name)
	}
	var ft *ast.FuncType
	var body *ast.BlockStmt
	var recvField *ast.FieldList
	if fn.lit != nil {
		ft, body = fn.lit.Type, fn.lit.Body
	} else {
		ft, body, recvField = fn.decl.Type, fn.decl.Body, fn.decl.Recv
	}
	fr := &itFrame{info: fn.info, env: newItEnv(fn.env)}
	if recvField != nil && len(recvField.List) == 1 && len(recvField.List[0].Names) == 1 {
		if o := fn.info.Defs[recvField.List[0].Names[0]]; o != nil {
			fr.env.define(o, fn.recv)
		}
	}
	i := 0
	nparams := 0
	for _, f := range ft.Params.List {
		if len(f.Names) == 0 {
			nparams++
		}
		nparams += len(f.Names)
	}
	for _, f := range ft.Params.List {
		_, variadic := f.Type.(*ast.Ellipsis)
		names := f.Names
		if len(names) == 0 {
			i++
			continue
		}
		for _, nm := range names {
			var v any = itNil{}
			if variadic && i == nparams-1 {
				if i < len(args) {
					if sl, ok := args[i].(*itSlice); ok && len(args) == nparams {
						v = sl
					} else {
						v = &itSlice{elems: append([]any(nil), args[i:]...)}
					}
				} else {
					v = &itSlice{}
				}
			} else if i < len(args) {
				v = args[i]
			}
			if o := fn.info.Defs[nm]; o != nil {
				fr.env.define(o, v)
			}
			i++
		}
	}
	if ft.Results != nil {
		for _, f := range ft.Results.List {
			for _, nm := range f.Names {
				if o := fn.info.Defs[nm]; o != nil {
					fr.env.define(o, it.zero(fn.info.TypeOf(f.Type)))
					fr.results = append(fr.results, o)
				}
			}
		}
	}
	c := it.execBlock(fr, fr.env, body.List)
	for j := len(fr.defers) - 1; j >= 0; j-- {
		fr.defers[j]()
	}
	var vals []any
	if c.kind == ctlReturn {
		vals = c.vals
		if len(vals) == 0 && len(fr.results) > 0 {
			for _, o := range fr.results {
				vals = append(vals, *fr.env.lookup(o))
			}
		}
	}
	switch len(vals) {
	case 0:
		return nil
	case 1:
		return vals[0]
	}
	return &itTuple{vs: vals}
}

func (it *itInterp) zero(t types.Type) any {
	if t == nil {
		return itNil{}
	}
	switch u := t.Underlying().(type) {
	case *types.Basic:
		switch {
		case u.Info()&types.IsBoolean != 0:
			return false
		case u.Info()&types.IsInteger != 0:
			return int64(0)
		case u.Info()&types.IsString != 0:
			return ""
		}
	}
	return itNil{}
}

// ---------- statements ----------

func (it *itInterp) execBlock(fr *itFrame, env *itEnv, list []ast.Stmt) itCtl {
	for _, s := range list {
		if c := it.exec(fr, env, s); c.kind != ctlNone {
			return c
		}
	}
	return itCtl{}
}

func (it *itInterp) exec(fr *itFrame, env *itEnv, s ast.Stmt) itCtl {
	it.tick()
	switch st := s.(type) {
	case *ast.BlockStmt:
		return it.execBlock(fr, newItEnv(env), st.List)
	case *ast.ExprStmt:
		it.eval(fr, env, st.X)
		return itCtl{}
	case *ast.EmptyStmt:
		return itCtl{}
	case *ast.DeclStmt:
		gd, ok := st.Decl.(*ast.GenDecl)
		if !ok {
			it.unsupported("declaration statement")
		}
		for _, sp := range gd.Specs {
			vs, ok := sp.(*ast.ValueSpec)
			if !ok {
				continue
			}
			for i, nm := range vs.Names {
				var v any
				if i < len(vs.Values) {
					v = it.eval(fr, env, vs.Values[i])
				} else {
					v = it.zero(fr.info.TypeOf(nm))
				}
				if o := fr.info.Defs[nm]; o != nil {
					env.define(o, v)
				}
			}
		}
		return itCtl{}
	case *ast.AssignStmt:
		it.assign(fr, env, st)
		return itCtl{}
	case *ast.IncDecStmt:
		v, ok := it.eval(fr, env, st.X).(int64)
		if !ok {
			it.unsupported("++/-- on a non-integer")
		}
		if st.Tok == token.INC {
			v++
		} else {
			v--
		}
		it.store(fr, env, st.X, v)
		return itCtl{}
	case *ast.IfStmt:
		e := newItEnv(env)
		if st.Init != nil {
			if c := it.exec(fr, e, st.Init); c.kind != ctlNone {
				return c
			}
		}
		if it.truth(it.eval(fr, e, st.Cond)) {
			return it.execBlock(fr, newItEnv(e), st.Body.List)
		}
		if st.Else != nil {
			return it.exec(fr, e, st.Else)
		}
		return itCtl{}
	case *ast.ForStmt:
		e := newItEnv(env)
		if st.Init != nil {
			it.exec(fr, e, st.Init)
		}
		for {
			it.tick()
			if st.Cond != nil && !it.truth(it.eval(fr, e, st.Cond)) {
				break
			}
			c := it.execBlock(fr, newItEnv(e), st.Body.List)
			if c.kind == ctlBreak && c.label == "" {
				break
			}
			if c.kind == ctlReturn || c.kind == ctlBreak || (c.kind == ctlContinue && c.label != "") {
				return c
			}
			if st.Post != nil {
				it.exec(fr, e, st.Post)
			}
		}
		return itCtl{}
	case *ast.RangeStmt:
		return it.execRange(fr, env, st)
	case *ast.ReturnStmt:
		var vals []any
		for _, r := range st.Results {
			v := it.eval(fr, env, r)
			if t, ok := v.(*itTuple); ok && len(st.Results) == 1 {
				vals = append(vals, t.vs...)
			} else {
				vals = append(vals, v)
			}
		}
		return itCtl{kind: ctlReturn, vals: vals}
	case *ast.BranchStmt:
		label := ""
		if st.Label != nil {
			label = st.Label.Name
		}
		switch st.Tok {
		case token.BREAK:
			return itCtl{kind: ctlBreak, label: label}
		case token.CONTINUE:
			return itCtl{kind: ctlContinue, label: label}
		}
		it.unsupported("goto / fallthrough")
	case *ast.LabeledStmt:
		c := it.exec(fr, env, st.Stmt)
		if (c.kind == ctlBreak || c.kind == ctlContinue) && c.label == st.Label.Name {
			if c.kind == ctlContinue {
				it.unsupported("labelled continue")
			}
			return itCtl{}
		}
		return c
	case *ast.DeferStmt:
		call := st.Call
		f := it.eval(fr, env, call.Fun)
		var args []any
		for _, a := range call.Args {
			args = append(args, it.eval(fr, env, a))
		}
		fr.defers = append(fr.defers, func() {
			switch fn := f.(type) {
			case *itSym:
				it.calls = append(it.calls, "defer:"+fn.String())
			case *itOpaque:
				it.calls = append(it.calls, "defer:"+fn.sym.String())
			default:
				it.callValue(f, args)
			}
		})
		return itCtl{}
	case *ast.SwitchStmt:
		e := newItEnv(env)
		if st.Init != nil {
			it.exec(fr, e, st.Init)
		}
		var tag any
		if st.Tag != nil {
			tag = it.eval(fr, e, st.Tag)
		}
		var def *ast.CaseClause
		for _, cc := range st.Body.List {
			cl := cc.(*ast.CaseClause)
			if cl.List == nil {
				def = cl
				continue
			}
			for _, x := range cl.List {
				v := it.eval(fr, e, x)
				hit := false
				if st.Tag == nil {
					hit = it.truth(v)
				} else {
					hit = it.equal(tag, v)
				}
				if hit {
					c := it.execBlock(fr, newItEnv(e), cl.Body)
					if c.kind == ctlBreak && c.label == "" {
						return itCtl{}
					}
					return c
				}
			}
		}
		if def != nil {
			c := it.execBlock(fr, newItEnv(e), def.Body)
			if c.kind == ctlBreak && c.label == "" {
				return itCtl{}
			}
			return c
		}
		return itCtl{}
	case *ast.GoStmt:
		it.unsupported("go statement")
	}
	it.unsupported("statement %T", s)
	return itCtl{}
}

func (it *itInterp) execRange(fr *itFrame, env *itEnv, st *ast.RangeStmt) itCtl {
	x := it.eval(fr, env, st.X)
	bind := func(e *itEnv, k, v any) {
		set := func(lhs ast.Expr, val any) {
			if lhs == nil {
				return
			}
			id, ok := lhs.(*ast.Ident)
			if ok && id.Name == "_" {
				return
			}
			if st.Tok == token.DEFINE && ok {
				if o := fr.info.Defs[id]; o != nil {
					e.define(o, val)
					return
				}
			}
			it.store(fr, e, lhs, val)
		}
		set(st.Key, k)
		set(st.Value, v)
	}
	body := func(e *itEnv) itCtl { return it.execBlock(fr, newItEnv(e), st.Body.List) }
	switch xs := x.(type) {
	case int64:
		for i := int64(0); i < xs; i++ {
			e := newItEnv(env)
			bind(e, i, nil)
			c := body(e)
			if c.kind == ctlBreak && c.label == "" {
				break
			}
			if c.kind == ctlReturn || c.kind == ctlBreak || (c.kind == ctlContinue && c.label != "") {
				return c
			}
		}
		return itCtl{}
	case *itSlice:
		n := len(xs.elems)
		for i := 0; i < n && i < len(xs.elems); i++ {
			e := newItEnv(env)
			bind(e, int64(i), xs.elems[i])
			c := body(e)
			if c.kind == ctlBreak && c.label == "" {
				break
			}
			if c.kind == ctlReturn || c.kind == ctlBreak || (c.kind == ctlContinue && c.label != "") {
				return c
			}
		}
		return itCtl{}
	case *itSeq, *itFunc:
		var out *itCtl
		done := false
		yield := &itFunc{name: "loopbody", builtin: func(args []any) any {
			if done {
				it.notes = append(it.notes, "a sequence calls the loop body again after the loop was left")
				return false
			}
			e := newItEnv(env)
			var k, v any
			if len(args) > 0 {
				k = args[0]
			}
			if len(args) > 1 {
				v = args[1]
			}
			bind(e, k, v)
			c := body(e)
			switch c.kind {
			case ctlNone:
				return true
			case ctlContinue:
				if c.label == "" {
					return true
				}
			case ctlBreak:
				if c.label == "" {
					done = true
					return false
				}
			}
			done = true
			out = &c
			return false
		}}
		it.callValue(x, []any{yield})
		if out != nil {
			return *out
		}
		return itCtl{}
	case itNil:
		return itCtl{}
	}
	it.unsupported("range over %s", itStr(x))
	return itCtl{}
}

func (it *itInterp) assign(fr *itFrame, env *itEnv, st *ast.AssignStmt) {
	var vals []any
	if len(st.Rhs) == 1 && len(st.Lhs) > 1 {
		v := it.eval(fr, env, st.Rhs[0])
		t, ok := v.(*itTuple)
		if !ok || len(t.vs) != len(st.Lhs) {
			it.unsupported("tuple assignment from %s", itStr(v))
		}
		vals = t.vs
	} else {
		for _, r := range st.Rhs {
			vals = append(vals, it.eval(fr, env, r))
		}
	}
	for i, l := range st.Lhs {
		v := vals[i]
		if st.Tok != token.ASSIGN && st.Tok != token.DEFINE {
			op := map[token.Token]token.Token{token.ADD_ASSIGN: token.ADD, token.SUB_ASSIGN: token.SUB, token.MUL_ASSIGN: token.MUL, token.QUO_ASSIGN: token.QUO, token.REM_ASSIGN: token.REM, token.AND_ASSIGN: token.AND, token.OR_ASSIGN: token.OR, token.SHL_ASSIGN: token.SHL, token.SHR_ASSIGN: token.SHR}[st.Tok]
			v = it.binop(op, it.eval(fr, env, l), v)
		}
		if id, ok := l.(*ast.Ident); ok {
			if id.Name == "_" {
				continue
			}
			if st.Tok == token.DEFINE {
				if o := fr.info.Defs[id]; o != nil {
					env.define(o, v)
					continue
				}
			}
		}
		it.store(fr, env, l, v)
	}
}

func (it *itInterp) store(fr *itFrame, env *itEnv, l ast.Expr, v any) {
	switch lx := l.(type) {
	case *ast.Ident:
		o := fr.info.ObjectOf(lx)
		if c := env.lookup(o); c != nil {
			*c = v
			return
		}
		it.unsupported("store to unknown variable %s", lx.Name)
	case *ast.ParenExpr:
		it.store(fr, env, lx.X, v)
		return
	case *ast.SelectorExpr:
		if o, ok := it.eval(fr, env, lx.X).(*itObj); ok {
			o.fields[lx.Sel.Name] = v
			return
		}
	case *ast.IndexExpr:
		if sl, ok := it.eval(fr, env, lx.X).(*itSlice); ok {
			if i, ok := it.eval(fr, env, lx.Index).(int64); ok && int(i) < len(sl.elems) && i >= 0 {
				sl.elems[i] = v
				return
			}
		}
	case *ast.StarExpr:
		it.store(fr, env, lx.X, v)
		return
	}
	it.unsupported("store to %T", l)
}

func (it *itInterp) truth(v any) bool {
	if b, ok := v.(bool); ok {
		return b
	}
	if s, ok := v.(*itSym); ok {
		return it.chooseMemo("bool:"+s.String(), 2) == 1
	}
	it.unsupported("condition %s is not a boolean", itStr(v))
	return false
}

func (it *itInterp) equal(a, b any) bool {
	switch x := a.(type) {
	case itNil:
		_, ok := b.(itNil)
		return ok
	case *itObj:
		y, ok := b.(*itObj)
		return ok && x == y
	case *itSym:
		if y, ok := b.(*itSym); ok {
			return x.String() == y.String()
		}
		return false
	case int64:
		y, ok := b.(int64)
		return ok && x == y
	case bool:
		y, ok := b.(bool)
		return ok && x == y
	case string:
		y, ok := b.(string)
		return ok && x == y
	}
	if _, ok := b.(itNil); ok {
		return false
	}
	it.unsupported("comparison of %s and %s", itStr(a), itStr(b))
	return false
}

func (it *itInterp) intOf(v any) int64 {
	switch x := v.(type) {
	case int64:
		return x
	case *itSym:
		// an opaque integer: its sign class is what the code can test
		return int64(it.chooseMemo("int:"+x.String(), 3)) - 1
	}
	it.unsupported("integer expected, got %s", itStr(v))
	return 0
}

func (it *itInterp) binop(op token.Token, a, b any) any {
	switch op {
	case token.EQL:
		return it.equal(a, b)
	case token.NEQ:
		return !it.equal(a, b)
	}
	x, y := it.intOf(a), it.intOf(b)
	switch op {
	case token.ADD:
		return x + y
	case token.SUB:
		return x - y
	case token.MUL:
		return x * y
	case token.QUO:
		if y == 0 {
			it.unsupported("division by zero")
		}
		return x / y
	case token.REM:
		if y == 0 {
			it.unsupported("division by zero")
		}
		return x % y
	case token.AND:
		return x & y
	case token.OR:
		return x | y
	case token.XOR:
		return x ^ y
	case token.SHL:
		return x << uint(y)
	case token.SHR:
		return x >> uint(y)
	case token.LSS:
		return x < y
	case token.LEQ:
		return x <= y
	case token.GTR:
		return x > y
	case token.GEQ:
		return x >= y
	}
	it.unsupported("operator %s", op)
	return nil
}

// ---------- expressions ----------

func isIterSeqType(t types.Type) bool {
	if t == nil {
		return false
	}
	if n, ok := t.(*types.Named); ok && n.Obj().Pkg() != nil && n.Obj().Pkg().Path() == "iter" {
		return true
	}
	if a, ok := t.(*types.Alias); ok {
		return isIterSeqType(types.Unalias(a))
	}
	return false
}

func isFuncType(t types.Type) bool {
	if t == nil {
		return false
	}
	_, ok := t.Underlying().(*types.Signature)
	return ok
}

// iterRelevant: a module function is interpreted (instead of being an opaque call) when iteration flows through it:
// it returns or receives a sequence or a callback, or it belongs to the list / combinator packages.
func iterRelevant(f *types.Func) bool {
	sig, _ := f.Type().(*types.Signature)
	if sig == nil {
		return false
	}
	if f.Pkg() != nil && (strings.HasSuffix(f.Pkg().Path(), "/internal/xiter") || strings.HasSuffix(f.Pkg().Path(), "/internal/deque")) {
		return true
	}
	for i := 0; i < sig.Results().Len(); i++ {
		if isIterSeqType(sig.Results().At(i).Type()) || isFuncType(sig.Results().At(i).Type()) {
			return true
		}
	}
	for i := 0; i < sig.Params().Len(); i++ {
		t := sig.Params().At(i).Type()
		if sl, ok := t.(*types.Slice); ok {
			t = sl.Elem()
		}
		if isIterSeqType(t) || isFuncType(t) {
			return true
		}
	}
	return false
}

func (it *itInterp) eval(fr *itFrame, env *itEnv, e ast.Expr) any {
	it.tick()
	if tv, ok := fr.info.Types[e]; ok && tv.Value != nil {
		switch tv.Value.Kind() {
		case constant.Int:
			if v, ok := constant.Int64Val(tv.Value); ok {
				return v
			}
		case constant.Bool:
			return constant.BoolVal(tv.Value)
		case constant.String:
			return constant.StringVal(tv.Value)
		}
	}
	switch x := e.(type) {
	case *ast.ParenExpr:
		return it.eval(fr, env, x.X)
	case *ast.Ident:
		o := fr.info.ObjectOf(x)
		if _, isNil := o.(*types.Nil); isNil {
			return itNil{}
		}
		if c := env.lookup(o); c != nil {
			return *c
		}
		if f, ok := o.(*types.Func); ok {
			return it.funcValue(f, nil, false)
		}
		if _, ok := o.(*types.Var); ok {
			return &itSym{fn: x.Name}
		}
		it.unsupported("identifier %s", x.Name)
	case *ast.FuncLit:
		return &itFunc{name: "lit", lit: x, info: fr.info, env: env}
	case *ast.UnaryExpr:
		switch x.Op {
		case token.NOT:
			return !it.truth(it.eval(fr, env, x.X))
		case token.SUB:
			return -it.intOf(it.eval(fr, env, x.X))
		case token.AND:
			return it.eval(fr, env, x.X)
		}
		it.unsupported("unary %s", x.Op)
	case *ast.StarExpr:
		return it.eval(fr, env, x.X)
	case *ast.BinaryExpr:
		switch x.Op {
		case token.LAND:
			return it.truth(it.eval(fr, env, x.X)) && it.truth(it.eval(fr, env, x.Y))
		case token.LOR:
			return it.truth(it.eval(fr, env, x.X)) || it.truth(it.eval(fr, env, x.Y))
		}
		return it.binop(x.Op, it.eval(fr, env, x.X), it.eval(fr, env, x.Y))
	case *ast.SelectorExpr:
		if sel, ok := fr.info.Selections[x]; ok && sel.Kind() == types.MethodExpr {
			f := sel.Obj().(*types.Func).Origin()
			return &itOpaque{sym: &itSym{fn: f.Name()}, fn: f, methodExpr: true}
		}
		if sel, ok := fr.info.Selections[x]; ok {
			recv := it.eval(fr, env, x.X)
			switch sel.Kind() {
			case types.FieldVal:
				switch r := recv.(type) {
				case *itObj:
					if v, ok := r.fields[x.Sel.Name]; ok {
						return v
					}
					it.unsupported("field %s of %s is not modelled", x.Sel.Name, r.name)
				case *itSym:
					s := &itSym{fn: r.String() + "." + x.Sel.Name}
					if b, ok := fr.info.TypeOf(x).Underlying().(*types.Basic); ok && b.Info()&types.IsBoolean != 0 {
						return it.chooseMemo("flag:"+s.String(), 2) == 1
					}
					return s
				}
				it.unsupported("field %s of %s", x.Sel.Name, itStr(recv))
			case types.MethodVal:
				f := sel.Obj().(*types.Func)
				return it.funcValue(f, recv, true)
			}
		}
		// package-qualified identifier
		o := fr.info.ObjectOf(x.Sel)
		if f, ok := o.(*types.Func); ok {
			return it.funcValue(f, nil, false)
		}
		if o != nil {
			return &itSym{fn: o.Name()}
		}
		it.unsupported("selector %s", x.Sel.Name)
	case *ast.IndexExpr:
		if tv, ok := fr.info.Types[x.Index]; ok && tv.IsType() {
			return it.eval(fr, env, x.X) // explicit instantiation
		}
		base := it.eval(fr, env, x.X)
		if sl, ok := base.(*itSlice); ok {
			i := it.intOf(it.eval(fr, env, x.Index))
			if i < 0 || int(i) >= len(sl.elems) {
				it.notes = append(it.notes, fmt.Sprintf("index %d out of range [0,%d)", i, len(sl.elems)))
				it.unsupported("index out of range")
			}
			return sl.elems[i]
		}
		it.unsupported("index of %s", itStr(base))
	case *ast.IndexListExpr:
		return it.eval(fr, env, x.X)
	case *ast.SliceExpr:
		base := it.eval(fr, env, x.X)
		sl, ok := base.(*itSlice)
		if !ok {
			it.unsupported("slice of %s", itStr(base))
		}
		lo, hi := int64(0), int64(len(sl.elems))
		if x.Low != nil {
			lo = it.intOf(it.eval(fr, env, x.Low))
		}
		if x.High != nil {
			hi = it.intOf(it.eval(fr, env, x.High))
		}
		if lo < 0 || hi > int64(len(sl.elems)) || lo > hi {
			it.notes = append(it.notes, fmt.Sprintf("slice bounds [%d:%d] out of range with length %d", lo, hi, len(sl.elems)))
			it.unsupported("slice bounds out of range")
		}
		return &itSlice{elems: sl.elems[lo:hi]}
	case *ast.CompositeLit:
		t := fr.info.TypeOf(x)
		switch t.Underlying().(type) {
		case *types.Slice, *types.Array:
			sl := &itSlice{}
			for _, el := range x.Elts {
				if kv, ok := el.(*ast.KeyValueExpr); ok {
					el = kv.Value
				}
				sl.elems = append(sl.elems, it.eval(fr, env, el))
			}
			return sl
		case *types.Struct:
			o := &itObj{name: "lit", fields: map[string]any{}}
			st := t.Underlying().(*types.Struct)
			for i := 0; i < st.NumFields(); i++ {
				o.fields[st.Field(i).Name()] = it.zero(st.Field(i).Type())
			}
			for i, el := range x.Elts {
				if kv, ok := el.(*ast.KeyValueExpr); ok {
					o.fields[kv.Key.(*ast.Ident).Name] = it.eval(fr, env, kv.Value)
				} else if i < st.NumFields() {
					o.fields[st.Field(i).Name()] = it.eval(fr, env, el)
				}
			}
			return o
		}
		it.unsupported("composite literal of %s", t)
	case *ast.CallExpr:
		return it.evalCall(fr, env, x)
	case *ast.TypeAssertExpr:
		return it.eval(fr, env, x.X)
	case *ast.BasicLit:
		it.unsupported("literal %s", x.Value)
	}
	it.unsupported("expression %T", e)
	return nil
}

func (it *itInterp) funcValue(f *types.Func, recv any, hasRecv bool) any {
	f = f.Origin()
	if f.Pkg() != nil && strings.HasSuffix(f.Pkg().Path(), "/internal/hashmap") {
		// the table is a symbolic source (its Range is decided by the C15 rules)
		s := &itSym{fn: f.Name()}
		if hasRecv {
			s.args = []any{recv}
		}
		return &itOpaque{sym: s, fn: f}
	}
	if ref, ok := it.decls[f]; ok && hasRecv {
		if o, isObj := recv.(*itObj); isObj && !o.elem {
			// a method of a state object built by the interpreted code (a visitor struct holding the yield function)
			return &itFunc{name: f.Name(), decl: ref.decl, info: ref.pkg.TypesInfo, recv: recv, hasRecv: true}
		}
	}
	if ref, ok := it.decls[f]; ok && iterRelevant(f) {
		// behind an opaque receiver only the cache's own methods are looked into; a list or a table reached through a
		// field of the cache is a symbolic source (its own iterators are decided on canonical shapes)
		_, opaque := recv.(*itSym)
		if !(hasRecv && opaque) || (f.Pkg() != nil && f.Pkg().Path() == modPath) {
			return &itFunc{name: f.Name(), decl: ref.decl, info: ref.pkg.TypesInfo, recv: recv, hasRecv: hasRecv}
		}
	}
	name := f.Name()
	if f.Pkg() != nil && !hasRecv {
		p := f.Pkg().Path()
		name = p[strings.LastIndex(p, "/")+1:] + "." + name
	}
	s := &itSym{fn: name}
	if hasRecv {
		s.args = []any{recv}
	}
	return &itOpaque{sym: s, fn: f}
}

// itOpaque is a function the interpreter does not look into.
type itOpaque struct {
	sym        *itSym
	fn         *types.Func
	methodExpr bool // T.Method: the receiver is the first argument of the call
}

func (it *itInterp) evalCall(fr *itFrame, env *itEnv, call *ast.CallExpr) any {
	// conversions
	if tv, ok := fr.info.Types[call.Fun]; ok && tv.IsType() {
		if len(call.Args) == 1 {
			return it.eval(fr, env, call.Args[0])
		}
		it.unsupported("conversion")
	}
	// builtins
	if id, ok := ast.Unparen(call.Fun).(*ast.Ident); ok {
		if b, ok := fr.info.ObjectOf(id).(*types.Builtin); ok {
			return it.builtin(fr, env, b.Name(), call)
		}
	}
	f := it.eval(fr, env, call.Fun)
	var args []any
	for _, a := range call.Args {
		v := it.eval(fr, env, a)
		if t, ok := v.(*itTuple); ok && len(call.Args) == 1 {
			args = append(args, t.vs...)
		} else {
			args = append(args, v)
		}
	}
	if call.Ellipsis.IsValid() && len(args) > 0 {
		// f(xs...) : the slice is the variadic parameter itself
		if fn, ok := f.(*itFunc); ok && fn.builtin == nil {
			return it.callFunc(fn, args)
		}
	}
	switch fn := f.(type) {
	case *itFunc, *itSeq:
		return it.callValue(fn, args)
	case *itOpaque:
		return it.opaqueCall(fr, call, fn, args)
	case *itSym:
		// a call of an opaque function value (a field holding a callback)
		return it.symResult(fr, call, &itSym{fn: "call:" + fn.String(), args: args})
	}
	it.unsupported("call of %s", itStr(f))
	return nil
}

func (it *itInterp) symResult(fr *itFrame, call *ast.CallExpr, s *itSym) any {
	it.calls = append(it.calls, s.String())
	t := fr.info.TypeOf(call)
	switch tt := t.(type) {
	case nil:
		return nil
	case *types.Tuple:
		if tt.Len() == 0 {
			return nil
		}
		tp := &itTuple{}
		for i := 0; i < tt.Len(); i++ {
			tp.vs = append(tp.vs, it.symOfType(&itSym{fn: fmt.Sprintf("%s.%d", s.String(), i)}, tt.At(i).Type()))
		}
		return tp
	}
	return it.symOfType(s, t)
}

func (it *itInterp) symOfType(s *itSym, t types.Type) any {
	if b, ok := t.Underlying().(*types.Basic); ok {
		switch {
		case b.Info()&types.IsBoolean != 0:
			return it.chooseMemo("bool:"+s.String(), 2) == 1
		}
	}
	return s
}

var itFilterPreds = map[string]bool{"IsAlive": true, "HasExpired": true, "IsDead": true, "IsRetired": true}

func (it *itInterp) opaqueCall(fr *itFrame, call *ast.CallExpr, fn *itOpaque, args []any) any {
	f := fn.fn
	pkg := ""
	if f.Pkg() != nil {
		pkg = f.Pkg().Path()
	}
	recv := any(nil)
	if len(fn.sym.args) == 1 {
		recv = fn.sym.args[0]
	}
	if fn.methodExpr && len(args) > 0 {
		recv, args = args[0], args[1:]
		fn = &itOpaque{sym: &itSym{fn: f.Name(), args: []any{recv}}, fn: f}
	}
	switch {
	case pkg == "iter" && f.Name() == "Pull":
		return it.pull(args)
	case strings.HasSuffix(pkg, "/internal/generated/node") && f.Name() == "Equals" && len(args) == 2:
		return it.equal(args[0], args[1])
	case strings.HasSuffix(pkg, "/internal/hashmap") && f.Name() == "Range" && len(args) == 1:
		// the table's callback iteration: a symbolic source
		key := "src:" + itStr(recv) + ".Range"
		src, _ := it.memo[key].(*itSeq)
		if src == nil {
			src = it.newSource(itStr(recv), it.choose(it.srcLen+1, key))
			src.kind = "table"
			it.memo[key] = src
		}
		it.calls = append(it.calls, "Range:"+itStr(recv))
		return it.callValue(src, args)
	}
	// a predicate helper of the module applied to an element (isVisible(n, now)): looked into, so that the tests it makes
	// are known per element
	if ref, ok := it.decls[f]; ok {
		sig := f.Type().(*types.Signature)
		isBool := sig.Results().Len() == 1
		if isBool {
			b, okB := sig.Results().At(0).Type().Underlying().(*types.Basic)
			isBool = okB && b.Info()&types.IsBoolean != 0
		}
		isElem := func(v any) bool {
			switch x := v.(type) {
			case *itSym:
				return strings.Contains(x.fn, "#") && len(x.args) == 0
			case *itObj:
				return x.elem
			}
			return false
		}
		onElem := recv != nil && isElem(recv)
		for _, a := range args {
			onElem = onElem || isElem(a)
		}
		if isBool && onElem && it.depth < 30 {
			return it.callFunc(&itFunc{name: f.Name(), decl: ref.decl, info: ref.pkg.TypesInfo, recv: recv, hasRecv: recv != nil}, args)
		}
	}
	// a list node of a canonical shape: link getters read the modelled links
	if o, ok := recv.(*itObj); ok {
		if v, ok := o.fields["m:"+f.Name()]; ok && len(args) == 0 {
			return v
		}
	}
	// sequence constructors on opaque receivers (p.window.All()): symbolic sources
	if sig := f.Type().(*types.Signature); sig.Results().Len() == 1 && isIterSeqType(sig.Results().At(0).Type()) && len(args) == 0 {
		if r, ok := recv.(*itSym); ok {
			key := "src:" + r.String()
			src, _ := it.memo[key].(*itSeq)
			if src == nil {
				src = it.newSource(r.String(), it.choose(it.srcLen+1, key))
				src.kind = "list"
				it.memo[key] = src
			}
			it.calls = append(it.calls, "iterate:"+r.String()+"."+f.Name())
			// every constructor call is a fresh walk over the same members
			return &itSeq{name: src.name, elems: src.elems}
		}
	}
	s := &itSym{fn: fn.sym.fn, args: append(append([]any(nil), fn.sym.args...), args...)}
	if recv != nil && itFilterPreds[f.Name()] {
		// the outcome of a filter predicate is a property of the element (stable during the iteration)
		key := "pred:" + f.Name() + ":" + itStr(recv)
		c := it.chooseMemo(key, 2) == 1
		prev := it.tested[itStr(recv)]
		entry := fmt.Sprintf("%s=%v", f.Name(), c)
		if !strings.Contains(prev, entry) {
			it.tested[itStr(recv)] = prev + entry + ";"
		}
		it.calls = append(it.calls, s.String())
		return c
	}
	return it.symResult(fr, call, s)
}

func (it *itInterp) pull(args []any) any {
	if len(args) != 1 {
		it.unsupported("iter.Pull with %d arguments", len(args))
	}
	src, ok := args[0].(*itSeq)
	if !ok {
		it.unsupported("iter.Pull of an interpreted sequence")
	}
	i := 0
	stopped := false
	next := &itFunc{name: "next", builtin: func([]any) any {
		if stopped || i >= len(src.elems) {
			return &itTuple{vs: []any{itNil{}, false}}
		}
		v := src.elems[i]
		i++
		return &itTuple{vs: []any{v, true}}
	}}
	stop := &itFunc{name: "stop", builtin: func([]any) any { stopped = true; return nil }}
	return &itTuple{vs: []any{next, stop}}
}

func (it *itInterp) builtin(fr *itFrame, env *itEnv, name string, call *ast.CallExpr) any {
	var args []any
	for i, a := range call.Args {
		if name == "make" && i == 0 {
			continue
		}
		args = append(args, it.eval(fr, env, a))
	}
	switch name {
	case "len", "cap":
		switch x := args[0].(type) {
		case *itSlice:
			return int64(len(x.elems))
		case itNil:
			return int64(0)
		case string:
			return int64(len(x))
		}
	case "append":
		sl, _ := args[0].(*itSlice)
		out := &itSlice{}
		if sl != nil {
			out.elems = append(out.elems, sl.elems...)
		}
		if call.Ellipsis.IsValid() && len(args) == 2 {
			if more, ok := args[1].(*itSlice); ok {
				out.elems = append(out.elems, more.elems...)
				return out
			}
		}
		out.elems = append(out.elems, args[1:]...)
		return out
	case "make":
		n := int64(0)
		if len(args) > 0 {
			n = it.intOf(args[0])
		}
		out := &itSlice{}
		t := fr.info.TypeOf(call.Args[0])
		var z any = itNil{}
		if sl, ok := t.Underlying().(*types.Slice); ok {
			z = it.zero(sl.Elem())
		} else {
			it.unsupported("make of %s", t)
		}
		for i := int64(0); i < n; i++ {
			out.elems = append(out.elems, z)
		}
		return out
	case "min", "max":
		r := it.intOf(args[0])
		for _, a := range args[1:] {
			v := it.intOf(a)
			if (name == "min" && v < r) || (name == "max" && v > r) {
				r = v
			}
		}
		return r
	case "panic":
		it.unsupported("panic reached")
	}
	it.unsupported("builtin %s", name)
	return nil
}

// itDecls indexes the function declarations of the module by their type-checker object.
func itDecls(P *Program) map[types.Object]*itDeclRef {
	out := map[types.Object]*itDeclRef{}
	keys := make([]string, 0, len(P.byPkg))
	for k := range P.byPkg {
		keys = append(keys, k)
	}
	sort.Strings(keys)
	for _, k := range keys {
		p := P.byPkg[k]
		for _, f := range p.Syntax {
			for _, d := range f.Decls {
				if fd, ok := d.(*ast.FuncDecl); ok && fd.Body != nil {
					if o := p.TypesInfo.Defs[fd.Name]; o != nil {
						out[o] = &itDeclRef{decl: fd, pkg: p}
					}
				}
			}
		}
	}
	return out
}

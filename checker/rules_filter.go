package main

import (
	"fmt"
	"go/token"
	"go/types"
	"strings"

	"golang.org/x/tools/go/ssa"
)

// ruleC03Filter (GUARD part, for the functions with loops): nodes enumerated from the table or from the policy's
// deques are yielded / converted into entries only on the alive && unexpired edge.
func ruleC03Filter(cx *Ctx) {
	const rule = "C03.filter"
	cx.R.Rule(rule, 1, "nodes enumerated by the iterators (table range, eviction order) reach a yield / nodeToEntry only on the edge where IsAlive() is true and HasExpired(now) is false for that node, with now sampled in that iteration")
	n2e := cx.P.Func("", "cache", "nodeToEntry")
	eo := cx.need(rule, "", "cache", "evictionOrder")
	if eo == nil {
		return
	}
	check := func(f *ssa.Function, c *ssa.Call, node ssa.Value) {
		if p, isParam := node.(*ssa.Parameter); isParam && rangesOverNodes(cx, f, p) {
			cx.R.OK(rule, funcName(f), "sink fed by the filtered iterator", cx.P.where(c), "the node comes from ranging over cache.nodes(), which filters (checked at its own sink)")
			return
		}
		alive, unexpired := false, false
		var nowArg ssa.Value
		for _, g := range guardsAt(c.Block()) {
			gc, ok := g.Cond.(*ssa.Call)
			if !ok || gc.Call.Value != node {
				continue
			}
			if invokeName(gc) == "IsAlive" && g.Truth {
				alive = true
			}
			if invokeName(gc) == "HasExpired" && !g.Truth {
				unexpired = true
				nowArg = gc.Call.Args[0]
			}
		}
		// the two tests may live in a predicate helper (isVisible(n, now)): its true edge establishes both
		for _, g := range guardsAt(c.Block()) {
			gc, ok := g.Cond.(*ssa.Call)
			if !ok || !g.Truth || gc.Call.IsInvoke() {
				continue
			}
			h := calleeOf(gc)
			if h == nil || h.Pkg == nil || !strings.HasPrefix(h.Pkg.Pkg.Path(), modPath) {
				continue
			}
			ni, ti, okH := liveHelper(origin(h))
			args := gc.Call.Args
			if okH && ni < len(args) && ti < len(args) && args[ni] == node {
				alive, unexpired = true, true
				nowArg = args[ti]
			}
		}
		cx.R.Check(alive && unexpired, rule, funcName(f), "sink guarded", cx.P.where(c), fmt.Sprintf("the node reaches the API only when alive (%v) and unexpired (%v)", alive, unexpired))
		if nowArg != nil {
			nc, isCall := nowArg.(*ssa.Call)
			cx.R.Check(isCall && invokeName(nc) == "NowNano" && nc.Parent() == f, rule, funcName(f), "fresh clock", cx.P.where(c), "expiry is tested against a clock sample taken inside the iteration (long iterations do not use a stale time)")
		}
	}
	// sink 1: a node handed to a caller-supplied yield function func(node) bool, wherever in the package that happens
	// (iterator closure, named method of a visitor type, ...)
	yields := 0
	for _, f := range cx.P.FuncsOfPkg("") {
		allInstrs(f, func(in ssa.Instruction) {
			c, ok := in.(*ssa.Call)
			if !ok || c.Call.IsInvoke() || c.Call.StaticCallee() != nil || len(c.Call.Args) != 1 || !isNodeType(c.Call.Args[0].Type()) {
				return
			}
			if _, isClosure := c.Call.Value.(*ssa.MakeClosure); isClosure {
				return
			}
			sig, ok := c.Call.Value.Type().Underlying().(*types.Signature)
			if !ok || sig.Results().Len() != 1 {
				return
			}
			if b, ok := sig.Results().At(0).Type().Underlying().(*types.Basic); !ok || b.Kind() != types.Bool {
				return
			}
			yields++
			check(f, c, c.Call.Args[0])
		})
	}
	if yields == 0 {
		cx.R.Violate(rule, "(*cache).nodes", "sink", "-", "NOT SATISFIED: the iterator no longer yields nodes / entries in a recognisable way")
	}
	// the table's own Range is an unfiltered source: it is only ever called with a callback (whose sink is checked above),
	// never handed out as an iterator itself
	if rng := cx.P.Func(hmPkg, "Map", "Range"); rng != nil {
		hm := cx.P.Field("", "cache", "hashmap")
		for _, f := range cx.P.FuncsOfPkg("") {
			allInstrs(f, func(in ssa.Instruction) {
				mc, ok := in.(*ssa.MakeClosure)
				if !ok {
					return
				}
				if bm := boundMethod(mc); bm != nil && origin(bm) == origin(rng) {
					onMain := len(mc.Bindings) > 0 && (hm == nil || sameField(fieldOf(mc.Bindings[0]), hm))
					cx.R.Check(!onMain, rule, funcName(f), "table Range handed out as an iterator", cx.P.where(in), "the main table's Range (which enumerates retired and expired nodes too) is used only with a filtering callback, never as the iterator itself")
				}
			})
		}
	}
	// sink 2: the ordered iterator converts nodes into entries
	entries := 0
	withClosures(eo, func(f *ssa.Function) {
		allInstrs(f, func(in ssa.Instruction) {
			if c, ok := in.(*ssa.Call); ok && n2e != nil && isCallTo(c, n2e) {
				entries++
				check(f, c, callArgs(c)[0])
			}
		})
	})
	if entries == 0 {
		cx.R.Violate(rule, funcName(eo), "sink", cx.P.Pos(eo.Pos()), "NOT SATISFIED: the iterator no longer yields nodes / entries in a recognisable way")
	}
}

// rangesOverNodes: f is the body of `for n := range c.nodes()` - its parameter is what nodes() yields.
func rangesOverNodes(cx *Ctx, f *ssa.Function, p *ssa.Parameter) bool {
	nodes := cx.P.Func("", "cache", "nodes")
	if nodes == nil || f.Parent() == nil || len(f.Params) == 0 || f.Params[0] != p {
		return false
	}
	ok := false
	allInstrs(f.Parent(), func(in ssa.Instruction) {
		c, isCall := in.(*ssa.Call)
		if !isCall || c.Call.IsInvoke() || c.Call.StaticCallee() != nil || len(c.Call.Args) != 1 {
			return
		}
		if closureOf(c.Call.Args[0]) != f {
			return
		}
		// callee value is the result of c.nodes()
		if src, isSrc := c.Call.Value.(*ssa.Call); isSrc && isCallTo(src, nodes) {
			ok = true
		}
	})
	return ok
}

// liveHelper: h returns true only when IsAlive() of its parameter ni is true and HasExpired(parameter ti) of it is false.
func liveHelper(h *ssa.Function) (ni, ti int, ok bool) {
	if h == nil || len(h.Blocks) == 0 {
		return 0, 0, false
	}
	ni, ti = -1, -1
	okAll, nret := true, 0
	var trueOnly func(v ssa.Value, b *ssa.BasicBlock, gs []Guard, d int) bool
	trueOnly = func(v ssa.Value, b *ssa.BasicBlock, gs []Guard, d int) bool {
		// could v be true on this edge without both tests having been made?
		if d > 4 {
			return false
		}
		if k, isK := v.(*ssa.Const); isK {
			if bv, isB := constBool(k); isB && !bv {
				return true // false: nothing claimed
			}
		}
		alive, unexp := false, false
		note := func(c *ssa.Call, truth bool) {
			if invokeName(c) == "IsAlive" && truth {
				if i := paramIndexOf(c.Call.Value); i >= 0 {
					ni, alive = i, true
				}
			}
			if invokeName(c) == "HasExpired" && !truth {
				if i := paramIndexOf(c.Call.Value); i >= 0 && len(c.Call.Args) == 1 {
					if j := paramIndexOf(c.Call.Args[0]); j >= 0 {
						ni, ti, unexp = i, j, true
					}
				}
			}
		}
		for _, g := range gs {
			if c, isC := g.Cond.(*ssa.Call); isC {
				note(c, g.Truth)
			}
		}
		// the value itself: x, !x
		switch x := v.(type) {
		case *ssa.Call:
			note(x, true)
		case *ssa.UnOp:
			if c, isC := x.X.(*ssa.Call); isC && x.Op == token.NOT {
				note(c, false)
			}
		case *ssa.Phi:
			for i, e := range x.Edges {
				if !trueOnly(e, x.Block().Preds[i], append(append([]Guard(nil), gs...), append(guardsOnEdge(x.Block().Preds[i], x.Block()), guardsAt(x.Block().Preds[i])...)...), d+1) {
					return false
				}
			}
			return true
		}
		return alive && unexp
	}
	allInstrs(h, func(in ssa.Instruction) {
		r, isR := in.(*ssa.Return)
		if !isR || len(r.Results) != 1 {
			return
		}
		nret++
		if !trueOnly(r.Results[0], r.Block(), guardsAt(r.Block()), 0) {
			okAll = false
		}
	})
	return ni, ti, okAll && nret > 0 && ni >= 0 && ti >= 0
}

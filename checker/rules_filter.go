package main

import (
	"fmt"

	"golang.org/x/tools/go/ssa"
)

// ruleC03Filter (GUARD part, for the functions with loops): nodes enumerated from the table or from the policy's
// deques are yielded / converted into entries only on the alive && unexpired edge.
func ruleC03Filter(cx *Ctx) {
	const rule = "C03.filter"
	cx.R.Rule(rule, 1, "nodes enumerated by the iterators (table range, eviction order) reach a yield / nodeToEntry only on the edge where IsAlive() is true and HasExpired(now) is false for that node, with now sampled in that iteration")
	n2e := cx.P.Func("", "cache", "nodeToEntry")
	for _, name := range []string{"nodes", "evictionOrder"} {
		root := cx.need(rule, "", "cache", name)
		if root == nil {
			continue
		}
		found := 0
		withClosures(root, func(f *ssa.Function) {
			allInstrs(f, func(in ssa.Instruction) {
				c, ok := in.(*ssa.Call)
				if !ok {
					return
				}
				var node ssa.Value
				switch {
				case n2e != nil && isCallTo(c, n2e) && name == "evictionOrder":
					node = callArgs(c)[0]
				case name == "nodes" && !c.Call.IsInvoke() && c.Call.StaticCallee() == nil && len(c.Call.Args) == 1 && isNodeType(c.Call.Args[0].Type()):
					node = c.Call.Args[0]
				default:
					return
				}
				found++
				if p, isParam := node.(*ssa.Parameter); isParam && rangesOverNodes(cx, f, p) {
					cx.R.OK(rule, funcName(f), "sink fed by the filtered iterator", cx.P.where(c), "the node comes from ranging over cache.nodes(), which filters (checked at its own sink)")
					return
				}
				alive, unexpired := false, false
				var nowArg ssa.Value
				for _, g := range guardsAt(c.Block()) {
					gc, ok := g.Cond.(*ssa.Call)
					if !ok || gc.Call.Value != node {
						continue
					}
					if invokeName(gc) == "IsAlive" && g.Truth {
						alive = true
					}
					if invokeName(gc) == "HasExpired" && !g.Truth {
						unexpired = true
						nowArg = gc.Call.Args[0]
					}
				}
				cx.R.Check(alive && unexpired, rule, funcName(f), "sink guarded", cx.P.where(c), fmt.Sprintf("the node reaches the API only when alive (%v) and unexpired (%v)", alive, unexpired))
				if nowArg != nil {
					nc, isCall := nowArg.(*ssa.Call)
					cx.R.Check(isCall && invokeName(nc) == "NowNano" && nc.Parent() == f, rule, funcName(f), "fresh clock", cx.P.where(c), "expiry is tested against a clock sample taken inside the iteration (long iterations do not use a stale time)")
				}
			})
		})
		if found == 0 {
			cx.R.Violate(rule, funcName(root), "sink", cx.P.Pos(root.Pos()), "NOT SATISFIED: the iterator no longer yields nodes / entries in a recognisable way")
		}
	}
}

// rangesOverNodes: f is the body of `for n := range c.nodes()` - its parameter is what nodes() yields.
func rangesOverNodes(cx *Ctx, f *ssa.Function, p *ssa.Parameter) bool {
	nodes := cx.P.Func("", "cache", "nodes")
	if nodes == nil || f.Parent() == nil || len(f.Params) == 0 || f.Params[0] != p {
		return false
	}
	ok := false
	allInstrs(f.Parent(), func(in ssa.Instruction) {
		c, isCall := in.(*ssa.Call)
		if !isCall || c.Call.IsInvoke() || c.Call.StaticCallee() != nil || len(c.Call.Args) != 1 {
			return
		}
		if closureOf(c.Call.Args[0]) != f {
			return
		}
		// callee value is the result of c.nodes()
		if src, isSrc := c.Call.Value.(*ssa.Call); isSrc && isCallTo(src, nodes) {
			ok = true
		}
	})
	return ok
}

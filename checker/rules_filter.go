package main

import (
	"fmt"
	"go/types"

	"golang.org/x/tools/go/ssa"
)

// ruleC03Filter (GUARD part, for the functions with loops): nodes enumerated from the table or from the policy's
// deques are yielded / converted into entries only on the alive && unexpired edge.
func ruleC03Filter(cx *Ctx) {
	const rule = "C03.filter"
	cx.R.Rule(rule, 1, "nodes enumerated by the iterators (table range, eviction order) reach a yield / nodeToEntry only on the edge where IsAlive() is true and HasExpired(now) is false for that node, with now sampled in that iteration")
	n2e := cx.P.Func("", "cache", "nodeToEntry")
	eo := cx.need(rule, "", "cache", "evictionOrder")
	if cx.need(rule, "", "cache", "nodes") == nil || eo == nil {
		return
	}
	check := func(f *ssa.Function, c *ssa.Call, node ssa.Value) {
		if p, isParam := node.(*ssa.Parameter); isParam && rangesOverNodes(cx, f, p) {
			cx.R.OK(rule, funcName(f), "sink fed by the filtered iterator", cx.P.where(c), "the node comes from ranging over cache.nodes(), which filters (checked at its own sink)")
			return
		}
		alive, unexpired := false, false
		var nowArg ssa.Value
		for _, g := range guardsAt(c.Block()) {
			gc, ok := g.Cond.(*ssa.Call)
			if !ok || gc.Call.Value != node {
				continue
			}
			if invokeName(gc) == "IsAlive" && g.Truth {
				alive = true
			}
			if invokeName(gc) == "HasExpired" && !g.Truth {
				unexpired = true
				nowArg = gc.Call.Args[0]
			}
		}
		cx.R.Check(alive && unexpired, rule, funcName(f), "sink guarded", cx.P.where(c), fmt.Sprintf("the node reaches the API only when alive (%v) and unexpired (%v)", alive, unexpired))
		if nowArg != nil {
			nc, isCall := nowArg.(*ssa.Call)
			cx.R.Check(isCall && invokeName(nc) == "NowNano" && nc.Parent() == f, rule, funcName(f), "fresh clock", cx.P.where(c), "expiry is tested against a clock sample taken inside the iteration (long iterations do not use a stale time)")
		}
	}
	// sink 1: a node handed to a caller-supplied yield function func(node) bool, wherever in the package that happens
	// (iterator closure, named method of a visitor type, ...)
	yields := 0
	for _, f := range cx.P.FuncsOfPkg("") {
		allInstrs(f, func(in ssa.Instruction) {
			c, ok := in.(*ssa.Call)
			if !ok || c.Call.IsInvoke() || c.Call.StaticCallee() != nil || len(c.Call.Args) != 1 || !isNodeType(c.Call.Args[0].Type()) {
				return
			}
			if _, isClosure := c.Call.Value.(*ssa.MakeClosure); isClosure {
				return
			}
			sig, ok := c.Call.Value.Type().Underlying().(*types.Signature)
			if !ok || sig.Results().Len() != 1 {
				return
			}
			if b, ok := sig.Results().At(0).Type().Underlying().(*types.Basic); !ok || b.Kind() != types.Bool {
				return
			}
			yields++
			check(f, c, c.Call.Args[0])
		})
	}
	if yields == 0 {
		cx.R.Violate(rule, "(*cache).nodes", "sink", "-", "NOT SATISFIED: the iterator no longer yields nodes / entries in a recognisable way")
	}
	// the table's own Range is an unfiltered source: it is only ever called with a callback (whose sink is checked above),
	// never handed out as an iterator itself
	if rng := cx.P.Func(hmPkg, "Map", "Range"); rng != nil {
		hm := cx.P.Field("", "cache", "hashmap")
		for _, f := range cx.P.FuncsOfPkg("") {
			allInstrs(f, func(in ssa.Instruction) {
				mc, ok := in.(*ssa.MakeClosure)
				if !ok {
					return
				}
				if bm := boundMethod(mc); bm != nil && origin(bm) == origin(rng) {
					onMain := len(mc.Bindings) > 0 && (hm == nil || sameField(fieldOf(mc.Bindings[0]), hm))
					cx.R.Check(!onMain, rule, funcName(f), "table Range handed out as an iterator", cx.P.where(in), "the main table's Range (which enumerates retired and expired nodes too) is used only with a filtering callback, never as the iterator itself")
				}
			})
		}
	}
	// sink 2: the ordered iterator converts nodes into entries
	entries := 0
	withClosures(eo, func(f *ssa.Function) {
		allInstrs(f, func(in ssa.Instruction) {
			if c, ok := in.(*ssa.Call); ok && n2e != nil && isCallTo(c, n2e) {
				entries++
				check(f, c, callArgs(c)[0])
			}
		})
	})
	if entries == 0 {
		cx.R.Violate(rule, funcName(eo), "sink", cx.P.Pos(eo.Pos()), "NOT SATISFIED: the iterator no longer yields nodes / entries in a recognisable way")
	}
}

// rangesOverNodes: f is the body of `for n := range c.nodes()` - its parameter is what nodes() yields.
func rangesOverNodes(cx *Ctx, f *ssa.Function, p *ssa.Parameter) bool {
	nodes := cx.P.Func("", "cache", "nodes")
	if nodes == nil || f.Parent() == nil || len(f.Params) == 0 || f.Params[0] != p {
		return false
	}
	ok := false
	allInstrs(f.Parent(), func(in ssa.Instruction) {
		c, isCall := in.(*ssa.Call)
		if !isCall || c.Call.IsInvoke() || c.Call.StaticCallee() != nil || len(c.Call.Args) != 1 {
			return
		}
		if closureOf(c.Call.Args[0]) != f {
			return
		}
		// callee value is the result of c.nodes()
		if src, isSrc := c.Call.Value.(*ssa.Call); isSrc && isCallTo(src, nodes) {
			ok = true
		}
	})
	return ok
}

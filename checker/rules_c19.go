package main

import (
	"fmt"
	"go/token"
	"go/types"
	"strings"

	"golang.org/x/tools/go/ssa"
)

func init() {
	register("C19",
		"Decides structural necessary conditions of save/load fidelity: the snapshot written for an entry carries the node's key, value, weight and both deadlines (C19.fields); SaveCacheTo draws its entries from the eviction-order iterator, which yields only alive, unexpired entries after running maintenance under the lock (C19.source, C03.filter); LoadCacheFrom skips entries whose deadline is <= the load time - the boundary of every variant's HasExpired (C19.filter); it re-inserts with Set and then restores the remaining durations deadline - now with the same clock sample, clamped to at least 1, each guarded by its configuration flag and the 'unreachable' sentinel (C19.restore); both loops stop at the maximum and account each entry's weight (C19.bound); every record is decoded into a fresh zero Entry (C19.filter); the deadline setters the loader relies on store the requested deadline on a live entry unless a comparison with that very deadline shows it in place (C12.hook). "+
			"NOT decided: round-trip equality of contents and deadlines on concrete runs; gob encoding.",
		[]string{"encoding/gob round-trips exported fields", "Set / SetExpiresAfter / SetRefreshableAfter behave as C01/C12 decide"},
		ruleC19Fields, ruleC19Load, ruleC19Save, ruleC03Filter, ruleC12Bound, ruleC05LockRead, ruleC12Hooks, ruleC19File)
}

func entryFieldLoad(v ssa.Value, field string) bool {
	// a field of an Entry value (a by-value parameter of a helper)
	if fl, ok := v.(*ssa.Field); ok {
		if st := derefStruct(fl.X.Type()); st != nil && namedTypeName(fl.X.Type()) == "Entry" && fl.Field < st.NumFields() {
			return fname(st.Field(fl.Field)) == field
		}
		return false
	}
	f := fieldOf(v)
	return f != nil && fname(f) == field && stripLoad(v) != v && structNameOfAddr(stripLoad(v)) == "Entry"
}

// max1Of: v is max(1, x) - the builtin, or the explicit form `d := x; if d < 1 { d = 1 }` - and returns x.
func max1Of(v ssa.Value) (ssa.Value, bool) {
	if m, ok := v.(*ssa.Call); ok && isBuiltinCall(m, "max") && len(m.Call.Args) == 2 {
		for i, a := range m.Call.Args {
			if k, isK := constInt(a); isK && k == 1 {
				return m.Call.Args[1-i], true
			}
		}
		return nil, false
	}
	ph, ok := v.(*ssa.Phi)
	if !ok || len(ph.Edges) != 2 {
		return nil, false
	}
	for i, e := range ph.Edges {
		k, isK := constInt(e)
		if !isK || k != 1 {
			continue
		}
		x := ph.Edges[1-i]
		// the edge that delivers the constant is taken exactly when x < 1
		for _, g := range guardsOnEdge(ph.Block().Preds[i], ph.Block()) {
			b, isB := g.Cond.(*ssa.BinOp)
			if !isB {
				continue
			}
			kx, okx := constInt(b.Y)
			if b.X == x && okx {
				switch {
				case b.Op == token.LSS && kx == 1 && g.Truth, b.Op == token.LEQ && kx == 0 && g.Truth,
					b.Op == token.GEQ && kx == 1 && !g.Truth, b.Op == token.GTR && kx == 0 && !g.Truth:
					return x, true
				}
			}
			ky, oky := constInt(b.X)
			if b.Y == x && oky {
				switch {
				case b.Op == token.GTR && ky == 1 && g.Truth, b.Op == token.GEQ && ky == 0 && g.Truth,
					b.Op == token.LEQ && ky == 1 && !g.Truth, b.Op == token.LSS && ky == 0 && !g.Truth:
					return x, true
				}
			}
		}
	}
	return nil, false
}

func ruleC19Fields(cx *Ctx) {
	const rule = "C19.fields"
	cx.R.Rule(rule, 2, "nodeToEntry fills every field of the snapshot from the node (deadlines under their configuration flags, else the unreachable sentinel), and the loader reads only exported fields that nodeToEntry sets")
	fn := cx.need(rule, "", "cache", "nodeToEntry")
	if fn == nil {
		return
	}
	name := funcName(fn)
	want := map[string]string{"Key": "Key", "Value": "Value", "Weight": "Weight", "ExpiresAtNano": "ExpiresAt", "RefreshableAtNano": "RefreshableAt", "SnapshotAtNano": ""}
	set := map[string]string{}
	allInstrs(fn, func(in ssa.Instruction) {
		st, ok := in.(*ssa.Store)
		if !ok || structNameOfAddr(st.Addr) != "Entry" {
			return
		}
		f := fieldOf(st.Addr)
		if f == nil {
			return
		}
		src := "?"
		var walk func(v ssa.Value, d int) string
		walk = func(v ssa.Value, d int) string {
			if d > 4 {
				return "?"
			}
			switch x := v.(type) {
			case *ssa.Call:
				if n := invokeName(x); n != "" {
					if _, isParam := x.Call.Value.(*ssa.Parameter); isParam {
						return n
					}
				}
			case *ssa.Phi:
				out := ""
				for _, e := range x.Edges {
					r := walk(e, d+1)
					if r != "?" && !strings.HasPrefix(r, "const") {
						out = r
					}
				}
				if out != "" {
					return out
				}
			case *ssa.Parameter:
				return "param:" + x.Name()
			case *ssa.Const:
				return "const"
			}
			return "?"
		}
		src = walk(st.Val, 0)
		set[fname(f)] = src
	})
	for f, acc := range want {
		got, ok := set[f]
		good := ok && (acc == "" || got == acc)
		cx.R.Check(good, rule, name, "field "+f, cx.P.Pos(fn.Pos()), fmt.Sprintf("Entry.%s is filled from the node's %s (found %q)", f, acc, got))
	}
	// loader reads
	load := cx.need(rule, "", "", "LoadCacheFrom")
	if load == nil {
		return
	}
	allInstrs(load, func(in ssa.Instruction) {
		if u, ok := in.(*ssa.UnOp); ok && u.Op == token.MUL {
			if fa, ok := u.X.(*ssa.FieldAddr); ok && structNameOfAddr(fa) == "Entry" {
				f := fieldOf(fa)
				_, known := want[fname(f)]
				cx.R.Check(known && f.Exported(), rule, funcName(load), "reads Entry."+fname(f), cx.P.where(in), "the loader reads an exported field that the snapshot fills")
			}
		}
	})
}

func ruleC19Load(cx *Ctx) {
	const rFilter = "C19.filter"
	const rRestore = "C19.restore"
	const rBound = "C19.bound"
	cx.R.Rule(rFilter, 1, "LoadCacheFrom skips an entry when expiration is configured and its deadline is <= the clock sample of this iteration")
	cx.R.Rule(rRestore, 1, "after Set the loader restores expiry and refresh with max(1, deadline - now) using the same clock sample, each only under its flag and when the saved deadline is not the unreachable sentinel")
	cx.R.Rule(rBound, 1, "the load loop runs while size < min(saved maximum, own maximum) and adds each loaded entry's weight; the save loop stops at the maximum")
	fn := cx.need(rFilter, "", "", "LoadCacheFrom")
	if fn == nil {
		return
	}
	name := funcName(fn)
	var now *ssa.Call
	var set, sea, sra ssa.Instruction
	// the per-entry step (clock sample, filter, Set, restore) lives in the loader or in a helper it calls per record
	loopFn := fn
	isSet := func(in ssa.Instruction) bool {
		c, ok := in.(*ssa.Call)
		return ok && c.Call.StaticCallee() != nil && origin(c.Call.StaticCallee()).Name() == "Set" && namedTypeName(origin(c.Call.StaticCallee()).Signature.Recv().Type()) == "Cache"
	}
	hasSet := func(f *ssa.Function) bool {
		found := false
		allInstrs(f, func(in ssa.Instruction) {
			if isSet(in) {
				found = true
			}
		})
		return found
	}
	if !hasSet(fn) {
		allInstrs(loopFn, func(in ssa.Instruction) {
			if g := calleeOf(in); g != nil && g.Pkg != nil && g.Pkg == loopFn.Pkg && len(origin(g).Blocks) > 0 && hasSet(origin(g)) && fn == loopFn {
				fn = origin(g)
			}
		})
	}
	allInstrs(fn, func(in ssa.Instruction) {
		if c, ok := in.(*ssa.Call); ok {
			if invokeName(c) == "NowNano" {
				now = c
			}
			if sc := c.Call.StaticCallee(); sc != nil {
				switch origin(sc).Name() {
				case "Set":
					if !isSet(c) {
						break
					}
					set = c
				case "SetExpiresAfter":
					sea = c
				case "SetRefreshableAfter":
					sra = c
				}
			}
		}
	})
	if now == nil || set == nil || sea == nil || sra == nil {
		cx.R.Violate(rFilter, name, "shape", cx.P.Pos(fn.Pos()), "NOT SATISFIED: the loader no longer samples the clock, Sets, and restores both deadlines")
		return
	}
	// filter: Set is guarded by !(withExpiration && ExpiresAtNano <= now)
	filterOK := false
	allInstrs(fn, func(in ssa.Instruction) {
		b, ok := in.(*ssa.BinOp)
		if !ok {
			return
		}
		// deadline <= now, written either way round
		op := b.Op
		switch {
		case entryFieldLoad(b.X, "ExpiresAtNano") && b.Y == ssa.Value(now):
		case entryFieldLoad(b.Y, "ExpiresAtNano") && b.X == ssa.Value(now):
			op = map[token.Token]token.Token{token.GEQ: token.LEQ, token.LSS: token.GTR, token.LEQ: token.GEQ, token.GTR: token.LSS}[b.Op]
		default:
			return
		}
		if op != token.LEQ && op != token.GTR {
			return
		}
		for _, i := range ifsOnConj(b) {
			// the "expired" edge must not reach Set in this iteration: it goes back to the loop head
			expiredIdx := i.TrueIdx
			if op == token.GTR {
				expiredIdx = 1 - i.TrueIdx
			}
			tgt := i.If.Block().Succs[expiredIdx]
			skips := isLoopHeader(tgt) || !blockReachableAvoiding(tgt, set.Block(), loopHeaders(fn))
			flagGuard := false
			for _, g := range append(guardsAt(i.If.Block()), guardsAt(b.Block())...) {
				if f := fieldOf(g.Cond); f != nil && fname(f) == "withExpiration" && g.Truth {
					flagGuard = true
				}
			}
			if skips && flagGuard {
				filterOK = true
			}
		}
	})
	cx.R.Check(filterOK, rFilter, name, "skip expired", cx.P.where(now), "an entry with ExpiresAtNano <= now is skipped (same boundary as HasExpired), only when expiration is configured")
	// the decode target: gob leaves fields whose encoded value is zero untouched, so the record decoded in an
	// iteration must start from the zero value - a variable of the loop body, or one reset before every Decode
	decN, decOK := 0, true
	var decAt ssa.Instruction
	var decLoop map[*ssa.BasicBlock]bool
	// the decode step: in the loader's loop, or in a helper the loop calls per record (whose locals are fresh per call)
	decFns := []*ssa.Function{loopFn}
	allInstrs(loopFn, func(in ssa.Instruction) {
		if g := calleeOf(in); g != nil && g.Pkg != nil && g.Pkg == loopFn.Pkg && len(origin(g).Blocks) > 0 {
			decFns = append(decFns, origin(g))
		}
	})
	for _, decFn := range decFns {
		decFn := decFn
		allInstrs(decFn, func(in ssa.Instruction) {
			c, ok := in.(*ssa.Call)
			if !ok || c.Call.StaticCallee() == nil || c.Call.StaticCallee().Name() != "Decode" || len(c.Call.Args) < 2 {
				return
			}
			arg := c.Call.Args[1]
			if mi, ok := arg.(*ssa.MakeInterface); ok {
				arg = mi.X
			}
			pt, isPtr := arg.Type().Underlying().(*types.Pointer)
			if !isPtr || namedTypeName(pt.Elem()) != "Entry" {
				return
			}
			decN++
			decAt = c
			al, ok := arg.(*ssa.Alloc)
			if !ok {
				decOK = false
				return
			}
			var loop map[*ssa.BasicBlock]bool
			for h := range loopHeaders(decFn) {
				if l := naturalLoop(h); l[c.Block()] && (loop == nil || len(l) < len(loop)) {
					loop = l
				}
			}
			if decFn == loopFn {
				decLoop = loop
			} else if loop == nil {
				// the helper is called from the loader's loop: that call site's loop is the record loop
				allInstrs(loopFn, func(x ssa.Instruction) {
					if isCallTo(x, decFn) {
						for h := range loopHeaders(loopFn) {
							if l := naturalLoop(h); l[x.Block()] && (decLoop == nil || len(l) < len(decLoop)) {
								decLoop = l
							}
						}
					}
				})
			}
			if loop == nil || loop[al.Block()] {
				return
			}
			reset := false
			for _, r := range *al.Referrers() {
				if st, ok := r.(*ssa.Store); ok && st.Addr == ssa.Value(al) && loop[st.Block()] && instrDominates(st, c) {
					if _, fresh := st.Val.(*ssa.Const); fresh {
						reset = true
					}
					if ld, ok := st.Val.(*ssa.UnOp); ok && ld.Op == token.MUL {
						if a2, ok := ld.X.(*ssa.Alloc); ok && loop[a2.Block()] {
							reset = true
						}
					}
				}
			}
			if !reset {
				decOK = false
			}
		})
	}
	cx.R.Check(decN >= 1 && decOK, rFilter, name, "fresh decode target", cx.P.where(decAt), "every record is decoded into a zero-valued Entry of its own iteration (gob does not overwrite fields that were saved as zero)")
	cx.R.Check(instrDominates(now, set), rFilter, name, "clock sampled per entry", cx.P.where(now), "the clock is sampled for every entry before it is inserted")
	// restore
	for _, rs := range []struct {
		call  ssa.Instruction
		field string
		flag  string
		what  string
	}{{sea, "ExpiresAtNano", "withExpiration", "expiry"}, {sra, "RefreshableAtNano", "withRefresh", "refresh"}} {
		a := callArgs(rs.call)
		durOK := false
		if len(a) == 2 {
			if x, ok := max1Of(a[1]); ok {
				if b, ok := stripConv(x).(*ssa.BinOp); ok && b.Op == token.SUB && entryFieldLoad(b.X, rs.field) && b.Y == ssa.Value(now) {
					durOK = true
				}
			}
		}
		if !durOK && len(a) == 2 {
			// the same formula behind a helper (remaining(deadline, now)): compared as a term with helpers inlined
			tb := newInliningTermBuilder()
			t := tb.of(a[1])
			nowT := tb.of(now).String()
			if t.Op == "builtin:max" && len(t.Args) == 2 {
				for i := 0; i < 2; i++ {
					one, d := t.Args[i], t.Args[1-i]
					if one.isConst() && one.C == 1 && d.Op == "-" && len(d.Args) == 2 && strings.Contains(d.Args[0].String(), "field:"+rs.field) && d.Args[1].String() == nowT {
						durOK = true
					}
				}
			}
		}
		cx.R.Check(durOK, rRestore, name, rs.what+" duration", cx.P.where(rs.call), "restored duration = max(1, saved deadline - now) with the clock sample of the filter")
		keyOK := len(a) == 2 && entryFieldLoad(a[0], "Key")
		cx.R.Check(keyOK && instrDominates(set, rs.call), rRestore, name, rs.what+" after Set", cx.P.where(rs.call), "the deadline is restored for the entry's key after it was inserted")
		flagOK, sentinelOK := false, false
		for _, g := range guardsAt(rs.call.Block()) {
			if f := fieldOf(g.Cond); f != nil && fname(f) == rs.flag && g.Truth {
				flagOK = true
			}
			if b, ok := g.Cond.(*ssa.BinOp); ok && entryFieldLoad(b.X, rs.field) {
				if k, ok := constInt(b.Y); ok && k == 9223372036854775807 && ((b.Op == token.NEQ && g.Truth) || (b.Op == token.EQL && !g.Truth)) {
					sentinelOK = true
				}
			}
		}
		cx.R.Check(flagOK && sentinelOK, rRestore, name, rs.what+" guards", cx.P.where(rs.call), "restored only when the feature is configured and the saved deadline is not the unreachable sentinel")
	}
	// bound
	boundOK, weightOK := false, false
	allInstrs(loopFn, func(in ssa.Instruction) {
		if b, ok := in.(*ssa.BinOp); ok && b.Op == token.LSS {
			if ph, ok := b.X.(*ssa.Phi); ok {
				if m, ok := b.Y.(*ssa.Call); ok && isBuiltinCall(m, "min") {
					boundOK = true
					for _, e := range ph.Edges {
						if add, ok := e.(*ssa.BinOp); ok && add.Op == token.ADD && add.X == ssa.Value(ph) && entryFieldLoad(stripConv(add.Y), "Weight") {
							weightOK = true
						}
					}
				}
			}
		}
	})
	if !boundOK || !weightOK {
		// fallback tier: the counters may be wrapped into a small type or the minimum written out; the decode loop must
		// still have an exit decided by a value computed from the cache's maximum, the saved maximum and the weights of
		// the loaded entries
		var maxSrc, savedSrc, weightSrc []ssa.Value
		allInstrs(loopFn, func(in ssa.Instruction) {
			if c, ok := in.(*ssa.Call); ok {
				if sc := c.Call.StaticCallee(); sc != nil && origin(sc).Name() == "GetMaximum" {
					maxSrc = append(maxSrc, c)
				}
				if sc := c.Call.StaticCallee(); sc != nil && sc.Name() == "Decode" && len(c.Call.Args) == 2 {
					arg := c.Call.Args[1]
					if mi, ok := arg.(*ssa.MakeInterface); ok {
						arg = mi.X
					}
					if al, ok := arg.(*ssa.Alloc); ok {
						if pt, isPtr := al.Type().Underlying().(*types.Pointer); isPtr {
							if bt, isB := pt.Elem().Underlying().(*types.Basic); isB && bt.Kind() == types.Uint64 {
								for _, r := range *al.Referrers() {
									if ld, ok := r.(*ssa.UnOp); ok && ld.Op == token.MUL {
										savedSrc = append(savedSrc, ld)
									}
								}
							}
						}
					}
				}
			}
		})
		for _, f := range cx.P.ModuleFuncs() {
			allInstrs(f, func(in ssa.Instruction) {
				if v, ok := in.(ssa.Value); ok && entryFieldLoad(v, "Weight") {
					weightSrc = append(weightSrc, v)
				}
			})
		}
		depends := func(srcs []ssa.Value) bool {
			if len(srcs) == 0 || decLoop == nil {
				return false
			}
			fl := newFlow(cx.P).From(srcs...)
			for b := range decLoop {
				i, isIf := b.Instrs[len(b.Instrs)-1].(*ssa.If)
				if !isIf {
					continue
				}
				exits := false
				for _, sc := range b.Succs {
					if !decLoop[sc] {
						exits = true
					}
				}
				if exits && fl.Reaches(i.Cond) {
					return true
				}
			}
			return false
		}
		boundOK = depends(maxSrc) && depends(savedSrc)
		weightOK = depends(weightSrc)
	}
	cx.R.Check(boundOK, rBound, name, "loop bound", cx.P.Pos(loopFn.Pos()), "loading continues while size < min(saved maximum, the cache's maximum)")
	cx.R.Check(weightOK, rBound, name, "weight accounting", cx.P.Pos(loopFn.Pos()), "each loaded entry adds its saved weight to size")
}

func loopHeaders(fn *ssa.Function) map[*ssa.BasicBlock]bool {
	out := map[*ssa.BasicBlock]bool{}
	for _, b := range fn.Blocks {
		if isLoopHeader(b) {
			out[b] = true
		}
	}
	return out
}

// blockReachableAvoiding: to is reachable from from without passing through an avoided block.
func blockReachableAvoiding(from, to *ssa.BasicBlock, avoid map[*ssa.BasicBlock]bool) bool {
	if from == to {
		return true
	}
	seen := map[*ssa.BasicBlock]bool{from: true}
	stack := []*ssa.BasicBlock{from}
	for len(stack) > 0 {
		b := stack[len(stack)-1]
		stack = stack[:len(stack)-1]
		for _, s := range b.Succs {
			if s == to {
				return true
			}
			if avoid[s] || seen[s] {
				continue
			}
			seen[s] = true
			stack = append(stack, s)
		}
	}
	return false
}

func ruleC19Save(cx *Ctx) {
	const rule = "C19.source"
	cx.R.Rule(rule, 1, "SaveCacheTo encodes the maximum, then the entries yielded by Hottest() until the accumulated weight reaches the maximum; the eviction-order iterator runs maintenance under the eviction lock before it enumerates")
	fn := cx.need(rule, "", "", "SaveCacheTo")
	eo := cx.need(rule, "", "cache", "evictionOrder")
	maint := cx.need(rule, "", "cache", "maintenance")
	mu := cx.needField(rule, "", "cache", "evictionMutex")
	if fn == nil || eo == nil || maint == nil || mu == nil {
		return
	}
	hot := false
	withClosures(fn, func(f *ssa.Function) {
		allInstrs(f, func(in ssa.Instruction) {
			if c := calleeOf(in); c != nil && c.Name() == "Hottest" {
				hot = true
			}
		})
	})
	cx.R.Check(hot, rule, funcName(fn), "source", cx.P.Pos(fn.Pos()), "the saved entries come from the Hottest() iterator")
	// stop at the maximum, inside the range body
	stop := false
	bodies := []*ssa.Function{}
	withClosures(fn, func(f *ssa.Function) {
		bodies = append(bodies, f)
		allInstrs(f, func(in ssa.Instruction) {
			// the loop body may be a method value (saver.save) or delegate to a helper
			if mc, ok := in.(*ssa.MakeClosure); ok {
				if bm := boundMethod(mc); bm != nil && len(origin(bm).Blocks) > 0 {
					bodies = append(bodies, origin(bm))
				}
			}
			if g := calleeOf(in); g != nil && g.Pkg != nil && g.Pkg == fn.Pkg && len(origin(g).Blocks) > 0 {
				bodies = append(bodies, origin(g))
			}
		})
	})
	for _, f := range bodies {
		allInstrs(f, func(in ssa.Instruction) {
			if b, ok := in.(*ssa.BinOp); ok && (b.Op == token.GEQ || b.Op == token.LSS) {
				stop = true
			}
		})
	}
	cx.R.Check(stop, rule, funcName(fn), "bound", cx.P.Pos(fn.Pos()), "saving stops when the accumulated weight reaches the maximum")
	// evictionOrder's iterator: Lock ≺ maintenance ≺ enumeration, unconditionally
	withClosures(eo, func(f *ssa.Function) {
		if f == eo {
			return
		}
		var lock, run ssa.Instruction
		allInstrs(f, func(in ssa.Instruction) {
			if mutexOp(in, mu, "Lock") {
				lock = in
			}
			if isCallTo(in, maint) {
				run = in
			}
		})
		if lock == nil {
			return
		}
		ok := run != nil && instrDominates(lock, run)
		if ok {
			// maintenance must not be conditional: it dominates every exit of the iterator body
			okAll, _ := MustFollow(lock, func(x ssa.Instruction) bool { return x == run }, exitReturn)
			ok = okAll
		}
		cx.R.Check(ok, rule, funcName(f), "maintenance before enumeration", cx.P.where(lock), "the ordered iteration replays pending writes (maintenance) under the lock on every path before enumerating, so fresh entries are in the policy")
	})
}

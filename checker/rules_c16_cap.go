package main

import (
	"go/token"

	"golang.org/x/tools/go/ssa"
)

// ruleC16Cap: the producers' view of the current chunk's capacity.
//
// The slow path extends the producer limit to consumerIndex + capacity(current chunk). The last - maximum sized - chunk
// is never resized, so its capacity must be the whole maxQueueCapacity; every smaller chunk reserves one slot for the
// jump marker (capacity = mask). A capacity that is the plain mask for the last chunk makes a producer win the resize
// CAS on a queue that cannot grow; a capacity of maxQueueCapacity for a smaller chunk overwrites unconsumed slots.
func ruleC16Cap(cx *Ctx) {
	const rule = "C16.cap"
	cx.R.Rule(rule, 1, "the producer limit is extended to consumerIndex + cap(mask of the current chunk), where cap(x) = maxQueueCapacity if x+2 == maxQueueCapacity, else x - computed on the spot, or read from a field that every function storing producerMask also stores, with cap of the mask it stores")
	slow := cx.need(rule, queuePkg, "MPSC", "pushSlowPath")
	pl := cx.needField(rule, queuePkg, "MPSC", "producerLimit")
	pm := cx.needField(rule, queuePkg, "MPSC", "producerMask")
	ci := cx.needField(rule, queuePkg, "MPSC", "consumerIndex")
	mq := cx.needField(rule, queuePkg, "MPSC", "maxQueueCapacity")
	if slow == nil || pl == nil || pm == nil || ci == nil || mq == nil {
		return
	}
	isMaxLoad := func(v ssa.Value) bool { return sameField(fieldOf(v), mq) && stripLoad(v) != v }
	// isLastTest: cond is (x + 2 == maxQueueCapacity)
	isLastTest := func(cond ssa.Value, x ssa.Value) bool {
		b, ok := cond.(*ssa.BinOp)
		if !ok || (b.Op != token.EQL && b.Op != token.NEQ) {
			return false
		}
		return (isAddConst(b.X, x, 2) && isMaxLoad(b.Y)) || (isAddConst(b.Y, x, 2) && isMaxLoad(b.X))
	}
	// the test may be spelled with != (then the false edge is the last chunk)
	isNegated := func(cond ssa.Value) bool {
		b, ok := cond.(*ssa.BinOp)
		return ok && b.Op == token.NEQ
	}
	// selected(v, x, b): v, as observed in block b, is "maxQueueCapacity on the last-chunk edge, x otherwise"
	selected := func(v ssa.Value, x ssa.Value, b *ssa.BasicBlock, gs []Guard) bool {
		for _, g := range gs {
			if isLastTest(g.Cond, x) {
				if g.Truth != isNegated(g.Cond) {
					return isMaxLoad(v)
				}
				return v == x
			}
		}
		return false
	}
	// capFn: g(recv, x) returns cap(x)
	capFn := func(g *ssa.Function) bool {
		g = origin(g)
		if len(g.Params) != 2 || len(g.Blocks) == 0 {
			return false
		}
		x := ssa.Value(g.Params[1])
		n, ok := 0, true
		allInstrs(g, func(in ssa.Instruction) {
			ret, isRet := in.(*ssa.Return)
			if !isRet || len(ret.Results) != 1 {
				return
			}
			if ph, isPhi := ret.Results[0].(*ssa.Phi); isPhi {
				for i, e := range ph.Edges {
					n++
					if !selected(e, x, ph.Block().Preds[i], guardsOnEdge(ph.Block().Preds[i], ph.Block())) {
						ok = false
					}
				}
				return
			}
			n++
			if !selected(ret.Results[0], x, ret.Block(), guardsAt(ret.Block())) {
				ok = false
			}
		})
		return ok && n >= 2
	}
	// sameMask: a is the mask x - or, with x == nil (a caller of the slow path), a value read from producerMask
	sameMask := func(a, x ssa.Value) bool {
		if x != nil {
			return a == x
		}
		seen := map[ssa.Value]bool{}
		var fromPM func(v ssa.Value) bool
		fromPM = func(v ssa.Value) bool {
			if seen[v] {
				return false
			}
			seen[v] = true
			if atomicFieldLoad(v, pm) {
				return true
			}
			switch y := v.(type) {
			case *ssa.Phi:
				for _, e := range y.Edges {
					if fromPM(e) {
						return true
					}
				}
			case *ssa.UnOp:
				if al, ok := y.X.(*ssa.Alloc); ok && y.Op == token.MUL {
					for _, r := range *al.Referrers() {
						if st, ok := r.(*ssa.Store); ok && st.Addr == ssa.Value(al) && fromPM(st.Val) {
							return true
						}
					}
				}
			}
			return false
		}
		return fromPM(a)
	}
	var capOf func(v ssa.Value, x ssa.Value, depth int) (bool, string)
	capOf = func(v ssa.Value, x ssa.Value, depth int) (bool, string) {
		switch c := v.(type) {
		case *ssa.Parameter:
			// the capacity is handed in by the callers of the slow path: each of them computes cap(mask it read)
			if depth > 0 || c.Parent() != slow {
				return false, "the capacity is a parameter"
			}
			pi, n := -1, 0
			for i, q := range slow.Params {
				if q == c {
					pi = i
				}
			}
			for _, f := range cx.P.FuncsOfPkg(queuePkg) {
				bad := ""
				allInstrs(f, func(in ssa.Instruction) {
					if !isCallTo(in, slow) {
						return
					}
					n++
					cc := callCommon(in)
					if pi < 0 || pi >= len(cc.Args) {
						bad = "unrecognised call"
						return
					}
					if ok, why := capOf(cc.Args[pi], nil, 1); !ok {
						bad = cx.P.where(in) + ": " + why
					}
				})
				if bad != "" {
					return false, bad
				}
			}
			return n > 0, "no caller of the slow path"
		case *ssa.Call:
			if g := calleeOf(c); g != nil && g.Pkg != nil && len(origin(g).Blocks) > 0 && !isStdMethod(c, "sync/atomic", "", "Load") {
				a := c.Call.Args
				if len(a) == 2 && sameMask(a[1], x) && capFn(g) {
					return true, ""
				}
				return false, "the capacity is computed by " + funcName(g) + ", which is not cap(mask)"
			}
			if isStdMethod(c, "sync/atomic", "", "Load") && depth == 0 && x != nil {
				f := recvField(c)
				if f == nil {
					return false, "capacity loaded from an unknown place"
				}
				// every function that stores the producer mask stores this field too, with cap(that mask)
				n := 0
				for _, fn := range cx.P.FuncsOfPkg(queuePkg) {
					var maskV ssa.Value
					var stores []ssa.Instruction
					allInstrs(fn, func(in ssa.Instruction) {
						if atomicOp(in, pm, "Store") {
							if a := atomicArgs(in, pm, "Store"); len(a) == 1 {
								maskV = a[0]
							}
						}
						if atomicOp(in, f, "Store") {
							stores = append(stores, in)
						}
					})
					if maskV == nil && len(stores) == 0 {
						continue
					}
					if maskV == nil {
						return false, funcName(fn) + " stores " + f.Name() + " but not the producer mask"
					}
					if len(stores) == 0 {
						return false, funcName(fn) + " stores a new producer mask but leaves " + f.Name() + " stale"
					}
					for _, st := range stores {
						a := atomicArgs(st, f, "Store")
						if len(a) != 1 {
							return false, "unrecognised store at " + cx.P.where(st)
						}
						if ok, why := capOf(a[0], maskV, 1); !ok {
							if why == "" {
								why = "the stored value is not cap(mask)"
							}
							return false, cx.P.where(st) + ": " + why
						}
						n++
					}
				}
				return n >= 2, "stores of the cached capacity not found"
			}
		case *ssa.Phi:
			if len(c.Edges) == 2 {
				ok := true
				for i, e := range c.Edges {
					if !selected(e, x, c.Block().Preds[i], guardsOnEdge(c.Block().Preds[i], c.Block())) {
						ok = false
					}
				}
				if ok {
					return true, ""
				}
			}
		}
		return false, "the capacity is not cap(mask)"
	}
	name := funcName(slow)
	n := 0
	allInstrs(slow, func(in ssa.Instruction) {
		if !atomicOp(in, pl, "CompareAndSwap") {
			return
		}
		a := atomicArgs(in, pl, "CompareAndSwap")
		if len(a) != 2 {
			return
		}
		n++
		b, ok := a[1].(*ssa.BinOp)
		if !ok || b.Op != token.ADD {
			cx.R.Check(false, rule, name, "new limit", cx.P.where(in), "the new producer limit is consumerIndex + chunk capacity")
			return
		}
		capV := b.Y
		if !loadOrHandedIn(cx, b.X, ci, queuePkg) {
			capV = b.X
			if !loadOrHandedIn(cx, b.Y, ci, queuePkg) {
				cx.R.Check(false, rule, name, "new limit", cx.P.where(in), "the new producer limit is consumerIndex + chunk capacity")
				return
			}
		}
		okCap, why := capOf(capV, ssa.Value(bparam(slow, 1)), 0)
		cx.R.Check(okCap, rule, name, "new limit", cx.P.where(in), "the new producer limit is consumerIndex + cap(mask): the last chunk is used in full, every other chunk keeps a slot for the jump marker. "+why)
	})
	if n == 0 {
		cx.R.Violate(rule, name, "new limit", cx.P.Pos(slow.Pos()), "NOT SATISFIED: the slow path no longer extends the producer limit by CAS")
	}
}

package main

import (
	"fmt"
	"go/ast"
	"go/token"
	"go/types"
	"os"
	"sort"
	"strings"

	"golang.org/x/tools/go/packages"
	"golang.org/x/tools/go/ssa"
	"golang.org/x/tools/go/ssa/ssautil"
)

const modPath = "github.com/maypok86/otter/v2"

// Program is the type-checked, SSA-built view of the repository under analysis.
type Program struct {
	Dir   string
	Pkgs  []*packages.Package
	Prog  *ssa.Program
	Fset  *token.FileSet
	Funcs []*ssa.Function // every source function: declared functions/methods and nested closures
	byPkg map[string]*packages.Package
	decl  map[*ssa.Function]*ast.FuncDecl
}

// LoadProgram loads ./... of the module rooted at dir and builds SSA for it.
func LoadProgram(dir, goarch string, tests bool) (*Program, error) {
	env := []string{}
	for _, e := range os.Environ() {
		if strings.HasPrefix(e, "GOWORK=") || strings.HasPrefix(e, "GOARCH=") || strings.HasPrefix(e, "GOFLAGS=") || strings.HasPrefix(e, "GOPROXY=") {
			continue
		}
		env = append(env, e)
	}
	env = append(env, "GOWORK=off", "GOFLAGS=-mod=mod", "GOPROXY=off")
	if goarch != "" {
		env = append(env, "GOARCH="+goarch)
	}
	cfg := &packages.Config{Mode: packages.LoadAllSyntax, Dir: dir, Tests: tests, Env: env}
	pkgs, err := packages.Load(cfg, "./...")
	if err != nil {
		return nil, fmt.Errorf("load %s: %w", dir, err)
	}
	var errs []string
	packages.Visit(pkgs, nil, func(p *packages.Package) {
		for _, e := range p.Errors {
			errs = append(errs, e.Error())
		}
	})
	if len(errs) > 0 {
		if len(errs) > 8 {
			errs = errs[:8]
		}
		return nil, fmt.Errorf("type/load errors in %s: %s", dir, strings.Join(errs, "; "))
	}
	n := 0
	for _, p := range pkgs {
		if strings.HasPrefix(p.PkgPath, modPath) {
			n++
		}
	}
	if n == 0 {
		return nil, fmt.Errorf("no packages of %s found under %s", modPath, dir)
	}
	prog, _ := ssautil.AllPackages(pkgs, ssa.BuilderMode(0))
	prog.Build()
	P := &Program{Dir: dir, Pkgs: pkgs, Prog: prog, byPkg: map[string]*packages.Package{}, decl: map[*ssa.Function]*ast.FuncDecl{}}
	for _, p := range pkgs {
		if !strings.HasPrefix(p.PkgPath, modPath) {
			continue
		}
		if strings.HasSuffix(p.ID, ".test") || strings.Contains(p.ID, "[") {
			// test variants are only kept when tests were requested
			if !tests {
				continue
			}
		}
		if _, dup := P.byPkg[p.PkgPath]; !dup {
			P.byPkg[p.PkgPath] = p
		}
		P.Fset = p.Fset
		for _, f := range p.Syntax {
			for _, d := range f.Decls {
				fd, ok := d.(*ast.FuncDecl)
				if !ok || fd.Body == nil {
					continue
				}
				obj, _ := p.TypesInfo.Defs[fd.Name].(*types.Func)
				if obj == nil {
					continue
				}
				fn := prog.FuncValue(obj)
				if fn == nil || len(fn.Blocks) == 0 {
					continue
				}
				P.decl[fn] = fd
				P.addFunc(fn)
			}
		}
	}
	sort.SliceStable(P.Funcs, func(i, j int) bool { return P.Funcs[i].Pos() < P.Funcs[j].Pos() })
	P.renameMap() // resolve renamed helpers before any rule asks for a name
	flowProg = P
	return P, nil
}

func (P *Program) addFunc(fn *ssa.Function) {
	P.Funcs = append(P.Funcs, fn)
	for _, a := range fn.AnonFuncs {
		P.addFunc(a)
	}
}

func pkgPath(suffix string) string {
	if suffix == "" {
		return modPath
	}
	return modPath + "/" + suffix
}

// Pkg returns the types.Package with the given path suffix below the module ("" = root).
func (P *Program) Pkg(suffix string) *types.Package {
	p := P.byPkg[pkgPath(suffix)]
	if p == nil {
		return nil
	}
	return p.Types
}

// Func resolves a declared function or method: recv=="" for package-level functions.
func (P *Program) Func(pkgSuffix, recv, name string) *ssa.Function {
	if f := P.funcByName(pkgSuffix, recv, name); f != nil && len(f.Blocks) > 0 {
		return f
	}
	// renamed helper? (see baseline.go)
	if f, ok := P.renameMap().aliases[pkgSuffix+"|"+recv+"|"+name]; ok {
		return f
	}
	return nil
}

func (P *Program) funcByName(pkgSuffix, recv, name string) *ssa.Function {
	pkg := P.Pkg(pkgSuffix)
	if pkg == nil {
		return nil
	}
	if recv == "" {
		obj, _ := pkg.Scope().Lookup(name).(*types.Func)
		if obj == nil {
			return nil
		}
		return P.Prog.FuncValue(obj)
	}
	tn, _ := pkg.Scope().Lookup(recv).(*types.TypeName)
	if tn == nil {
		return nil
	}
	named, _ := tn.Type().(*types.Named)
	if named == nil {
		return nil
	}
	for i := 0; i < named.NumMethods(); i++ {
		m := named.Method(i)
		if m.Name() == name {
			return P.Prog.FuncValue(m)
		}
	}
	return nil
}

// Struct returns the struct type behind a named type.
func (P *Program) Struct(pkgSuffix, typeName string) (*types.Named, *types.Struct) {
	pkg := P.Pkg(pkgSuffix)
	if pkg == nil {
		return nil, nil
	}
	tn, _ := pkg.Scope().Lookup(typeName).(*types.TypeName)
	if tn == nil {
		return nil, nil
	}
	named, _ := tn.Type().(*types.Named)
	if named == nil {
		return nil, nil
	}
	st, _ := named.Underlying().(*types.Struct)
	return named, st
}

// Field returns the field object of a named struct type.
func (P *Program) Field(pkgSuffix, typeName, field string) *types.Var {
	_, st := P.Struct(pkgSuffix, typeName)
	if st == nil {
		return nil
	}
	for i := 0; i < st.NumFields(); i++ {
		if st.Field(i).Name() == field {
			return st.Field(i)
		}
	}
	for i := 0; i < st.NumFields(); i++ {
		if fname(st.Field(i)) == field {
			return st.Field(i) // renamed field (see baseline.go)
		}
	}
	// moved into a small struct of the module that groups related fields (Map.resizing -> Map.gate.active): the unique
	// nested field with the type the baseline records for the vanished one
	if want := baselineFieldType(pkgSuffix, typeName, field); want != "" {
		var cands []*types.Var
		for i := 0; i < st.NumFields(); i++ {
			f := st.Field(i)
			if baselineFieldType(pkgSuffix, typeName, f.Name()) != "" {
				continue // a field the baseline already knows: not a new grouping struct
			}
			n, isNamed := f.Type().(*types.Named)
			if !isNamed || n.Obj().Pkg() == nil || !strings.HasPrefix(n.Obj().Pkg().Path(), modPath) {
				continue
			}
			inner, ok := n.Underlying().(*types.Struct)
			if !ok {
				continue
			}
			for j := 0; j < inner.NumFields(); j++ {
				if types.TypeString(inner.Field(j).Type(), func(p *types.Package) string { return p.Name() }) == want {
					cands = append(cands, inner.Field(j))
				}
			}
		}
		if len(cands) == 1 {
			return cands[0]
		}
	}
	return nil
}

// Const returns a package-level constant.
func (P *Program) Const(pkgSuffix, name string) *types.Const {
	pkg := P.Pkg(pkgSuffix)
	if pkg == nil {
		return nil
	}
	c, _ := pkg.Scope().Lookup(name).(*types.Const)
	return c
}

// Pos renders a position relative to the analysed directory.
func (P *Program) Pos(p token.Pos) string {
	if !p.IsValid() {
		return "?"
	}
	pos := P.Fset.Position(p)
	f := strings.TrimPrefix(pos.Filename, P.Dir+"/")
	return fmt.Sprintf("%s:%d", f, pos.Line)
}

// FuncsOfPkg returns the source functions (including closures) of one package.
func (P *Program) FuncsOfPkg(pkgSuffix string) []*ssa.Function {
	var out []*ssa.Function
	want := pkgPath(pkgSuffix)
	for _, fn := range P.Funcs {
		if fn.Pkg != nil && fn.Pkg.Pkg.Path() == want {
			out = append(out, fn)
		}
	}
	return out
}

// ModuleFuncs returns the source functions of the module excluding the code generator.
func (P *Program) ModuleFuncs() []*ssa.Function {
	var out []*ssa.Function
	for _, fn := range P.Funcs {
		if fn.Pkg != nil && !strings.Contains(fn.Pkg.Pkg.Path(), "/cmd/") {
			out = append(out, fn)
		}
	}
	return out
}

// outermost returns the declared function a (possibly nested) closure belongs to.
func outermost(fn *ssa.Function) *ssa.Function {
	for fn.Parent() != nil {
		fn = fn.Parent()
	}
	return fn
}

// funcName renders a stable, position-free name: (*cache).set, (*cache).set$1, hashmap.(*Map).Compute.
func funcName(fn *ssa.Function) string {
	if fn == nil {
		return "<nil>"
	}
	if fn.Parent() != nil {
		// closure: parent name + index among the parent's anonymous functions
		idx := 0
		for i, a := range fn.Parent().AnonFuncs {
			if a == fn {
				idx = i + 1
			}
		}
		return fmt.Sprintf("%s$%d", funcName(fn.Parent()), idx)
	}
	o := fn
	if o.Origin() != nil {
		o = o.Origin()
	}
	pkg := ""
	if o.Pkg != nil {
		p := o.Pkg.Pkg.Path()
		if p != modPath {
			pkg = p[strings.LastIndex(p, "/")+1:] + "."
		}
	}
	if sig := o.Signature; sig != nil && sig.Recv() != nil {
		t := sig.Recv().Type()
		ptr := ""
		if pt, ok := t.(*types.Pointer); ok {
			t = pt.Elem()
			ptr = "*"
		}
		tn := "?"
		if n, ok := t.(*types.Named); ok {
			tn = n.Obj().Name()
		}
		return fmt.Sprintf("%s(%s%s).%s", pkg, ptr, tn, cname(o))
	}
	return pkg + cname(o)
}

func origin(fn *ssa.Function) *ssa.Function {
	if fn == nil {
		return nil
	}
	if o := fn.Origin(); o != nil {
		return o
	}
	return fn
}

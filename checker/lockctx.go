package main

import (
	"fmt"
	"go/token"
	"go/types"
	"os"
	"sort"
	"strings"

	"golang.org/x/tools/go/ssa"
)

// Eviction-lock context analysis (engine B/F of DESIGN.md restricted to the fact Held(cache.evictionMutex)).
//
// heldAt(i) is a must-fact: on every path reaching instruction i the eviction lock is held by the running
// goroutine. Inside a function it is a forward must-dataflow (Lock => held, Unlock => not held, TryLock => held on
// its success edge). Across functions the entry context of f is the meet over all its call sites; closures and
// bound methods handed *synchronously* to a callee (the callee only calls the parameter) inherit the context of
// the hand-over site; anything stored, deferred, sent to the executor or started with `go` gets no context.
// Greatest fixed point over the module.
type lockCtx struct {
	cx *Ctx
	mu *types.Var
	// generalisation to other exclusive regions (the lossy buffer's busy flag): when set these replace the mutex ops
	isRel      func(ssa.Instruction) bool
	isTry      func(ssa.Instruction) bool
	drainTasks map[*ssa.Function]bool
	plain      bool // no mutex-specific exceptions / helper summaries
	funcs      []*ssa.Function
	sites      map[*ssa.Function][]ssa.Instruction // synchronous call / hand-over sites
	escape     map[*ssa.Function]string            // function value used in a way that loses the context
	entry      map[*ssa.Function]bool
	blkIn      map[*ssa.BasicBlock]bool
	poc        map[*ssa.Function]map[int]int // paramOnlyCalled memo: 1 yes 2 no 3 in progress
}

var lockCtxCache = map[*Program]*lockCtx{}

func lockContext(cx *Ctx) *lockCtx {
	if lc, ok := lockCtxCache[cx.P]; ok {
		return lc
	}
	mu := cx.P.Field("", "cache", "evictionMutex")
	if mu == nil {
		return nil
	}
	lc := &lockCtx{cx: cx, mu: mu, sites: map[*ssa.Function][]ssa.Instruction{}, escape: map[*ssa.Function]string{},
		entry: map[*ssa.Function]bool{}, blkIn: map[*ssa.BasicBlock]bool{}, poc: map[*ssa.Function]map[int]int{}}
	lc.funcs = cx.P.ModuleFuncs()
	lc.collect()
	lc.solve()
	lockCtxCache[cx.P] = lc
	return lc
}

// paramOnlyCalled: inside g, parameter #i is only invoked (or forwarded to a callee that only invokes it).
func (lc *lockCtx) paramOnlyCalled(g *ssa.Function, i int) bool {
	g = origin(g)
	if g == nil || len(g.Blocks) == 0 || i >= len(g.Params) {
		return false
	}
	m := lc.poc[g]
	if m == nil {
		m = map[int]int{}
		lc.poc[g] = m
	}
	switch m[i] {
	case 1:
		return true
	case 2, 3:
		return false
	}
	m[i] = 3
	ok := lc.valueOnlyCalled(g.Params[i])
	if ok {
		m[i] = 1
	} else {
		m[i] = 2
	}
	return ok
}

func (lc *lockCtx) valueOnlyCalled(p ssa.Value) bool {
	for _, u := range usesOf(p) {
		switch x := u.(type) {
		case *ssa.Call:
			cc := x.Common()
			if cc.Value == p && !cc.IsInvoke() {
				continue // direct invocation
			}
			callee := calleeOf(x)
			if callee == nil {
				return false
			}
			okAll := true
			for ai, a := range cc.Args {
				if a == p && !lc.paramOnlyCalled(callee, ai) {
					okAll = false
				}
			}
			if !okAll {
				return false
			}
		case *ssa.DebugRef:
		case *ssa.MakeClosure:
			// captured by a nested closure (range-over-func bodies): accept when that closure is itself only
			// handed over synchronously and only calls the captured value
			f, _ := x.Fn.(*ssa.Function)
			if f == nil {
				return false
			}
			for bi, b := range x.Bindings {
				if b == p {
					if !lc.valueOnlyCalled(f.FreeVars[bi]) {
						return false
					}
				}
			}
			if !lc.closureSync(x) {
				return false
			}
		case *ssa.Store:
			// a parameter captured by reference: spilled into a cell that closures bind; every read of the cell must
			// itself be only invoked, nothing else is ever stored into it, and the closures run synchronously
			if fa, isFA := x.Addr.(*ssa.FieldAddr); isFA && x.Val == p {
				// kept in a field of a small state object of the operation (scan := evictionScan{evict: evictNode}; scan.step()):
				// synchronous when the field is only ever invoked and objects of that type never leave the call tree
				if f := fieldOf(fa); f != nil && lc.fieldOnlyCalled(f, fa.X.Type()) {
					continue
				}
				return false
			}
			a, isAlloc := x.Addr.(*ssa.Alloc)
			if !isAlloc || x.Val != p || !lc.cellOnlyCalled(a, x, 0) {
				return false
			}
		default:
			if os.Getenv("OTTERLINT_TRACE") != "" {
				fmt.Fprintf(os.Stderr, "valueOnlyCalled: %s used by %T %v in %s\n", p.Name(), u, u, u.Parent())
			}
			return false
		}
	}
	return true
}

// cellOnlyCalled: the cell (an Alloc or a by-reference free variable) is written only by `init`, and every value read
// from it is only invoked; closures that capture the cell are synchronous.
func (lc *lockCtx) cellOnlyCalled(cell ssa.Value, init *ssa.Store, depth int) bool {
	if depth > 3 {
		return false
	}
	for _, u := range usesOf(cell) {
		switch x := u.(type) {
		case *ssa.Store:
			if x != init || x.Addr != cell {
				return false
			}
		case *ssa.UnOp:
			if x.Op != token.MUL || !lc.valueOnlyCalled(x) {
				return false
			}
		case *ssa.MakeClosure:
			f, _ := x.Fn.(*ssa.Function)
			if f == nil {
				return false
			}
			for bi, b := range x.Bindings {
				if b == cell && !lc.cellOnlyCalled(f.FreeVars[bi], nil, depth+1) {
					return false
				}
			}
			if !lc.closureSync(x) {
				return false
			}
		case *ssa.DebugRef:
		default:
			return false
		}
	}
	return true
}

// closureSync: the closure value is only used as an immediately invoked function or handed to callees that only call it.
func (lc *lockCtx) closureSync(mc *ssa.MakeClosure) bool {
	for _, uc := range usesThroughConv(mc) {
		u, xv := uc.use, uc.as
		c, ok := u.(*ssa.Call)
		if !ok {
			return false
		}
		cc := c.Common()
		if cc.Value == xv {
			continue
		}
		callee := calleeOf(c)
		if callee == nil {
			return false
		}
		for ai, a := range cc.Args {
			if a == xv && !lc.paramOnlyCalled(callee, ai) {
				return false
			}
		}
	}
	return true
}

func (lc *lockCtx) collect() {
	for _, fn := range lc.funcs {
		allInstrs(fn, func(in ssa.Instruction) {
			switch x := in.(type) {
			case *ssa.MakeClosure:
				target, _ := x.Fn.(*ssa.Function)
				if bm := boundMethod(x); bm != nil {
					target = bm
				}
				if target == nil {
					return
				}
				target = origin(target)
				for _, uc := range usesThroughConv(x) {
					u, xv := uc.use, uc.as
					switch c := u.(type) {
					case *ssa.Call:
						cc := c.Common()
						if cc.Value == xv {
							lc.sites[target] = append(lc.sites[target], c) // immediately invoked
							continue
						}
						callee := calleeOf(c)
						synchronous := callee != nil
						if callee != nil {
							for ai, a := range cc.Args {
								if a == xv && !lc.paramOnlyCalled(callee, ai) {
									synchronous = false
								}
							}
						}
						if synchronous {
							lc.sites[target] = append(lc.sites[target], c)
						} else {
							lc.escape[target] = "handed to " + describeCallee(c) + " at " + lc.cx.P.where(c) + " (not provably synchronous)"
						}
					case *ssa.Defer:
						lc.escape[target] = "deferred at " + lc.cx.P.where(c)
					case *ssa.Go:
						lc.escape[target] = "started as goroutine at " + lc.cx.P.where(c)
					case *ssa.DebugRef:
					default:
						lc.escape[target] = "stored/returned at " + lc.cx.P.where(u)
					}
				}
			case ssa.CallInstruction:
				callee := calleeOf(in)
				if callee == nil || callee.Pkg == nil || !strings.HasPrefix(callee.Pkg.Pkg.Path(), modPath) {
					return
				}
				switch in.(type) {
				case *ssa.Call:
					lc.sites[callee] = append(lc.sites[callee], in)
				case *ssa.Go:
					lc.escape[callee] = "started as goroutine at " + lc.cx.P.where(in)
				case *ssa.Defer:
					lc.escape[callee] = "deferred at " + lc.cx.P.where(in)
				}
			}
		})
	}
}

func describeCallee(c ssa.CallInstruction) string {
	if f := calleeOf(c); f != nil {
		return funcName(f)
	}
	cc := c.Common()
	if cc.IsInvoke() {
		return "interface method " + cc.Method.Name()
	}
	if f := fieldOf(cc.Value); f != nil {
		return "func field " + fname(f)
	}
	return "dynamic callee"
}

// pruneDead removes call sites that sit in functions of internal packages which nothing in the module calls
// (dead code such as Linked.Clear): they are not callers in any build of the library.
func (lc *lockCtx) pruneDead() {
	for round := 0; round < 10; round++ {
		dead := map[*ssa.Function]bool{}
		for _, fn := range lc.funcs {
			o := origin(outermost(fn))
			if o.Pkg == nil || !strings.Contains(o.Pkg.Pkg.Path(), "/internal/") {
				continue
			}
			if _, esc := lc.escape[o]; esc {
				continue
			}
			if len(lc.sites[o]) == 0 {
				dead[o] = true
			}
		}
		changed := false
		for callee, sites := range lc.sites {
			var keep []ssa.Instruction
			for _, s := range sites {
				if dead[origin(outermost(s.Parent()))] {
					changed = true
					continue
				}
				keep = append(keep, s)
			}
			lc.sites[callee] = keep
		}
		if !changed {
			break
		}
	}
}

func (lc *lockCtx) solve() {
	if !lc.plain {
		lc.pruneDead()
	}
	for _, fn := range lc.funcs {
		o := origin(fn)
		_, esc := lc.escape[o]
		lc.entry[o] = len(lc.sites[o]) > 0 && !esc
	}
	for round := 0; round < 50; round++ {
		// intra-procedural must dataflow under the current entry assumptions
		for _, fn := range lc.funcs {
			lc.flow(fn)
		}
		changed := false
		for _, fn := range lc.funcs {
			o := origin(fn)
			if !lc.entry[o] {
				continue
			}
			for _, s := range lc.sites[o] {
				if !lc.heldAtCtx(s) {
					lc.entry[o] = false
					changed = true
					break
				}
			}
		}
		if !changed {
			break
		}
	}
	for _, fn := range lc.funcs {
		lc.flow(fn)
	}
}

// effect of one instruction on the held state.
func (lc *lockCtx) step(in ssa.Instruction, held bool) bool {
	if _, isDefer := in.(*ssa.Defer); isDefer {
		return held
	}
	if lc.plain {
		if lc.isRel(in) {
			return false
		}
		return held
	}
	if mutexOp(in, lc.mu, "Lock") {
		return true
	}
	if mutexOp(in, lc.mu, "Unlock") {
		return false
	}
	// helpers that take or release the lock on behalf of their caller (unlockAndReschedule, lockAndMaintain ...)
	if c := calleeOf(in); c != nil {
		switch mutexEffect(c, lc.mu, 0) {
		case effRelease:
			return false
		case effAcquire:
			return true
		}
	}
	return held
}

type lockEffect int

const (
	effNone lockEffect = iota
	effRelease
	effAcquire
	effUnknown
)

var mutexEffectMemo = map[*ssa.Function]map[*types.Var]lockEffect{}

// mutexEffect summarises what a module function does to mutex field mu as seen by its caller:
// effRelease - every return path ends with the lock released by this function (it unlocks without having locked);
// effAcquire - every return path ends with the lock held, taken by this function;
// effNone    - balanced or untouched.
func mutexEffect(fn *ssa.Function, mu *types.Var, depth int) lockEffect {
	fn = origin(fn)
	if fn == nil || len(fn.Blocks) == 0 || depth > 4 || fn.Pkg == nil || !strings.HasPrefix(fn.Pkg.Pkg.Path(), modPath) {
		return effNone
	}
	if m, ok := mutexEffectMemo[fn]; ok {
		if e, ok := m[mu]; ok {
			return e
		}
	} else {
		mutexEffectMemo[fn] = map[*types.Var]lockEffect{}
	}
	mutexEffectMemo[fn][mu] = effNone // recursion guard
	// abstract state per block: -1 released-by-us, 0 untouched/balanced, +1 acquired-by-us, 9 conflicting
	const top = 9
	state := map[*ssa.BasicBlock]int{}
	seen := map[*ssa.BasicBlock]bool{fn.Blocks[0]: true}
	work := []*ssa.BasicBlock{fn.Blocks[0]}
	touches := false
	exitStates := map[int]bool{}
	for len(work) > 0 {
		b := work[0]
		work = work[1:]
		cur := state[b]
		for _, in := range b.Instrs {
			if _, isDefer := in.(*ssa.Defer); isDefer {
				continue
			}
			switch {
			case mutexOp(in, mu, "Lock"):
				touches = true
				cur++
			case mutexOp(in, mu, "Unlock"):
				touches = true
				cur--
			default:
				if c := calleeOf(in); c != nil && origin(c) != fn {
					switch mutexEffect(c, mu, depth+1) {
					case effRelease:
						touches = true
						cur--
					case effAcquire:
						touches = true
						cur++
					}
				}
			}
			if _, isRet := in.(*ssa.Return); isRet {
				exitStates[cur] = true
			}
		}
		for _, s := range b.Succs {
			if !seen[s] {
				seen[s] = true
				state[s] = cur
				work = append(work, s)
			} else if state[s] != cur {
				state[s] = top
			}
		}
	}
	e := effNone
	if touches && len(exitStates) == 1 {
		if exitStates[-1] {
			e = effRelease
		} else if exitStates[1] {
			e = effAcquire
		}
	}
	mutexEffectMemo[fn][mu] = e
	return e
}

// unlockLike / lockLike: direct mutex operations or calls of helpers with that net effect.
func unlockLike(in ssa.Instruction, mu *types.Var) bool {
	if mutexOp(in, mu, "Unlock") {
		return true
	}
	if c := calleeOf(in); c != nil {
		return mutexEffect(c, mu, 0) == effRelease
	}
	return false
}

func lockLike(in ssa.Instruction, mu *types.Var) bool {
	if mutexOp(in, mu, "Lock") {
		return true
	}
	if c := calleeOf(in); c != nil {
		return mutexEffect(c, mu, 0) == effAcquire
	}
	return false
}

func (lc *lockCtx) flow(fn *ssa.Function) {
	if len(fn.Blocks) == 0 {
		return
	}
	for _, b := range fn.Blocks {
		lc.blkIn[b] = true
	}
	lc.blkIn[fn.Blocks[0]] = lc.entry[origin(fn)]
	if fn.Recover != nil {
		lc.blkIn[fn.Recover] = false
	}
	for changed := true; changed; {
		changed = false
		for _, b := range fn.Blocks {
			held := lc.blkIn[b]
			for _, in := range b.Instrs {
				held = lc.step(in, held)
			}
			for si, s := range b.Succs {
				out := held
				if ifi, ok := b.Instrs[len(b.Instrs)-1].(*ssa.If); ok {
					c, neg := stripNot(ifi.Cond)
					trueIdx := 0
					if neg {
						trueIdx = 1
					}
					if ph, isPhi := c.(*ssa.Phi); isPhi && si == trueIdx {
						// a short-circuit conjunction evaluated as a value (a switch case `flag.Load() == 0 && flag.CAS(0,1)`):
						// true only when its last operand - the try - succeeded
						tries, other := 0, false
						for _, e := range ph.Edges {
							if k, isK := e.(*ssa.Const); isK {
								if bv, isB := constBool(k); isB && !bv {
									continue
								}
							}
							if call, isCall := e.(*ssa.Call); isCall && ((lc.plain && lc.isTry(call)) || (!lc.plain && mutexOp(call, lc.mu, "TryLock"))) {
								tries++
								continue
							}
							other = true
						}
						if tries > 0 && !other {
							out = true
						}
					}
					if call, ok := c.(*ssa.Call); ok {
						if lc.plain {
							if lc.isTry(call) && si == trueIdx {
								out = true
							}
						} else if mutexOp(call, lc.mu, "TryLock") && si == trueIdx {
							out = true
						}
						// token hand-off (named exception): in drainBuffers the executor task that wins the
						// token passed in by scheduleDrainBuffers runs with the scheduler's lock
						if !lc.plain && si == trueIdx && (cname(fn) == "drainBuffers" || lc.isDrainTask(fn)) {
							if tok, isClaim := tokenClaim(call); isClaim {
								if _, isParam := rootOf(tok).(*ssa.Parameter); isParam {
									out = true
								}
							}
						}
					}
				}
				if s == fn.Blocks[0] {
					continue
				}
				if lc.blkIn[s] && !out {
					lc.blkIn[s] = false
					changed = true
				}
			}
		}
	}
}

func (lc *lockCtx) heldAt(in ssa.Instruction) bool {
	if !lc.plain && cname(outermost(in.Parent())) == "newCache" {
		return true // named exception: the cache object is not yet published while it is being constructed
	}
	b := in.Block()
	held := lc.blkIn[b]
	for _, x := range b.Instrs {
		if x == in {
			return held
		}
		held = lc.step(x, held)
	}
	return held
}

// heldAtCtx refines heldAt with one level of parameter correlation: a site guarded by a boolean parameter p == T
// (alreadyLocked) holds the lock if every caller that passes the constant T does.
func (lc *lockCtx) heldAtCtx(in ssa.Instruction) bool {
	if lc.heldAt(in) {
		return true
	}
	fn := in.Parent()
	for _, g := range guardsAt(in.Block()) {
		p, ok := g.Cond.(*ssa.Parameter)
		if !ok {
			continue
		}
		idx := -1
		for i, q := range fn.Params {
			if q == p {
				idx = i
			}
		}
		if idx < 0 {
			continue
		}
		sites := lc.sites[origin(fn)]
		if len(sites) == 0 {
			continue
		}
		all := true
		for _, s := range sites {
			cc := callCommon(s)
			if cc == nil || idx >= len(cc.Args) {
				all = false
				break
			}
			b, isConst := constBool(cc.Args[idx])
			if !isConst {
				all = false
				break
			}
			if b == g.Truth && !lc.heldAtCtx(s) {
				all = false
				break
			}
		}
		if all {
			return true
		}
	}
	return false
}

func (lc *lockCtx) heldAtEntry(fn *ssa.Function) bool { return lc.entry[origin(fn)] }

func (lc *lockCtx) explain(in ssa.Instruction) string {
	fn := in.Parent()
	if lc.heldAt(in) {
		if lc.entry[origin(fn)] {
			var cs []string
			for _, s := range lc.sites[origin(fn)] {
				cs = append(cs, funcName(s.Parent()))
			}
			sort.Strings(cs)
			cs = uniq(cs)
			return fmt.Sprintf("%s is entered only with the lock held (callers: %s)", funcName(fn), strings.Join(cs, ", "))
		}
		return "a Lock / successful TryLock dominates it inside " + funcName(fn)
	}
	o := origin(fn)
	if why, ok := lc.escape[o]; ok {
		return funcName(fn) + " runs without lock context: " + why
	}
	if len(lc.sites[o]) == 0 {
		return funcName(fn) + " has no synchronous caller in the module (API entry point) and does not take the lock before this point"
	}
	for _, s := range lc.sites[o] {
		if !lc.heldAt(s) {
			return fmt.Sprintf("%s is reachable without the lock: called from %s at %s", funcName(fn), funcName(s.Parent()), lc.cx.P.where(s))
		}
	}
	return "the lock is released before this point inside " + funcName(fn)
}

func uniq(ss []string) []string {
	var out []string
	for i, s := range ss {
		if i == 0 || s != ss[i-1] {
			out = append(out, s)
		}
	}
	return out
}

var busyCtxCache = map[*Program]*lockCtx{}

// busyContext: the same must-held analysis for the striped read buffer's busy flag
// (acquired on the success edge of busy.CompareAndSwap(0,1), released by busy.Store(0)).
func busyContext(cx *Ctx) *lockCtx {
	if lc, ok := busyCtxCache[cx.P]; ok {
		return lc
	}
	busy := cx.P.Field(lossyPkg, "Striped", "busy")
	if busy == nil {
		return nil
	}
	lc := &lockCtx{cx: cx, mu: busy, plain: true, sites: map[*ssa.Function][]ssa.Instruction{}, escape: map[*ssa.Function]string{},
		entry: map[*ssa.Function]bool{}, blkIn: map[*ssa.BasicBlock]bool{}, poc: map[*ssa.Function]map[int]int{}}
	lc.isRel = func(in ssa.Instruction) bool { return flagRelease(in, busy) }
	lc.isTry = func(in ssa.Instruction) bool { return flagTry(in, busy) }
	lc.funcs = cx.P.FuncsOfPkg(lossyPkg)
	lc.collect()
	lc.solve()
	busyCtxCache[cx.P] = lc
	return lc
}

// ---- a flag used as a try-lock, possibly wrapped in a small type ----
// The flag is an atomic word: taken by CompareAndSwap(0,1) (success edge), released by Store(0). When the field has a
// struct type of the module (type tableLock struct{ state atomic.Uint32 }) the operations are its methods: a method is
// a release when all its paths store 0 into the word, a try when it returns true only if its CAS(0,1) succeeded.

func innerWordFields(f *types.Var) []*types.Var {
	var out []*types.Var
	if st, ok := f.Type().Underlying().(*types.Struct); ok {
		if n, isNamed := f.Type().(*types.Named); isNamed && n.Obj().Pkg() != nil && strings.HasPrefix(n.Obj().Pkg().Path(), modPath) {
			for i := 0; i < st.NumFields(); i++ {
				out = append(out, st.Field(i))
			}
		}
	}
	return out
}

func flagRelease(in ssa.Instruction, f *types.Var) bool {
	if isStoreConst(in, f, 0) {
		return true
	}
	c := calleeOf(in)
	// a helper of the module that stores 0 into the flag on every path (a "...Locked" stage that releases the flag it was
	// entered with) ends the region like the store itself
	if c != nil && c.Pkg != nil && strings.HasPrefix(c.Pkg.Pkg.Path(), modPath) && len(origin(c).Blocks) > 0 {
		if _, isCall := in.(*ssa.Call); isCall && mustPerform(origin(c), func(x ssa.Instruction) bool { return isStoreConst(x, f, 0) }, map[*ssa.Function]int{}) {
			return true
		}
	}
	inner := innerWordFields(f)
	if c == nil || len(inner) == 0 || !sameField(recvField(in), f) || c.Pkg == nil || !strings.HasPrefix(c.Pkg.Pkg.Path(), modPath) {
		return false
	}
	return mustPerform(origin(c), func(x ssa.Instruction) bool {
		for _, w := range inner {
			if isStoreConst(x, w, 0) {
				return true
			}
		}
		return false
	}, map[*ssa.Function]int{})
}

func flagTry(in ssa.Instruction, f *types.Var) bool {
	if isCASConst(in, f, 0, 1) {
		return true
	}
	c := calleeOf(in)
	// a try method of the owner itself (func (s *Striped) tryLock() bool { return s.busy.Load() == 0 && s.busy.CompareAndSwap(0, 1) })
	if c != nil && c.Pkg != nil && strings.HasPrefix(c.Pkg.Pkg.Path(), modPath) && len(origin(c).Blocks) > 0 {
		if _, isCall := in.(*ssa.Call); isCall && tryMethod(origin(c), []*types.Var{f}, 0) {
			return true
		}
	}
	inner := innerWordFields(f)
	if c == nil || len(inner) == 0 || !sameField(recvField(in), f) || c.Pkg == nil || !strings.HasPrefix(c.Pkg.Pkg.Path(), modPath) {
		return false
	}
	return tryMethod(origin(c), inner, 0)
}

// tryMethod: the method returns a bool that is true only when a CAS(0,1) on one of the inner words succeeded.
func tryMethod(fn *ssa.Function, inner []*types.Var, depth int) bool {
	if fn == nil || depth > 3 || fn.Signature.Results().Len() != 1 || len(fn.Blocks) == 0 {
		return false
	}
	var winning func(v ssa.Value, d int) bool
	winning = func(v ssa.Value, d int) bool {
		if d > 4 {
			return false
		}
		switch x := v.(type) {
		case *ssa.Const:
			b, ok := constBool(x)
			return ok && !b // constant false never claims the lock
		case *ssa.Call:
			for _, w := range inner {
				if isCASConst(x, w, 0, 1) {
					return true
				}
			}
			// another try method on the same receiver
			if c := calleeOf(x); c != nil && len(x.Call.Args) > 0 && len(fn.Params) > 0 && x.Call.Args[0] == ssa.Value(fn.Params[0]) {
				return tryMethod(origin(c), inner, depth+1)
			}
		case *ssa.Phi:
			for _, e := range x.Edges {
				if !winning(e, d+1) {
					return false
				}
			}
			return true
		}
		return false
	}
	ok, n := true, 0
	allInstrs(fn, func(in ssa.Instruction) {
		if r, isRet := in.(*ssa.Return); isRet && len(r.Results) == 1 {
			n++
			if !winning(r.Results[0], 0) {
				ok = false
			}
		}
	})
	return ok && n > 0
}

// usesThroughConv: the uses of a function value, looking through conversions to a named function type
// (type evictFunc func(...); f(evictFunc(c.evictNode))): each use with the value it sees.
type convUse struct {
	use ssa.Instruction
	as  ssa.Value
}

func usesThroughConv(v ssa.Value) []convUse {
	var out []convUse
	for _, u := range usesOf(v) {
		if ct, ok := u.(*ssa.ChangeType); ok {
			out = append(out, usesThroughConv(ct)...)
			continue
		}
		out = append(out, convUse{u, v})
	}
	return out
}

// fieldOnlyCalled: the function-typed field f of the module struct type behind t is, everywhere in the module, only
// stored into and invoked (never copied out, compared, passed on), and values of that struct type stay inside the call
// tree that created them: they are not stored into other objects or globals, not converted to interfaces, not captured
// by closures, not handed to go / defer statements.
func (lc *lockCtx) fieldOnlyCalled(f *types.Var, t types.Type) bool {
	key := f.Origin()
	if v, ok := fieldOnlyCalledMemo[key]; ok {
		return v
	}
	fieldOnlyCalledMemo[key] = false
	tn := namedTypeName(derefType(t))
	if tn == "" {
		return false
	}
	if n, ok := derefType(t).(*types.Named); !ok || n.Obj().Pkg() == nil || !strings.HasPrefix(n.Obj().Pkg().Path(), modPath) {
		return false
	}
	isT := func(v ssa.Value) bool { return v != nil && namedTypeName(derefType(v.Type())) == tn }
	ok := true
	why := ""
	for _, fn := range lc.cx.P.ModuleFuncs() {
		allInstrs(fn, func(in ssa.Instruction) {
			if !ok {
				return
			}
			// uses of the field
			var fieldVal ssa.Value
			switch x := in.(type) {
			case *ssa.FieldAddr:
				if sameField(fieldOf(x), key) {
					for _, r := range *x.Referrers() {
						switch y := r.(type) {
						case *ssa.Store:
							if y.Addr != ssa.Value(x) {
								ok, why = false, "address of the field stored"
							}
						case *ssa.UnOp:
							fieldVal = y
							for _, u := range usesOf(y) {
								if c, isC := u.(*ssa.Call); isC && c.Call.Value == ssa.Value(y) {
									continue
								}
								if _, dbg := u.(*ssa.DebugRef); dbg {
									continue
								}
								ok, why = false, "field value used other than by calling it in "+fn.Name()
							}
						case *ssa.DebugRef:
						default:
							ok, why = false, "field address escapes"
						}
					}
				}
			case *ssa.Field:
				if sameField(fieldOf(x), key) {
					for _, u := range usesOf(x) {
						if c, isC := u.(*ssa.Call); isC && c.Call.Value == ssa.Value(x) {
							continue
						}
						if _, dbg := u.(*ssa.DebugRef); dbg {
							continue
						}
						ok, why = false, "field value used other than by calling it"
					}
				}
			}
			_ = fieldVal
			// objects of the type
			esc := func(v ssa.Value) {
				if isT(v) {
					ok, why = false, fmt.Sprintf("object of the type escapes via %T in %s", in, fn.Name())
				}
			}
			switch x := in.(type) {
			case *ssa.Store:
				if isT(x.Val) {
					if _, local := x.Addr.(*ssa.Alloc); !local {
						esc(x.Val)
					}
				}
			case *ssa.MakeInterface:
				esc(x.X)
			case *ssa.MakeClosure:
				for _, b := range x.Bindings {
					if isT(b) {
						// a pointer to the object captured by a closure: only when the closure is synchronous
						if !lc.closureSync(x) {
							esc(b)
						}
					}
				}
			case *ssa.Go:
				for _, a := range x.Call.Args {
					esc(a)
				}
			case *ssa.Defer:
				for _, a := range x.Call.Args {
					esc(a)
				}
			case *ssa.Send:
				esc(x.X)
			case *ssa.MapUpdate:
				esc(x.Value)
			}
		})
	}
	if os.Getenv("OTTERLINT_TRACE") != "" && !ok {
		fmt.Fprintf(os.Stderr, "fieldOnlyCalled %s.%s: %s\n", tn, f.Name(), why)
	}
	fieldOnlyCalledMemo[key] = ok
	return ok
}

var fieldOnlyCalledMemo = map[*types.Var]bool{}

// isDrainTask: fn is (or is directly called by) the task that scheduleDrainBuffers hands to the executor - a closure,
// the function that closure calls, or the method behind a method value (handoff.run). That task and the scheduler share
// the hand-off token; whoever claims it owns the lock the scheduler took.
func (lc *lockCtx) isDrainTask(fn *ssa.Function) bool {
	if lc.drainTasks == nil {
		lc.drainTasks = map[*ssa.Function]bool{}
		sched := lc.cx.P.Func("", "cache", "scheduleDrainBuffers")
		ex := lc.cx.P.Field("", "cache", "executor")
		if sched != nil && ex != nil {
			allInstrs(sched, func(in ssa.Instruction) {
				cc := callCommon(in)
				if cc == nil || cc.IsInvoke() || cc.StaticCallee() != nil || !sameField(fieldOf(cc.Value), ex) || len(cc.Args) != 1 {
					return
				}
				add := func(f *ssa.Function) {
					if f == nil {
						return
					}
					lc.drainTasks[origin(f)] = true
					allInstrs(f, func(x ssa.Instruction) {
						if c := calleeOf(x); c != nil && c.Pkg != nil && strings.HasPrefix(c.Pkg.Pkg.Path(), modPath) {
							lc.drainTasks[origin(c)] = true
						}
					})
				}
				add(closureOf(cc.Args[0]))
				for _, f := range funcValuesOf(cc.Args[0], 0, map[ssa.Value]bool{}, nil) {
					add(f)
				}
			})
		}
	}
	return lc.drainTasks[origin(fn)]
}

package main

import (
	"fmt"
	"go/constant"
	"go/token"
	"go/types"
	"sort"
	"strings"

	"golang.org/x/tools/go/ssa"
)

// Engine E (AGREE): SSA values -> canonical expression terms, so that two sibling computations can be compared
// as functions of their inputs. Constants are folded, commutative/associative operators flattened and sorted,
// loads of the same field identified, integer conversions dropped (the compared code is all uint64).
type Term struct {
	Op   string // "c" const, "v" variable/opaque, or operator / call:name / field:name / index
	C    uint64
	Name string
	Args []*Term
}

func tConst(c uint64) *Term   { return &Term{Op: "c", C: c} }
func tVar(name string) *Term  { return &Term{Op: "v", Name: name} }
func (t *Term) isConst() bool { return t != nil && t.Op == "c" }

func (t *Term) String() string {
	if t == nil {
		return "<nil>"
	}
	switch t.Op {
	case "c":
		if t.C > 0xffff {
			return fmt.Sprintf("%#x", t.C)
		}
		return fmt.Sprintf("%d", t.C)
	case "v":
		return t.Name
	}
	var as []string
	for _, a := range t.Args {
		as = append(as, a.String())
	}
	return t.Op + "(" + strings.Join(as, ",") + ")"
}

var commutative = map[string]bool{"+": true, "*": true, "&": true, "|": true, "^": true}

func mk(op string, args ...*Term) *Term {
	// flatten
	if commutative[op] {
		var flat []*Term
		for _, a := range args {
			if a.Op == op {
				flat = append(flat, a.Args...)
			} else {
				flat = append(flat, a)
			}
		}
		// fold constants
		var acc uint64
		hasC := false
		var rest []*Term
		for _, a := range flat {
			if a.isConst() {
				if !hasC {
					acc = a.C
					hasC = true
				} else {
					switch op {
					case "+":
						acc += a.C
					case "*":
						acc *= a.C
					case "&":
						acc &= a.C
					case "|":
						acc |= a.C
					case "^":
						acc ^= a.C
					}
				}
			} else {
				rest = append(rest, a)
			}
		}
		if hasC {
			identity := (op == "+" && acc == 0) || (op == "|" && acc == 0) || (op == "^" && acc == 0) || (op == "*" && acc == 1) || (op == "&" && acc == ^uint64(0))
			absorbing := (op == "*" && acc == 0) || (op == "&" && acc == 0)
			if absorbing {
				return tConst(0)
			}
			if !identity || len(rest) == 0 {
				rest = append(rest, tConst(acc))
			}
		}
		if len(rest) == 1 {
			return rest[0]
		}
		sort.Slice(rest, func(i, j int) bool { return rest[i].String() < rest[j].String() })
		return &Term{Op: op, Args: rest}
	}
	if op == "&^" && len(args) == 2 && !(args[0].isConst() && args[1].isConst()) {
		// x &^ y == x & ^y: one canonical form for both spellings
		return mk("&", args[0], mk("u^", args[1]))
	}
	if op == "u^" && len(args) == 1 && args[0].isConst() {
		return tConst(^args[0].C)
	}
	if op == "<<" && len(args) == 2 && args[1].isConst() && args[1].C < 64 && !args[0].isConst() {
		// x << c == x * 2^c in modular arithmetic: one canonical form for both spellings
		return mk("*", args[0], tConst(uint64(1)<<args[1].C))
	}
	if len(args) == 2 && args[0].isConst() && args[1].isConst() {
		a, b := args[0].C, args[1].C
		switch op {
		case "<<":
			return tConst(a << b)
		case ">>":
			return tConst(a >> b)
		case "-":
			return tConst(a - b)
		case "&^":
			return tConst(a &^ b)
		}
	}
	if len(args) == 2 && args[1].isConst() && (op == "<<" || op == ">>") && args[0].Op == op && len(args[0].Args) == 2 && args[0].Args[1].isConst() {
		return mk(op, args[0].Args[0], tConst(args[0].Args[1].C+args[1].C))
	}
	if len(args) == 2 && args[1].isConst() && args[1].C == 0 && (op == "<<" || op == ">>" || op == "-") {
		return args[0]
	}
	if len(args) == 2 && args[0].isConst() && args[0].C == 0 && (op == "<<" || op == ">>") {
		return tConst(0)
	}
	return &Term{Op: op, Args: args}
}

// termBuilder converts SSA values of one function.
type termBuilder struct {
	subst  map[ssa.Value]*Term
	depth  int
	inline bool // pure straight-line helpers of the module are inlined into the term
}

// newInliningTermBuilder: terms see through small pure helpers (used where two functions must agree on a formula that
// may have been factored out into a helper type).
func newInliningTermBuilder() *termBuilder {
	return &termBuilder{subst: map[ssa.Value]*Term{}, inline: true}
}

func newTermBuilder() *termBuilder { return &termBuilder{subst: map[ssa.Value]*Term{}} }

func (tb *termBuilder) of(v ssa.Value) *Term {
	if t, ok := tb.subst[v]; ok {
		return t
	}
	tb.depth++
	defer func() { tb.depth-- }()
	if tb.depth > 60 {
		return tVar("deep:" + v.Name())
	}
	switch x := v.(type) {
	case *ssa.Const:
		if x.Value == nil {
			return tVar("zero")
		}
		if x.Value.Kind() == constant.Int {
			if u, ok := constant.Uint64Val(x.Value); ok {
				return tConst(u)
			}
			if i, ok := constant.Int64Val(x.Value); ok {
				return tConst(uint64(i))
			}
		}
		return tVar("const:" + x.Value.ExactString())
	case *ssa.Parameter:
		for i, p := range x.Parent().Params {
			if p == x {
				return tVar(fmt.Sprintf("param%d", i))
			}
		}
	case *ssa.Convert:
		if isIntegral(x.Type()) && isIntegral(x.X.Type()) {
			return tb.of(x.X)
		}
		return mk("conv:"+x.Type().String(), tb.of(x.X))
	case *ssa.ChangeType:
		return tb.of(x.X)
	case *ssa.BinOp:
		// unsigned division / remainder by a power of two are shifts / masks
		if (x.Op == token.QUO || x.Op == token.REM) && isUnsigned(x.X.Type()) {
			if c, ok := constUint(x.Y); ok && c > 0 && c&(c-1) == 0 {
				k := uint64(0)
				for (uint64(1) << k) < c {
					k++
				}
				if x.Op == token.QUO {
					return mk(">>", tb.of(x.X), tConst(k))
				}
				return mk("&", tb.of(x.X), tConst(c-1))
			}
		}
		return mk(x.Op.String(), tb.of(x.X), tb.of(x.Y))
	case *ssa.UnOp:
		if x.Op == token.MUL {
			return tb.addr(x.X)
		}
		return mk("u"+x.Op.String(), tb.of(x.X))
	case *ssa.Extract:
		if c, ok := x.Tuple.(*ssa.Call); ok {
			if rs := tb.inlineCall(c); rs != nil && x.Index < len(rs) {
				return rs[x.Index]
			}
		}
	case *ssa.Call:
		if rs := tb.inlineCall(x); len(rs) == 1 {
			return rs[0]
		}
		if c := x.Call.StaticCallee(); c != nil {
			var as []*Term
			for _, a := range x.Call.Args {
				as = append(as, tb.of(a))
			}
			return mk("call:"+origin(c).Name(), as...)
		}
		if b, ok := x.Call.Value.(*ssa.Builtin); ok {
			var as []*Term
			for _, a := range x.Call.Args {
				as = append(as, tb.of(a))
			}
			return mk("builtin:"+b.Name(), as...)
		}
		if x.Call.IsInvoke() {
			as := []*Term{tb.of(x.Call.Value)}
			for _, a := range x.Call.Args {
				as = append(as, tb.of(a))
			}
			return mk("invoke:"+x.Call.Method.Name(), as...)
		}
	case *ssa.Field:
		st, _ := x.X.Type().Underlying().(*types.Struct)
		if st != nil {
			base := tb.of(x.X)
			if strings.HasPrefix(base.Op, "struct:") && x.Field < len(base.Args) {
				return base.Args[x.Field] // field of a struct value built on the spot
			}
			return mk("field:"+st.Field(x.Field).Name(), base)
		}
	case *ssa.Phi:
		return tVar("phi:" + x.Comment + ":" + x.Name())
	}
	return tVar("opaque:" + v.Name())
}

// addr renders a load from an address.
func (tb *termBuilder) addr(a ssa.Value) *Term {
	switch x := a.(type) {
	case *ssa.Alloc:
		if t := tb.structLit(x); t != nil {
			return t
		}
	case *ssa.FieldAddr:
		st := derefStruct(x.X.Type())
		n := "?"
		if st != nil {
			n = st.Field(x.Field).Name()
		}
		// a local copy of a struct value (spilled value receiver / parameter): the field of the value stored into it
		if al, ok := x.X.(*ssa.Alloc); ok {
			if v := wholeStore(al); v != nil {
				base := tb.of(v)
				if strings.HasPrefix(base.Op, "struct:") && x.Field < len(base.Args) {
					return base.Args[x.Field]
				}
				return mk("field:"+n, base)
			}
			// a local struct built field by field (a state object filled once): the value stored into the field
			if lit := tb.structLit(al); lit != nil && strings.HasPrefix(lit.Op, "struct:") && x.Field < len(lit.Args) && !escapesBeforeRead(al) {
				return lit.Args[x.Field]
			}
		}
		return mk("field:"+n, tb.of(x.X))
	case *ssa.IndexAddr:
		return mk("index", tb.of(x.X), tb.of(x.Index))
	case *ssa.Global:
		return tVar("global:" + x.Name())
	}
	return mk("load", tb.of(a))
}

func isUnsigned(t types.Type) bool {
	b, ok := t.Underlying().(*types.Basic)
	return ok && b.Info()&types.IsUnsigned != 0
}

func isIntegral(t types.Type) bool {
	b, ok := t.Underlying().(*types.Basic)
	return ok && b.Info()&types.IsInteger != 0
}

// inlineCall: the results of a call of a small pure helper of the module, as terms over the caller's values. A helper
// qualifies when it is straight-line code (one block) without stores other than building a struct literal, without
// calls of functions that are not themselves terms; nil when the call is not inlined.
func (tb *termBuilder) inlineCall(x *ssa.Call) []*Term {
	if !tb.inline || x.Call.IsInvoke() || tb.depth > 24 {
		return nil
	}
	c := x.Call.StaticCallee()
	if c == nil {
		return nil
	}
	if _, isClosure := x.Call.Value.(*ssa.MakeClosure); isClosure {
		return nil
	}
	o := origin(c)
	if o == nil || o.Pkg == nil || !strings.HasPrefix(o.Pkg.Pkg.Path(), modPath) || len(o.Blocks) == 0 || len(o.Params) != len(x.Call.Args) {
		return nil
	}
	if strings.HasSuffix(o.Pkg.Pkg.Path(), "internal/xmath") {
		return nil // the arithmetic vocabulary of the rules (RoundUpPowerOf2, SaturatedAdd, Abs) stays named
	}
	// straight-line helpers, and helpers whose only other exits are panics (argument validation): the blocks on the way
	// to the single return are the body; results must not depend on which way was taken (no phi)
	var body []ssa.Instruction
	if len(o.Blocks) == 1 {
		body = o.Blocks[0].Instrs
	} else {
		var rets []*ssa.Return
		for _, b := range o.Blocks {
			if r, isR := b.Instrs[len(b.Instrs)-1].(*ssa.Return); isR {
				rets = append(rets, r)
			}
		}
		if len(rets) != 1 || len(o.Blocks) > 16 {
			return nil
		}
		for _, b := range o.Blocks {
			if b != rets[0].Block() && !blockReaches(b, rets[0].Block()) {
				continue // leads only to a panic
			}
			for _, in := range b.Instrs {
				switch in.(type) {
				case *ssa.Phi:
					return nil
				case *ssa.If, *ssa.Jump:
					continue
				}
				body = append(body, in)
			}
		}
		for _, b := range o.Blocks { // no loops
			for _, su := range b.Succs {
				if su.Index <= b.Index && blockReaches(su, b) {
					return nil
				}
			}
		}
	}
	var ret *ssa.Return
	for _, in := range body {
		switch y := in.(type) {
		case *ssa.Return:
			ret = y
		case *ssa.Store:
			// only stores into a local struct literal, or the spill of a struct value into a local
			if _, ok := y.Addr.(*ssa.Alloc); ok {
				continue
			}
			fa, ok := y.Addr.(*ssa.FieldAddr)
			if !ok {
				return nil
			}
			if _, ok := fa.X.(*ssa.Alloc); !ok {
				return nil
			}
		case *ssa.Go, *ssa.Defer, *ssa.MapUpdate, *ssa.Send, *ssa.Panic, *ssa.RunDefers:
			return nil
		case *ssa.Call:
			if y.Call.IsInvoke() {
				continue // node / hasher accessors stay opaque terms
			}
			if cal := y.Call.StaticCallee(); cal != nil && isAtomicOrSync(cal) {
				return nil
			}
		}
	}
	if ret == nil || len(ret.Results) == 0 {
		return nil
	}
	child := &termBuilder{subst: map[ssa.Value]*Term{}, depth: tb.depth + 1, inline: true}
	for i, p := range o.Params {
		child.subst[p] = tb.of(x.Call.Args[i])
	}
	var out []*Term
	for _, r := range ret.Results {
		out = append(out, child.of(r))
	}
	return out
}

func isAtomicOrSync(f *ssa.Function) bool {
	if f.Pkg == nil {
		return false
	}
	p := f.Pkg.Pkg.Path()
	return p == "sync" || p == "sync/atomic"
}

// structLit: a load of a local struct that was built field by field right there (composite literal).
func (tb *termBuilder) structLit(a *ssa.Alloc) *Term {
	pt, ok := a.Type().Underlying().(*types.Pointer)
	if !ok {
		return nil
	}
	st, ok := pt.Elem().Underlying().(*types.Struct)
	if !ok || a.Parent() == nil {
		return nil
	}
	if v := wholeStore(a); v != nil {
		// a local copy of a struct value (spilled receiver / parameter): the value itself, unless fields are overwritten
		over := false
		for _, u := range *a.Referrers() {
			if fa, ok := u.(*ssa.FieldAddr); ok {
				for _, uu := range *fa.Referrers() {
					if st, isS := uu.(*ssa.Store); isS && st.Addr == ssa.Value(fa) {
						over = true
					}
				}
			}
		}
		if !over {
			return tb.of(v)
		}
		return nil
	}
	fields := make([]*Term, st.NumFields())
	for _, b := range a.Parent().Blocks {
		for _, in := range b.Instrs {
			s, ok := in.(*ssa.Store)
			if !ok {
				continue
			}
			fa, ok := s.Addr.(*ssa.FieldAddr)
			if !ok || fa.X != ssa.Value(a) {
				continue
			}
			if fields[fa.Field] != nil {
				return nil // written twice: not a plain literal
			}
			fields[fa.Field] = tb.of(s.Val)
		}
	}
	for i := range fields {
		if fields[i] == nil {
			fields[i] = tConst(0)
		}
	}
	return mk("struct:"+namedTypeName(pt.Elem()), fields...)
}

// wholeStore: the single value stored into a local as a whole (*alloc = v), nil when there is none or several.
func wholeStore(a *ssa.Alloc) ssa.Value {
	var v ssa.Value
	n := 0
	if a.Parent() == nil {
		return nil
	}
	for _, b := range a.Parent().Blocks {
		for _, in := range b.Instrs {
			if s, ok := in.(*ssa.Store); ok && s.Addr == ssa.Value(a) {
				v = s.Val
				n++
			}
		}
	}
	if n != 1 {
		return nil
	}
	return v
}

// linearForm: a term over + / - / negation / multiplication by a constant as a map atom -> coefficient (the constant
// part under "1"); atoms are the printed non-linear subterms. Two spellings of one linear expression - a - (b - c),
// a + c - b, c - b + a - have the same form (modular arithmetic: coefficients wrap like the values do).
func linearForm(t *Term) map[string]int64 {
	out := map[string]int64{}
	var add func(t *Term, k int64)
	add = func(t *Term, k int64) {
		switch {
		case t.isConst():
			out["1"] += k * int64(t.C)
		case t.Op == "+":
			for _, a := range t.Args {
				add(a, k)
			}
		case t.Op == "-" && len(t.Args) == 2:
			add(t.Args[0], k)
			add(t.Args[1], -k)
		case t.Op == "u-" && len(t.Args) == 1:
			add(t.Args[0], -k)
		case t.Op == "*":
			var c *Term
			var rest []*Term
			for _, a := range t.Args {
				if a.isConst() && c == nil {
					c = a
				} else {
					rest = append(rest, a)
				}
			}
			if c != nil && len(rest) == 1 {
				add(rest[0], k*int64(c.C))
				return
			}
			out[t.String()] += k
		default:
			out[t.String()] += k
		}
	}
	add(t, 1)
	for a, k := range out {
		if k == 0 {
			delete(out, a)
		}
	}
	return out
}

func sameLinear(a, b map[string]int64) bool {
	if len(a) != len(b) {
		return false
	}
	for k, v := range a {
		if b[k] != v {
			return false
		}
	}
	return true
}

func blockReaches(from, to *ssa.BasicBlock) bool {
	seen := map[*ssa.BasicBlock]bool{}
	var dfs func(b *ssa.BasicBlock) bool
	dfs = func(b *ssa.BasicBlock) bool {
		if b == to {
			return true
		}
		if seen[b] {
			return false
		}
		seen[b] = true
		for _, s := range b.Succs {
			if dfs(s) {
				return true
			}
		}
		return false
	}
	for _, s := range from.Succs {
		if dfs(s) {
			return true
		}
	}
	return false
}

// escapesBeforeRead: the address of the local is handed to something (a call, a store, a closure) - its fields may then
// change behind the literal. Loads, field addresses used for loads / the initialising stores do not count.
func escapesBeforeRead(al *ssa.Alloc) bool {
	for _, u := range *al.Referrers() {
		switch x := u.(type) {
		case *ssa.FieldAddr:
			for _, uu := range *x.Referrers() {
				switch y := uu.(type) {
				case *ssa.UnOp, *ssa.DebugRef:
				case *ssa.Store:
					if y.Addr != ssa.Value(x) {
						return true
					}
				default:
					return true
				}
			}
		case *ssa.UnOp, *ssa.DebugRef:
		case *ssa.Store:
			if x.Addr != ssa.Value(al) {
				return true
			}
		default:
			return true
		}
	}
	return false
}

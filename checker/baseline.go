package main

import (
	_ "embed"
	"encoding/json"
	"fmt"
	"go/types"
	"os"
	"sort"
	"strings"

	"golang.org/x/tools/go/ssa"
)

// Rename tolerance for anchors. The rules name internal mechanisms (cache.set, group.startCall, ...). A maintainer may
// rename such an unexported helper without changing behaviour; the rule must then follow the function, not go
// "undecided". baseline.json (generated with -dump-baseline from the tree the rules were confirmed on) records every
// declared function with its signature and its static callees. When an anchored name does not resolve, the functions
// of the same package and receiver that are *new* relative to the baseline and have the identical signature are the
// candidates; the one whose callee set is most similar to the vanished function's is taken. Ambiguity or no candidate
// leaves the anchor unresolved (undecided), as before.

//go:embed baseline.json
var baselineJSON []byte

//go:embed baseline_fields.json
var baselineFieldsJSON []byte

// ---- fields ----
// baseline_fields: "pkg|Type" -> field name -> type string. A vanished field name is matched with the single new field
// of the same struct that has the identical type.
var canonFields = map[*types.Var]string{}

// fname returns the name of a struct field as the rules know it.
func fname(v *types.Var) string {
	if v == nil {
		return ""
	}
	if n, ok := canonFields[v.Origin()]; ok {
		return n
	}
	return v.Name()
}

type baseFunc struct {
	Sig     string   `json:"sig"`
	Callees []string `json:"callees"`
	Params  []string `json:"params,omitempty"` // receiver first: the parameter names the rules' terms use
	PTypes  []string `json:"ptypes,omitempty"` // their types
}

var baselineFuncs map[string]baseFunc

func loadBaseline() {
	if baselineFuncs != nil {
		return
	}
	baselineFuncs = map[string]baseFunc{}
	_ = json.Unmarshal(baselineJSON, &baselineFuncs)
}

func funcKey(fn *ssa.Function) (pkg, recv, name string) {
	o := origin(fn)
	if o.Pkg == nil {
		return "", "", o.Name()
	}
	pkg = strings.TrimPrefix(strings.TrimPrefix(o.Pkg.Pkg.Path(), modPath), "/")
	if r := o.Signature.Recv(); r != nil {
		recv = namedTypeName(r.Type())
	}
	return pkg, recv, o.Name()
}

func sigString(fn *ssa.Function) string {
	// parameter and result *types* only (receiver excluded, names ignored: renaming a parameter is not a new signature)
	q := func(p *types.Package) string { return p.Name() }
	var ps, rs []string
	for i := 0; i < fn.Signature.Params().Len(); i++ {
		ps = append(ps, types.TypeString(fn.Signature.Params().At(i).Type(), q))
	}
	for i := 0; i < fn.Signature.Results().Len(); i++ {
		rs = append(rs, types.TypeString(fn.Signature.Results().At(i).Type(), q))
	}
	v := ""
	if fn.Signature.Variadic() {
		v = "..."
	}
	return "(" + strings.Join(ps, ",") + v + ")(" + strings.Join(rs, ",") + ")"
}

func calleeNames(fn *ssa.Function) []string {
	set := map[string]bool{}
	withClosures(fn, func(f *ssa.Function) {
		allInstrs(f, func(in ssa.Instruction) {
			if c := calleeOf(in); c != nil && c.Pkg != nil {
				_, r, n := funcKey(c)
				set[r+"."+n] = true
			}
			if n := invokeName(in); n != "" {
				set["~"+n] = true
			}
		})
	})
	var out []string
	for k := range set {
		out = append(out, k)
	}
	sort.Strings(out)
	return out
}

func structFields(P *Program) map[string]map[string]string {
	out := map[string]map[string]string{}
	for path, p := range P.byPkg {
		if strings.Contains(path, "/cmd/") {
			continue
		}
		sc := p.Types.Scope()
		for _, n := range sc.Names() {
			tn, ok := sc.Lookup(n).(*types.TypeName)
			if !ok {
				continue
			}
			st, ok := tn.Type().Underlying().(*types.Struct)
			if !ok {
				continue
			}
			m := map[string]string{}
			for i := 0; i < st.NumFields(); i++ {
				if st.Field(i).Name() == "_" {
					continue
				}
				m[st.Field(i).Name()] = types.TypeString(st.Field(i).Type(), func(p *types.Package) string { return p.Name() })
			}
			var order []string
			for i := 0; i < st.NumFields(); i++ {
				order = append(order, st.Field(i).Name())
			}
			m["#order"] = strings.Join(order, ",")
			out[strings.TrimPrefix(strings.TrimPrefix(path, modPath), "/")+"|"+n] = m
		}
	}
	return out
}

func dumpBaseline(P *Program, path string) error {
	fb, _ := json.MarshalIndent(structFields(P), "", " ")
	if err := os.WriteFile(strings.TrimSuffix(path, ".json")+"_fields.json", fb, 0o644); err != nil {
		return err
	}
	out := map[string]baseFunc{}
	for fn := range P.decl {
		pkg, recv, name := funcKey(fn)
		if strings.HasPrefix(pkg, "cmd/") {
			continue
		}
		var pn, pt []string
		for _, p := range fn.Params {
			pn = append(pn, p.Name())
			pt = append(pt, ptypeString(p))
		}
		out[pkg+"|"+recv+"|"+name] = baseFunc{Sig: sigString(fn), Callees: calleeNames(fn), Params: pn, PTypes: pt}
	}
	b, _ := json.MarshalIndent(out, "", " ")
	return os.WriteFile(path, b, 0o644)
}

type renameInfo struct {
	done    bool
	aliases map[string]*ssa.Function // baseline key -> current function
	notes   []string
}

var renames = map[*Program]*renameInfo{}

// canonNames maps a renamed function to the name the rules (and obligation keys) know it by.
var canonNames = map[*ssa.Function]string{}

// cname returns the name of a module function as the rules know it (baseline name when it was renamed).
func cname(fn *ssa.Function) string {
	if fn == nil {
		return ""
	}
	o := origin(fn)
	if n, ok := canonNames[o]; ok {
		return n
	}
	return o.Name()
}

// canonRecv: the receiver the rules know for a method that moved to another receiver type (see renameMap, second tier).
var canonRecv = map[*ssa.Function]string{}

// bkey: the baseline key of a current function (renames and moves undone).
func bkey(fn *ssa.Function) string {
	pkg, recv, _ := funcKey(fn)
	if r, ok := canonRecv[origin(fn)]; ok {
		recv = r
	}
	return pkg + "|" + recv + "|" + cname(fn)
}

// movedParamTypes: baseline parameter types (receiver first) against the current ones: the same multiset, or the
// baseline's receiver alone dropped (a method that never used its receiver moved onto the type of one of its parameters).
func movedParamTypes(base baseFunc, fn *ssa.Function) bool {
	if len(base.PTypes) == 0 || len(base.PTypes) != len(base.Params) {
		return false
	}
	count := map[string]int{}
	for _, p := range fn.Params {
		count[ptypeString(p)]++
	}
	want := base.PTypes
	switch len(want) - len(fn.Params) {
	case 0:
		if fn.Signature.Recv() != nil && len(want) > 0 && ptypeString(fn.Params[0]) != want[0] {
			// a method handed over to another owner (a new state object): receiver for receiver, the rest unchanged
			count[ptypeString(fn.Params[0])]--
			want = want[1:]
		}
	case 1:
		want = want[1:]
	default:
		return false
	}
	for _, t := range want {
		count[t]--
	}
	for _, n := range count {
		if n != 0 {
			return false
		}
	}
	return true
}

func resultTypes(sig string) string {
	if i := strings.LastIndex(sig, ")("); i >= 0 {
		return sig[i+1:]
	}
	return sig
}

func (P *Program) renameMap() *renameInfo {
	if ri, ok := renames[P]; ok {
		return ri
	}
	loadBaseline()
	ri := &renameInfo{aliases: map[string]*ssa.Function{}}
	renames[P] = ri
	current := map[string]*ssa.Function{}
	for fn := range P.decl {
		pkg, recv, name := funcKey(fn)
		current[pkg+"|"+recv+"|"+name] = fn
	}
	var missing []string
	for k := range baselineFuncs {
		if _, ok := current[k]; !ok {
			missing = append(missing, k)
		}
	}
	sort.Strings(missing)
	novel := map[string]*ssa.Function{}
	for k, fn := range current {
		if _, ok := baselineFuncs[k]; !ok {
			novel[k] = fn
		}
	}
	used := map[string]bool{}
	for _, m := range missing {
		parts := strings.SplitN(m, "|", 3)
		base := baselineFuncs[m]
		best, bestScore, ties := "", -1.0, 0
		for k, fn := range novel {
			kp := strings.SplitN(k, "|", 3)
			if used[k] || kp[0] != parts[0] || kp[1] != parts[1] || sigString(fn) != base.Sig {
				continue
			}
			sc := jaccard(base.Callees, calleeNames(fn))
			if sc > bestScore {
				best, bestScore, ties = k, sc, 1
			} else if sc == bestScore {
				ties++
			}
		}
		if best != "" && ties == 1 && (bestScore >= 0.5 || len(base.Callees) == 0) {
			ri.aliases[m] = novel[best]
			canonNames[origin(novel[best])] = parts[2]
			used[best] = true
			ri.notes = append(ri.notes, fmt.Sprintf("%s is now %s (same signature, callee similarity %.2f)", m, best, bestScore))
		}
	}
	// second tier: a method that moved to another receiver (or became / stopped being a method) in the same package:
	// the same parameter types counting the receiver (the baseline's receiver may be dropped), the same results, a
	// similar callee set; unique or unresolved.
	for _, m := range missing {
		if _, done := ri.aliases[m]; done {
			continue
		}
		parts := strings.SplitN(m, "|", 3)
		base := baselineFuncs[m]
		best, bestScore, ties := "", -1.0, 0
		for k, fn := range novel {
			kp := strings.SplitN(k, "|", 3)
			if used[k] || kp[0] != parts[0] || kp[1] == parts[1] || resultTypes(sigString(fn)) != resultTypes(base.Sig) || !movedParamTypes(base, origin(fn)) {
				continue
			}
			var bc []string
			for _, c := range base.Callees { // the closures of the function carry its old name
				bc = append(bc, strings.Replace(c, "."+parts[2]+"$", "."+kp[2]+"$", 1))
			}
			sc := jaccard(bc, calleeNames(fn))
			if sc > bestScore {
				best, bestScore, ties = k, sc, 1
			} else if sc == bestScore {
				ties++
			}
		}
		if best != "" && ties == 1 && bestScore >= 0.5 {
			ri.aliases[m] = novel[best]
			canonNames[origin(novel[best])] = parts[2]
			canonRecv[origin(novel[best])] = parts[1]
			used[best] = true
			ri.notes = append(ri.notes, fmt.Sprintf("%s is now %s (moved: same parameter and result types, callee similarity %.2f)", m, best, bestScore))
		}
	}
	// fields
	var baseFields map[string]map[string]string
	_ = json.Unmarshal(baselineFieldsJSON, &baseFields)
	cur := structFields(P)
	for key, bf := range baseFields {
		cf, ok := cur[key]
		if !ok {
			continue
		}
		parts := strings.SplitN(key, "|", 2)
		_, st := P.Struct(parts[0], parts[1])
		if st == nil {
			continue
		}
		// same field types in the same order: renamed fields keep their position
		positional := map[string]string{}
		bo, co := strings.Split(bf["#order"], ","), strings.Split(cf["#order"], ",")
		if bf["#order"] != "" && len(bo) == len(co) {
			same := true
			for i := range bo {
				if bo[i] == "_" || co[i] == "_" {
					if bo[i] != co[i] {
						same = false
					}
					continue
				}
				if bf[bo[i]] != cf[co[i]] {
					same = false
				}
			}
			if same {
				for i := range bo {
					positional[bo[i]] = co[i]
				}
			}
		}
		for name, typ := range bf {
			if strings.HasPrefix(name, "#") {
				continue
			}
			if _, ok := cf[name]; ok {
				continue
			}
			if now, ok := positional[name]; ok && now != name {
				if _, old := bf[now]; !old {
					for i := 0; i < st.NumFields(); i++ {
						if st.Field(i).Name() == now {
							canonFields[st.Field(i).Origin()] = name
							ri.notes = append(ri.notes, fmt.Sprintf("field %s.%s is now %s (same position and type)", parts[1], name, now))
						}
					}
					continue
				}
			}
			var cands []string
			for n2, t2 := range cf {
				if strings.HasPrefix(n2, "#") {
					continue
				}
				if _, old := bf[n2]; !old && t2 == typ {
					cands = append(cands, n2)
				}
			}
			if len(cands) == 1 {
				for i := 0; i < st.NumFields(); i++ {
					if st.Field(i).Name() == cands[0] {
						canonFields[st.Field(i).Origin()] = name
						ri.notes = append(ri.notes, fmt.Sprintf("field %s.%s is now %s", parts[1], name, cands[0]))
					}
				}
			}
		}
	}
	ri.done = true
	return ri
}

func jaccard(a, b []string) float64 {
	if len(a) == 0 && len(b) == 0 {
		return 1
	}
	set := map[string]int{}
	for _, x := range a {
		set[x] |= 1
	}
	for _, x := range b {
		set[x] |= 2
	}
	inter, union := 0, 0
	for _, v := range set {
		union++
		if v == 3 {
			inter++
		}
	}
	return float64(inter) / float64(union)
}

func ptypeString(p *ssa.Parameter) string {
	return types.TypeString(p.Type(), func(p *types.Package) string { return p.Name() })
}

var permCache = map[*ssa.Function][]int{}

// paramPerm maps the parameter positions the rules know (baseline order, receiver first) to the current positions:
// perm[baselineIdx] = currentIdx. Reordering the parameters of a helper, or renaming them, is not a new function.
// Within each group of equally typed parameters the match is by name when the names are the same set, else by order.
// nil: no baseline, or the parameter list changed in length or types.
func paramPerm(fn *ssa.Function) []int {
	fn = origin(fn)
	if p, ok := permCache[fn]; ok {
		return p
	}
	var perm []int
	defer func() { permCache[fn] = perm }()
	if fn.Parent() != nil {
		return nil
	}
	loadBaseline()
	b, ok := baselineFuncs[bkey(fn)]
	if !ok || len(b.PTypes) != len(b.Params) {
		return nil
	}
	if _, moved := canonRecv[fn]; moved && len(fn.Params) == len(b.Params) && len(fn.Params) > 0 && fn.Signature.Recv() != nil && ptypeString(fn.Params[0]) != b.PTypes[0] {
		// receiver for receiver, the remaining parameters matched by type
		rest := baseFunc{Params: b.Params[1:], PTypes: b.PTypes[1:]}
		restFn := *fn
		restFn.Params = fn.Params[1:]
		sub := matchParams(rest, &restFn)
		if sub == nil {
			return nil
		}
		perm = []int{0}
		for _, j := range sub {
			perm = append(perm, j+1)
		}
		return perm
	}
	if _, moved := canonRecv[fn]; moved && len(fn.Params)+1 == len(b.Params) {
		// the baseline's receiver was dropped: the remaining parameters are matched by type (by name, then order, within
		// a type); position 0 maps to nothing
		rest := baseFunc{Params: b.Params[1:], PTypes: b.PTypes[1:]}
		sub := matchParams(rest, fn)
		if sub == nil {
			return nil
		}
		perm = append([]int{-1}, sub...)
		return perm
	}
	if len(fn.Params) > len(b.Params) {
		// parameters were added (a value the helper used to compute is now handed in): the known ones are found by
		// name within their type; anything less certain is "a new function"
		out := make([]int, len(b.Params))
		used := map[int]bool{}
		for i, bn := range b.Params {
			found := -1
			for j, p := range fn.Params {
				if !used[j] && p.Name() == bn && ptypeString(p) == b.PTypes[i] {
					found = j
				}
			}
			if found < 0 && i == 0 && fn.Signature.Recv() != nil && ptypeString(fn.Params[0]) == b.PTypes[0] {
				found = 0 // a renamed receiver
			}
			if found < 0 {
				return nil
			}
			used[found] = true
			out[i] = found
		}
		perm = out
		return perm
	}
	perm = matchParams(b, fn)
	return perm
}

// matchParams: baseline positions -> current positions for parameter lists of equal length and equal type multisets.
func matchParams(b baseFunc, fn *ssa.Function) []int {
	var perm []int
	if len(b.Params) != len(fn.Params) {
		return nil
	}
	bGroups, cGroups := map[string][]int{}, map[string][]int{}
	for i, t := range b.PTypes {
		bGroups[t] = append(bGroups[t], i)
	}
	for j, p := range fn.Params {
		t := ptypeString(p)
		cGroups[t] = append(cGroups[t], j)
	}
	out := make([]int, len(fn.Params))
	for t, bi := range bGroups {
		ci := cGroups[t]
		if len(ci) != len(bi) {
			return nil
		}
		byName := map[string]int{}
		for _, j := range ci {
			byName[fn.Params[j].Name()] = j
		}
		sameNames := len(byName) == len(ci)
		for _, i := range bi {
			if _, ok := byName[b.Params[i]]; !ok {
				sameNames = false
			}
		}
		if sameNames {
			for _, i := range bi {
				out[i] = byName[b.Params[i]]
			}
			continue
		}
		// names kept by both sides are matched by name, the rest in order
		taken := map[int]bool{}
		rest := []int{}
		for _, i := range bi {
			if j, ok := byName[b.Params[i]]; ok {
				out[i] = j
				taken[j] = true
			} else {
				rest = append(rest, i)
			}
		}
		k := 0
		for _, j := range ci {
			if !taken[j] && k < len(rest) {
				out[rest[k]] = j
				k++
			}
		}
	}
	perm = out
	return perm
}

// bparam: the parameter at the position the rules know.
func bparam(fn *ssa.Function, i int) *ssa.Parameter {
	if perm := paramPerm(fn); perm != nil && i < len(perm) {
		if perm[i] < 0 {
			return noParam
		}
		return fn.Params[perm[i]]
	}
	if i < 0 || i >= len(fn.Params) {
		return noParam // the parameter was dropped: equal to nothing
	}
	return fn.Params[i]
}

var noParam = &ssa.Parameter{}

// bargs reorders the actual arguments of a call of callee into baseline order. args holds the current arguments, the
// current receiver included iff withRecv; the result holds the baseline's arguments, the baseline's receiver included
// iff withRecv (a dropped parameter is the zero T).
func bargs[T any](callee *ssa.Function, args []T, withRecv bool) []T {
	if callee == nil {
		return args
	}
	perm := paramPerm(callee)
	if perm == nil {
		return args
	}
	o := origin(callee)
	curOff, baseOff := 0, 0
	if !withRecv {
		if o.Signature.Recv() != nil {
			curOff = 1
		}
		if baselineHasRecv(o) {
			baseOff = 1
		}
	}
	if len(perm) < baseOff {
		return args
	}
	// (with added parameters: the arguments of the known ones, in the order the rules know)
	out := make([]T, len(perm)-baseOff)
	for i := range out {
		if perm[i+baseOff] < 0 {
			continue
		}
		j := perm[i+baseOff] - curOff
		if j < 0 || j >= len(args) {
			return args
		}
		out[i] = args[j]
	}
	return out
}

// baselineHasRecv: the function was a method on the pinned tree (it is one now, unless it moved).
func baselineHasRecv(fn *ssa.Function) bool {
	fn = origin(fn)
	if r, ok := canonRecv[fn]; ok {
		return r != ""
	}
	return fn.Signature.Recv() != nil
}

// pname returns the name of a parameter as the rules' terms know it: renaming or reordering the parameters (or the
// receiver) of a declared function is not a new name. Closures keep their own names.
func pname(p *ssa.Parameter) string {
	fn := p.Parent()
	if fn == nil || fn.Parent() != nil {
		return p.Name()
	}
	perm := paramPerm(fn)
	if perm == nil {
		return p.Name()
	}
	b := baselineFuncs[bkey(fn)]
	for i, j := range perm {
		if j >= 0 && fn.Params[j] == p {
			return b.Params[i]
		}
	}
	return p.Name()
}

// fvname: a free variable that captures a parameter of the enclosing declared function carries that parameter's name.
func fvname(fv *ssa.FreeVar) string {
	fn := fv.Parent()
	if fn == nil || fn.Parent() == nil {
		return fv.Name()
	}
	idx := -1
	for i, x := range fn.FreeVars {
		if x == fv {
			idx = i
		}
	}
	name := fv.Name()
	allInstrs(fn.Parent(), func(in ssa.Instruction) {
		if mc, ok := in.(*ssa.MakeClosure); ok && mc.Fn == ssa.Value(fn) && idx >= 0 && idx < len(mc.Bindings) {
			switch b := mc.Bindings[idx].(type) {
			case *ssa.Parameter:
				name = pname(b)
			case *ssa.FreeVar:
				name = fvname(b)
			}
		}
	})
	return name
}

var baselineFieldTypes map[string]map[string]string

// baselineFieldType: the type the baseline records for struct field pkg|Type.field ("" when unknown).
func baselineFieldType(pkgSuffix, typeName, field string) string {
	if baselineFieldTypes == nil {
		baselineFieldTypes = map[string]map[string]string{}
		_ = json.Unmarshal(baselineFieldsJSON, &baselineFieldTypes)
	}
	return baselineFieldTypes[pkgSuffix+"|"+typeName][field]
}

// baselineHasParam: the function had a parameter of that name on the pinned tree.
func baselineHasParam(fn *ssa.Function, name string) bool {
	loadBaseline()
	b, ok := baselineFuncs[bkey(fn)]
	if !ok {
		return false
	}
	for _, p := range b.Params {
		if p == name {
			return true
		}
	}
	return false
}

package main

import (
	"go/token"
	"strings"

	"golang.org/x/tools/go/ssa"
)

// node accessor / predicate vocabulary (interface node.Node and the hashmap's generic node constraint)
var nodePreds = map[string]string{"HasExpired": "Expired", "IsAlive": "Alive", "IsDead": "Dead", "IsFresh": "Fresh", "IsRetired": "Retired"}
var nodeAccessors = map[string]bool{"Key": true, "Value": true, "Weight": true, "ExpiresAt": true, "RefreshableAt": true, "AsPointer": true,
	"Prev": true, "Next": true, "PrevExp": true, "NextExp": true, "GetQueueType": true, "InWindow": true, "InMainProbation": true, "InMainProtected": true}
var nodeMutators = map[string]string{"Retire": "Retire", "Die": "Die", "SetExpiresAt": "SetExpiresAt", "CASExpiresAt": "CASExpiresAt", "SetRefreshableAt": "SetRefreshableAt",
	"CASRefreshableAt": "CASRefreshableAt", "SetPrev": "NodeLink", "SetNext": "NodeLink", "SetPrevExp": "NodeLink", "SetNextExp": "NodeLink", "SetQueueType": "NodeQueue",
	"MakeWindow": "NodeQueue", "MakeMainProbation": "NodeQueue", "MakeMainProtected": "NodeQueue"}

func isNodeIface(name string) bool {
	return name == "Node" || strings.HasPrefix(name, "typeparam:")
}

// call interprets one call instruction. When it returns handled=true the frame has been continued recursively and
// the outcomes are final for this frame.
func (ps *PathSum) call(s *psState, f *psFrame, x *ssa.Call) ([]*psOutcome, bool) {
	cc := x.Common()
	var args []string
	for _, a := range cc.Args {
		args = append(args, ps.val(f, a))
	}
	pos := x.Pos()
	if cc.IsInvoke() {
		recv := ps.val(f, cc.Value)
		name := cc.Method.Name()
		iface := namedTypeName(cc.Value.Type())
		switch {
		case iface == "Node" || (strings.HasPrefix(iface, "typeparam:") && (nodePreds[name] != "" || nodeAccessors[name] || nodeMutators[name] != "")):
			if p, ok := nodePreds[name]; ok {
				if len(args) > 0 {
					f.vals[x] = p + "(" + recv + "," + args[0] + ")"
				} else {
					f.vals[x] = p + "(" + recv + ")"
				}
				if strings.HasPrefix(recv, "res:GetNode#") && p == "Expired" {
					// lemma (C03.lookup, discharged on getNode/getNodeQuietly): a filtered lookup returns nil or an unexpired node
					f.vals[x] = "false"
				}
				if strings.HasPrefix(recv, "fresh") {
					// a node created on this path: alive, deadlines symbolic
					switch p {
					case "Alive":
						f.vals[x] = "true"
					case "Dead", "Retired":
						f.vals[x] = "false"
					}
				}
				return nil, false
			}
			if ps.trackLinks && (name == "Next" || name == "Prev" || name == "NextExp" || name == "PrevExp") {
				sym := ps.sym("rd:" + name + "#")
				ps.emit(s, f, pos, "NodeRead", sym, recv, name)
				f.vals[x] = sym
				return nil, false
			}
			if nodeAccessors[name] {
				if info, ok := ps.fresh[recv]; ok {
					switch name {
					case "Key":
						f.vals[x] = info[0]
						return nil, false
					case "Value":
						f.vals[x] = info[1]
						return nil, false
					case "Weight":
						f.vals[x] = info[4]
						return nil, false
					case "ExpiresAt":
						if v, ok := s.cells["&"+recv+".expiresAt"]; ok {
							f.vals[x] = v
						} else {
							f.vals[x] = info[2]
						}
						return nil, false
					case "RefreshableAt":
						if v, ok := s.cells["&"+recv+".refreshableAt"]; ok {
							f.vals[x] = v
						} else {
							f.vals[x] = info[3]
						}
						return nil, false
					}
				}
				f.vals[x] = name + "(" + recv + ")"
				return nil, false
			}
			if ev, ok := nodeMutators[name]; ok {
				if ev == "NodeQueue" || ev == "NodeLink" {
					ps.emit(s, f, pos, ev, append([]string{recv, name}, args...)...)
				} else {
					ps.emit(s, f, pos, ev, append([]string{recv}, args...)...)
				}
				switch name {
				case "SetExpiresAt":
					s.cells["&"+recv+".expiresAt"] = args[0]
				case "SetRefreshableAt":
					s.cells["&"+recv+".refreshableAt"] = args[0]
				case "CASExpiresAt", "CASRefreshableAt":
					f.vals[x] = ps.sym("cas")
				}
				return nil, false
			}
		case iface == "Recorder":
			ps.emit(s, f, pos, "Stat", append([]string{name}, args...)...)
			return nil, false
		case name == "NowNano":
			if _, ok := s.cells["&clock:"+recv]; !ok {
				s.cells["&clock:"+recv] = "0"
			}
			f.vals[x] = ps.sym("now")
			ps.emit(s, f, pos, "Now", f.vals[x])
			return nil, false
		case iface == "ExpiryCalculator" || iface == "RefreshCalculator":
			f.vals[x] = ps.sym("dur:" + name + "#")
			ps.emit(s, f, pos, "Calc", append([]string{name, f.vals[x]}, args...)...)
			return nil, false
		case iface == "Loader" || iface == "BulkLoader":
			res := ps.sym("user:" + name + "#")
			ps.emit(s, f, pos, "UserCall", append([]string{name, res}, args...)...)
			ps.bindResults(s, f, x, res)
			return ps.maybePanic(s, f, x, pos)
		case iface == "Logger":
			ps.emit(s, f, pos, "Log", append([]string{name}, args...)...)
			return nil, false
		case iface == "Snapshoter":
			f.vals[x] = ps.sym("snapshot")
			return nil, false
		}
		// call records stored in the in-flight table go through the generic node constraint
		if strings.HasPrefix(iface, "typeparam:") || iface == "mapNodeManager" {
			f.vals[x] = name + "(" + strings.Join(append([]string{recv}, args...), ",") + ")"
			return nil, false
		}
		res := ps.sym("inv:" + name + "#")
		ps.emit(s, f, pos, "Invoke", append([]string{name, recv}, args...)...)
		ps.bindResults(s, f, x, res)
		return nil, false
	}
	if b, ok := cc.Value.(*ssa.Builtin); ok {
		switch b.Name() {
		case "recover":
			if v, ok := s.cells["&recover#"]; ok {
				f.vals[x] = v
				delete(s.cells, "&recover#")
			} else {
				f.vals[x] = "nil"
			}
		case "len":
			switch {
			case args[0] == "nil":
				f.vals[x] = "const(0)"
			case s.cells["&len:"+args[0]] == "pos":
				f.vals[x] = "lenpos(" + args[0] + ")"
			case strings.HasPrefix(args[0], "map") && !strings.Contains(args[0], "("):
				f.vals[x] = "const(0)" // a map created on this path and never written
			default:
				f.vals[x] = "len(" + args[0] + ")"
			}
		case "append":
			f.vals[x] = "append(" + strings.Join(args, ",") + ")"
			ps.emit(s, f, pos, "Append", args...)
		default:
			f.vals[x] = b.Name() + "(" + strings.Join(args, ",") + ")"
		}
		return nil, false
	}
	_, isMC := cc.Value.(*ssa.MakeClosure)
	if callee := cc.StaticCallee(); callee != nil && !isMC {
		outs := ps.callStatic(s, f, x, callee, args, pos)
		if outs == nil {
			return nil, false
		}
		return ps.continueWith(f, x, outs), true
	}
	// dynamic call
	target := ps.val(f, cc.Value)
	if cl, ok := ps.closures[target]; ok {
		if cl.bound != nil {
			outs := ps.callStatic(s, f, x, cl.bound, append([]string{cl.recv}, args...), pos)
			if outs == nil {
				return nil, false
			}
			return ps.continueWith(f, x, outs), true
		}
		if f.depth < ps.maxDepth+4 {
			return ps.continueWith(f, x, ps.exec(s, ps.newFrame(cl.fn, args, cl.binds, "closure", f))), true
		}
	}
	if fn, ok := ps.funcs[target]; ok && len(fn.Blocks) > 0 && f.depth < ps.maxDepth+4 {
		// a function literal without captured variables used as a value
		return ps.continueWith(f, x, ps.exec(s, ps.newFrame(fn, args, nil, "closure", f))), true
	}
	// executor / user supplied functions
	name := target
	if i := strings.LastIndex(target, "."); i >= 0 && strings.HasPrefix(target, "load(") {
		name = strings.TrimSuffix(target[i+1:], ")")
	}
	if name == "executor" && len(args) == 1 {
		if cl, ok := ps.closures[args[0]]; ok {
			ps.emit(s, f, pos, "ExecBegin", args[0])
			s.async++
			outs := ps.exec(s, ps.newFrame(cl.fn, nil, cl.binds, "exec", f))
			var cont []*psOutcome
			for _, o := range outs {
				if o.Cut {
					cont = append(cont, o)
					continue
				}
				o.S.async--
				if o.Panic {
					// a panic inside the executor goroutine does not unwind the submitting caller
					o.S.trace = append(o.S.trace, psEvent{Kind: "ExecPanicked", Pos: pos, In: funcName(f.fn)})
					o.Panic = false
				}
				o.S.trace = append(o.S.trace, psEvent{Kind: "ExecEnd", Pos: pos, Async: o.S.async, In: funcName(f.fn)})
				o.Rets = nil
				cont = append(cont, o)
			}
			return ps.continueWith(f, x, cont), true
		}
	}
	if strings.HasPrefix(target, "handler:") && len(args) == 1 {
		kind := "AsyncNotify"
		if target == "handler:onAtomicDeletion" {
			kind = "AtomicNotify"
		}
		ev := strings.TrimPrefix(args[0], "@")
		fld := func(n string) string {
			if v, ok := s.cells["&"+ev+"."+n]; ok {
				return v
			}
			return "load(" + ev + "." + n + ")"
		}
		ps.emit(s, f, pos, kind, fld("Key"), fld("Value"), fld("Cause"))
		return nil, false
	}
	res := ps.sym("user:" + strings.TrimPrefix(name, "param:") + "#")
	ps.emit(s, f, pos, "UserCall", append([]string{strings.TrimPrefix(name, "param:"), res}, args...)...)
	if strings.TrimPrefix(name, "param:") == "evictNode" {
		// the eviction callback updates the policy's counters and links: re-read them afterwards
		s.cells["&epoch:param:p"] = ps.sym("e")
		for k := range s.cells {
			if strings.HasPrefix(k, "&param:p.") {
				delete(s.cells, k)
			}
		}
	}
	ps.bindResults(s, f, x, res)
	return ps.maybePanic(s, f, x, pos)
}

// bindResults gives a call its (tuple of) opaque result(s).
func (ps *PathSum) bindResults(s *psState, f *psFrame, x *ssa.Call, res string) {
	n := x.Call.Signature().Results().Len()
	if n <= 1 {
		f.vals[x] = res
		return
	}
	f.vals[x] = res
	for i := 0; i < n; i++ {
		s.cells["&"+res+"."+string(rune('0'+i))] = res + "." + string(rune('0'+i))
	}
}

// maybePanic forks a panicking continuation when some enclosing activation would recover it. The engine only needs
// that at the current frame: the fork returns a Panic outcome to the callers, which recover in continueWith.
func (ps *PathSum) maybePanic(s *psState, f *psFrame, x *ssa.Call, pos token.Pos) ([]*psOutcome, bool) {
	if !ps.canRecover(f) {
		return nil, false
	}
	sp := s.clone()
	ps.emit(sp, f, pos, "UserPanic", ps.val(f, x.Call.Value))
	pout := &psOutcome{S: sp, Panic: true}
	// this frame itself may hold the recovering defer
	rec := false
	for _, d := range f.defers {
		if cl, ok := ps.closures[d.callee]; ok && hasRecover(cl.fn) {
			rec = true
		}
	}
	var res []*psOutcome
	if rec {
		res = append(res, ps.runDefersThen(sp, f.clone(), true)...)
	} else {
		res = append(res, pout)
	}
	res = append(res, ps.exec(s, f)...)
	return ps.dedupe(res), true
}

func recvFieldName(cc *ssa.CallCommon) string {
	if len(cc.Args) == 0 {
		return ""
	}
	if fv := fieldOf(cc.Args[0]); fv != nil {
		return fv.Name()
	}
	// a table kept behind an atomic pointer: g.calls.Load().Compute(...)
	if c, ok := cc.Args[0].(*ssa.Call); ok && isStdMethod(c, "sync/atomic", "Pointer", "Load") {
		if fv := recvField(c); fv != nil {
			return fv.Name()
		}
	}
	return ""
}

// reshapable: roles whose effect is also recognised at its semantic sink (handler invocation, task fields at the
// enqueue / replay, pool Put): when a maintainer changed the helper's parameter list it is inlined instead of summarised.
var reshapable = map[string]bool{"AtomicNotify": true, "AsyncNotify": true, "Task": true, "PutTask": true}

// callStatic handles a statically resolved callee: role, inline, or opaque. nil result = value bound, caller continues.
func (ps *PathSum) callStatic(s *psState, f *psFrame, x ssa.Instruction, callee *ssa.Function, args []string, pos token.Pos) []*psOutcome {
	o := origin(callee)
	r := ps.roles
	iargs := args               // in the callee's current parameter order (for inlining)
	args = bargs(o, args, true) // in the order the roles and rules know
	var xv ssa.Value
	if v, ok := x.(ssa.Value); ok {
		xv = v
	}
	bind := func(t string) {
		if xv != nil {
			f.vals[xv] = t
		}
	}
	cc := callCommon(x)
	switch {
	case o == origin(r.tableCompute) && cc != nil:
		which := recvFieldName(cc)
		if cl, ok := ps.closures[args[len(args)-1]]; ok {
			kindIn, kindOut, symP := "ComputeEnter", "ComputeExit", "cur"
			if which == "calls" {
				kindIn, kindOut, symP = "SFEnter", "SFExit", "prev"
			}
			cur := ps.sym(symP)
			ps.emit(s, f, pos, kindIn, cur, args[1])
			outs := ps.exec(s, ps.newFrame(cl.fn, []string{cur}, cl.binds, "compute", f))
			for _, out := range outs {
				if !out.Panic && !out.Cut && len(out.Rets) == 1 {
					out.S.trace = append(out.S.trace, psEvent{Kind: kindOut, Args: []string{out.Rets[0], cur}, Pos: pos, Async: out.S.async, In: funcName(f.fn)})
				}
			}
			return outs
		}
		res := ps.sym("computed")
		ps.emit(s, f, pos, "ComputeOpaque", args...)
		bind(res)
		return nil
	case o == origin(r.tableGet) && cc != nil:
		which := recvFieldName(cc)
		p := "got"
		if which == "calls" {
			p = "sfgot"
		}
		t := ps.sym(p)
		ps.emit(s, f, pos, "TableGet", t, args[1], which)
		bind(t)
		return nil
	case o == origin(r.tableRange):
		ps.emit(s, f, pos, "TableRange", args[1:]...)
		if cl, ok := ps.closures[args[len(args)-1]]; ok {
			t := ps.sym("rng")
			outs := ps.exec(s, ps.newFrame(cl.fn, []string{t}, cl.binds, "range", f))
			for _, out := range outs {
				out.Rets = nil
			}
			return outs
		}
		return nil
	case o == origin(r.tableSize):
		bind(ps.sym("size"))
		return nil
	case o == origin(r.create):
		t := ps.sym("fresh")
		ps.fresh[t] = args[1:]
		ps.emit(s, f, pos, "NodeCreate", append([]string{t}, args[1:]...)...)
		bind(t)
		return nil
	case o == origin(r.nodeToEntry):
		bind("Entry(" + args[1] + "," + args[2] + ")")
		return nil
	case o.Name() == "Equals" && o.Pkg != nil && strings.HasSuffix(o.Pkg.Pkg.Path(), "/generated/node") && len(args) == 2:
		// node.Equals(a, b): nil-aware pointer identity
		switch {
		case isZeroTerm(args[1]) && isZeroTerm(args[0]):
			bind("true")
		case isZeroTerm(args[1]):
			bind("IsNil(" + args[0] + ")")
		case isZeroTerm(args[0]):
			bind("IsNil(" + args[1] + ")")
		case args[0] == args[1]:
			bind("true")
		default:
			a, b := args[0], args[1]
			if a > b {
				a, b = b, a
			}
			bind("PtrEq(AsPointer(" + a + "),AsPointer(" + b + "))")
		}
		return nil
	case r.satAdd != nil && o == origin(r.satAdd):
		bind("satadd(" + args[0] + "," + args[1] + ")")
		return nil
	case r.abs != nil && o == origin(r.abs):
		bind("abs(" + args[0] + ")")
		return nil
	}
	if kind, ok := ps.asEvents[o]; ok {
		res := ps.sym("res:" + kind + "#")
		ps.emit(s, f, pos, kind, append(append([]string{res}, args...), ps.eventExtra[o]...)...)
		nres := o.Signature.Results().Len()
		if nres > 1 {
			for i := 0; i < nres; i++ {
				s.cells["&"+res+"."+string(rune('0'+i))] = res + "." + string(rune('0'+i))
			}
		}
		if nres > 0 {
			bind(res)
		}
		return nil
	}
	if kind, ok := r.eventFns[o]; ok && !(f.depth == 0 && origin(f.fn) == o) && (paramPerm(o) != nil || !reshapable[kind]) {
		res := ""
		if o.Signature.Results().Len() > 0 {
			switch kind {
			case "Task":
				res = "task(" + strings.Join(args[1:], ",") + ")"
			case "NewPanicError":
				res = ps.sym("panicerr")
			case "SkipReadBuffer":
				res = "skipReadBuffer"
			case "SFDeleteCall":
				res = "delcall(" + args[1] + ")"
			case "ShouldDrain":
				res = ps.sym("shouldDrain")
			default:
				res = ps.sym("res:" + kind + "#")
			}
		}
		if kind == "Enqueue" || kind == "RunTask" {
			for i := 1; i < len(args); i++ {
				args[i] = ps.taskTerm(s, args[i])
			}
		}
		ps.emit(s, f, pos, kind, args[1:]...)
		s.trace[len(s.trace)-1].Res = res
		if kind == "SFDelete" {
			// a write clears the key's in-flight record: later identity tests of old records fail
			s.cells["&sfcleared"] = args[1]
		}
		if res != "" {
			bind(res)
		}
		return nil
	}
	// standard library and opaque module functions
	pkg := ""
	if o.Pkg != nil {
		pkg = o.Pkg.Pkg.Path()
	}
	switch {
	case pkg == "sync" && o.Signature.Recv() != nil:
		if o.Name() == "Put" && cc != nil && len(cc.Args) == 2 && namedTypeName(cc.Args[1].Type()) == "" {
			// returning a replay task to its pool (the semantic sink of putTask)
			if mi, ok := cc.Args[1].(*ssa.MakeInterface); ok && namedTypeName(mi.X.Type()) == "task" {
				ps.emit(s, f, pos, "PutTask", args[1])
				return nil
			}
		}
		ps.emit(s, f, pos, "Sync", append([]string{o.Name()}, args...)...)
		if o.Signature.Results().Len() > 0 {
			bind(ps.sym("sync:" + o.Name() + "#"))
		}
		return nil
	case pkg == "sync/atomic":
		res := ""
		if o.Signature.Results().Len() > 0 {
			res = ps.sym("atomic:" + o.Name() + "#")
			bind(res)
		}
		if o.Name() != "Load" {
			ps.emit(s, f, pos, "Atomic", append([]string{o.Name()}, args...)...)
			s.trace[len(s.trace)-1].Res = res
		} else if ps.trackLoads {
			ps.emit(s, f, pos, "AtomicLoad", args...)
			s.trace[len(s.trace)-1].Res = res
		}
		return nil
	case pkg == "errors" && o.Name() == "Is" && len(args) == 2 && (strings.Contains(args[1], "ErrNotFound") || args[1] == ps.errNotFoundTerm()):
		if args[0] == "nil" {
			bind("false")
		} else {
			bind("IsNotFound(" + args[0] + ")")
		}
		return nil
	case pkg == "errors" && o.Name() == "As":
		t := "ErrorsAs(" + args[0] + ")"
		if strings.HasPrefix(args[0], "panicerr") {
			t = "true"
		} else if args[0] == "nil" {
			t = "false"
		}
		bind(t)
		return nil
	case pkg == "context":
		bind(ps.sym("ctx"))
		return nil
	}
	inModule := strings.HasPrefix(pkg, modPath)
	if inModule && len(o.Blocks) > 0 && f.depth < ps.maxDepth && !ps.noInline[o] && (pkg == modPath || pkg == modPath+"/internal/xmath" || ps.inlinePkgs[pkg]) {
		if f.active(o) >= 2 {
			return []*psOutcome{{S: s, Cut: true}}
		}
		if o.Name() == "NowNano" {
			t := ps.sym("statnow")
			bind(t)
			return nil
		}
		if !hasLoop(o) || ps.inlineLoops[o] {
			return ps.exec(s, ps.newFrame(o, iargs, nil, "inline", f))
		}
	}
	res := ps.sym("res:" + o.Name() + "#")
	if o.Name() == "NowNano" {
		res = ps.sym("statnow")
	} else {
		ps.emit(s, f, pos, "Call", append([]string{funcName(o)}, args...)...)
		s.trace[len(s.trace)-1].Res = res
	}
	if o.Signature.Results().Len() > 1 && xv != nil {
		for i := 0; i < o.Signature.Results().Len(); i++ {
			s.cells["&"+res+"."+string(rune('0'+i))] = res + "." + string(rune('0'+i))
		}
	}
	if o.Signature.Results().Len() > 0 {
		bind(res)
	}
	return nil
}

// errNotFoundTerm renders the ErrNotFound constant the way val() does.
func (ps *PathSum) errNotFoundTerm() string {
	c := ps.cx.P.Const("", "ErrNotFound")
	if c == nil {
		return "?"
	}
	v := c.Val().ExactString()
	v = strings.Trim(v, "\"")
	if len(v) > 16 {
		v = v[:16]
	}
	return "str(" + v + ")"
}

// taskTerm renders a replay task by its contents: task(n,old,reason,cause). A task built by the summarised getTask is
// already such a term; one built by inlined code (pool hit: field stores, pool miss: literal) is read from its fields.
func (ps *PathSum) taskTerm(s *psState, t string) string {
	if strings.HasPrefix(t, "task(") || t == "nil" {
		return t
	}
	base := strings.TrimPrefix(t, "&")
	var parts []string
	for _, f := range []string{"n", "old", "writeReason", "deletionCause"} {
		v, ok := s.cells["&"+base+"."+f]
		if !ok {
			return t
		}
		parts = append(parts, v)
	}
	return "task(" + strings.Join(parts, ",") + ")"
}

// splitArgs splits "f(a,b(c,d),e)" -> [a b(c,d) e]
func splitArgs(t string) []string {
	i := strings.Index(t, "(")
	if i < 0 || !strings.HasSuffix(t, ")") {
		return nil
	}
	in := t[i+1 : len(t)-1]
	var out []string
	depth, start := 0, 0
	for j := 0; j < len(in); j++ {
		switch in[j] {
		case '(':
			depth++
		case ')':
			depth--
		case ',':
			if depth == 0 {
				out = append(out, in[start:j])
				start = j + 1
			}
		}
	}
	return append(out, in[start:])
}

package main

import (
	"fmt"
	"go/constant"
	"go/token"
	"go/types"
	"os"
	"sort"
	"strings"

	"golang.org/x/tools/go/ssa"
)

// Engine A (PATHSUM): path-sensitive effect summaries of the cache's operation functions.
//
// An entry function is executed symbolically over its SSA: every acyclic path (back edges bounded) from entry to a
// return/panic is enumerated with
//   - inlining of statically resolved module callees (bounded depth) and of closures at their call sites
//     (table computations run their callback exactly once with a fresh symbolic node - discharged by C15.once/rmw);
//   - an environment of cells (captured variables, struct fields) mapping to the last term stored on the path;
//   - a three-valued store of predicates over tracked terms (node nil-ness/expiry/liveness, configuration flags,
//     boolean parameters, call-record fields, compute op ...) used to prune infeasible branches;
//   - an event trace recognised by callee role.
// Terms are canonical strings. Nothing of the analysed program is executed.

type psEvent struct {
	Kind  string
	Args  []string
	Pos   token.Pos
	Async int // >0 inside an executor closure
	In    string
	Res   string // result symbol of an opaque call
}

func (e psEvent) String() string {
	a := ""
	if e.Async > 0 {
		a = "~"
	}
	return a + e.Kind + "(" + strings.Join(e.Args, ", ") + ")"
}

type psState struct {
	cells map[string]string
	preds map[string]bool
	trace []psEvent
	async int
	dead  bool
}

func (s *psState) clone() *psState {
	n := &psState{cells: make(map[string]string, len(s.cells)), preds: make(map[string]bool, len(s.preds)), async: s.async, dead: s.dead}
	for k, v := range s.cells {
		n.cells[k] = v
	}
	for k, v := range s.preds {
		n.preds[k] = v
	}
	n.trace = append(make([]psEvent, 0, len(s.trace)+8), s.trace...)
	return n
}

type psOutcome struct {
	S     *psState
	Rets  []string
	Panic bool
	Cut   bool // ended by the loop bound
}

type psDefer struct {
	callee string // closure term or "static:<name>"
	fn     *ssa.Function
	args   []string
	instr  *ssa.Defer
}

type psFrame struct {
	fn     *ssa.Function
	id     int
	vals   map[ssa.Value]string
	block  *ssa.BasicBlock
	prev   *ssa.BasicBlock
	idx    int
	depth  int
	defers []psDefer
	visits map[*ssa.BasicBlock]int
	kind   string
	ancRec bool       // an enclosing activation has a recovering deferred closure
	inDef  bool       // runs as (part of) a deferred call
	stack  *psFnStack // functions active on this path's call stack (recursion guard for inlining)
}

// psFnStack is the immutable list of functions whose activations enclose a frame.
type psFnStack struct {
	fn   *ssa.Function
	next *psFnStack
}

// active reports whether fn is already being executed on the frame's call stack: a recursive call is unrolled
// once (like a loop under the loop bound) and a path that recurses deeper is cut, otherwise every level multiplies
// the paths up to the depth bound.
func (f *psFrame) active(fn *ssa.Function) int {
	n := 0
	for s := f.stack; s != nil; s = s.next {
		if s.fn == fn {
			n++
		}
	}
	return n
}

func (ps *PathSum) canRecover(f *psFrame) bool {
	if f.ancRec {
		return true
	}
	for _, d := range f.defers {
		if cl, ok := ps.closures[d.callee]; ok && hasRecover(cl.fn) {
			return true
		}
	}
	return false
}

func (f *psFrame) clone() *psFrame {
	n := *f
	n.vals = make(map[ssa.Value]string, len(f.vals))
	for k, v := range f.vals {
		n.vals[k] = v
	}
	n.visits = make(map[*ssa.BasicBlock]int, len(f.visits))
	for k, v := range f.visits {
		n.visits[k] = v
	}
	n.defers = append([]psDefer(nil), f.defers...)
	return &n
}

type psClosure struct {
	fn    *ssa.Function
	binds []string
	bound *ssa.Function // bound method target
	recv  string
}

type PathSum struct {
	cx           *Ctx
	nid          int
	closures     map[string]*psClosure
	funcs        map[string]*ssa.Function
	fresh        map[string][]string // fresh node term -> [key, value, expiresAt, refreshableAt, weight]
	maxDepth     int
	loopBound    int
	pathCap      int
	steps        int
	forks        int
	silent       int
	capped       bool
	noInline     map[*ssa.Function]bool
	inlineLoops  map[*ssa.Function]bool
	asEvents     map[*ssa.Function]string       // extra per-run event functions (summarised callees)
	eventExtra   map[*ssa.Function][]string     // constant arguments appended to the event of a summarised callee
	inlinePkgs   map[string]bool                // additional packages whose functions are inlined
	alsoRelevant []string                       // additional substrings that make a branch condition a recorded predicate
	trackLoads   bool                           // atomic Load methods become AtomicLoad(addr) events with their result symbol
	trackRanges  bool                           // every map-range step becomes a RangeNext(map, element) event
	trackLinks   bool                           // link getters become NodeRead events with their own result symbols (shape analysis)
	decide       func(atom string) (bool, bool) // scenario: fixes the value of an otherwise unknown branch condition
	roles        *psRoles
	maxSeen      int
}

type psRoles struct {
	tableCompute, tableGet, tableRange, tableSize *ssa.Function
	create, nodeToEntry                           *ssa.Function
	hashmapF, callsF                              *types.Var
	executorF, weigherF, onDelF, onAtomF          *types.Var
	eventFns                                      map[*ssa.Function]string
	satAdd, abs                                   *ssa.Function
}

var taskNeverNil bool

func newPathSum(cx *Ctx) *PathSum {
	ps := &PathSum{cx: cx, funcs: map[string]*ssa.Function{}, closures: map[string]*psClosure{}, fresh: map[string][]string{}, maxDepth: 9, loopBound: 1, pathCap: 30000, noInline: map[*ssa.Function]bool{}, inlineLoops: map[*ssa.Function]bool{}, asEvents: map[*ssa.Function]string{}, eventExtra: map[*ssa.Function][]string{}}
	if r := os.Getenv("OTTERLINT_RELEVANT"); r != "" {
		ps.alsoRelevant = strings.Split(r, ",")
	}
	if os.Getenv("OTTERLINT_TRACKLOADS") != "" {
		ps.trackLoads = true
	}
	if cx.Tier == "thorough" {
		ps.maxDepth = 12
		ps.loopBound = 2
	}
	P := cx.P
	r := &psRoles{eventFns: map[*ssa.Function]string{}}
	r.tableCompute = P.Func(hmPkg, "Map", "Compute")
	r.tableGet = P.Func(hmPkg, "Map", "Get")
	r.tableRange = P.Func(hmPkg, "Map", "Range")
	r.tableSize = P.Func(hmPkg, "Map", "Size")
	r.create = P.Func("internal/generated/node", "Manager", "Create")
	r.nodeToEntry = P.Func("", "cache", "nodeToEntry")
	r.hashmapF = P.Field("", "cache", "hashmap")
	r.callsF = P.Field("", "group", "calls")
	r.executorF = P.Field("", "cache", "executor")
	r.weigherF = P.Field("", "cache", "weigher")
	r.satAdd = P.Func("internal/xmath", "", "SaturatedAdd")
	r.abs = P.Func("internal/xmath", "", "Abs")
	ev := func(kind, recv, name string) {
		if f := P.Func("", recv, name); f != nil {
			r.eventFns[origin(f)] = kind
		}
	}
	ev("AtomicNotify", "cache", "notifyAtomicDeletion")
	ev("AsyncNotify", "cache", "notifyDeletion")
	ev("Task", "cache", "getTask")
	// a task handed out by getTask is an object (pool item or fresh allocation): it is never nil unless getTask says so
	taskNeverNil = false
	if f := P.Func("", "cache", "getTask"); f != nil {
		taskNeverNil = true
		allInstrs(origin(f), func(in ssa.Instruction) {
			if ret, ok := in.(*ssa.Return); ok {
				for _, r := range ret.Results {
					switch x := r.(type) {
					case *ssa.Const:
						taskNeverNil = false
					case *ssa.Phi:
						for _, e := range x.Edges {
							if c, isC := e.(*ssa.Const); isC && c.IsNil() {
								taskNeverNil = false
							}
						}
					case *ssa.Parameter:
						taskNeverNil = false
					}
				}
			}
		})
	}
	ev("Enqueue", "cache", "afterWriteTask")
	ev("RunTask", "cache", "runTask")
	ev("ScheduleDrain", "cache", "scheduleDrainBuffers")
	ev("ScheduleAfterWrite", "cache", "scheduleAfterWrite")
	ev("PerformCleanUp", "cache", "performCleanUp")
	ev("Maintenance", "cache", "maintenance")
	ev("PutTask", "cache", "putTask")
	ev("SFDelete", "group", "delete")
	ev("SFDeleteCall", "group", "deleteCall")
	ev("SFInit", "group", "init")
	ev("SkipReadBuffer", "cache", "skipReadBuffer")
	ev("ShouldDrain", "cache", "shouldDrainBuffers")
	ev("Reschedule", "cache", "rescheduleCleanUpIfIncomplete")
	ev("PolicyDelete", "policy", "delete")
	ev("PolicyMakeDead", "policy", "makeDead")
	ev("PolicyAdd", "policy", "add")
	ev("PolicyUpdate", "policy", "update")
	ev("PolicyAccess", "policy", "access")
	ev("SetMaximumSize", "policy", "setMaximumSize")
	ev("SketchIncrement", "sketch", "increment")
	ev("SketchEnsure", "sketch", "ensureCapacity")
	ev("SketchFrequency", "sketch", "frequency")
	ev("Admit", "policy", "admit")
	if f := P.Func("", "", "newPanicError"); f != nil {
		r.eventFns[origin(f)] = "NewPanicError"
	}
	if f := P.Func(expPkg, "Variable", "Delete"); f != nil {
		r.eventFns[origin(f)] = "ExpDelete"
	}
	if f := P.Func(expPkg, "Variable", "Add"); f != nil {
		r.eventFns[origin(f)] = "ExpAdd"
	}
	if f := P.Func(lossyPkg, "Striped", "Add"); f != nil {
		r.eventFns[origin(f)] = "ReadBufAdd"
	}
	ps.roles = r
	return ps
}

func (ps *PathSum) emit(s *psState, f *psFrame, pos token.Pos, kind string, args ...string) {
	in := funcName(f.fn)
	if f.inDef && !strings.Contains(in, "$") {
		in += "$deferred" // a helper called from a deferred closure is part of the epilogue
	}
	s.trace = append(s.trace, psEvent{Kind: kind, Args: args, Pos: pos, Async: s.async, In: in})
}

func (ps *PathSum) sym(prefix string) string {
	ps.nid++
	return fmt.Sprintf("%s%d", prefix, ps.nid)
}

// ---------- terms ----------

func (ps *PathSum) val(f *psFrame, v ssa.Value) string {
	switch x := v.(type) {
	case *ssa.Const:
		if x.Value == nil {
			if b, ok := x.Type().Underlying().(*types.Basic); ok && b.Kind() != types.UnsafePointer {
				return "zero"
			}
			switch x.Type().Underlying().(type) {
			case *types.Pointer, *types.Interface, *types.Slice, *types.Map, *types.Chan, *types.Signature:
				return "nil"
			case *types.Basic:
				return "nil"
			}
			return "zero"
		}
		if x.Value.Kind() == constant.Bool {
			return x.Value.String()
		}
		if x.Value.Kind() == constant.String {
			s := constant.StringVal(x.Value)
			if len(s) > 16 {
				s = s[:16]
			}
			return "str(" + s + ")"
		}
		return "const(" + x.Value.ExactString() + ")"
	case *ssa.Function:
		t := "func:" + funcName(x)
		ps.funcs[t] = x
		return t
	case *ssa.Global:
		return "&global:" + x.Name()
	case *ssa.Builtin:
		return "builtin:" + x.Name()
	}
	if t, ok := f.vals[v]; ok {
		return t
	}
	if p, ok := v.(*ssa.Parameter); ok {
		return "param:" + pname(p)
	}
	if fv, ok := v.(*ssa.FreeVar); ok {
		return "freevar:" + fvname(fv)
	}
	return "unk:" + v.Name()
}

func isNodeType(t types.Type) bool {
	return namedTypeName(t) == "Node"
}

func (ps *PathSum) load(s *psState, addr string, f *psFrame, t types.Type) string {
	if strings.HasPrefix(addr, "&") {
		if v, ok := s.cells[addr]; ok {
			return v
		}
		loc := addr[1:]
		// memory that an opaque callback may have changed is re-read as a new symbol
		if strings.HasPrefix(loc, "param:p.") {
			if e, ok := s.cells["&epoch:param:p"]; ok {
				return "load(" + loc + "@" + e + ")"
			}
		}
		// field of a struct copied from elsewhere
		if i := strings.LastIndex(loc, "."); i > 0 {
			if src, ok := s.cells["&structof:"+loc[:i]]; ok {
				return ps.load(s, "&"+src+loc[i:], f, t)
			}
		}
		// a dereferenced pointer parameter is non-nil on this path
		if strings.HasPrefix(loc, "param:") {
			if i := strings.Index(loc, "."); i > 0 {
				if _, ok := s.preds["IsNil("+loc[:i]+")"]; !ok && loc[:i] != "param:c" {
					s.preds["IsNil("+loc[:i]+")"] = false
				}
			}
		}
		// the deletion handlers: a cache without a handler delivers nothing; the summaries describe the configured case
		if i := strings.LastIndex(loc, "."); i >= 0 && (strings.HasPrefix(loc, "param:c.") || strings.HasPrefix(loc, "freevar:c.")) {
			if fld := loc[i+1:]; fld == "onDeletion" || fld == "onAtomicDeletion" {
				return "handler:" + fld
			}
		}
		// configuration flags of the cache
		if i := strings.LastIndex(loc, "."); i >= 0 {
			fld := loc[i+1:]
			if strings.HasPrefix(loc, "param:c.") || strings.HasPrefix(loc, "freevar:c.") || strings.HasPrefix(loc, "load(param:c.cache)") {
				switch fld {
				case "withExpiration", "withRefresh", "withEviction", "withMaintenance", "withTime", "withStats", "isWeighted", "hasDefaultExecutor":
					return "flag:" + fld
				}
			}
		}
		// a struct loaded as a whole is a view of its memory: field reads go back to the cells
		if _, isStruct := t.Underlying().(*types.Struct); isStruct {
			hasFields := false
			for k := range s.cells {
				if strings.HasPrefix(k, addr+".") {
					hasFields = true
					break
				}
			}
			if hasFields || strings.Contains(loc, "[") || strings.HasPrefix(loc, "param:") {
				return "@" + loc
			}
		}
		// zero-initialised locals, and never-written fields of an object allocated on this path (composite literal)
		freshField := strings.HasPrefix(loc, "complit") && strings.Count(loc, ".") == 1 && !strings.Contains(loc, "[")
		if !freshField && strings.Count(loc, ".") == 1 && !strings.Contains(loc, "[") && !strings.Contains(loc, "(") {
			// a field of a local struct variable that was initialised field by field (never assigned as a whole)
			base := loc[:strings.Index(loc, ".")]
			if strings.Contains(base, "#") {
				_, whole := s.cells["&"+base]
				_, copied := s.cells["&structof:"+base]
				someField := false
				for k := range s.cells {
					if strings.HasPrefix(k, "&"+base+".") {
						someField = true
						break
					}
				}
				_, zeroed := s.cells["&zeroalloc:"+base]
				freshField = !whole && !copied && (someField || zeroed)
			}
		}
		if strings.Contains(loc, "#") && (!strings.Contains(loc, ".") || freshField) && !strings.Contains(loc, "[") {
			switch u := t.Underlying().(type) {
			case *types.Basic:
				if u.Kind() == types.Bool {
					return "false"
				}
				return "zero"
			case *types.Pointer, *types.Interface, *types.Slice, *types.Map, *types.Chan, *types.Signature:
				return "nil"
			default:
				return "zero"
			}
		}
		return "load(" + loc + ")"
	}
	return "load(" + addr + ")"
}

func trimAmp(s string) string { return strings.TrimPrefix(s, "&") }

// ---------- predicates ----------

func splitNeg(t string) (string, bool) {
	neg := false
	for strings.HasPrefix(t, "!") {
		neg = !neg
		t = t[1:]
	}
	return t, neg
}

func relevantAtom(a string) bool {
	for _, p := range []string{"Expired(", "Alive(", "Dead(", "Fresh(", "PtrEq(", "flag:", "IsNotFound(", "delcall(", "IsNil(", "Eq(", "recovered#", "ok:", "res:StartCall#", "ErrorsAs("} {
		if strings.HasPrefix(a, p) {
			if p == "IsNil(" {
				inner := a[6 : len(a)-1]
				if strings.Contains(inner, ".on") || strings.Contains(inner, "taskPool") || strings.Contains(inner, "sync.Pool") || strings.HasPrefix(inner, "assert(") || strings.HasPrefix(inner, "unk:") {
					return false
				}
			}
			if p == "Eq(" {
				// comparisons against constants of tracked scalars (compute op, drain status is not tracked)
				if strings.Contains(a, "prev") || strings.Contains(a, "sfgot") {
					return true // identity tests of in-flight records
				}
				return strings.Contains(a, "const(") && !strings.Contains(a, "drainStatus") && !strings.Contains(a, "len(")
			}
			return true
		}
	}
	if strings.HasPrefix(a, "param:") && !strings.Contains(a, "(") {
		return true
	}
	if strings.HasPrefix(a, "user:") && !strings.Contains(a, "(") {
		return true // boolean results of user callbacks (cancel flags)
	}
	for _, p := range []string{"InWindow(", "InMainProbation(", "InMainProtected(", "res:Contains#", "res:NotContains#"} {
		if strings.HasPrefix(a, p) {
			return true
		}
	}
	if strings.HasPrefix(a, "(") && (strings.Contains(a, "Weight(") || strings.Contains(a, "eightedSize") || strings.Contains(a, "aximum")) {
		return true // weight / capacity comparisons of the policy
	}
	if strings.HasPrefix(a, "load(") && (strings.HasSuffix(a, ".isNotFound)") || strings.HasSuffix(a, ".isFake)") || strings.HasSuffix(a, ".isRefresh)") || strings.HasSuffix(a, ".isInitialized)") || strings.HasSuffix(a, ".isExp)")) {
		return true
	}
	return false
}

// consistent applies the configuration axioms (each discharged on newCache / the node variants by C01.cap, C01.mgr).
func consistent(p map[string]bool) bool {
	get := func(a string) (bool, bool) { v, ok := p[a]; return v, ok }
	we, weOK := get("flag:withExpiration")
	wv, wvOK := get("flag:withEviction")
	wm, wmOK := get("flag:withMaintenance")
	iw, iwOK := get("flag:isWeighted")
	if weOK && we && wmOK && !wm {
		return false
	}
	if wvOK && wv && wmOK && !wm {
		return false
	}
	if wmOK && wm && weOK && !we && wvOK && !wv {
		return false
	}
	if iwOK && iw && wvOK && !wv {
		return false
	}
	for a, v := range p {
		if strings.HasPrefix(a, "Expired(") && v && ((weOK && !we) || (wmOK && !wm)) {
			return false
		}
		if strings.HasPrefix(a, "Alive(") && !v && wmOK && !wm {
			return false
		}
		if strings.HasPrefix(a, "ErrorsAs(") && v {
			x := a[len("ErrorsAs(") : len(a)-1]
			if n, ok := p["IsNil("+x+")"]; ok && n {
				return false
			}
			if n, ok := p["IsNotFound("+x+")"]; ok && n {
				return false
			}
		}
		if strings.HasPrefix(a, "Fresh(") && !v {
			if wr, ok := p["flag:withRefresh"]; ok && !wr {
				// without refresh IsFresh is constant true only when alive; not used for pruning
				_ = wr
			}
		}
		if strings.HasPrefix(a, "IsNil(") && v {
			x := a[6 : len(a)-1]
			for b := range p {
				if b != a && (strings.HasPrefix(b, "Expired("+x+",") || b == "Alive("+x+")" || b == "Dead("+x+")" || strings.HasPrefix(b, "Fresh("+x+",")) {
					return false
				}
			}
		}
	}
	return true
}

// ---------- execution ----------

func (ps *PathSum) newFrame(fn *ssa.Function, args, binds []string, kind string, parent *psFrame) *psFrame {
	ps.nid++
	depth := 0
	anc := false
	if parent != nil {
		depth = parent.depth + 1
		anc = ps.canRecover(parent)
	}
	nf := &psFrame{fn: fn, id: ps.nid, vals: map[ssa.Value]string{}, block: fn.Blocks[0], kind: kind, depth: depth, visits: map[*ssa.BasicBlock]int{}, ancRec: anc}
	nf.inDef = kind == "deferred" || (parent != nil && parent.inDef)
	if parent != nil {
		nf.stack = &psFnStack{fn: fn, next: parent.stack}
	} else {
		nf.stack = &psFnStack{fn: fn}
	}
	for i, p := range fn.Params {
		if i < len(args) {
			nf.vals[p] = args[i]
		}
	}
	for i, fv := range fn.FreeVars {
		if i < len(binds) {
			nf.vals[fv] = binds[i]
		}
	}
	return nf
}

// Run enumerates the outcomes of fn with symbolic parameters.
func (ps *PathSum) Run(fn *ssa.Function, presetArgs map[string]string) []*psOutcome {
	var args []string
	for _, p := range fn.Params {
		a := "param:" + pname(p)
		if v, ok := presetArgs[pname(p)]; ok {
			a = v
		}
		args = append(args, a)
	}
	var binds []string
	for _, fv := range fn.FreeVars {
		binds = append(binds, "freevar:"+fvname(fv))
	}
	s := &psState{cells: map[string]string{}, preds: map[string]bool{}}
	outs := ps.exec(s, ps.newFrame(fn, args, binds, "entry", nil))
	return ps.dedupe(outs)
}

func (o *psOutcome) key() string {
	var ps []string
	for k, v := range o.S.preds {
		if v {
			ps = append(ps, k)
		} else {
			ps = append(ps, "!"+k)
		}
	}
	sort.Strings(ps)
	var cs []string
	for k, v := range o.S.cells {
		cs = append(cs, k+"="+v)
	}
	sort.Strings(cs)
	var tr []string
	for _, e := range o.S.trace {
		tr = append(tr, e.String())
	}
	return strings.Join(ps, "&") + "|" + strings.Join(tr, ";") + "|" + strings.Join(o.Rets, ",") + fmt.Sprint(o.Panic, o.Cut) + "|" + strings.Join(cs, ";")
}

func (ps *PathSum) dedupe(in []*psOutcome) []*psOutcome {
	if len(in) < 2 {
		return in
	}
	seen := map[string]bool{}
	var out []*psOutcome
	for _, o := range in {
		k := o.key()
		if !seen[k] {
			seen[k] = true
			out = append(out, o)
		}
	}
	if len(out) > ps.maxSeen {
		ps.maxSeen = len(out)
	}
	if len(out) > ps.pathCap {
		ps.capped = true
		out = out[:ps.pathCap]
	}
	return out
}

// dropFrameCells removes the cells of a finished activation unless still referenced.
func (ps *PathSum) dropFrameCells(s *psState, id int, rets []string) {
	tag := fmt.Sprintf("#%d", id)
	var victims []string
	for k := range s.cells {
		if strings.Contains(k, tag) && (strings.HasSuffix(k, tag) || strings.Contains(k, tag+".") || strings.Contains(k, tag+"[")) {
			victims = append(victims, k)
		}
	}
	if len(victims) == 0 {
		return
	}
	ref := strings.Join(rets, "|")
	for k, v := range s.cells {
		if !strings.Contains(k, tag) {
			ref += "|" + v
		}
	}
	// a closure that escapes (returned, or stored) keeps the variables it captured alive
	for round := 0; round < 3; round++ {
		grew := false
		for id, cl := range ps.closures {
			if !strings.Contains(ref, id) {
				continue
			}
			for _, b := range cl.binds {
				if b != "" && !strings.Contains(ref, b) {
					ref += "|" + b
					grew = true
				}
			}
		}
		if !grew {
			break
		}
	}
	for _, k := range victims {
		base := k
		if i := strings.Index(k, tag); i >= 0 {
			base = k[:i+len(tag)]
		}
		if strings.Contains(ref, base) || strings.Contains(ref, "@"+strings.TrimPrefix(base, "&")) {
			continue
		}
		delete(s.cells, k)
	}
}

func (ps *PathSum) exec(s *psState, f *psFrame) []*psOutcome {
	for {
		ps.steps++
		if ps.steps > 5_000_000 {
			ps.capped = true
			return nil
		}
		if f.idx >= len(f.block.Instrs) {
			return nil
		}
		ins := f.block.Instrs[f.idx]
		f.idx++
		switch x := ins.(type) {
		case *ssa.Alloc:
			f.vals[x] = fmt.Sprintf("&%s#%d", strings.ReplaceAll(x.Comment, " ", "_"), f.id)
			if x.Heap {
				// "new" allocations are distinct objects per site
				f.vals[x] = fmt.Sprintf("&%s_%s#%d", strings.ReplaceAll(x.Comment, " ", "_"), x.Name(), f.id)
			}
			if _, isStruct := derefType(x.Type()).Underlying().(*types.Struct); isStruct {
				// Go zero-initialises every allocation: fields of this struct read before they are written are zero
				s.cells["&zeroalloc:"+f.vals[x][1:]] = "1"
			}
		case *ssa.Store:
			addr, v := ps.val(f, x.Addr), ps.val(f, x.Val)
			if strings.HasPrefix(addr, "&") {
				s.cells[addr] = v
				if strings.HasPrefix(v, "@") {
					// struct copy: remember where the bytes came from (fields never written resolve to the source)
					s.cells["&structof:"+addr[1:]] = v[1:]
					src := "&" + v[1:] + "."
					for k, cv := range s.cells {
						if strings.HasPrefix(k, src) {
							s.cells[addr+"."+k[len(src):]] = cv
						}
					}
				}
				if strings.Contains(addr, ".") && !strings.Contains(addr, "complit") && !strings.Contains(addr, "varargs") {
					ps.emit(s, f, x.Pos(), "FieldStore", addr[1:], v)
				} else if strings.Contains(addr, ".") || (strings.Contains(addr, "varargs") && strings.Contains(addr, "[")) {
					// fields of a composite literal under construction, elements of a variadic argument list
					ps.emit(s, f, x.Pos(), "LitStore", addr[1:], v)
				}
			} else {
				ps.emit(s, f, x.Pos(), "FieldStore", "*("+addr+")", v)
			}
		case *ssa.UnOp:
			switch x.Op {
			case token.MUL:
				f.vals[x] = ps.load(s, ps.val(f, x.X), f, x.Type())
			case token.NOT:
				t := ps.val(f, x.X)
				switch t {
				case "true":
					f.vals[x] = "false"
				case "false":
					f.vals[x] = "true"
				default:
					if strings.HasPrefix(t, "!") {
						f.vals[x] = t[1:]
					} else {
						f.vals[x] = "!" + t
					}
				}
			case token.ARROW:
				f.vals[x] = "recv(" + ps.val(f, x.X) + ")"
				ps.emit(s, f, x.Pos(), "Recv", ps.val(f, x.X))
			default:
				f.vals[x] = x.Op.String() + ps.val(f, x.X)
			}
		case *ssa.FieldAddr:
			f.vals[x] = "&" + trimAmp(ps.val(f, x.X)) + "." + fieldNameOf(x.X.Type(), x.Field)
		case *ssa.Field:
			base := ps.val(f, x.X)
			name := fieldNameOf(x.X.Type(), x.Field)
			base = strings.TrimPrefix(base, "@")
			if v, ok := s.cells["&"+base+"."+name]; ok {
				f.vals[x] = v
			} else {
				f.vals[x] = base + "." + name
			}
		case *ssa.IndexAddr:
			f.vals[x] = "&" + trimAmp(ps.val(f, x.X)) + "[" + ps.val(f, x.Index) + "]"
		case *ssa.Index:
			f.vals[x] = ps.val(f, x.X) + "[" + ps.val(f, x.Index) + "]"
		case *ssa.Lookup:
			f.vals[x] = "lookup(" + ps.val(f, x.X) + "," + ps.val(f, x.Index) + ")"
			if x.CommaOk {
				t := ps.sym("tuple")
				s.cells["&"+t+".0"] = "lookup(" + ps.val(f, x.X) + "," + ps.val(f, x.Index) + ")"
				s.cells["&"+t+".1"] = "ok:lookup(" + ps.val(f, x.X) + "," + ps.val(f, x.Index) + ")"
				f.vals[x] = t
			}
		case *ssa.BinOp:
			f.vals[x] = ps.binop(f, x)
		case *ssa.Phi:
			for i, p := range f.block.Preds {
				if p == f.prev {
					f.vals[x] = ps.val(f, x.Edges[i])
				}
			}
		case *ssa.MakeClosure:
			fn := x.Fn.(*ssa.Function)
			var binds []string
			for _, b := range x.Bindings {
				binds = append(binds, ps.val(f, b))
			}
			id := ps.sym("closure:" + fn.Name() + "#")
			cl := &psClosure{fn: fn, binds: binds}
			if bm := boundMethod(x); bm != nil {
				cl.bound = bm
				if len(binds) > 0 {
					cl.recv = binds[0]
				}
			}
			ps.closures[id] = cl
			f.vals[x] = id
		case *ssa.MakeInterface:
			f.vals[x] = ps.val(f, x.X)
		case *ssa.ChangeType:
			f.vals[x] = ps.val(f, x.X)
		case *ssa.ChangeInterface:
			f.vals[x] = ps.val(f, x.X)
		case *ssa.Convert:
			f.vals[x] = ps.val(f, x.X)
		case *ssa.Extract:
			t := ps.val(f, x.Tuple)
			if v, ok := s.cells[fmt.Sprintf("&%s.%d", t, x.Index)]; ok {
				f.vals[x] = v
			} else {
				f.vals[x] = fmt.Sprintf("%s.%d", t, x.Index)
			}
		case *ssa.TypeAssert:
			if x.CommaOk {
				t := ps.sym("tuple")
				s.cells["&"+t+".0"] = "assert(" + ps.val(f, x.X) + ")"
				s.cells["&"+t+".1"] = "okassert(" + ps.val(f, x.X) + ")"
				f.vals[x] = t
			} else {
				f.vals[x] = ps.val(f, x.X)
			}
		case *ssa.MakeChan:
			f.vals[x] = ps.sym("chan") + "(cap=" + ps.val(f, x.Size) + ")"
			ps.emit(s, f, x.Pos(), "MakeChan", f.vals[x])
		case *ssa.MakeMap:
			f.vals[x] = ps.sym("map")
		case *ssa.MakeSlice:
			f.vals[x] = ps.sym("slice")
		case *ssa.Slice:
			f.vals[x] = ps.val(f, x.X)
		case *ssa.Range:
			f.vals[x] = "range(" + ps.val(f, x.X) + ")"
			delete(s.cells, fmt.Sprintf("&iterated:%d:%s", f.id, x.Name()))
		case *ssa.Next:
			t := ps.sym("next")
			okTerm := "ok:" + t
			it := ps.val(f, x.Iter)
			if strings.HasPrefix(it, "range(") {
				m := it[6 : len(it)-1]
				if m == "nil" || (strings.HasPrefix(m, "map") && s.cells["&len:"+m] == "") {
					okTerm = "false" // ranging over a nil / still empty map
				}
				// a map written on this path is not empty: its range yields at least one element
				itKey := fmt.Sprintf("&iterated:%d:%s", f.id, x.Iter.Name())
				if strings.HasPrefix(m, "map") && s.cells["&len:"+m] == "pos" && s.cells[itKey] == "" {
					okTerm = "true"
				}
				s.cells[itKey] = "1"
			}
			if ps.trackRanges && strings.HasPrefix(it, "range(") {
				ps.emit(s, f, x.Pos(), "RangeNext", it[6:len(it)-1], t, okTerm)
			}
			if strings.HasPrefix(it, "range(") {
				s.cells["&rangeof:"+t] = it[6 : len(it)-1]
			}
			s.cells["&"+t+".0"] = okTerm
			s.cells["&"+t+".1"] = t + ".k"
			s.cells["&"+t+".2"] = t + ".v"
			f.vals[x] = t
		case *ssa.MapUpdate:
			ps.emit(s, f, x.Pos(), "MapUpdate", ps.val(f, x.Map), ps.val(f, x.Key), ps.val(f, x.Value))
			s.cells["&len:"+ps.val(f, x.Map)] = "pos"
		case *ssa.Send:
			ps.emit(s, f, x.Pos(), "Send", ps.val(f, x.Chan), ps.val(f, x.X))
		case *ssa.Select:
			f.vals[x] = ps.sym("select")
		case *ssa.DebugRef:
		case *ssa.Go:
			ps.emit(s, f, x.Pos(), "Go", ps.val(f, x.Call.Value))
		case *ssa.Defer:
			d := psDefer{instr: x}
			for _, a := range x.Call.Args {
				d.args = append(d.args, ps.val(f, a))
			}
			if _, isMC := x.Call.Value.(*ssa.MakeClosure); isMC {
				d.callee = ps.val(f, x.Call.Value)
			} else if sc := x.Call.StaticCallee(); sc != nil {
				d.fn = sc
				d.callee = "static:" + funcName(sc)
			} else {
				d.callee = ps.val(f, x.Call.Value)
			}
			f.defers = append(f.defers, d)
		case *ssa.RunDefers:
			if len(f.defers) > 0 {
				return ps.runDefersThen(s, f, false)
			}
		case *ssa.Call:
			if outs, handled := ps.call(s, f, x); handled {
				return outs
			}
		case *ssa.Jump:
			if !ps.enter(f, f.block.Succs[0]) {
				return []*psOutcome{{S: s, Cut: true}}
			}
		case *ssa.If:
			return ps.branch(s, f, x)
		case *ssa.Return:
			var rs []string
			for _, r := range x.Results {
				rs = append(rs, ps.val(f, r))
			}
			ps.dropFrameCells(s, f.id, rs)
			return []*psOutcome{{S: s, Rets: rs}}
		case *ssa.Panic:
			ps.emit(s, f, x.Pos(), "Panic", ps.val(f, x.X))
			return []*psOutcome{{S: s, Panic: true}}
		default:
			if v, ok := ins.(ssa.Value); ok {
				f.vals[v] = ps.sym("sym:" + v.Name() + "@" + f.fn.Name() + "#")
			}
		}
	}
}

func fieldNameOf(t types.Type, i int) string {
	if p, ok := t.Underlying().(*types.Pointer); ok {
		t = p.Elem()
	}
	st, _ := t.Underlying().(*types.Struct)
	if st == nil || i >= st.NumFields() {
		return "?"
	}
	return fname(st.Field(i))
}

// enter moves to block b honouring the back-edge bound.
func (ps *PathSum) enter(f *psFrame, b *ssa.BasicBlock) bool {
	f.visits[b]++
	limit := ps.loopBound + 1
	if isLoopHeader(b) {
		limit++ // the header may be reached once more to evaluate the exit condition
	}
	if f.visits[b] > limit {
		return false
	}
	f.prev, f.block, f.idx = f.block, b, 0
	return true
}

func (ps *PathSum) binop(f *psFrame, x *ssa.BinOp) string {
	a, b := ps.val(f, x.X), ps.val(f, x.Y)
	switch x.Op {
	case token.EQL, token.NEQ:
		var t string
		switch {
		case b == "nil" || a == "nil":
			o := a
			if a == "nil" {
				o = b
			}
			switch {
			case o == "nil":
				t = "true"
			case taskNeverNil && strings.HasPrefix(o, "task("):
				t = "false"
			case strings.HasPrefix(o, "fresh") || strings.HasPrefix(o, "closure:") || strings.HasPrefix(o, "&") || strings.HasPrefix(o, "newcall") || strings.HasPrefix(o, "panicerr") || o == "panicval" || isMadeTerm(o) || strings.HasPrefix(o, "handler:"):
				t = "false"
			default:
				t = "IsNil(" + o + ")"
			}
		case a == b:
			t = "true"
		case isConstTerm(a) && isConstTerm(b):
			t = "false"
		case (strings.HasPrefix(a, "lenpos(") && b == "const(0)") || (strings.HasPrefix(b, "lenpos(") && a == "const(0)"):
			t = "false" // the length of a container written on this path is not zero, however the test is spelled
		case strings.HasPrefix(a, "fresh") || strings.HasPrefix(b, "fresh"):
			// a node created on this path is distinct from every other node
			t = "false"
		default:
			if a > b && !isConstTerm(b) {
				a, b = b, a
			}
			if isConstTerm(a) {
				a, b = b, a
			}
			t = "Eq(" + a + "," + b + ")"
			if isNodePtrTerm(a) && isNodePtrTerm(b) {
				t = "PtrEq(" + a + "," + b + ")"
			}
		}
		if x.Op == token.NEQ {
			switch t {
			case "true":
				return "false"
			case "false":
				return "true"
			}
			return "!" + t
		}
		return t
	}
	// integer constants fold; len() of nil / known-nonempty maps is decided
	if ai, ok := constTermInt(a); ok {
		if bi, ok := constTermInt(b); ok {
			switch x.Op {
			case token.ADD:
				return fmt.Sprintf("const(%d)", ai+bi)
			case token.SUB:
				return fmt.Sprintf("const(%d)", ai-bi)
			case token.LSS:
				return fmt.Sprint(ai < bi)
			case token.LEQ:
				return fmt.Sprint(ai <= bi)
			case token.GTR:
				return fmt.Sprint(ai > bi)
			case token.GEQ:
				return fmt.Sprint(ai >= bi)
			}
		}
	}
	if strings.HasPrefix(a, "lenpos(") && b == "const(0)" {
		switch x.Op {
		case token.GTR:
			return "true"
		case token.LEQ:
			return "false"
		}
	}
	if strings.HasPrefix(a, "lenpos(") && b == "const(1)" {
		switch x.Op {
		case token.GEQ:
			return "true"
		case token.LSS:
			return "false"
		}
	}
	if strings.HasPrefix(b, "lenpos(") && a == "const(0)" {
		switch x.Op {
		case token.LSS:
			return "true"
		case token.GEQ:
			return "false"
		}
	}
	return "(" + a + x.Op.String() + b + ")"
}

func constTermInt(t string) (int64, bool) {
	if !strings.HasPrefix(t, "const(") || !strings.HasSuffix(t, ")") {
		return 0, false
	}
	var n int64
	if _, err := fmt.Sscanf(t[6:len(t)-1], "%d", &n); err != nil {
		return 0, false
	}
	return n, true
}

func isConstTerm(t string) bool {
	return strings.HasPrefix(t, "const(") || t == "true" || t == "false" || t == "zero" || strings.HasPrefix(t, "str(")
}

func isNodePtrTerm(t string) bool { return strings.HasPrefix(t, "AsPointer(") }

func (ps *PathSum) branch(s *psState, f *psFrame, x *ssa.If) []*psOutcome {
	c := ps.val(f, x.Cond)
	if c == "true" || c == "false" {
		i := 0
		if c == "false" {
			i = 1
		}
		if !ps.enter(f, f.block.Succs[i]) {
			return []*psOutcome{{S: s, Cut: true}}
		}
		return ps.exec(s, f)
	}
	atom, neg := splitNeg(c)
	if v, ok := lookupPred(s, atom); ok {
		i := 1
		if v != neg {
			i = 0
		}
		if !ps.enter(f, f.block.Succs[i]) {
			return []*psOutcome{{S: s, Cut: true}}
		}
		return ps.exec(s, f)
	}
	if strings.HasPrefix(atom, "Eq(") {
		// x == c is false once x == c' is known (whatever order two switches over x test their cases in)
		inner := atom[3 : len(atom)-1]
		if i := strings.LastIndex(inner, ",const("); i >= 0 {
			for a, was := range s.preds {
				if was && a != atom && strings.HasPrefix(a, "Eq("+inner[:i]+",const(") {
					j := 0
					if !neg {
						j = 1
					}
					if !ps.enter(f, f.block.Succs[j]) {
						return []*psOutcome{{S: s, Cut: true}}
					}
					return ps.exec(s, f)
				}
			}
		}
	}
	if v, ok := signDecide(s.preds, atom); ok {
		i := 1
		if v != neg {
			i = 0
		}
		if !ps.enter(f, f.block.Succs[i]) {
			return []*psOutcome{{S: s, Cut: true}}
		}
		return ps.exec(s, f)
	}
	if ps.decide != nil {
		if v, ok := ps.decide(atom); ok {
			s.preds[atom] = v
			i := 1
			if v != neg {
				i = 0
			}
			if !ps.enter(f, f.block.Succs[i]) {
				return []*psOutcome{{S: s, Cut: true}}
			}
			return ps.exec(s, f)
		}
	}
	rel := relevantAtom(atom)
	for _, sub := range ps.alsoRelevant {
		if strings.Contains(atom, sub) {
			rel = true
		}
	}
	if rel {
		ps.forks++
	} else {
		ps.silent++
	}
	var outs []*psOutcome
	for side := 0; side < 2; side++ {
		var s2 *psState
		var f2 *psFrame
		if side == 0 {
			s2, f2 = s.clone(), f.clone()
		} else {
			s2, f2 = s, f
		}
		if rel {
			s2.preds[atom] = (side == 0) != neg
			ps.implied(s2, atom, s2.preds[atom])
			if s2.dead || !consistent(s2.preds) {
				continue
			}
		}
		if !ps.enter(f2, f2.block.Succs[side]) {
			outs = append(outs, &psOutcome{S: s2, Cut: true})
			continue
		}
		outs = append(outs, ps.exec(s2, f2)...)
	}
	return ps.dedupe(outs)
}

// lookupPred consults the predicate store modulo the pointer identities established on the path.
func lookupPred(s *psState, atom string) (bool, bool) {
	if v, ok := s.preds[atom]; ok {
		return v, true
	}
	for k, b := range s.cells {
		if !strings.HasPrefix(k, "&alias:") {
			continue
		}
		a := k[len("&alias:"):]
		for _, pair := range [][2]string{{a, b}, {b, a}} {
			if strings.Contains(atom, pair[0]) {
				alt := strings.ReplaceAll(atom, "("+pair[0]+",", "("+pair[1]+",")
				alt = strings.ReplaceAll(alt, "("+pair[0]+")", "("+pair[1]+")")
				if v, ok := s.preds[alt]; ok && alt != atom {
					return v, true
				}
			}
		}
	}
	return false, false
}

// implied records simple consequences of a decided atom.
func (ps *PathSum) implied(s *psState, atom string, v bool) {
	if strings.HasPrefix(atom, "PtrEq(AsPointer(") && v {
		inner := atom[len("PtrEq(") : len(atom)-1]
		parts := strings.SplitN(inner, "),AsPointer(", 2)
		if len(parts) == 2 {
			a := strings.TrimPrefix(parts[0], "AsPointer(")
			b := strings.TrimSuffix(parts[1], ")")
			s.cells["&alias:"+a] = b
			// identical nodes have identical predicates: a contradiction makes the path infeasible
			for k, val := range s.preds {
				for _, pair := range [][2]string{{a, b}, {b, a}} {
					alt := strings.ReplaceAll(k, "("+pair[0]+",", "("+pair[1]+",")
					alt = strings.ReplaceAll(alt, "("+pair[0]+")", "("+pair[1]+")")
					if alt != k {
						if v2, ok := s.preds[alt]; ok && v2 != val {
							s.dead = true
						}
					}
				}
			}
		}
	}
	if strings.HasPrefix(atom, "Eq(") && v {
		// x == c  excludes x == c'
		inner := atom[3 : len(atom)-1]
		if i := strings.LastIndex(inner, ",const("); i >= 0 {
			x := inner[:i]
			for a, was := range s.preds {
				if a != atom && strings.HasPrefix(a, "Eq("+x+",const(") {
					if was {
						s.dead = true // x is already known to equal another constant: the path is infeasible
					}
					s.preds[a] = false
				}
			}
		}
	}
}

// runDefersThen executes the frame's deferred calls LIFO and continues the frame (at the instruction after
// RunDefers, or at the Recover block when recovering from a panic).
func (ps *PathSum) runDefersThen(s *psState, f *psFrame, recovering bool) []*psOutcome {
	defers := f.defers
	f.defers = nil
	type st struct {
		s         *psState
		recovered bool
	}
	cur := []st{{s, false}}
	for i := len(defers) - 1; i >= 0; i-- {
		d := defers[i]
		var next []st
		for _, c := range cur {
			if recovering && !c.recovered {
				c.s.cells["&recover#"] = "panicval"
			}
			var outs []*psOutcome
			if cl, ok := ps.closures[d.callee]; ok && cl.bound == nil {
				outs = ps.exec(c.s, ps.newFrame(cl.fn, d.args, cl.binds, "deferred", f))
			} else if d.fn != nil {
				outs = ps.callStatic(c.s, f, d.instr, d.fn, d.args, d.instr.Pos())
				if outs == nil {
					outs = []*psOutcome{{S: c.s}}
				}
			} else {
				ps.emit(c.s, f, d.instr.Pos(), "DeferredCall", d.callee)
				outs = []*psOutcome{{S: c.s}}
			}
			for _, o := range outs {
				if o.Panic || o.Cut {
					continue
				}
				rec := c.recovered
				if recovering {
					if _, still := o.S.cells["&recover#"]; !still {
						rec = true
					}
					delete(o.S.cells, "&recover#")
				}
				next = append(next, st{o.S, rec})
			}
		}
		cur = next
	}
	var res []*psOutcome
	for _, c := range cur {
		if recovering {
			if !c.recovered {
				res = append(res, &psOutcome{S: c.s, Panic: true})
				continue
			}
			f2 := f.clone()
			if f.fn.Recover != nil {
				f2.prev, f2.block, f2.idx = f2.block, f.fn.Recover, 0
				res = append(res, ps.exec(c.s, f2)...)
			} else {
				var rs []string
				for i := 0; i < f.fn.Signature.Results().Len(); i++ {
					rs = append(rs, "zero")
				}
				res = append(res, &psOutcome{S: c.s, Rets: rs})
			}
			continue
		}
		res = append(res, ps.exec(c.s, f.clone())...)
	}
	return ps.dedupe(res)
}

func hasRecover(fn *ssa.Function) bool {
	found := false
	allInstrs(fn, func(in ssa.Instruction) {
		if isBuiltinCall(in, "recover") {
			found = true
		}
	})
	return found
}

// continueWith binds callee outcomes into the caller and continues it.
func (ps *PathSum) continueWith(f *psFrame, call ssa.Value, couts []*psOutcome) []*psOutcome {
	couts = ps.dedupe(couts)
	var res []*psOutcome
	for _, co := range couts {
		if co.Cut {
			res = append(res, co)
			continue
		}
		if co.Panic {
			// does this frame recover?
			rec := false
			for _, d := range f.defers {
				if cl, ok := ps.closures[d.callee]; ok && hasRecover(cl.fn) {
					rec = true
				}
			}
			if rec {
				res = append(res, ps.runDefersThen(co.S, f.clone(), true)...)
			} else {
				res = append(res, co)
			}
			continue
		}
		f2 := f.clone()
		switch len(co.Rets) {
		case 0:
		case 1:
			f2.vals[call] = co.Rets[0]
		default:
			t := ps.sym("tuple")
			f2.vals[call] = t
			for i, r := range co.Rets {
				co.S.cells[fmt.Sprintf("&%s.%d", t, i)] = r
			}
		}
		res = append(res, ps.exec(co.S, f2)...)
	}
	return ps.dedupe(res)
}

var loopHeaderCache = map[*ssa.BasicBlock]bool{}

func isLoopHeader(b *ssa.BasicBlock) bool {
	if v, ok := loopHeaderCache[b]; ok {
		return v
	}
	h := false
	for _, p := range b.Preds {
		if b.Dominates(p) {
			h = true
		}
	}
	loopHeaderCache[b] = h
	return h
}

// isMadeTerm: results of make(...) on this path (map12, slice3, chan4(cap=..)) are non-nil.
func isMadeTerm(t string) bool {
	for _, p := range []string{"map", "slice", "chan"} {
		if strings.HasPrefix(t, p) && len(t) > len(p) && t[len(p)] >= '0' && t[len(p)] <= '9' {
			return true
		}
	}
	return false
}

// ---- sign reasoning over comparisons of one term with zero ----
//
// `diff := a - b; if diff < 0 { diff = -diff }; if diff <= 0 { return }` (an absolute value written out) tests the same
// term three times; the possible signs of the term (negative / zero / positive) are intersected over the comparisons
// recorded on the path, so that infeasible combinations are not explored and |x| <= 0 is known to mean x == 0.

var signMask = map[string]int{"<": 1, "<=": 3, ">": 4, ">=": 6, "==": 2, "!=": 5}

// signAtom parses "(T op const(0))"; a leading unary minus on T is folded into the operator.
func signAtom(atom string) (string, int, bool) {
	if !strings.HasPrefix(atom, "(") || !strings.HasSuffix(atom, "const(0))") {
		return "", 0, false
	}
	body := atom[1 : len(atom)-len("const(0))")]
	for _, op := range []string{"<=", ">=", "==", "!=", "<", ">"} {
		if strings.HasSuffix(body, op) {
			t := body[:len(body)-len(op)]
			m := signMask[op]
			for strings.HasPrefix(t, "-") {
				t = t[1:]
				m = (m&1)<<2 | (m & 2) | (m&4)>>2 // mirror negative <-> positive
			}
			if t == "" {
				return "", 0, false
			}
			return t, m, true
		}
	}
	return "", 0, false
}

// signPossible: the signs the term may still have given the comparisons recorded in preds (bit 1 negative, 2 zero, 4 positive).
func signPossible(preds map[string]bool, term string) int {
	p := 7
	for a, v := range preds {
		t, m, ok := signAtom(a)
		if !ok || t != term {
			continue
		}
		if v {
			p &= m
		} else {
			p &= ^m & 7
		}
	}
	return p
}

func signDecide(preds map[string]bool, atom string) (bool, bool) {
	t, m, ok := signAtom(atom)
	if !ok {
		return false, false
	}
	p := signPossible(preds, t)
	if p == 7 {
		return false, false
	}
	if p&m == 0 {
		return false, true
	}
	if p&^m == 0 {
		return true, true
	}
	return false, false
}

func derefType(t types.Type) types.Type {
	if p, ok := t.Underlying().(*types.Pointer); ok {
		return p.Elem()
	}
	return t
}
